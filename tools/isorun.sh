#!/bin/sh
# usage: isorun.sh <tag> <patch.diff|-> <command...>
# Runs <command> (e.g. python3 /verif/run.py C03) against a private copy of /repo HEAD with <patch> applied
# and a private copy of /verif, both bind-mounted over /repo and /verif in a private mount namespace, so
# that several seeded changes can be evaluated at the same time without touching /repo itself.
# Used only for the mutation rounds; registered checks always run against /repo itself.
TAG=$1; P=$2; shift 2
W=/tmp/iso/$TAG
rm -rf $W; mkdir -p $W/repo $W/verif
git -C /repo archive HEAD | tar -x -C $W/repo || exit 2
if [ "$P" != "-" ]; then
  ( cd $W/repo && git apply "$P" 2>/dev/null ) || ( cd $W/repo && patch -p1 -s < "$P" ) || { echo "PATCH DOES NOT APPLY: $P"; rm -rf $W; exit 3; }
fi
rsync -a --exclude .git --exclude .build --exclude replays /verif/ $W/verif/
unshare -m sh -c "mount --bind $W/repo /repo && mount --bind $W/verif /verif && cd /verif && exec \"\$@\"" sh "$@"
rc=$?
if [ -d $W/verif/replays ]; then mkdir -p /tmp/iso-replays/$TAG && cp -r $W/verif/replays/. /tmp/iso-replays/$TAG/ 2>/dev/null; fi
rm -rf $W
exit $rc
