#!/bin/sh
# usage: tlcrun.sh <specdir> <Module> <cfg> [extra tlc args...]
# Runs TLC on a scratch copy of the spec directory so nothing is littered.
set -e
SPECDIR=$1; MOD=$2; CFG=$3; shift 3
W=$(mktemp -d /tmp/tlcw.XXXXXX)
trap 'rm -rf "$W"' EXIT
cp -r "$SPECDIR"/*.tla "$W"/ 2>/dev/null || true
[ -d "$SPECDIR/mc" ] && cp "$SPECDIR"/mc/* "$W"/
[ -d "$SPECDIR/trace" ] && cp "$SPECDIR"/trace/* "$W"/
cd "$W"
java -XX:+UseParallelGC ${TLC_JAVA_OPTS:--Xss16m} -cp /opt/veriftools/tla/tla2tools.jar:/opt/veriftools/tla/CommunityModules-deps.jar tlc2.TLC -noGenerateSpecTE -metadir "$W/meta" -config "$CFG" "$@" "$MOD"
