#!/bin/sh
# usage: ownmut.sh <Cnn> <mK> [dir]  run the property's own quick check against seeded change (patch from /verif/seeded or /tmp/mut), in isolation
ID=$1; M=$2
P=/verif/seeded/$ID-$M/patch.diff; [ -f $P ] || P=/tmp/mut/$ID/_out/$M/patch.diff
mkdir -p /tmp/ownres
/verif/tools/isorun.sh own-$ID-$M $P timeout 2400 python3 /verif/run.py $ID > /tmp/ownres/$ID-$M.log 2>&1
echo "$ID-$M rc=$? $(grep -A1 VIOLATION /tmp/ownres/$ID-$M.log | grep '^  ' | head -1 | cut -c1-260)" >> /tmp/ownres/summary.txt
