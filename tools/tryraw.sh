#!/bin/sh
# usage: tryraw.sh [proto ...]   (env N, VERIF_SEED) runs TestRaw and validates each protocol's batch
export GOFLAGS=-mod=mod GOPROXY=off GOSUMDB=off GOTOOLCHAIN=local
O=/tmp/vout2; rm -rf $O; mkdir -p $O
SEL=$(echo "$@" | tr ' ' ',')
cd /verif/harness && VERIF_RAW_PROTOS=$SEL VERIF_OUT=$O VERIF_N=${N:-30} VERIF_SEED=${VERIF_SEED:-1} timeout 900 go1.26.8 test -tags verif -run '^TestRaw$' -count=1 . 2>&1 | tail -2
for f in $O/raw_*.ndjson; do
  p=$(basename $f .ndjson); p=${p#raw_}
  e=$(python3 -c "print({'pair':'xpair','pair1':'xpair1','push':'xpush','pull':'xpull','pub':'xpub','bus':'xbus','star':'xstar'}.get('$p','$p'))")
  python3 -c "
import json
for s in json.load(open('$O/raw_$p.status.json')):
    if s['status']!='ok': print('$p',s['label'],s['status'],s['desc'][:160])
" | head -3
  echo "$p: $(timeout 300 python3 /verif/tools/tv.py TraceRaw_$e $f | head -${SHOW:-1})"
done
