#!/usr/bin/env python3
"""Validate one NDJSON trace batch against a trace spec; print verdict.
usage: tv.py <TraceModule> <trace.ndjson> [--bfs]
exit 0 accepted, 1 rejected (prints context), 2 infrastructure error."""
import sys, subprocess, os, re, json
def run(mod, trace, dfs=True, timeout=900):
    env = dict(os.environ, VERIF_TRACE=trace)
    if dfs:
        env['JAVA_TOOL_OPTIONS'] = '-Dtlc2.tool.queue.IStateQueue=StateDeque'
    try:
        p = subprocess.run(['/verif/tools/tlcrun.sh', '/verif/spec', mod, mod + '.cfg', '-workers', '1'],
                           env=env, capture_output=True, text=True, timeout=timeout)
    except subprocess.TimeoutExpired:
        return ('timeout', 0, 0, '')
    out = p.stdout + p.stderr
    m = re.search(r'"TRACE_HIGHWATER", (\d+), (\d+)', out)
    st = re.search(r'(\d+) states generated, (\d+) distinct', out)
    states = int(st.group(2)) if st else 0
    if m:
        hw, n = int(m.group(1)), int(m.group(2))
        return ('accepted' if hw > n else 'rejected', hw, n, out, states)
    # TLCSet("exit") stops TLC before the postcondition: accepted iff no error
    if 'Error' in out or 'error' in out.lower().replace('no error', ''):
        return ('error', 0, 0, out, states)
    return ('unknown', 0, 0, out, states)
if __name__ == '__main__':
    mod, trace = sys.argv[1], sys.argv[2]
    r = run(mod, trace, '--bfs' not in sys.argv)
    print(r[0], r[1], r[2], 'states', r[4] if len(r) > 4 else '')
    if r[0] == 'rejected':
        lines = open(trace).read().splitlines()
        hw = r[1]
        # find start of that trace
        s = hw - 1
        while s > 0 and '"k":"reset"' not in lines[s]:
            s -= 1
        print('trace starts at line', s + 1, lines[s][:300])
        for i in range(max(s, hw - 12), min(len(lines), hw + 2)):
            print(('>>' if i + 1 == hw else '  '), i + 1, lines[i][:260])
        sys.exit(1)
    if r[0] not in ('accepted',):
        print('\n'.join(x for x in r[3].splitlines() if not x.startswith(('Parsing','Semantic','Linting')))[-2500:])
        sys.exit(2)
