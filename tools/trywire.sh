#!/bin/sh
export GOFLAGS=-mod=mod GOPROXY=off GOSUMDB=off GOTOOLCHAIN=local
O=/tmp/vout2; rm -rf $O; mkdir -p $O
cd /verif/harness && VERIF_OUT=$O VERIF_N=${N:-60} VERIF_SEED=${VERIF_SEED:-1} timeout 600 go1.26.8 test -tags verif -run 'TestWire$|TestWireStall$' -count=1 . 2>&1 | tail -2
for k in wire wirestall; do python3 -c "
import json
for s in json.load(open('$O/$k.status.json')):
    if s['status']!='ok': print('$k',s['label'],s['status'],s['desc'][:160]); break
"; echo "$k: $(timeout 300 python3 /verif/tools/tv.py TraceWire $O/$k.ndjson | cut -c1-330 | head -${SHOW:-6})"; done
