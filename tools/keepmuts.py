#!/usr/bin/env python3
"""Copies confirmed seeded changes from the sub-agents' scratch output into /verif/seeded/<id>/
(patch.diff, demo_test.go, notes.md, meta.json).  CAUGHT records which check was observed to catch each."""
import json, os, shutil, glob, re, sys
CAUGHT = json.load(open('/verif/seeded/caught.json')) if os.path.exists('/verif/seeded/caught.json') else {}
PROPS = {json.loads(l)['id']: json.loads(l) for l in open('/verif/properties.jsonl')}
DISCARD = {'C08-m2': 'fails the existing test protocol/bus TestBusDevice: not a valid seeded change',
           'C09-m4': 'fails the existing test protocol/surveyor TestSurveyorCancelDiscard (5 of 5 runs): not a valid seeded change',
           'C07-m11': 'fails the existing test protocol/surveyor TestSurveyorCancelDiscard (in the full-suite run and again when re-run alone): not a valid seeded change'}
for f in sorted(glob.glob('/tmp/mv/results/*.json')):
    r = json.load(open(f))
    mid = r['id']
    if mid in DISCARD:
        continue
    pid, m = mid.split('-')
    src = '/tmp/mut/%s/_out/%s' % (pid, m)
    if not os.path.exists(src + '/patch.diff'):
        continue      # (filed in an earlier run; its scratch directory is gone)
    dst = '/verif/seeded/%s' % mid
    os.makedirs(dst, exist_ok=True)
    patch = src + '/patch.diff'
    if os.path.exists(src + '/patch.rebased.diff'):
        shutil.copy(src + '/patch.rebased.diff', dst + '/patch.diff')
        shutil.copy(patch, dst + '/patch.orig.diff')
    else:
        shutil.copy(patch, dst + '/patch.diff')
    for n in ('demo_test.go', 'notes.md'):
        if os.path.exists(src + '/' + n):
            shutil.copy(src + '/' + n, dst + '/' + (n if n != 'demo_test.go' else 'demo_test.go.txt'))
    notes = open(src + '/notes.md').read() if os.path.exists(src + '/notes.md') else ''
    files = sorted(set(re.findall(r'^\+\+\+ b/(\S+)', open(dst + '/patch.diff').read(), re.M)))
    meta = {
        'id': mid, 'breaks_property': pid, 'property_title': PROPS[pid]['title'],
        'files_changed': files,
        'needs_to_manifest': (re.search(r'(?is)(needs|manifest)[^\n]*\n(.{0,600})', notes) or [None, '', ''])[2].strip()[:600] if notes else '',
        'author': 'independent sub-agent given only the property text and a scratch worktree',
        'confirmed_by_me': {
            'how': 'tools/verifymut.sh in a scratch worktree of /repo HEAD: git apply, go build ./..., go test ./... (whole suite), demo with and without the patch',
            'applies': r.get('applies'), 'builds': r.get('build'),
            'suite_failures_other_than_BroadcastIP': r.get('suite_failures', '').strip() or 'none',
            'demo_with_patch': r.get('demo_with_patch'), 'demo_without_patch': r.get('demo_without_patch'),
        },
        'caught_by': CAUGHT.get(mid, 'not yet run against a check'),
    }
    if mid == 'C12-m2':
        meta['confirmed_by_me']['note'] = 'TestDeviceChain failed once in the full-suite run; re-run 5 times with and without the patch: passes both ways (flake)'
    json.dump(meta, open(dst + '/meta.json', 'w'), indent=1)
# refresh caught_by in every stored meta.json
for d in sorted(glob.glob('/verif/seeded/C*')):
    mf = d + '/meta.json'
    if os.path.exists(mf):
        m = json.load(open(mf))
        m['caught_by'] = CAUGHT.get(m['id'], m.get('caught_by', 'not yet run against a check'))
        json.dump(m, open(mf, 'w'), indent=1)
print(len(os.listdir('/verif/seeded')) - 1, 'seeded changes kept; discarded:', DISCARD)
