#!/usr/bin/env python3
"""usage: mutprompt.py <Cnn> <mA> <mB>  - prints the task text for a mutation sub-agent working in /tmp/mut/<Cnn>.
The agent gets the property text only (nothing from /verif); `avoid` lists the files earlier seeded changes touched."""
import sys, json, glob, re
pid, ma, mb = sys.argv[1:4]
P = {json.loads(l)['id']: json.loads(l) for l in open('/verif/properties.jsonl')}[pid]
prop = 'Title: %s\n\nStatement: %s\n\nQuantified over: %s\n\nWhy tests cannot settle it: %s\n\nCode anchors: %s' % (
    P['title'], P['statement'], P['quantifier']['text'], P['why_tests_cant'], ', '.join(P['anchors']['files']))
used = []
for f in sorted(glob.glob('/verif/seeded/%s-*/patch.diff' % pid)):
    d = open(f).read()
    for m in re.finditer(r'^\+\+\+ b/(\S+)|^@@[^@]*@@ ?(.*)$', d, re.M):
        if m.group(1):
            cur = m.group(1)
        elif m.group(2):
            used.append('%s (%s)' % (cur, m.group(2).strip()))
avoid = ''
if used:
    avoid = '\n- Earlier rounds already changed these sites; choose DIFFERENT functions / clauses: ' + '; '.join(sorted(set(used))) + '.'
print(f"""You are helping to evaluate a verification framework by mutation testing. You work ONLY inside the scratch git worktree /tmp/mut/{pid} (a checkout of the Go library nanomsg/mangos v3, module go.nanomsg.org/mangos/v3). Never read or write anything under /repo or /verif. Do not run `git commit`; do not create branches. The sandbox is offline: use `export GOFLAGS=-mod=mod GOPROXY=off GOSUMDB=off` in every shell call; the default `go` (1.23) is what the repository's tests use.

Here is a semantic property the library is supposed to satisfy:

-----
{prop}
-----

Your task: produce TWO different, independent, realistic source changes ("mutants") to the library (non-test .go files only) each of which BREAKS this property, while (a) the library still compiles (`go build ./... && go vet ./... || true`), and (b) the repository's whole existing test suite still passes unedited with the change applied (`cd /tmp/mut/{pid} && go test -vet=off -count=1 -timeout 25m ./... 2>&1 | tail -40` — takes about 40 s; three tests named Test*BroadcastIP in transport/tcp, transport/tlstcp and transport/ws fail already on the unmodified tree because the sandbox has no network, ignore exactly those; if some other test is flaky, re-run it to make sure your change is not the cause).

Requirements for each mutant:
- It must be the kind of bug a maintainer could plausibly introduce in a refactoring or "optimisation" (an off-by-one, a dropped or reordered statement, a wrong field, a missing clone/free/unlock, a condition that is almost right, two cooperating sites that each look fine alone), not sabotage, and small (a few lines).
- It must need something SPECIFIC to manifest — a particular interleaving, a fault at a particular point, a multi-step sequence of operations, an unusual input or configuration — so that ordinary use and the existing tests do not expose it at once. Do not pick a change that the existing tests catch.
- The two mutants should break different clauses of the property, or different code sites, where possible.{avoid}
- Do not touch *_test.go files, go.mod or go.sum. Do not add files to the library.
- For each mutant write a demonstration: a Go test file (package-external, e.g. `package demo_test`, placed in a NEW directory /tmp/mut/{pid}/demo_{ma}/ resp. demo_{mb}/ inside the worktree so it can import the module) that FAILS (or hangs until its own short timeout and then fails) with the mutant applied and PASSES on the unmodified code. Make it deterministic enough: run it at least 5 times both ways. Sleep-based timing is acceptable but keep it under ~10 s.

Procedure: read the relevant code; design the first mutant; apply it; build; run the full suite; run the demo (must fail); save `git diff -- . ':!demo_{ma}' ':!demo_{mb}' > /tmp/mut/{pid}/_out/{ma}/patch.diff` (the patch must contain ONLY the library change, paths relative to the repository root so that `git apply` works from the root); revert the library change (`git checkout -- .`), check that the demo passes on the clean tree; copy the demo test file to /tmp/mut/{pid}/_out/{ma}/demo_test.go and write /tmp/mut/{pid}/_out/{ma}/notes.md saying which clause it breaks, what is needed for it to manifest, and the exact commands you ran with their outcome. Then the same for the second mutant under _out/{mb}/. Leave the worktree with the library sources reverted (clean `git status` apart from the demo_* and _out directories).

If after honest effort you can only produce one mutant that satisfies all of the above, deliver one and say so. Your final answer should be a short summary: for each mutant, one paragraph (what it changes, what breaks, how it manifests, test-suite result, demo results).""")
