#!/bin/sh
export GOFLAGS=-mod=mod GOPROXY=off GOSUMDB=off GOTOOLCHAIN=local
rm -rf /tmp/vout2; mkdir -p /tmp/vout2
cd /verif/harness && VERIF_OUT=/tmp/vout2 VERIF_N=${N:-150} VERIF_SEED=${VERIF_SEED:-1} timeout 600 go1.26.8 test -tags verif -run TestCore -count=1 . 2>&1 | tail -3
python3 -c "
import json
for s in json.load(open('/tmp/vout2/core.status.json')):
    if s['status']!='ok': print(s['label'],s['status'],s['desc'][:200])
" | head -5
python3 /verif/tools/tv.py TraceCore /tmp/vout2/core.ndjson | head -20
