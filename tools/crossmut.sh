#!/bin/sh
# usage: crossmut.sh <Cnn> <mK> <prop>...   run other properties' checks against a sub-agent's change (in isolation)
ID=$1; M=$2; shift 2
for P in "$@"; do
  /verif/tools/isorun.sh $ID-$M-$P /tmp/mut/$ID/_out/$M/patch.diff timeout 1800 python3 /verif/run.py $P > /tmp/mutres/$ID-$M.$P.log 2>&1
  echo "$ID-$M vs $P: rc=$? $(grep -E 'VIOLATION|BROKEN|NOT APPLY' /tmp/mutres/$ID-$M.$P.log | head -2 | cut -c1-200)" >> /tmp/mutres/$ID-$M.cross
  grep -A1 VIOLATION /tmp/mutres/$ID-$M.$P.log | grep '^  ' | head -2 | cut -c1-400 >> /tmp/mutres/$ID-$M.cross
done
