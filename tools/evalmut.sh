#!/bin/sh
# usage: evalmut.sh <Cnn> <mK> [<prop-to-run>...]   confirm a sub-agent's change (verifymut.sh) and run checks against it in isolation
ID=$1; M=$2; shift 2
PROPS=${@:-$ID}
mkdir -p /tmp/mutres
/verif/tools/verifymut.sh $ID $M
cat /tmp/mv/results/$ID-$M.json | tr '\n' ' ' > /tmp/mutres/$ID-$M.verify; echo >> /tmp/mutres/$ID-$M.verify
for P in $PROPS; do
  /verif/tools/isorun.sh $ID-$M-$P /tmp/mut/$ID/_out/$M/patch.diff timeout 1800 python3 /verif/run.py $P > /tmp/mutres/$ID-$M.$P.log 2>&1
  echo "$ID-$M vs $P: rc=$? $(grep -E 'VIOLATION|BROKEN|NOT APPLY' /tmp/mutres/$ID-$M.$P.log | head -3 | cut -c1-200)" >> /tmp/mutres/$ID-$M.verify
  grep -A1 VIOLATION /tmp/mutres/$ID-$M.$P.log | grep '^  ' | head -3 | cut -c1-400 >> /tmp/mutres/$ID-$M.verify
done
cat /tmp/mutres/$ID-$M.verify
