#!/bin/sh
# usage: withpatch.sh <patch.diff> <command...>   applies patch to /repo, runs command, restores /repo
P=$1; shift
cd /repo || exit 2
git diff --quiet || { echo "/repo dirty"; exit 2; }
git apply "$P" 2>/dev/null || git apply --3way "$P" || { echo "PATCH DOES NOT APPLY: $P"; git reset -q --hard HEAD; exit 3; }
( cd /verif && "$@" ); rc=$?
cd /repo && git reset -q --hard HEAD
exit $rc
