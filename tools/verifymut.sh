#!/bin/sh
# usage: verifymut.sh <Cnn> <m1|m2>
# Confirms a candidate mutant in a scratch worktree of /repo HEAD: the patch applies and builds,
# the repository's test suite still passes with it, the demonstration fails with it and passes without.
# Writes /tmp/mv/results/<Cnn>-<m>.json
ID=$1; M=$2
SRC=/tmp/mut/$ID/_out/$M
W=/tmp/mv/$ID-$M
export GOFLAGS=-mod=mod GOPROXY=off GOSUMDB=off
mkdir -p /tmp/mv/results
rm -rf $W; git -C /repo worktree prune; git -C /repo worktree add -q --detach $W HEAD || exit 2
cd $W
res() { python3 - "$@" <<'PY'
import json,sys
k=sys.argv[1:]
json.dump(dict(zip(k[0::2],k[1::2])),open('/tmp/mv/results/%s.json'%k[1],'w'),indent=1)
PY
}
if ! git apply $SRC/patch.diff 2>/tmp/mv/$ID-$M.apply; then
  if ! git apply --3way $SRC/patch.diff 2>>/tmp/mv/$ID-$M.apply; then res id $ID-$M applies no; cd /; git -C /repo worktree remove --force $W; exit 0; fi
fi
BUILD=ok; go build ./... 2>/tmp/mv/$ID-$M.build || BUILD=fail
mkdir -p demo_x && cp $SRC/demo_test.go demo_x/
DEMO_WITH=pass; go test -vet=off -count=1 -timeout 120s ./demo_x/ >/tmp/mv/$ID-$M.demo_with 2>&1 || DEMO_WITH=fail
rm -rf demo_x
SUITE=$(go test -vet=off -count=1 -timeout 25m ./... 2>&1 | grep -E '^(--- FAIL|FAIL|panic)' | grep -v 'BroadcastIP' | grep -E '^--- FAIL' | tr '\n' ' ')
# tests that failed in the full run are re-run on their own three times (the suite has sleep-based tests that
# fail under CPU load whatever the tree): only those that fail again count
if [ -n "$SUITE" ]; then
  PAT=$(echo $SUITE | grep -oE 'Test[A-Za-z0-9_]+' | sort -u | tr '\n' '|' | sed 's/|$//')
  FIRST="$SUITE"
  SUITE=$(go test -vet=off -count=3 -timeout 25m -run "^($PAT)\$" ./... 2>&1 | grep -E '^--- FAIL' | grep -v BroadcastIP | sort -u | tr '\n' ' ')
  echo "first full run: $FIRST ; re-run alone x3: $SUITE" > /tmp/mv/$ID-$M.rerun
fi
git checkout -q -- . ; git reset -q --hard HEAD
mkdir -p demo_x && cp $SRC/demo_test.go demo_x/
DEMO_WITHOUT=pass; go test -vet=off -count=1 -timeout 120s ./demo_x/ >/tmp/mv/$ID-$M.demo_without 2>&1 || DEMO_WITHOUT=fail
cd /; git -C /repo worktree remove --force $W
res id $ID-$M applies yes build $BUILD suite_failures "$SUITE" demo_with_patch $DEMO_WITH demo_without_patch $DEMO_WITHOUT
