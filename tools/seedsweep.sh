#!/bin/sh
# usage: seedsweep.sh <tier> <seed>...   runs every property's check with each seed on the unchanged tree;
# anything but exit 0 is kept in /tmp/seedsweep/<prop>-<seed>.log and summarised.  (False-alarm hunt.)
TIER=$1; shift
mkdir -p /tmp/seedsweep
for S in "$@"; do
  for i in ${PROPS:-$(seq -w 1 20)}; do
    L=/tmp/seedsweep/C$i-$TIER-$S.log
    t0=$(date +%s)
    VERIF_SEED=$S python3 /verif/run.py C$i --tier $TIER > $L 2>&1; rc=$?
    echo "C$i tier=$TIER seed=$S rc=$rc $(( $(date +%s) - t0 ))s $(grep -c KNOWN-FINDING $L) known"
    [ $rc -eq 0 ] && rm -f $L
  done
done
echo SWEEP-DONE
