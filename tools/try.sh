#!/bin/sh
# usage: try.sh <TestName> <TraceModule> <outname>   (env N, VERIF_SEED)
export GOFLAGS=-mod=mod GOPROXY=off GOSUMDB=off GOTOOLCHAIN=local
O=/tmp/vout2; rm -rf $O; mkdir -p $O
cd /verif/harness && VERIF_OUT=$O VERIF_N=${N:-150} VERIF_SEED=${VERIF_SEED:-1} timeout 600 go1.26.8 test -tags verif -run "^$1\$" -count=1 . 2>&1 | tail -3
python3 -c "
import json
for s in json.load(open('$O/$3.status.json')):
    if s['status']!='ok': print(s['label'],s['status'],s['desc'][:200])
" | head -5
timeout 300 python3 /verif/tools/tv.py $2 $O/$3.ndjson | head -${SHOW:-8}
