#!/bin/sh
# usage: mutbatch.sh <logfile> <patch> <prop> [<patch> <prop> ...]   runs run.py <prop> with each patch applied to /repo (sequentially)
LOG=$1; shift
while [ $# -ge 2 ]; do
  P=$1; C=$2; shift 2
  echo "=== $P $C" >> $LOG
  /verif/tools/withpatch.sh $P timeout 1800 python3 /verif/run.py $C 2>&1 | grep -E "VIOLATION|^  |violation\(s\)|BROKEN|NOT APPLY|KNOWN" | cut -c1-400 | head -8 >> $LOG
done
echo "=== done" >> $LOG
