#!/bin/sh
export GOFLAGS=-mod=mod GOPROXY=off GOSUMDB=off GOTOOLCHAIN=local
O=/tmp/vout2; rm -rf $O; mkdir -p $O
cd /verif/harness && VERIF_OUT=$O timeout 600 go1.26.8 test -tags verif -run 'TestCloseReal$' -count=1 . 2>&1 | tail -2
python3 -c "
import json
for s in json.load(open('$O/closereal.status.json')):
    if s['status']!='ok': print(s['label'],s['status'],s['detail'][:200])
"
echo "closereal: $(timeout 300 python3 /verif/tools/tv.py TraceLifecycle $O/closereal.ndjson | cut -c1-300 | head -${SHOW:-8})"
