#!/usr/bin/env python3
"""Regenerates the table 'Jobs per property as registered in checks.py' of DESIGN.md section 7.1 from checks.py."""
import sys, re
sys.path.insert(0, '/verif')
from checks import CHECKS

def row(pid, chk):
    tl, dr, raws, rawscn = [], [], {}, []
    for j in chk['jobs']:
        th = ' (thorough)' if j.get('tiers') == ('thorough',) else ''
        if j['type'] == 'tlc':
            x = j['cfg'].replace('.cfg', '') + th
            if x not in tl:
                tl.append(x)
        elif j['type'] == 'custom':
            dr.append('custom: ' + j['name'])
        else:
            env = dict(j.get('env') or {})
            if j['test'] == 'TestRaw' and j.get('scn'):
                rawscn.append(env.get('VERIF_RAW_PROTOS'))
                continue
            if j['test'] == 'TestRaw':
                p = env.pop('VERIF_RAW_PROTOS', '?')
                k = ', '.join('%s=%s' % (a.replace('VERIF_', ''), b) for a, b in sorted(env.items()))
                raws.setdefault((k, th), []).append(p)
                continue
            x = '%s -> %s' % (j['test'].replace('Test', ''), j['trace_module'].replace('Trace', ''))
            if env:
                x += ' [' + ', '.join('%s=%s' % (a.replace('VERIF_', ''), b) for a, b in sorted(env.items())) + ']'
            if j.get('scn'):
                x += ' (TLC-generated scenarios: %s)' % ', '.join(m for m, _ in j['scn'])
            x += th
            if x not in dr:
                dr.append(x)
    for (k, th), ps in raws.items():
        dr.append('Raw -> Raw_<engine> for %s%s%s' % (', '.join(sorted(set(ps))), ' [' + k + ']' if k else '', th))
    if rawscn:
        dr.append('Raw -> Raw_<engine> with TLC-generated scenarios (MC_RawScn) for ' + ', '.join(rawscn))
    return '| %s | %s | %s | %s |' % (pid, chk['level'], '; '.join(tl), '; '.join(dr))

rows = [row(p, CHECKS[p]) for p in sorted(CHECKS)]
s = open('/verif/DESIGN.md').read()
head = '| id | level | TLC configurations (spec/mc) | drivers -> trace specifications |\n|---|---|---|---|\n'
i = s.index(head) + len(head)
j = s.index('\n\n', i)
s = s[:i] + '\n'.join(rows) + s[j:]
open('/verif/DESIGN.md', 'w').write(s)
print(len(rows), 'rows')
