#!/usr/bin/env python3
"""Apalache: the invariants of spec/Msg.tla are inductive (unbounded reference counts and history, 4 message
identities).  Makes a typed copy of Msg.tla (Apalache needs @type annotations and a typed empty function; TLC reads
the original) in a scratch directory and runs  Init => IndInv  and  IndInv /\\ Next => IndInv'.
Prints APALACHE-OK <seconds> or APALACHE-FAIL and the tail of the log; exit 0 / 2."""
import subprocess, tempfile, shutil, sys, time
w = tempfile.mkdtemp(prefix='apa.')
try:
    s = open('/verif/spec/Msg.tla').read()
    rep = [("CONSTANT Serial           \\* message identities", "CONSTANT\n  \\* @type: Set(Int);\n  Serial"),
           ("VARIABLES live, ref,", "VARIABLES\n  \\* @type: Set(Int);\n  live,\n  \\* @type: Int -> Int;\n  ref,"),
           ("          app,       \\*", "  \\* @type: Set(Int);\n          app,       \\*"),
           ("          extra,     \\*", "  \\* @type: Int -> Int;\n          extra,     \\*"),
           ("          sending, released,", "  \\* @type: Set(Int);\n          sending,\n  \\* @type: Set(Int);\n          released,"),
           ("          shared,    \\*", "  \\* @type: Set(Int);\n          shared,    \\*"),
           ("          pend       \\*", "  \\* @type: Set(Int);\n          pend       \\*"),
           ("Put(f, k, v) ==", "\\* @type: (Int -> Int, Int, Int) => (Int -> Int);\nPut(f, k, v) =="),
           ("Del(f, k) ==", "\\* @type: (Int -> Int, Int) => (Int -> Int);\nDel(f, k) =="),
           ("PoolClasses == <<64", "\\* @type: Seq(Int);\nPoolClasses == <<64"),
           ("ref = <<>>", "ref = [x \\in {} |-> 0]"), ("extra = <<>>", "extra = [x \\in {} |-> 0]")]
    for a, b in rep:
        if a not in s:
            print('APALACHE-FAIL: Msg.tla no longer has the text to annotate: ' + a); sys.exit(2)
        s = s.replace(a, b, 1)
    open(w + '/Msg.tla', 'w').write(s)
    shutil.copy('/verif/spec/mc/MsgInd.tla', w)
    t0 = time.time()
    for init, length in (('Init', '0'), ('IndInit', '1')):
        p = subprocess.run(['apalache-mc', 'check', '--cinit=CInit', '--init=' + init, '--inv=IndInv', '--length=' + length, 'MsgInd.tla'],
                           cwd=w, capture_output=True, text=True, timeout=600)
        if 'EXITCODE: OK' not in p.stdout:
            print('APALACHE-FAIL (%s):\n%s' % (init, (p.stdout + p.stderr)[-2500:])); sys.exit(2)
    print('APALACHE-OK %.1f' % (time.time() - t0))
finally:
    shutil.rmtree(w, ignore_errors=True)
