#!/usr/bin/env python3
"""usage: scnsweep.py <N> <seed> [engine...]   soundness sweep of the TLC-generated scenarios on the unchanged tree:
every (all three option mixes) scenario job of checks.py is run with N scenarios and the given seed; rejections are printed."""
import sys, os, json
sys.path.insert(0, '/verif')
import run, checks
N, seed = int(sys.argv[1]), int(sys.argv[2])
only = sys.argv[3:]
seen = set()
bad = 0
for pid, chk in sorted(checks.CHECKS.items()):
    for job in chk['jobs']:
        if not job.get('scn') or job['name'] in seen:
            continue
        if only and not any(o in job['name'] for o in only):
            continue
        seen.add(job['name'])
        j = dict(job, n={'quick': N, 'thorough': N})
        ev = {'tlc_runs': [], 'drivers': [], 'states': 0, 'transitions': 0, 'traces_validated_against_impl': 0,
              'evaluations': 0, 'distinct_nontrivial': 0, 'samples': [], 'trace_events': 0, 'trace_states': 0}
        try:
            viol = run.conformance_job(j, ev, {'pid': 'SWEEP', 'tier': 'thorough', 'seed': seed})
        except run.Infra as x:
            print(job['name'], 'INFRA', str(x)[:300]); bad += 1; continue
        print(job['name'], 'scenarios', ev['evaluations'], 'validated', ev['traces_validated_against_impl'], 'violations', len(viol), flush=True)
        for v in viol[:3]:
            bad += 1
            print('   ', v['what'][:400])
            if 'trace' in v:
                d = '/tmp/scnsweep-bad/%s-%s' % (job['name'], v.get('label'))
                os.makedirs(d, exist_ok=True)
                with open(d + '/trace.ndjson', 'w') as f:
                    f.write(json.dumps(v['trace']['cfg']) + '\n')
                    for e in v['trace']['lines']:
                        f.write(json.dumps(e) + '\n')
print('BAD', bad)
