#!/usr/bin/env python3
"""Generates /verif/MANIFEST.json from checks.py and the texts below."""
import json, sys, subprocess
sys.path.insert(0, '/verif')
from checks import CHECKS

TEXT = {
 'C02': ('spec/RawSock.tla is one engine for all raw socket implementations (one action per lock region, channel operation and goroutine hand-off; PAIR: shared send queue pulled by the single peer\'s sender; PUSH: send queue + scheduler + ready-pipe queue with re-queue only after the send returned). TLC checks on it, for 2 sender threads, 2-3 peers, queue lengths 0/1/2, connect/disconnect at any point: every message handed to a transport was accepted (nothing invented), no message is handed twice (to at most one PULL peer), per-connection order is the send order, PAIR has at most one peer and refuses a second one without disturbing the first, a busy pipe is never scheduled, and NoStuckSend (at quiescence no Send is blocked while the queue is empty and a connected peer is idle). The real xpair / pair / xpair1 / pair1 / xpush / push / xpull / pull sockets are driven in a synctest bubble (harness = every peer, gated transport sends = slow peers, drops at any point, all queue lengths incl. 0) and each trace must be a behaviour of the engine with those invariants holding. PUSH with WriteQLen 0 is the recorded known finding (Send never completes).',
         'DESIGN.md section 3 C02', 'TLA+ spec RawSock.tla + TLC exhaustive + TLC trace validation (conformance and property separately for the known finding)'),
 'C08': ('RawSock.tla in its broadcast instantiations: BUS offers a clone to every pipe except the origin named in the header and drops where the per-pipe queue is full; STAR additionally forwards every accepted incoming message (hop byte + 1) to all other pipes before handing a copy up. TLC checks for 2 pipes / 2 threads / all interleavings: each accepted message is handed at most once per pipe, never to the origin pipe (NoEcho, NoEchoStar), nothing invented, Recv returns each arrived message at most once in per-connection order. The real xbus / bus / xstar / star sockets are driven with the harness as all peers (fresh and forwarded sends, origins that are connected or gone, slow peers, hop bytes around the TTL, garbled headers) and every trace - which pipe each message is handed to, the hop byte written, the origin reported by raw Recv - must be a behaviour of the engine. Multi-socket topologies (meshes, trees) are composed from per-socket conformance: each member conforms to the engine whose invariants give once-per-peer / no-echo per hop.',
         'DESIGN.md section 3 C08', 'TLA+ spec RawSock.tla (broadcast policies) + TLC exhaustive + TLC trace validation'),
 'C03': ('TLC explores every interleaving of Send / Recv / context close on up to 2 contexts and 2 client threads with replies of every kind (current, stale, foreign, without the request bit, duplicates, on any connection), pipe loss, timers and close on spec/Req.tla (one action per lock region of req.go) and checks that the id map is sound, a stored reply is the current one, every delivered reply was injected by a peer for the most recent request of that context and no request is answered twice; the real REQ socket is driven in a synctest bubble by a harness that plays the REP peers at transport level and crafts such replies; every recorded trace (API results with the reply tag, transmissions with id and digest, snapshots of ctxByID / per-context fields / sendQ / readyQ at every quiescence) must be a behaviour of Req.tla.',
         'DESIGN.md section 3 C03', 'TLA+ spec Req.tla + TLC exhaustive + TLC trace validation with state snapshots'),
 'C04': ('Same specification; the properties are NoDeadDispatch (nothing handed to a pipe once answered / cancelled / closed), retries-disabled-never-resends, one pipe per transmission, and on traces: every transmission must be explained by the first send, a loss of the carrying pipe or a resend timer armed exactly one retry interval earlier (exact virtual time, never sooner, and - through the quiescence lines - never later), with byte-identical digests; scenarios are a fault enumeration (drop / new connection / slow peer / cancel / close / time just before and at the retry instant injected at every prefix of a base scenario) plus seeded random ones.',
         'DESIGN.md section 3 C04', 'TLA+ spec Req.tla + TLC exhaustive + fault enumeration on the real code + TLC trace validation with exact virtual time'),
 'C05': ('TLC explores every interleaving of requests from 2 connections (routing headers of depth 1..3 over a small word alphabet, over-TTL and garbled ones), Recv / Send on 2 contexts by 2 threads, per-pipe queues of length 0..2, connection loss and close at every point on spec/RepLike.tla (REP and RESPONDENT variants) and checks ReplyRoute (every reply queued, in the sender\'s hand or transmitted sits on the connection its request arrived on, with exactly that routing header, produced by the context that took it), HoldsLastTaken, at-most-once answering and nothing-invented; the real REP and RESPONDENT sockets are driven in a synctest bubble with the harness as REQ / SURVEYOR peers and devices (chosen header depths and contents incl. equal headers on different connections); each recorded trace (pipe and exact header words of every transmitted reply, API results, snapshots of every context\'s backtrace bytes and pipe) must be a behaviour of RepLike.tla.',
         'DESIGN.md section 3 C05', 'TLA+ spec RepLike.tla + TLC exhaustive + TLC trace validation with state snapshots'),
 'C06': ('TLC explores all histories of subscribe / unsubscribe / publish / receive on 2 contexts over byte strings that include empty, equal and prefix-of-each-other topics on spec/Sub.tla (QueuedMatches: everything queued matches a current subscription, in particular after Unsubscribe; delivery is an order-preserving duplicate-free subsequence of what matched at arrival; contexts are independent; queues drop only their oldest message when full); the real SUB socket is driven in a synctest bubble with harness publishers sending arbitrary byte strings (non-UTF8, empty, colliding prefixes) and TLC recomputes the matching on the logged bytes: every Recv result must be the head of the specification\'s queue, absence of delivery is decided by quiescence, snapshots bind subscriptions and queue lengths; the application scribbles over every message and topic buffer it owns.',
         'DESIGN.md section 3 C06', 'TLA+ spec Sub.tla (reference matcher) + TLC exhaustive + TLC trace validation'),
 'C07': ('TLC explores all histories of survey / receive / close on 2 contexts with current, stale, foreign and malformed responses, expiry and a new survey at every point on spec/Surveyor.tla (the asynchronous cancel of the previous survey is a separate action): a survey queue only holds responses carrying its id with the request bit, a context\'s current survey is registered and its own, every delivered response answers the survey its Recv was bound to, cancelled surveys are unregistered; the real SURVEYOR socket is driven in a synctest bubble with the harness as respondents: which pipes each survey is handed to, crafted responses relative to start and expiry, and exact virtual time (a blocked Recv must fail with ErrProtoState at exactly the expiry instant, Recv without survey fails at once, survey time 0 never expires); traces incl. snapshots of the registered surveys are validated against the specification. The RESPONDENT side (an answer reaches only the surveyor that asked) is the RepLike.tla check of C05 run on the RESPONDENT socket.',
         'DESIGN.md section 3 C07', 'TLA+ spec Surveyor.tla + TLC exhaustive + TLC trace validation with exact virtual time'),
 'C09': ('The seven hop-count receive loops are transcribed statement by statement into spec/Hops.tla and TLC evaluates, for every TTL (quick: 8 values incl. 1, 8, 254, 255; thorough: all of 1..255), every position of the terminating word 0..TTL+2 and the interesting numbers of available words (resp. every hop byte), that the transcription delivers exactly when the hop count is within the limit (PAIR1: one more), moves exactly the routing header, and never delivers garbage; the same grid is then injected into the eight real receivers (REP, XREP, RESPONDENT, XRESPONDENT, PAIR1, XPAIR1, STAR, XSTAR) through the virtual transport and every observed outcome (delivered or not, header length handed up, hop byte written) must equal what the transcription computes; the TTL option must accept exactly 1..255 and default to 8.',
         'DESIGN.md section 3 C09', 'TLA+ transcription Hops.tla evaluated exhaustively by TLC + TLC-validated injection grid on the real receivers'),
 'C13': ('TLC explores every interleaving of addPipe / pipe.Close / remPipe / hooks / protocol verdicts / socket close of spec/Core.tla for 2-3 connections (exhaustive within the cfg constants) and checks the hook language, protocol-told-once-each and id-held-until-Detached-returned invariants; the real internal/core is then driven through scripted and seeded scenarios (hook-side closes in Attaching/Attached, protocol refusals, peer drops incl. during proto.AddPipe, listener and dialer sides, socket close) in a synctest bubble and every recorded trace (hook events with the id and the allocator state, what the protocol was told, snapshots of ids in use / pipes listed at each quiescence) must be a behaviour of Core.tla on which those invariants hold.',
         'DESIGN.md section 3 C13', 'TLA+ spec Core.tla + TLC exhaustive + TLC trace validation of synctest-recorded executions'),
 'C14': ('TLC checks spacing, growth bounds, reset, retry-pending and no-attempt-after-close on spec/Core.tla over all fault sequences (refused / rejected / established-then-dropped / close at any phase) for asynchronous and synchronous dialing, with and without a maximum; the real dialer is driven in virtual time (failure storms that reach the cap, drops after success, options set on the dialer or on the socket) and every dial attempt must happen at exactly the virtual instant the specification allows, with the snapshot of reconnTime bound to the random back-off factor and checked against [1.1,1.5] and the cap.',
         'DESIGN.md section 3 C14', 'TLA+ spec Core.tla + TLC exhaustive + TLC trace validation with exact virtual timestamps'),
}
NOTES = {
 'C02': 'trusted: TLC, synctest, virtual transport/recorder; liveness is decided as a state predicate at quiescence (NoStuckSend), not by a temporal check; queue resizing is outside this property (the statement says queue sizes are left alone)',
 'C08': 'trusted: TLC, synctest, virtual transport/recorder; end-to-end exactly-once over a loop-free multi-member topology is inferred from per-member conformance, it is not replayed as one multi-socket trace',
 'C07': 'trusted: TLC, synctest virtual time, virtual transport/recorder, SURVEYOR snapshot accessor; a Recv is bound to the survey that is current when it is called (as the code does); responses to the old survey that arrive before its asynchronous cancel ran can still reach a Recv that was already waiting on it',
 'C06': 'trusted: TLC, synctest, virtual transport/recorder, SUB snapshot accessor; the PUB side (every message to every connected subscriber, queue space permitting) is decided by the broadcast specification used for C08, see DESIGN.md',
 'C05': 'trusted: TLC, synctest, virtual transport/recorder, the REP/RESPONDENT snapshot accessors; raw XREP/XRESPONDENT routing and device chains are covered by the raw-socket checks, not here',
 'C09': 'trusted: TLC, the virtual transport; the transcription is bound to the code by the injection grid (a divergence of code and transcription is a rejected trace, a wrong transcription that matches wrong code is a false HopExact assumption in TLC); device chains end to end are exercised by the topology checks',
 'C03': 'trusted: TLC, synctest, virtual transport/recorder, the REQ snapshot accessor; bounds: 2 contexts, 2 threads, 2 pipes, 2-3 requests in the exhaustive runs; the conformance side is bounded by the scenarios replayed',
 'C04': 'trusted: as C03; liveness ("completes as soon as any peer answers") is decided on traces through quiescence lines, not by a TLC liveness check',
 'C13': 'trusted: TLC, synctest, the virtual transport/recorder, the read-only verif accessors; internal goroutine interleavings are exhaustive only on the specification, on the code they are those the environment schedule produces',
 'C14': 'trusted: TLC, synctest virtual time, the virtual transport/recorder, the dialer accessor; times are compared at microsecond resolution',
}
ALL = ['C%02d' % i for i in range(1, 21)]

def main():
    head = subprocess.run(['git', '-C', '/repo', 'log', '--format=%h %s'], capture_output=True, text=True).stdout.splitlines()
    hooks = [l.split()[0] for l in head if l.split(' ', 1)[1].startswith('verif hooks')]
    checks = []
    for pid in ALL:
        if pid not in CHECKS or pid not in TEXT:
            continue
        c = CHECKS[pid]
        text, ref, tech = TEXT[pid]
        checks.append({
            'property_id': pid,
            'quick_cmd': 'python3 /verif/run.py %s --tier quick' % pid,
            'thorough_cmd': 'python3 /verif/run.py %s --tier thorough' % pid,
            'evidence_file': '/verif/evidence/%s.json' % pid,
            'replay_cmd_template': 'python3 /verif/run.py %s --replay {path}' % pid,
            'engine': 'tla-conformance',
            'level_claimed': {'category': c['level'], 'text': text, 'design_ref': ref},
            'level_note': NOTES[pid],
            'technique': tech,
        })
    na = [{'property_id': p, 'reason': NA.get(p, 'check not built yet: the specification and driver for this property are still under construction (DESIGN.md section 5 gives the order); nothing is claimed for it')}
          for p in ALL if p not in [c['property_id'] for c in checks]]
    m = {
        'version': 1,
        'setup_cmd': 'sh /verif/setup.sh',
        'hooks': {
            'guard': 'verif',
            'enable': 'go build tag: the harness is built with `go1.26.8 test -c -tags verif` through `replace go.nanomsg.org/mangos/v3 => /repo`',
            'baseline_off_cmd': 'cd /repo && GOFLAGS=-mod=mod go test -vet=off -count=1 -timeout 25m ./...',
            'source_commits': hooks,
            'add_only': True,
        },
        'engines': [{'name': 'tla-conformance', 'path': '/verif/run.py',
                     'serves_properties': [c['property_id'] for c in checks],
                     'kind_free_text': 'TLA+ specifications (spec/*.tla) model-checked with TLC; Go harness (harness/, testing/synctest + virtual transport) records executions of the real library; TLC validates each recorded trace against the trace specification (spec/trace/*.tla)'}],
        'checks': checks,
        'not_applicable': na,
        'notes': 'Every check rebuilds the harness from /repo working tree. Exit 2 = infrastructure failure (never a verdict). known_findings.json lists recorded findings and fixed defects.',
    }
    json.dump(m, open('/verif/MANIFEST.json', 'w'), indent=1)
    print('manifest:', [c['property_id'] for c in checks], 'n/a:', len(na))

NA = {}
if __name__ == '__main__':
    main()
