#!/bin/sh
export GOFLAGS=-mod=mod GOPROXY=off GOSUMDB=off GOTOOLCHAIN=local
O=/tmp/vout2; rm -rf $O; mkdir -p $O
cd /verif/harness && VERIF_OUT=$O VERIF_N=${N:-12} VERIF_SEED=${VERIF_SEED:-1} timeout 900 go1.26.8 test -tags verif -run 'TestMsg$' -count=1 . 2>&1 | tail -2
python3 -c "
import json
for s in json.load(open('$O/msg.status.json')):
    if s['status']!='ok': print('msg',s['label'],s['status'],s['detail'][:300]); break
"
echo "msg: $(timeout 300 python3 /verif/tools/tv.py TraceMsg $O/msg.ndjson | cut -c1-300 | head -${SHOW:-8})"
