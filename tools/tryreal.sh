#!/bin/sh
export GOFLAGS=-mod=mod GOPROXY=off GOSUMDB=off GOTOOLCHAIN=local
O=/tmp/vout2; rm -rf $O; mkdir -p $O
cd /verif/harness && VERIF_OUT=$O VERIF_SEED=${VERIF_SEED:-1} timeout 900 go1.26.8 test -tags verif -run 'TestLinkReal$|TestWireReal$' -count=1 . 2>&1 | tail -2
for k in link wirereal; do python3 -c "
import json
for s in json.load(open('$O/$k.status.json')):
    if s['status']!='ok': print('$k',s['label'],s['status'],s['detail'][:160]); break
"; done
echo "link: $(timeout 300 python3 /verif/tools/tv.py TraceLink $O/link.ndjson | cut -c1-330 | head -${SHOW:-6})"
echo "wirereal: $(timeout 300 python3 /verif/tools/tv.py TraceWire $O/wirereal.ndjson | cut -c1-330 | head -${SHOW:-6})"
