// lockcfg extracts, from the current /repo tree, the control-flow graph of every non-test function
// together with the mutex operations on it, and writes them as a TLA+ data module (LockCFG.tla) for
// spec/LockDiscipline.tla.  Mutexes are identified by lock class: the named type that owns the
// sync.Mutex / sync.RWMutex plus the field path to it (an embedded mutex has an empty path), so that
// s.Lock() and c.s.Lock() on the same socket type are the same class in every function.
package main

import (
	"fmt"
	"go/ast"
	"go/token"
	"go/types"
	"os"
	"sort"
	"strings"

	"golang.org/x/tools/go/cfg"
	"golang.org/x/tools/go/packages"
)

type op struct {
	Op   string // lock | unlock | rlock | runlock | dunlock | drunlock | wait | call | return | panic | go
	K    string // lock class, or callee
	Line int
}

type block struct {
	Ops   []op
	Succs []int
}

type fn struct {
	Name   string
	File   string
	Line   int
	Blocks []block
}

var (
	fset  *token.FileSet
	funcs []*fn
)

func isMutex(t types.Type) (string, bool) {
	if p, ok := t.(*types.Pointer); ok {
		t = p.Elem()
	}
	n, ok := t.(*types.Named)
	if !ok || n.Obj().Pkg() == nil || n.Obj().Pkg().Path() != "sync" {
		return "", false
	}
	switch n.Obj().Name() {
	case "Mutex", "RWMutex":
		return n.Obj().Name(), true
	}
	return "", false
}

func short(pkg string) string {
	pkg = strings.TrimPrefix(pkg, "go.nanomsg.org/mangos/v3/")
	pkg = strings.TrimPrefix(pkg, "go.nanomsg.org/mangos/v3")
	if pkg == "" {
		pkg = "mangos"
	}
	return strings.ReplaceAll(pkg, "/", ".")
}

func typeName(t types.Type) string {
	if p, ok := t.(*types.Pointer); ok {
		t = p.Elem()
	}
	if n, ok := t.(*types.Named); ok && n.Obj().Pkg() != nil {
		return short(n.Obj().Pkg().Path()) + "." + n.Obj().Name()
	}
	return t.String()
}

// lockClass resolves x in x.Lock(): the owner type and the field path to the mutex.
func lockClass(info *types.Info, x ast.Expr, sel *types.Selection) string {
	recv := info.TypeOf(x)
	if recv == nil {
		return "?"
	}
	if _, ok := isMutex(recv); ok {
		// x is itself the mutex: x = a.b (field b of type of a) or a plain variable
		if se, ok := x.(*ast.SelectorExpr); ok {
			if t := info.TypeOf(se.X); t != nil {
				return typeName(t) + "." + se.Sel.Name
			}
		}
		if id, ok := x.(*ast.Ident); ok {
			if o := info.ObjectOf(id); o != nil && o.Pkg() != nil {
				return short(o.Pkg().Path()) + ".var." + id.Name
			}
		}
		return "?"
	}
	// promoted through embedding: owner is the type of x; path from the selection's index
	path := ""
	if sel != nil {
		t := recv
		idx := sel.Index()
		for _, i := range idx[:len(idx)-1] {
			if p, ok := t.(*types.Pointer); ok {
				t = p.Elem()
			}
			st, ok := t.Underlying().(*types.Struct)
			if !ok {
				break
			}
			f := st.Field(i)
			if !f.Embedded() || func() bool { _, m := isMutex(f.Type()); return !m }() {
				path += "." + f.Name()
			}
			t = f.Type()
		}
	}
	return typeName(recv) + path
}

// cond.Wait: class of cond.L is unknown statically; record as wait on the cond's owner
func calleeName(info *types.Info, call *ast.CallExpr) (string, bool) {
	var id *ast.Ident
	switch f := call.Fun.(type) {
	case *ast.Ident:
		id = f
	case *ast.SelectorExpr:
		id = f.Sel
	default:
		return "", false
	}
	o, ok := info.ObjectOf(id).(*types.Func)
	if !ok || o.Pkg() == nil || !strings.HasPrefix(o.Pkg().Path(), "go.nanomsg.org/mangos/v3") {
		return "", false
	}
	sig := o.Type().(*types.Signature)
	name := short(o.Pkg().Path()) + "."
	if r := sig.Recv(); r != nil {
		if _, isIface := r.Type().Underlying().(*types.Interface); isIface {
			return "", false // dynamic dispatch: callee unknown
		}
		tn := typeName(r.Type())
		name = tn + "."
	}
	return name + o.Name(), true
}

func mutexOp(info *types.Info, call *ast.CallExpr) (string, string, bool) {
	se, ok := call.Fun.(*ast.SelectorExpr)
	if !ok {
		return "", "", false
	}
	m := se.Sel.Name
	switch m {
	case "Lock", "Unlock", "RLock", "RUnlock":
	default:
		return "", "", false
	}
	sel := info.Selections[se]
	if sel == nil {
		return "", "", false
	}
	f, ok := sel.Obj().(*types.Func)
	if !ok || f.Pkg() == nil || f.Pkg().Path() != "sync" {
		return "", "", false
	}
	return strings.ToLower(m), lockClass(info, se.X, sel), true
}

func isCondWait(info *types.Info, call *ast.CallExpr) bool {
	se, ok := call.Fun.(*ast.SelectorExpr)
	if !ok || se.Sel.Name != "Wait" {
		return false
	}
	sel := info.Selections[se]
	if sel == nil {
		return false
	}
	f, ok := sel.Obj().(*types.Func)
	if !ok || f.Pkg() == nil || f.Pkg().Path() != "sync" {
		return false
	}
	t := sel.Recv()
	if p, ok := t.(*types.Pointer); ok {
		t = p.Elem()
	}
	n, ok := t.(*types.Named)
	return ok && n.Obj().Name() == "Cond"
}

func analyze(pkg *packages.Package, name string, pos token.Pos, body *ast.BlockStmt) {
	if body == nil {
		return
	}
	info := pkg.TypesInfo
	g := cfg.New(body, func(*ast.CallExpr) bool { return true })
	f := &fn{Name: name, File: fset.Position(pos).Filename, Line: fset.Position(pos).Line}
	idx := map[*cfg.Block]int{}
	var live []*cfg.Block
	for _, b := range g.Blocks {
		if b.Live {
			idx[b] = len(live) + 1
			live = append(live, b)
		}
	}
	// channel operations that cannot block: the communication clauses of a select that has a default clause
	nonblock := map[ast.Node]bool{}
	ast.Inspect(body, func(x ast.Node) bool {
		switch st := x.(type) {
		case *ast.FuncLit:
			return false
		case *ast.SelectStmt:
			hasDefault := false
			for _, c := range st.Body.List {
				if c.(*ast.CommClause).Comm == nil {
					hasDefault = true
				}
			}
			if hasDefault {
				for _, c := range st.Body.List {
					if cm := c.(*ast.CommClause).Comm; cm != nil {
						nonblock[cm] = true
					}
				}
			}
		}
		return true
	})
	// ... and a receive from a channel whose length the function looks at (`if len(q) == 0 { wait }; m := <-q` with
	// the only consumer holding the lock: the idiom of the PUSH scheduler)
	lenOf := map[string]bool{}
	exprText := func(e ast.Expr) string { return types.ExprString(e) }
	ast.Inspect(body, func(x ast.Node) bool {
		if c, ok := x.(*ast.CallExpr); ok {
			if id, ok := c.Fun.(*ast.Ident); ok && id.Name == "len" && len(c.Args) == 1 {
				lenOf[exprText(c.Args[0])] = true
			}
		}
		return true
	})
	// blocking points in a node: channel send / receive (outside such a select), WaitGroup.Wait, time.Sleep
	addBlocks := func(bl *block, n ast.Node) {
		if nonblock[n] {
			return
		}
		ast.Inspect(n, func(x ast.Node) bool {
			switch c := x.(type) {
			case *ast.FuncLit:
				return false
			case *ast.SendStmt:
				bl.Ops = append(bl.Ops, op{"block", "send", fset.Position(c.Pos()).Line})
			case *ast.UnaryExpr:
				if c.Op == token.ARROW && !lenOf[exprText(c.X)] {
					bl.Ops = append(bl.Ops, op{"block", "recv", fset.Position(c.Pos()).Line})
				}
			case *ast.CallExpr:
				if se, ok := c.Fun.(*ast.SelectorExpr); ok {
					if f, ok := info.ObjectOf(se.Sel).(*types.Func); ok && f.Pkg() != nil {
						full := f.FullName()
						if full == "(*sync.WaitGroup).Wait" || full == "time.Sleep" {
							bl.Ops = append(bl.Ops, op{"block", full, fset.Position(c.Pos()).Line})
						}
					}
				}
			}
			return true
		})
	}
	nlit := 0
	for _, b := range live {
		var bl block
		addCalls := func(n ast.Node, deferred, spawned bool) {
			ast.Inspect(n, func(x ast.Node) bool {
				switch c := x.(type) {
				case *ast.FuncLit:
					nlit++
					analyze(pkg, fmt.Sprintf("%s$%d", name, nlit), c.Pos(), c.Body)
					return false
				case *ast.CallExpr:
					line := fset.Position(c.Pos()).Line
					if m, k, ok := mutexOp(info, c); ok {
						if spawned {
							return true
						}
						if deferred {
							m = "d" + m
						}
						bl.Ops = append(bl.Ops, op{m, k, line})
					} else if isCondWait(info, c) {
						bl.Ops = append(bl.Ops, op{"wait", "", line})
					} else if cn, ok := calleeName(info, c); ok && !deferred && !spawned {
						bl.Ops = append(bl.Ops, op{"call", cn, line})
					} else if id, ok := c.Fun.(*ast.Ident); ok && id.Name == "panic" {
						bl.Ops = append(bl.Ops, op{"panic", "", line})
					}
				}
				return true
			})
		}
		for _, n := range b.Nodes {
			switch st := n.(type) {
			case *ast.DeferStmt:
				addCalls(st.Call, true, false)
			case *ast.GoStmt:
				addCalls(st.Call, false, true)
			case *ast.ReturnStmt:
				addBlocks(&bl, st)
				addCalls(st, false, false)
				bl.Ops = append(bl.Ops, op{"return", "", fset.Position(st.Pos()).Line})
			default:
				addBlocks(&bl, n)
				addCalls(n, false, false)
			}
		}
		for _, s := range b.Succs {
			if s.Live {
				bl.Succs = append(bl.Succs, idx[s])
			}
		}
		if len(bl.Succs) == 0 && (len(bl.Ops) == 0 || (bl.Ops[len(bl.Ops)-1].Op != "return" && bl.Ops[len(bl.Ops)-1].Op != "panic")) {
			bl.Ops = append(bl.Ops, op{"return", "", fset.Position(body.End()).Line})
		}
		f.Blocks = append(f.Blocks, bl)
	}
	funcs = append(funcs, f)
}

func main() {
	out := "LockCFG.tla"
	if len(os.Args) > 1 {
		out = os.Args[1]
	}
	cfgp := &packages.Config{Mode: packages.NeedName | packages.NeedFiles | packages.NeedSyntax | packages.NeedTypes | packages.NeedTypesInfo | packages.NeedImports | packages.NeedDeps,
		Dir: "/repo", Tests: false}
	fset = token.NewFileSet()
	cfgp.Fset = fset
	pkgs, err := packages.Load(cfgp, "./...")
	if err != nil {
		fmt.Fprintln(os.Stderr, err)
		os.Exit(2)
	}
	for _, p := range pkgs {
		if len(p.Errors) > 0 {
			fmt.Fprintln(os.Stderr, "package errors:", p.PkgPath, p.Errors)
			os.Exit(2)
		}
		if strings.Contains(p.PkgPath, "/examples/") || strings.HasSuffix(p.PkgPath, "/perf") || strings.Contains(p.PkgPath, "/internal/test") || strings.HasSuffix(p.PkgPath, "/v3/test") {
			continue
		}
		for _, file := range p.Syntax {
			fname := fset.Position(file.Pos()).Filename
			if strings.HasSuffix(fname, "_test.go") || strings.HasSuffix(fname, "verif.go") || strings.HasSuffix(fname, "_windows.go") {
				continue
			}
			for _, d := range file.Decls {
				fd, ok := d.(*ast.FuncDecl)
				if !ok || fd.Body == nil {
					continue
				}
				name := short(p.PkgPath) + "."
				if fd.Recv != nil && len(fd.Recv.List) > 0 {
					if t := p.TypesInfo.TypeOf(fd.Recv.List[0].Type); t != nil {
						name = typeName(t) + "."
					}
				}
				analyze(p, name+fd.Name.Name, fd.Pos(), fd.Body)
			}
		}
	}
	sort.Slice(funcs, func(i, j int) bool { return funcs[i].Name < funcs[j].Name })
	// keep only functions that matter: they have a lock operation, or call (directly) a function that has one
	hasLock := map[string]bool{}
	for _, f := range funcs {
		for _, b := range f.Blocks {
			for _, o := range b.Ops {
				switch o.Op {
				case "lock", "unlock", "rlock", "runlock", "dlock", "dunlock", "drunlock", "wait":
					hasLock[f.Name] = true
				}
			}
		}
	}
	var w strings.Builder
	w.WriteString("------------------------------ MODULE LockCFG ------------------------------\n")
	w.WriteString("\\* Generated by /verif/tools/lockcfg from the /repo working tree. Do not edit.\n")
	w.WriteString("EXTENDS Integers, Sequences, TLC\n\n")
	q := func(s string) string { return "\"" + strings.ReplaceAll(s, "\"", "'") + "\"" }
	var names []string
	kept := 0
	w.WriteString("CFG ==\n")
	first := true
	for _, f := range funcs {
		keep := hasLock[f.Name]
		if !keep {
			for _, b := range f.Blocks {
				for _, o := range b.Ops {
					if o.Op == "call" && hasLock[o.K] {
						keep = true
					}
				}
			}
		}
		if !keep {
			continue
		}
		kept++
		names = append(names, f.Name)
		if first {
			w.WriteString("  ")
			first = false
		} else {
			w.WriteString("  @@ ")
		}
		fmt.Fprintf(&w, "(%s :> [file |-> %s, line |-> %d, blocks |-> <<", q(f.Name), q(strings.TrimPrefix(f.File, "/repo/")), f.Line)
		for bi, b := range f.Blocks {
			if bi > 0 {
				w.WriteString(", ")
			}
			w.WriteString("[ops |-> <<")
			n := 0
			for _, o := range b.Ops {
				if o.Op == "call" && !hasLock[o.K] {
					continue // callee takes no lock itself
				}
				if n > 0 {
					w.WriteString(", ")
				}
				n++
				fmt.Fprintf(&w, "[op |-> %s, k |-> %s, line |-> %d]", q(o.Op), q(o.K), o.Line)
			}
			w.WriteString(">>, succs |-> {")
			for si, s := range b.Succs {
				if si > 0 {
					w.WriteString(", ")
				}
				fmt.Fprintf(&w, "%d", s)
			}
			w.WriteString("}]")
		}
		w.WriteString(">>])\n")
	}
	w.WriteString("\nFuncs == DOMAIN CFG\n")
	fmt.Fprintf(&w, "NFuncsAnalysed == %d\nNFuncsKept == %d\n", len(funcs), kept)
	w.WriteString("=============================================================================\n")
	if err := os.WriteFile(out, []byte(w.String()), 0o644); err != nil {
		fmt.Fprintln(os.Stderr, err)
		os.Exit(2)
	}
	fmt.Printf("lockcfg: %d functions analysed, %d with lock activity -> %s\n", len(funcs), kept, out)
	_ = names
}
