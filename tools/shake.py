#!/usr/bin/env python3
"""Shake the conformance drivers for schedule dependence: every driver under several GOMAXPROCS values and
seeds (optionally with background CPU load); all traces must be accepted on the unchanged tree.
usage: shake.py [rounds] [--load]"""
import subprocess, os, sys, shutil, json, time
sys.path.insert(0, '/verif/tools')
import tv
DRIVERS = [('TestCore', 'core', 'TraceCore', {}), ('TestCore', 'core', 'TraceCore', {'VERIF_CORE_MIX': 'storm'}),
           ('TestReq', 'req', 'TraceReq', {}), ('TestReq', 'req', 'TraceReq', {'VERIF_REQ_MIX': 'faults'}),
           ('TestRep', 'rep', 'TraceRep', {}), ('TestRespondent', 'respondent', 'TraceRespondent', {}),
           ('TestSub', 'sub', 'TraceSub', {}), ('TestSurveyor', 'surveyor', 'TraceSurveyor', {}),
           ('TestWire', 'wire', 'TraceWire', {}), ('TestWireStall', 'wirestall', 'TraceWire', {}),
           ('TestMsg', 'msg', 'TraceMsg', {}), ('TestHops', 'hops', 'TraceHops', {}), ('TestRaw', None, None, {}),
           ('TestChain', 'chain', 'TraceChain', {}), ('TestMesh', 'mesh', 'TraceMesh', {'VERIF_N': '1'}),
           ('TestHandshaker', 'handshaker', 'TraceHandshaker', {}), ('TestInproc', 'inproc', 'TraceInproc', {}),
           ('TestRawStorm', 'rawstorm', 'TraceBurst', {'VERIF_N': '3000'}),
           ('TestCloseReal', 'closereal', 'TraceLifecycle', {'VERIF_N': '100'}), ('TestErrorsReal', 'errors', 'TraceErrors', {}),
           ('TestLinkReal', 'link', 'TraceLink', {}), ('TestWireReal', 'wirereal', 'TraceWire', {}),
           ('TestMacatArgs', 'macatargs', 'TraceMacat', {'VERIF_N': '40'}), ('TestMacatFormat', 'macatfmt', 'TraceMacat', {'VERIF_N': '1'}),
           ('TestMacatDur', 'macatdur', 'TraceMacat', {'VERIF_N': '10'}),
           ('TestReq', 'req', 'TraceReq', {'VERIF_MIX': 'close'}), ('TestRep', 'rep', 'TraceRep', {'VERIF_MIX': 'deadline'}),
           ('TestSub', 'sub', 'TraceSub', {'VERIF_MIX': 'deadline'}), ('TestRaw', None, None, {'VERIF_MIX': 'deadline', 'VERIF_N': '6'})]
ENG = {'pair': 'xpair', 'pair1': 'xpair1', 'push': 'xpush', 'pull': 'xpull', 'pub': 'xpub', 'bus': 'xbus', 'star': 'xstar'}
def main():
    rounds = int(sys.argv[1]) if len(sys.argv) > 1 and sys.argv[1].isdigit() else 3
    load = []
    if '--load' in sys.argv:
        for _ in range(12):
            load.append(subprocess.Popen(['sh', '-c', 'while :; do :; done']))
    env0 = dict(os.environ, GOFLAGS='-mod=mod', GOPROXY='off', GOSUMDB='off', GOTOOLCHAIN='local')
    subprocess.run(['go1.26.8', 'test', '-c', '-tags', 'verif', '-o', '/tmp/shake.test', '.'], cwd='/verif/harness', env=env0, check=True)
    bad = 0
    try:
        for r in range(rounds):
            for procs in (1, 2, 16):
                seed = 100 + r * 10 + procs
                for test, name, mod, extra in DRIVERS:
                    out = '/tmp/shake-out'
                    shutil.rmtree(out, ignore_errors=True)
                    env = dict(env0, VERIF_OUT=out, VERIF_SEED=str(seed), VERIF_N='40', GOMAXPROCS=str(procs))
                    env.update(extra)
                    p = subprocess.run(['/tmp/shake.test', '-test.run', '^%s$' % test, '-test.count=1'], cwd='/verif/harness', env=env, capture_output=True, text=True)
                    if p.returncode != 0:
                        print('DRIVER FAIL', test, seed, procs, p.stdout[-500:]); bad += 1; continue
                    files = [(name, mod)] if name else [(f[:-7], 'TraceRaw_' + ENG.get(f[4:-7], f[4:-7])) for f in sorted(os.listdir(out)) if f.endswith('.ndjson')]
                    for n, m in files:
                        st = json.load(open('%s/%s.status.json' % (out, n)))
                        nb = [s for s in st if s['status'] != 'ok']
                        res = tv.run(m, '%s/%s.ndjson' % (out, n), timeout=600)
                        if res[0] != 'accepted' or nb:
                            bad += 1
                            keep = '/tmp/shake-bad-%s-%d-%d' % (n, seed, procs)
                            shutil.rmtree(keep, ignore_errors=True); shutil.copytree(out, keep)
                            print('ALARM', test, n, 'seed', seed, 'procs', procs, res[0], res[1], [s['label'] + ':' + s['status'] for s in nb][:3], 'kept', keep, flush=True)
                print('round', r, 'procs', procs, 'done, alarms so far', bad, flush=True)
    finally:
        for l in load:
            l.kill()
    print('ALARMS', bad)
main()
