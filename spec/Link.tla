-------------------------------- MODULE Link --------------------------------
(***************************************************************************)
(* The service a connected pair of sockets gives its users over any         *)
(* transport (C01): per direction a FIFO of messages; a message accepted by *)
(* Send comes out of the peer's Recv with exactly the bytes that went in -  *)
(* same length, same content, one send one receive, never split, merged,    *)
(* truncated, padded or mixed with another.  Messages are identified by     *)
(* (length, digest of the content).                                         *)
(***************************************************************************)
EXTENDS Integers, Sequences

CONSTANT Dir
VARIABLE inflight          \* [Dir -> seq of <<len, digest>>]

Init == inflight = [d \in Dir |-> <<>>]
Send(d, len, dg) == inflight' = [inflight EXCEPT ![d] = Append(@, <<len, dg>>)]
\* Recv returns exactly the oldest message in flight in that direction
Recv(d, len, dg) ==
  /\ inflight[d] # <<>>
  /\ Head(inflight[d]) = <<len, dg>>
  /\ inflight' = [inflight EXCEPT ![d] = Tail(@)]
\* what the application was handed stays what it was: the bytes returned by Recv belong to the application
\* and are not changed by later traffic (digest taken at Recv time vs digest of the same slice later)
StillIntact(d0, d1) == d0 = d1
Next == \E d \in Dir, len \in 0..2, dg \in {"a", "b"} : Send(d, len, dg) \/ Recv(d, len, dg)
Spec == Init /\ [][Next]_inflight
\* within the bounds used by the drivers nothing is ever queued behind an undelivered message
Bounded == \A d \in Dir : Len(inflight[d]) <= 3
=============================================================================
