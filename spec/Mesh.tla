-------------------------------- MODULE Mesh --------------------------------
(***************************************************************************)
(* BUS and STAR topologies seen as a whole (C08): members joined by         *)
(* connections, each member an application on a cooked socket, optionally   *)
(* BUS hubs (a raw BUS socket with a loop-back Device).                     *)
(*                                                                         *)
(*   BUS   a message goes once to every directly connected peer, never back *)
(*         to its sender; a cooked BUS socket does not pass on what it      *)
(*         receives; a raw BUS socket that re-sends (hub) sends to every    *)
(*         peer except the one the message came from.                       *)
(*   STAR  a socket also forwards everything it receives to all its other   *)
(*         peers (hop byte = connections crossed so far; a receiver takes a *)
(*         message that crossed k connections iff k <= its TTL), so on a     *)
(*         loop-free topology every member receives every message exactly   *)
(*         once and no member receives its own.                             *)
(*                                                                         *)
(* One action per application Send / Recv and per transport send on a       *)
(* connection (the receiving socket's forwarding happens in its receiver     *)
(* goroutine before the message is handed up, so it is part of that step).   *)
(***************************************************************************)
EXTENDS Integers, Sequences, FiniteSets, TLC

CONSTANT NULL
VARIABLES mcfg,    \* [kind, n, edges (set of <<a, b>>, both directions), ttl (sequence), hubs (set of nodes)]
          copies,  \* copies waiting for the transport: [p, src, dst, k] - about to cross their k-th connection
          inbox,   \* <<src, dst>> -> sequence of payloads received by dst on that connection, not yet taken by its application
          got,     \* <<member, payload>> -> how many times the application received it
          origin   \* payload -> member that sent it
mvars == <<mcfg, copies, inbox, got, origin>>

Get(f, k, d) == IF k \in DOMAIN f THEN f[k] ELSE d
Put(f, k, v) == [x \in DOMAIN f \cup {k} |-> IF x = k THEN v ELSE f[x]]

Nodes == 1..mcfg.n
Nbr(a) == {b \in Nodes : <<a, b>> \in mcfg.edges}
Star == mcfg.kind = "star"
Hub(a) == a \in mcfg.hubs
\* does node a pass on what it receives?
Forwards(a) == Star \/ Hub(a)
\* does node a take a message that has crossed k connections?
Takes(a, k) == ~Star \/ k <= mcfg.ttl[a]

MInit == mcfg = NULL /\ copies = {} /\ inbox = <<>> /\ got = <<>> /\ origin = <<>>

\* the application of member a sends p
MSend(a, p) ==
  /\ ~Hub(a) /\ p \notin DOMAIN origin
  /\ origin' = Put(origin, p, a)
  /\ copies' = copies \cup {[p |-> p, src |-> a, dst |-> b, k |-> 1] : b \in Nbr(a)}
  /\ UNCHANGED <<mcfg, inbox, got>>

\* a transport send of p on the connection a -> b, carrying hop byte h (STAR; 0 on BUS)
Xs(a, b, p, h) ==
  \E c \in copies :
    /\ c.p = p /\ c.src = a /\ c.dst = b
    /\ h = (IF Star THEN c.k - 1 ELSE 0)
    /\ IF Takes(b, c.k)
       THEN /\ copies' = (copies \ {c}) \cup (IF Forwards(b) THEN {[p |-> p, src |-> b, dst |-> d, k |-> c.k + 1] : d \in Nbr(b) \ {a}} ELSE {})
            /\ inbox' = IF Hub(b) THEN inbox ELSE Put(inbox, <<a, b>>, Append(Get(inbox, <<a, b>>, <<>>), p))
       ELSE copies' = copies \ {c} /\ inbox' = inbox
    /\ UNCHANGED <<mcfg, got, origin>>

\* the application of member b receives p: the oldest message of one of its connections
MRecv(b, p) ==
  \E a \in Nbr(b) :
    /\ Get(inbox, <<a, b>>, <<>>) # <<>> /\ Head(inbox[<<a, b>>]) = p
    /\ inbox' = Put(inbox, <<a, b>>, Tail(inbox[<<a, b>>]))
    /\ got' = Put(got, <<b, p>>, Get(got, <<b, p>>, 0) + 1)
    /\ UNCHANGED <<mcfg, copies, origin>>

\* ------------------------------------------------------------------------
\* the property
NoEcho == \A x \in DOMAIN got : origin[x[2]] # x[1]                  \* no member receives its own message
OnceEach == \A x \in DOMAIN got : got[x] <= 1                          \* never twice
\* who must receive p: follow the forwarding rules over the topology (loop-free: the recursion ends)
RECURSIVE Reach(_, _, _)
Reach(a, from, k) ==       \* members served by a copy that arrives at a from `from` having crossed k connections
  IF ~Takes(a, k) THEN {}
  ELSE (IF Hub(a) THEN {} ELSE {a}) \cup
       (IF Forwards(a) THEN UNION {Reach(d, a, k + 1) : d \in Nbr(a) \ {from}} ELSE {})
Expected(p) == UNION {Reach(b, origin[p], 1) : b \in Nbr(origin[p])}
Settled == copies = {} /\ \A e \in DOMAIN inbox : inbox[e] = <<>>
\* when nothing is on its way any more, every member that should have the message has it, exactly once, nobody else
AllReached == Settled => \A p \in DOMAIN origin : \A b \in Nodes : Get(got, <<b, p>>, 0) = (IF b \in Expected(p) THEN 1 ELSE 0)
=============================================================================
