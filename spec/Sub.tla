-------------------------------- MODULE Sub --------------------------------
(***************************************************************************)
(* protocol/sub of mangos: the cooked SUB socket with contexts.            *)
(* Topics and bodies are byte strings (sequences of 0..255).               *)
(*                                                                         *)
(* Actions (one per lock region):                                          *)
(*   Arrive       pipe.receiver: offer the message to every matching        *)
(*                context under the socket lock; a full queue drops its     *)
(*                oldest message                                            *)
(*   Subscribe / Unsubscribe   SetOption(OptionSubscribe / Unsubscribe):    *)
(*                unsubscribe rebuilds the queue keeping only messages      *)
(*                that still match                                          *)
(*   SetQLen      SetOption(OptionReadQLen): a new, empty queue             *)
(*   RecvCall / RecvTake / RecvFail   context.RecvMsg                       *)
(*   CtxClose / SockClose                                                  *)
(*                                                                         *)
(* Serves C06 (exactly the matching messages, per-publisher order, at most *)
(* once, contexts independent), C10, C18.                                  *)
(***************************************************************************)
EXTENDS Integers, Sequences, FiniteSets, TLC

CONSTANTS Ctx, Pipe, Thread, NULL, Timed,
          InitQLen,      \* [Ctx -> Nat]
          InitRecvExp,   \* [Ctx -> Nat]
          Topics, Bodies \* model checking: the strings the environment uses

VARIABLES
  now, sclosed, pipes,
  cclosed, subs, qlen, recvExp, recvQ, call,
  \* history
  arrivedSeq,   \* seq of <<pipe, body>> in arrival order
  offered,      \* [Ctx -> seq of bodies enqueued for the context]
  delivered     \* [Ctx -> seq of bodies returned by Recv]

vars == <<now, sclosed, pipes, cclosed, subs, qlen, recvExp, recvQ, call, arrivedSeq, offered, delivered>>

Init ==
  /\ now = 0 /\ sclosed = FALSE /\ pipes = {}
  /\ cclosed = [c \in Ctx |-> FALSE]
  /\ subs = [c \in Ctx |-> <<>>]
  /\ qlen = InitQLen /\ recvExp = InitRecvExp
  /\ recvQ = [c \in Ctx |-> <<>>]
  /\ call = [t \in Thread |-> NULL]
  /\ arrivedSeq = <<>> /\ offered = [c \in Ctx |-> <<>>] /\ delivered = [c \in Ctx |-> <<>>]

Due(d) == IF Timed THEN now + d ELSE 0

IsPrefix(s, t) == Len(s) <= Len(t) /\ \A i \in 1..Len(s) : s[i] = t[i]

\* context.matches: some subscription is a prefix of the body
Matches(S, body) == \E i \in 1..Len(S) : IsPrefix(S[i], body)

\* enqueue with drop-oldest on a bounded queue of capacity n >= 1
Enq(q, n, m) == IF Len(q) < n THEN Append(q, m) ELSE Append(Tail(q), m)

\* A message from a publisher.  A context whose queue is a rendez-vous
\* (ReadQLen 0) takes it only if a receiver is waiting; otherwise it is dropped.
Waiting(c) == \E t \in Thread : call[t] # NULL /\ call[t].c = c
Arrive(p, body) ==
  /\ p \in pipes
  /\ arrivedSeq' = Append(arrivedSeq, <<p, body>>)
  /\ LET hit == {c \in Ctx : ~cclosed[c] /\ Matches(subs[c], body)} IN
     /\ recvQ' = [c \in Ctx |-> IF c \in hit /\ qlen[c] > 0 THEN Enq(recvQ[c], qlen[c], body)
                                ELSE IF c \in hit /\ Waiting(c) THEN <<body>> ELSE recvQ[c]]
     /\ offered' = [c \in Ctx |-> IF c \in hit /\ (qlen[c] > 0 \/ Waiting(c)) THEN Append(offered[c], body) ELSE offered[c]]
  /\ UNCHANGED <<now, sclosed, pipes, cclosed, subs, qlen, recvExp, call, delivered>>

Subscribe(c, topic) ==
  /\ subs' = [subs EXCEPT ![c] = IF \E i \in 1..Len(@) : @[i] = topic THEN @ ELSE Append(@, topic)]
  /\ UNCHANGED <<now, sclosed, pipes, cclosed, qlen, recvExp, recvQ, call, arrivedSeq, offered, delivered>>

\* res: "ok" or "ErrBadValue" (not subscribed)
Unsubscribe(c, topic, res) ==
  /\ IF \E i \in 1..Len(subs[c]) : subs[c][i] = topic
       THEN LET i == CHOOSE j \in 1..Len(subs[c]) : subs[c][j] = topic /\ \A k \in 1..(j-1) : subs[c][k] # topic
                S2 == SubSeq(subs[c], 1, i - 1) \o SubSeq(subs[c], i + 1, Len(subs[c])) IN
            /\ res = "ok"
            /\ subs' = [subs EXCEPT ![c] = S2]
            /\ recvQ' = [recvQ EXCEPT ![c] = SelectSeq(@, LAMBDA m : Matches(S2, m))]
       ELSE res = "ErrBadValue" /\ UNCHANGED <<subs, recvQ>>
  /\ UNCHANGED <<now, sclosed, pipes, cclosed, qlen, recvExp, call, arrivedSeq, offered, delivered>>

SetQLen(c, n) ==
  /\ n >= 0
  /\ qlen' = [qlen EXCEPT ![c] = n]
  /\ recvQ' = [recvQ EXCEPT ![c] = <<>>]
  /\ UNCHANGED <<now, sclosed, pipes, cclosed, subs, recvExp, call, arrivedSeq, offered, delivered>>

RecvCall(t, c) ==
  /\ call[t] = NULL
  /\ call' = [call EXCEPT ![t] = [c |-> c, due |-> IF recvExp[c] > 0 THEN Due(recvExp[c]) ELSE -1]]
  /\ UNCHANGED <<now, sclosed, pipes, cclosed, subs, qlen, recvExp, recvQ, arrivedSeq, offered, delivered>>

RecvTake(t, m) ==
  /\ call[t] # NULL
  /\ LET c == call[t].c IN
     /\ recvQ[c] # <<>> /\ m = Head(recvQ[c])
     /\ recvQ' = [recvQ EXCEPT ![c] = Tail(@)]
     /\ delivered' = [delivered EXCEPT ![c] = Append(@, m)]
  /\ call' = [call EXCEPT ![t] = NULL]
  /\ UNCHANGED <<now, sclosed, pipes, cclosed, subs, qlen, recvExp, arrivedSeq, offered>>

RecvFail(t, res) ==
  /\ call[t] # NULL
  /\ \/ cclosed[call[t].c] /\ res = "ErrClosed"
     \/ call[t].due >= 0 /\ (Timed => now >= call[t].due) /\ res = "ErrRecvTimeout"
  /\ call' = [call EXCEPT ![t] = NULL]
  /\ UNCHANGED <<now, sclosed, pipes, cclosed, subs, qlen, recvExp, recvQ, arrivedSeq, offered, delivered>>

AddPipe(p, ok) ==
  /\ p \notin pipes
  /\ IF sclosed THEN ok = FALSE /\ UNCHANGED pipes ELSE ok = TRUE /\ pipes' = pipes \cup {p}
  /\ UNCHANGED <<now, sclosed, cclosed, subs, qlen, recvExp, recvQ, call, arrivedSeq, offered, delivered>>
RemovePipe(p) ==
  /\ p \in pipes /\ pipes' = pipes \ {p}
  /\ UNCHANGED <<now, sclosed, cclosed, subs, qlen, recvExp, recvQ, call, arrivedSeq, offered, delivered>>

CtxClose(c, res) ==
  /\ IF cclosed[c] THEN res = "ErrClosed" /\ UNCHANGED cclosed
     ELSE res = "ok" /\ cclosed' = [cclosed EXCEPT ![c] = TRUE]
  /\ UNCHANGED <<now, sclosed, pipes, subs, qlen, recvExp, recvQ, call, arrivedSeq, offered, delivered>>
SockClose(res) ==
  /\ IF sclosed THEN res = "ErrClosed" /\ UNCHANGED <<sclosed, cclosed>>
     ELSE res = "ok" /\ sclosed' = TRUE /\ cclosed' = [c \in Ctx |-> TRUE]
  /\ UNCHANGED <<now, pipes, subs, qlen, recvExp, recvQ, call, arrivedSeq, offered, delivered>>

RecvReady(t) ==
  /\ call[t] # NULL
  /\ \/ recvQ[call[t].c] # <<>> \/ cclosed[call[t].c]
     \/ call[t].due >= 0 /\ now >= call[t].due
CanInternal == \E t \in Thread : RecvReady(t)

Next ==
  \/ \E p \in Pipe : (\E b \in Bodies : Arrive(p, b)) \/ (\E ok \in BOOLEAN : AddPipe(p, ok)) \/ RemovePipe(p)
  \/ \E c \in Ctx :
       \/ \E tp \in Topics : Subscribe(c, tp) \/ \E r \in {"ok", "ErrBadValue"} : Unsubscribe(c, tp, r)
       \/ \E r \in {"ok", "ErrClosed"} : CtxClose(c, r)
       \/ \E t \in Thread : RecvCall(t, c)
  \/ \E t \in Thread : (\E b \in Bodies : RecvTake(t, b)) \/ \E r \in {"ErrClosed", "ErrRecvTimeout"} : RecvFail(t, r)
  \/ \E r \in {"ok", "ErrClosed"} : SockClose(r)
Spec == Init /\ [][Next]_vars

-----------------------------------------------------------------------------
Range(s) == {s[i] : i \in 1..Len(s)}
\* everything queued matches a current subscription (in particular after Unsubscribe returned)
QueuedMatches == \A c \in Ctx : \A m \in Range(recvQ[c]) : Matches(subs[c], m)
QueueBounded == \A c \in Ctx : Len(recvQ[c]) <= IF qlen[c] = 0 THEN 1 ELSE qlen[c]
\* what a context delivers is a subsequence of what was offered to it (order kept, nothing twice,
\* nothing invented), and what was offered is a subsequence of the arrivals
RECURSIVE IsSubseq(_, _)
IsSubseq(a, b) == IF a = <<>> THEN TRUE ELSE IF b = <<>> THEN FALSE
                  ELSE IF Head(a) = Head(b) THEN IsSubseq(Tail(a), Tail(b)) ELSE IsSubseq(a, Tail(b))
DeliveredInOrder == \A c \in Ctx : IsSubseq(delivered[c] \o recvQ[c], offered[c])
OfferedArrived == \A c \in Ctx : IsSubseq(offered[c], [i \in 1..Len(arrivedSeq) |-> arrivedSeq[i][2]])
\* contexts do not affect one another: action property - a step by one context's API leaves the others' state alone
Independent ==
  [][\A c \in Ctx : (subs'[c] # subs[c] \/ qlen'[c] # qlen[c]) =>
        \A d \in Ctx \ {c} : subs'[d] = subs[d] /\ recvQ'[d] = recvQ[d]]_vars
=============================================================================
