--------------------------- MODULE LockDiscipline ---------------------------
(***************************************************************************)
(* Semantics of Lock / Unlock / RLock / RUnlock / defer Unlock / cond.Wait /*)
(* return over the control-flow graphs that tools/lockcfg extracts from the *)
(* current /repo tree (module LockCFG, regenerated on every run).  TLC      *)
(* explores every path of every function that touches a mutex and reports   *)
(* (C12):                                                                   *)
(*   return-holding    a path reaches a return (or falls off the end) with  *)
(*                     a mutex still held that no deferred Unlock releases  *)
(*   self-deadlock     Lock of a class that is already held on this path    *)
(*   call-deadlock     a call, made while holding class k, of a function of *)
(*                     this module that itself locks class k                *)
(*   unlock-not-held   Unlock (direct or deferred) of a mutex not held      *)
(*   wait-unlocked     cond.Wait with no mutex held                         *)
(*   block-holding     a channel operation that can block, WaitGroup.Wait   *)
(*                     or time.Sleep while a mutex is held (C11 / C12: the  *)
(*                     other calls on the object wait for as long)          *)
(* and prints every (held, acquired) pair for the lock-order check (C11).   *)
(* Mutexes are identified by lock class (owner type + field path).          *)
(* Branch conditions are ignored: every CFG path is considered feasible.    *)
(***************************************************************************)
EXTENDS Integers, Sequences, FiniteSets, TLC, LockCFG

VARIABLES fn, blk, idx, held, defr, bad, done

vars == <<fn, blk, idx, held, defr, bad, done>>

\* classes a function locks itself
Acq(g) == IF g \in Funcs
            THEN {CFG[g].blocks[b].ops[i].k : b \in 1..Len(CFG[g].blocks), i \in {j \in 1..10 : FALSE}} \cup
                 UNION {{CFG[g].blocks[b].ops[i].k : i \in {j \in 1..Len(CFG[g].blocks[b].ops) :
                                                            CFG[g].blocks[b].ops[j].op \in {"lock", "rlock"}}} : b \in 1..Len(CFG[g].blocks)}
            ELSE {}
\* ... or through one further call
Callees(g) == IF g \in Funcs
                THEN UNION {{CFG[g].blocks[b].ops[i].k : i \in {j \in 1..Len(CFG[g].blocks[b].ops) :
                                                                 CFG[g].blocks[b].ops[j].op = "call"}} : b \in 1..Len(CFG[g].blocks)}
                ELSE {}
Acq2(g) == Acq(g) \cup UNION {Acq(h) : h \in Callees(g)}

Init ==
  /\ fn \in Funcs
  /\ blk = 1 /\ idx = 1
  /\ held = <<>> /\ defr = <<>> /\ bad = "none" /\ done = FALSE

HeldW(k) == \E j \in 1..Len(held) : held[j] = <<k, "w">>
HeldR(k) == \E j \in 1..Len(held) : held[j] = <<k, "r">>
HeldAny(k) == HeldW(k) \/ HeldR(k)
\* remove the last occurrence of x from sequence s
RemoveLast(s, x) ==
  LET j == CHOOSE m \in 1..Len(s) : s[m] = x /\ \A n \in (m+1)..Len(s) : s[n] # x
  IN SubSeq(s, 1, j - 1) \o SubSeq(s, j + 1, Len(s))

\* the deferred unlocks run in reverse order; result: <<held after, ok>>
RECURSIVE RunDefers(_, _)
RunDefers(h, d) ==
  IF d = <<>> THEN <<h, TRUE>>
  ELSE LET x == d[Len(d)] IN
       IF \E j \in 1..Len(h) : h[j] = x
         THEN RunDefers(RemoveLast(h, x), SubSeq(d, 1, Len(d) - 1))
         ELSE <<h, FALSE>>

CurOps == CFG[fn].blocks[blk].ops
Op == CurOps[idx]
Where == <<fn, CFG[fn].file, Op.line>>

Step ==
  /\ ~done /\ bad = "none"
  /\ IF idx <= Len(CurOps)
       THEN /\ idx' = idx + 1 /\ UNCHANGED <<fn, blk>>
            /\ CASE Op.op = "lock" ->
                      /\ bad' = IF HeldAny(Op.k) THEN "self-deadlock " \o Op.k ELSE "none"
                      /\ held' = Append(held, <<Op.k, "w">>)
                      /\ \A j \in 1..Len(held) : held[j][1] = Op.k \/ PrintT(<<"LOCKEDGE", held[j][1], Op.k, fn, Op.line>>)
                      /\ UNCHANGED <<defr, done>>
                 [] Op.op = "rlock" ->
                      /\ bad' = IF HeldW(Op.k) THEN "self-deadlock " \o Op.k ELSE "none"
                      /\ held' = Append(held, <<Op.k, "r">>)
                      /\ UNCHANGED <<defr, done>>
                 [] Op.op = "unlock" ->
                      /\ IF HeldW(Op.k) THEN held' = RemoveLast(held, <<Op.k, "w">>) /\ bad' = "none"
                         ELSE held' = held /\ bad' = "unlock-not-held " \o Op.k
                      /\ UNCHANGED <<defr, done>>
                 [] Op.op = "runlock" ->
                      /\ IF HeldR(Op.k) THEN held' = RemoveLast(held, <<Op.k, "r">>) /\ bad' = "none"
                         ELSE held' = held /\ bad' = "unlock-not-held " \o Op.k
                      /\ UNCHANGED <<defr, done>>
                 [] Op.op = "dunlock" -> defr' = Append(defr, <<Op.k, "w">>) /\ UNCHANGED <<held, bad, done>>
                 [] Op.op = "drunlock" -> defr' = Append(defr, <<Op.k, "r">>) /\ UNCHANGED <<held, bad, done>>
                 [] Op.op = "wait" ->
                      /\ bad' = IF held = <<>> THEN "wait-unlocked" ELSE "none"
                      /\ UNCHANGED <<held, defr, done>>
                 [] Op.op = "call" ->
                      /\ LET clash == {k \in Acq2(Op.k) : HeldAny(k)} IN
                         bad' = IF clash # {} THEN "call-deadlock " \o Op.k ELSE "none"
                      /\ \A j \in 1..Len(held) : \A k \in Acq2(Op.k) :
                            held[j][1] = k \/ PrintT(<<"LOCKEDGE", held[j][1], k, fn, Op.line>>)
                      /\ UNCHANGED <<held, defr, done>>
                 [] Op.op = "return" ->
                      /\ LET r == RunDefers(held, defr) IN
                         bad' = IF ~r[2] THEN "unlock-not-held (deferred)"
                                ELSE IF r[1] # <<>> THEN "return-holding " \o r[1][1][1]
                                ELSE "none"
                      /\ done' = TRUE
                      /\ UNCHANGED <<held, defr>>
                 \* a channel send / receive that can block (not a clause of a select with a default), WaitGroup.Wait or
                 \* time.Sleep while a mutex is held: everybody else who needs that mutex waits as long
                 [] Op.op = "block" ->
                      /\ bad' = IF held # <<>> THEN "block-holding " \o held[1][1] \o " (" \o Op.k \o ")" ELSE "none"
                      /\ UNCHANGED <<held, defr, done>>
                 [] Op.op = "panic" -> done' = TRUE /\ UNCHANGED <<held, defr, bad>>
                 [] OTHER -> UNCHANGED <<held, defr, bad, done>>
       ELSE /\ \E s \in CFG[fn].blocks[blk].succs : blk' = s
            /\ idx' = 1
            /\ UNCHANGED <<fn, held, defr, bad, done>>

Spec == Init /\ [][Step]_vars

\* a violating state is reported (with function, file and line of the offending operation) and pruned,
\* so that every violation of every function is listed in one run
LastOp == CFG[fn].blocks[blk].ops[idx - 1]
Report == IF bad # "none" THEN PrintT(<<"LOCKBUG", fn, CFG[fn].file, LastOp.line, bad>>) /\ FALSE ELSE TRUE
\* guard against runaway paths (an unbalanced loop is reported as self-deadlock long before)
Bounded == Len(held) <= 6
=============================================================================
