------------------------------- MODULE Core -------------------------------
(***************************************************************************)
(* internal/core of mangos: socket / pipe / dialer / listener lifecycle.   *)
(*                                                                         *)
(* One action per critical section of the Go code:                         *)
(*   socket.addPipe   = NewPipe ; HookAttaching ; HookAttachingRet ;        *)
(*                      AddPipeCheck ; HookAttached ; HookAttachedRet       *)
(*   pipe.Close       = CloseBegin (closeOnce + transport close) ;          *)
(*                      CloseLocked (pipe.lock region: closing, remPipe)    *)
(*   socket.remPipe   = inside CloseLocked, plus the asynchronous           *)
(*                      RunDetached (hook, then id release)                 *)
(*   dialer.Dial/dial/redial/pipeConnected/pipeClosed/Close                 *)
(*   listener.Listen/serve/Close                                           *)
(*   socket.Close                                                          *)
(* Work the code defers with `go f()` or time.AfterFunc is a member of     *)
(* `async` / `timers` and a separate action.                               *)
(*                                                                         *)
(* Serves C10 (release of ids / list entries / timers after close), C12    *)
(* (failed Dial/Listen can be retried, endpoints survive rejections), C13  *)
(* (hook language, protocol told once each, id held until Detached has     *)
(* returned) and C14 (redial, spacing, growth, reset, no attempt after     *)
(* close).                                                                  *)
(***************************************************************************)
EXTENDS Integers, Sequences, FiniteSets, TLC

CONSTANTS
  Pipe,        \* single-use connection identities
  Dialer,      \* dialer endpoints of the one socket
  Listener,    \* listener endpoints of the one socket
  NULL,
  InitOpt      \* [Dialer -> [min : Nat, max : Nat, asynch : BOOLEAN]] the dialers' options
               \* (ReconnectTime, MaxReconnectTime with 0 = no growth, DialAsynch)

Endpoint == Dialer \cup Listener

VARIABLES
  opt,         \* dialer options (mutable in the code through SetOption; constant in a scenario)
  now,         \* virtual time
  sockClosed,  \* progress of socket.Close: "open" | "eps" (closed set, endpoints being closed) | "proto" (protocol closed) | "done" (CloseAll issued)
  pst,         \* progress of the addPipe call owning p
  owner,       \* creating endpoint
  added, closing, closeStarted, tranOpen,   \* pipe.added / closing / closeOnce / transport open
  ids,         \* pipes holding an id in the process-wide allocator
  listed,      \* socket.pipes
  async,       \* pending asynchronous calls (go f())
  timers,      \* armed redial timers: [d, due, stored]
  dClosed, dActive, reconn, dst, dRedial, dSync,  \* dialer fields / progress of dial()
  lClosed, lActive, lst,                          \* listener fields / progress of serve()
  hookLog, protoLog,                              \* history: per pipe
  dialLog                                         \* history: per dialer, sequence of <<"attempt"|"fail"|"lost"|"ok", time, delay>>

pipeVars == <<pst, owner, added, closing, closeStarted, tranOpen, ids, listed>>
dialVars == <<dClosed, dActive, reconn, dst, dRedial, dSync>>
lisVars  == <<lClosed, lActive, lst>>
histVars == <<hookLog, protoLog, dialLog>>
vars == <<opt, now, sockClosed, pipeVars, async, timers, dialVars, lisVars, histVars>>

PST == {"unborn", "new", "attaching", "check", "attachedHook", "attachedRun",
        "live", "refused", "abandoned"}
\* addPipe has returned for p
AddPipeDone(p) == pst[p] \in {"live", "refused", "abandoned"}

MinT(d) == opt[d].min
MaxT(d) == opt[d].max
Asynch(d) == opt[d].asynch

Init ==
  /\ opt = InitOpt
  /\ now = 0
  /\ sockClosed = "open"
  /\ pst = [p \in Pipe |-> "unborn"]
  /\ owner = [p \in Pipe |-> NULL]
  /\ added = [p \in Pipe |-> FALSE]
  /\ closing = [p \in Pipe |-> FALSE]
  /\ closeStarted = [p \in Pipe |-> FALSE]
  /\ tranOpen = [p \in Pipe |-> FALSE]
  /\ ids = {}
  /\ listed = {}
  /\ async = {}
  /\ timers = {}
  /\ dClosed = [d \in Dialer |-> FALSE]
  /\ dActive = [d \in Dialer |-> FALSE]
  /\ reconn = [d \in Dialer |-> MinT(d)]
  /\ dst = [d \in Dialer |-> "idle"]      \* idle | want | dialing | adding
  /\ dRedial = [d \in Dialer |-> FALSE]   \* the redial flag of the running dial()
  /\ dSync = [d \in Dialer |-> FALSE]     \* the running dial() is the synchronous Dial() call
  /\ lClosed = [l \in Listener |-> FALSE]
  /\ lActive = [l \in Listener |-> FALSE]
  /\ lst = [l \in Listener |-> "off"]     \* off | accepting | adding | stopped
  /\ hookLog = [p \in Pipe |-> <<>>]
  /\ protoLog = [p \in Pipe |-> <<>>]
  /\ dialLog = [d \in Dialer |-> <<>>]

-----------------------------------------------------------------------------
(* addPipe *)

\* newPipe (id reserved) + pipes.Add; e is the creating endpoint
NewPipeEff(p, e) ==
  /\ pst[p] = "unborn"
  /\ pst' = [pst EXCEPT ![p] = "new"]
  /\ owner' = [owner EXCEPT ![p] = e]
  /\ tranOpen' = [tranOpen EXCEPT ![p] = TRUE]
  /\ ids' = ids \cup {p}
  /\ listed' = listed \cup {p}
  /\ UNCHANGED <<added, closing, closeStarted>>

\* the Attaching hook is entered
HookAttaching(p) ==
  /\ pst[p] = "new"
  /\ pst' = [pst EXCEPT ![p] = "attaching"]
  /\ hookLog' = [hookLog EXCEPT ![p] = Append(@, "attaching")]
  /\ UNCHANGED <<now, sockClosed, owner, added, closing, closeStarted, tranOpen, ids, listed,
                 async, timers, dialVars, lisVars, protoLog, dialLog>>

HookAttachingRet(p) ==
  /\ pst[p] = "attaching"
  /\ pst' = [pst EXCEPT ![p] = "check"]
  /\ UNCHANGED <<now, sockClosed, owner, added, closing, closeStarted, tranOpen, ids, listed,
                 async, timers, dialVars, lisVars, histVars>>

\* The creating endpoint's call that is inside addPipe(p) gets control back.
EndpointResume(p) ==
  LET e == owner[p] IN
  IF e \in Dialer
    THEN \* only the synchronous Dial() call waits for addPipe (dst = "adding"); a redial has nothing left to do
         \* after addPipe and is over for the dialer as soon as the connection exists (DialOK)
         /\ IF dst[e] = "adding"
              THEN /\ dst' = [dst EXCEPT ![e] = "idle"]
                   /\ dSync' = [dSync EXCEPT ![e] = FALSE]
              ELSE UNCHANGED <<dst, dSync>>
         /\ UNCHANGED <<dClosed, dActive, reconn, dRedial, lisVars>>
    ELSE /\ lst' = [lst EXCEPT ![e] = "accepting"]
         /\ UNCHANGED <<lClosed, lActive, dialVars>>

\* pipe.lock region of addPipe: closing? / proto.AddPipe / added.
\* accept is the protocol's verdict (proto.AddPipe(p) = nil).
AddPipeCheck(p, accept) ==
  /\ pst[p] = "check"
  /\ IF closing[p]
       THEN \* closed during Attaching: no Attached, no Detached, protocol never told
            /\ pst' = [pst EXCEPT ![p] = "abandoned"]
            /\ UNCHANGED <<added, listed, async, protoLog>>
            /\ EndpointResume(p)
       ELSE IF ~accept
         THEN /\ pst' = [pst EXCEPT ![p] = "refused"]
              /\ listed' = listed \ {p}
              /\ async' = async \cup {<<"close", p>>}
              /\ protoLog' = [protoLog EXCEPT ![p] = Append(@, "refuse")]
              /\ UNCHANGED added
              /\ EndpointResume(p)
         ELSE /\ pst' = [pst EXCEPT ![p] = "attachedHook"]
              /\ added' = [added EXCEPT ![p] = TRUE]
              /\ protoLog' = [protoLog EXCEPT ![p] = Append(@, "add")]
              /\ async' = IF owner[p] \in Dialer THEN async \cup {<<"pconn", owner[p]>>} ELSE async
              /\ UNCHANGED <<listed, dialVars, lisVars>>
  /\ UNCHANGED <<now, sockClosed, owner, closing, closeStarted, tranOpen, ids, timers, hookLog, dialLog>>

HookAttached(p) ==
  /\ pst[p] = "attachedHook"
  /\ pst' = [pst EXCEPT ![p] = "attachedRun"]
  /\ hookLog' = [hookLog EXCEPT ![p] = Append(@, "attached")]
  /\ UNCHANGED <<now, sockClosed, owner, added, closing, closeStarted, tranOpen, ids, listed,
                 async, timers, dialVars, lisVars, protoLog, dialLog>>

HookAttachedRet(p) ==
  /\ pst[p] = "attachedRun"
  /\ pst' = [pst EXCEPT ![p] = "live"]
  /\ EndpointResume(p)
  /\ UNCHANGED <<now, sockClosed, owner, added, closing, closeStarted, tranOpen, ids, listed,
                 async, timers, histVars>>

-----------------------------------------------------------------------------
(* pipe.Close *)

\* closeOnce taken, transport pipe closed.  Callers: the application or a
\* hook, a protocol goroutine that saw a transport error, socket.Close's
\* CloseAll, the refusal branch of addPipe.
CloseBegin(p) ==
  /\ pst[p] # "unborn"
  /\ ~closeStarted[p]
  /\ closeStarted' = [closeStarted EXCEPT ![p] = TRUE]
  /\ tranOpen' = [tranOpen EXCEPT ![p] = FALSE]
  /\ async' = async \ {<<"close", p>>}
  /\ UNCHANGED <<now, sockClosed, pst, owner, added, closing, ids, listed, timers,
                 dialVars, lisVars, histVars>>

\* an asynchronous close request that finds the pipe already closed
CloseNoop(p) ==
  /\ <<"close", p>> \in async
  /\ closeStarted[p]
  /\ async' = async \ {<<"close", p>>}
  /\ UNCHANGED <<now, sockClosed, pipeVars, timers, dialVars, lisVars, histVars>>

\* pipe.lock region of Close: closing; remPipe iff added; then notify dialer.
\* A pipe that was never added releases its list entry and id here.
CloseLocked(p) ==
  /\ closeStarted[p] /\ ~closing[p]
  /\ closing' = [closing EXCEPT ![p] = TRUE]
  /\ IF added[p]
       THEN /\ protoLog' = [protoLog EXCEPT ![p] = Append(@, "rem")]
            /\ listed' = listed \ {p}
            /\ ids' = ids
            /\ async' = (async \cup {<<"detached", p>>})
                          \cup (IF owner[p] \in Dialer THEN {<<"pclosed", owner[p], p>>} ELSE {})
       ELSE /\ listed' = listed \ {p}
            /\ ids' = ids \ {p}
            /\ protoLog' = protoLog
            /\ async' = async \cup (IF owner[p] \in Dialer THEN {<<"pclosed", owner[p], p>>} ELSE {})
  /\ UNCHANGED <<now, sockClosed, pst, owner, added, closeStarted, tranOpen, timers,
                 dialVars, lisVars, hookLog, dialLog>>

\* the goroutine started by remPipe: Detached hook entered
RunDetached(p) ==
  /\ <<"detached", p>> \in async
  /\ async' = (async \ {<<"detached", p>>}) \cup {<<"idfree", p>>}
  /\ hookLog' = [hookLog EXCEPT ![p] = Append(@, "detached")]
  /\ UNCHANGED <<now, sockClosed, pipeVars, timers, dialVars, lisVars, protoLog, dialLog>>

\* ... hook returned, id released
RunIdFree(p) ==
  /\ <<"idfree", p>> \in async
  /\ async' = async \ {<<"idfree", p>>}
  /\ ids' = ids \ {p}
  /\ UNCHANGED <<now, sockClosed, pst, owner, added, closing, closeStarted, tranOpen, listed,
                 timers, dialVars, lisVars, histVars>>

\* environment: the peer goes away (transport starts failing)
PeerDrop(p) ==
  /\ tranOpen[p]
  /\ tranOpen' = [tranOpen EXCEPT ![p] = FALSE]
  /\ UNCHANGED <<now, sockClosed, pst, owner, added, closing, closeStarted, ids, listed,
                 async, timers, dialVars, lisVars, histVars>>

\* a protocol goroutine of an added pipe sees the transport error and closes
CanNotice(p) == added[p] /\ ~tranOpen[p] /\ ~closeStarted[p]
NoticeDrop(p) == CanNotice(p) /\ CloseBegin(p)

-----------------------------------------------------------------------------
(* dialer *)

Min2(a, b) == IF a < b THEN a ELSE b
Max2(a, b) == IF a > b THEN a ELSE b

\* Dialer.Dial(): returns r
DialCall(d, r) ==
  /\ IF dActive[d] THEN r = "ErrAddrInUse" /\ UNCHANGED <<dialVars, async, dialLog>>
     ELSE IF dClosed[d] THEN r = "ErrClosed" /\ UNCHANGED <<dialVars, async, dialLog>>
     ELSE /\ dActive' = [dActive EXCEPT ![d] = TRUE]
          /\ dialLog' = [dialLog EXCEPT ![d] = Append(@, <<"dialcall", now, 0>>)]
          /\ reconn' = [reconn EXCEPT ![d] = MinT(d)]
          /\ IF Asynch(d)
               THEN /\ r = "ok"
                    /\ async' = async \cup {<<"redial", d>>}
                    /\ UNCHANGED <<dst, dSync, dRedial, dClosed>>
               ELSE /\ r = "pending"
                    /\ dst[d] = "idle"
                    /\ dst' = [dst EXCEPT ![d] = "want"]
                    /\ dSync' = [dSync EXCEPT ![d] = TRUE]
                    /\ dRedial' = [dRedial EXCEPT ![d] = FALSE]
                    /\ UNCHANGED <<async, dClosed>>
  /\ UNCHANGED <<now, sockClosed, pipeVars, timers, lisVars, hookLog, protoLog>>

\* go d.redial() / timer callback starts running dial(true)
RunRedial(d) ==
  /\ <<"redial", d>> \in async
  /\ dst[d] = "idle"
  /\ async' = async \ {<<"redial", d>>}
  /\ dst' = [dst EXCEPT ![d] = "want"]
  /\ dRedial' = [dRedial EXCEPT ![d] = TRUE]
  /\ dSync' = [dSync EXCEPT ![d] = FALSE]
  /\ UNCHANGED <<now, sockClosed, pipeVars, timers, dClosed, dActive, reconn, lisVars, histVars>>

\* dial(): first lock region.  Closed: return ErrClosed without dialing.
DialAbort(d) ==
  /\ dst[d] = "want" /\ dClosed[d]
  /\ dst' = [dst EXCEPT ![d] = "idle"]
  /\ dSync' = [dSync EXCEPT ![d] = FALSE]
  /\ dActive' = IF dSync[d] THEN [dActive EXCEPT ![d] = FALSE] ELSE dActive
  /\ dialLog' = [dialLog EXCEPT ![d] = Append(@, <<"abort", now, reconn[d]>>)]
  /\ UNCHANGED <<now, sockClosed, pipeVars, async, timers, dClosed, reconn, dRedial, lisVars, hookLog, protoLog>>

\* ... otherwise the transport Dial starts: the observable connection attempt
DialBegin(d) ==
  /\ dst[d] = "want" /\ ~dClosed[d]
  /\ dst' = [dst EXCEPT ![d] = "dialing"]
  /\ dRedial' = [dRedial EXCEPT ![d] = dRedial[d] \/ Asynch(d)]
  /\ dialLog' = [dialLog EXCEPT ![d] = Append(@, <<"attempt", now, reconn[d]>>)]
  /\ UNCHANGED <<now, sockClosed, pipeVars, async, timers, dClosed, dActive, reconn, dSync,
                 lisVars, hookLog, protoLog>>

\* transport Dial succeeded with connection p: addPipe(p) runs in this call
DialOK(d, p) ==
  /\ dst[d] = "dialing"
  \* (a redial - timer or `go d.redial()` - runs addPipe as its last statement: the next redial does not wait for it,
  \* so a connection lost inside a hook that outlasts the reconnect time is redialled while that hook still runs)
  /\ dst' = [dst EXCEPT ![d] = IF dSync[d] THEN "adding" ELSE "idle"]
  /\ NewPipeEff(p, d)
  /\ dialLog' = [dialLog EXCEPT ![d] = Append(@, <<"ok", now, reconn[d]>>)]
  /\ UNCHANGED <<now, sockClosed, async, timers, dClosed, dActive, reconn, dRedial, dSync,
                 lisVars, hookLog, protoLog>>

\* The set of delays the code may pick after a failure with delay r:
\* r * f, f in [1.1, 1.5], truncated, capped at MaxT; r itself when MaxT = 0.
GrowOK(d, r, r2) ==
  IF MaxT(d) = 0 THEN r2 = r
  ELSE \* delays are observed truncated to the time unit (microseconds): r and r2 each hide a
       \* fraction of a unit, so both bounds get one unit of slack
       \/ /\ r2 <= MaxT(d)
          /\ 10 * r2 >= 11 * r - 10
          /\ 10 * r2 <= 15 * r + 15
       \/ /\ r2 = MaxT(d)
          /\ 15 * r + 15 >= 10 * MaxT(d)      \* r*f could exceed the cap

\* transport Dial failed (not with ErrClosed): second lock region of dial()
DialFail(d, r2) ==
  /\ dst[d] = "dialing"
  /\ dst' = [dst EXCEPT ![d] = "idle"]
  /\ dSync' = [dSync EXCEPT ![d] = FALSE]
  /\ dialLog' = [dialLog EXCEPT ![d] = Append(@, <<"fail", now, reconn[d]>>)]
  /\ IF ~dRedial[d]
       THEN \* synchronous first attempt: error returned, nothing scheduled,
            \* and the dialer can be dialled again
            /\ r2 = reconn[d]
            /\ dActive' = [dActive EXCEPT ![d] = FALSE]
            /\ UNCHANGED <<timers, reconn>>
       ELSE /\ GrowOK(d, reconn[d], r2)
            /\ reconn' = [reconn EXCEPT ![d] = r2]
            /\ timers' = timers \cup {[d |-> d, due |-> now + reconn[d], stored |-> TRUE]}
            /\ UNCHANGED dActive
  /\ UNCHANGED <<now, sockClosed, pipeVars, async, dClosed, dRedial, lisVars, hookLog, protoLog>>

\* go d.pipeConnected(): delay reset
RunPipeConnected(d) ==
  /\ <<"pconn", d>> \in async
  /\ async' = async \ {<<"pconn", d>>}
  /\ reconn' = [reconn EXCEPT ![d] = MinT(d)]
  /\ UNCHANGED <<now, sockClosed, pipeVars, timers, dClosed, dActive, dst, dRedial, dSync,
                 lisVars, histVars>>

\* go d.pipeClosed(): redial after the current delay (timer is not stored)
RunPipeClosed(d, p) ==
  /\ <<"pclosed", d, p>> \in async
  /\ async' = async \ {<<"pclosed", d, p>>}
  /\ timers' = timers \cup {[d |-> d, due |-> now + reconn[d], stored |-> FALSE]}
  /\ dialLog' = [dialLog EXCEPT ![d] = Append(@, <<"lost", now, reconn[d]>>)]
  /\ UNCHANGED <<now, sockClosed, pipeVars, dialVars, lisVars, hookLog, protoLog>>

\* Dialer.SetOption / Socket.SetOption (handed down) of the reconnect times while the dialer is at work: only the
\* option fields change.  The delay reached so far stays (the new initial value applies at the next reset - Dial() or a
\* successful connection -, the new maximum at the next growth).
SetReconnOpt(d, mn, mx) ==
  /\ opt' = [opt EXCEPT ![d].min = mn, ![d].max = mx]
  /\ UNCHANGED <<now, sockClosed, pipeVars, async, timers, dialVars, lisVars, histVars>>

MinDue == CHOOSE m \in {t.due : t \in timers} : \A t \in timers : m <= t.due

\* a redial timer fires (timers fire in due order; time jumps to the due time)
Fire(tm) ==
  /\ tm \in timers
  /\ tm.due = MinDue
  /\ dst[tm.d] = "idle"
  /\ now' = Max2(now, tm.due)
  /\ timers' = timers \ {tm}
  /\ dst' = [dst EXCEPT ![tm.d] = "want"]
  /\ dRedial' = [dRedial EXCEPT ![tm.d] = TRUE]
  /\ dSync' = [dSync EXCEPT ![tm.d] = FALSE]
  /\ UNCHANGED <<sockClosed, pipeVars, async, dClosed, dActive, reconn, lisVars, histVars>>

\* Dialer.Close(): stops the stored timer only
DialerCloseEff(d) ==
  /\ dClosed' = [dClosed EXCEPT ![d] = TRUE]
  /\ timers' = {t \in timers : ~(t.d = d /\ t.stored)}

DialerClose(d, r) ==
  /\ IF dClosed[d] THEN r = "ErrClosed" /\ UNCHANGED <<dClosed, timers>>
     ELSE r = "ok" /\ DialerCloseEff(d)
  /\ UNCHANGED <<now, sockClosed, pipeVars, async, dActive, reconn, dst, dRedial, dSync,
                 lisVars, histVars>>

-----------------------------------------------------------------------------
(* listener *)

\* Listener.Listen(): terr is the transport's Listen outcome ("ok" or an error)
ListenCall(l, terr, r) ==
  /\ IF lClosed[l] THEN r = "ErrClosed" /\ UNCHANGED lisVars
     ELSE IF lActive[l] THEN r = "ErrAddrInUse" /\ UNCHANGED lisVars
     ELSE IF terr # "ok" THEN r = terr /\ UNCHANGED lisVars     \* active reset: can be retried
     ELSE /\ r = "ok"
          /\ lActive' = [lActive EXCEPT ![l] = TRUE]
          /\ lst' = [lst EXCEPT ![l] = "accepting"]
          /\ UNCHANGED lClosed
  /\ UNCHANGED <<now, sockClosed, pipeVars, async, timers, dialVars, histVars>>

\* serve(): Accept returned connection p; addPipe(p) runs in the accept loop
Accept(l, p) ==
  /\ lst[l] = "accepting" /\ ~lClosed[l]
  /\ lst' = [lst EXCEPT ![l] = "adding"]
  /\ NewPipeEff(p, l)
  /\ UNCHANGED <<now, sockClosed, async, timers, dialVars, lClosed, lActive, histVars>>

ListenerCloseEff(l) ==
  /\ lClosed' = [lClosed EXCEPT ![l] = TRUE]
  /\ lst' = [lst EXCEPT ![l] = IF lst[l] = "accepting" THEN "stopped" ELSE lst[l]]

ListenerClose(l, r) ==
  /\ IF lClosed[l] THEN r = "ErrClosed" /\ UNCHANGED <<lClosed, lst>>
     ELSE r = "ok" /\ ListenerCloseEff(l)
  /\ UNCHANGED <<now, sockClosed, pipeVars, async, timers, dialVars, lActive, histVars>>

\* the accept loop, back from addPipe, finds the listener closed
ServeStop(l) ==
  /\ lst[l] = "accepting" /\ lClosed[l]
  /\ lst' = [lst EXCEPT ![l] = "stopped"]
  /\ UNCHANGED <<now, sockClosed, pipeVars, async, timers, dialVars, lClosed, lActive, histVars>>

-----------------------------------------------------------------------------
(* socket.Close: listeners, dialers, protocol, then every listed pipe.       *)
(* SockClose is the whole call as one step: what the trace specification     *)
(* uses (on the virtual transport no endpoint Close ever waits, and the       *)
(* drivers issue nothing while Close runs).  The steps of the call follow     *)
(* (SockCloseBegin ... SockCloseAll): NextFine / SpecFine interleave them     *)
(* with everything else - a connection accepted, a dial completing, a hook    *)
(* running while Close is half-way.                                           *)
SockClose ==
  /\ sockClosed = "open"
  /\ sockClosed' = "done"
  /\ dClosed' = [d \in Dialer |-> TRUE]
  /\ timers' = {t \in timers : ~t.stored}
  /\ lClosed' = [l \in Listener |-> TRUE]
  /\ lst' = [l \in Listener |-> IF lst[l] = "accepting" THEN "stopped" ELSE lst[l]]
  /\ async' = async \cup {<<"close", p>> : p \in {q \in listed : ~closeStarted[q]}}
  /\ UNCHANGED <<now, pipeVars, dActive, reconn, dst, dRedial, dSync, lActive, histVars>>

\* s.closed = true under the socket lock; the endpoint lists are taken
SockCloseBegin ==
  /\ sockClosed = "open"
  /\ sockClosed' = "eps"
  /\ UNCHANGED <<now, pipeVars, async, timers, dialVars, lisVars, histVars>>
\* for _, l := range listeners { l.Close() }
SockCloseL(l) ==
  /\ sockClosed = "eps" /\ ~lClosed[l]
  /\ ListenerCloseEff(l)
  /\ UNCHANGED <<now, sockClosed, pipeVars, async, timers, dialVars, lActive, histVars>>
\* for _, d := range dialers { d.Close() }   (after the listeners)
SockCloseD(d) ==
  /\ sockClosed = "eps" /\ (\A l \in Listener : lClosed[l]) /\ ~dClosed[d]
  /\ DialerCloseEff(d)
  /\ UNCHANGED <<now, sockClosed, pipeVars, async, dActive, reconn, dst, dRedial, dSync, lisVars, histVars>>
\* s.proto.Close(): from here on the protocol refuses every pipe (ProtoVerdictOK)
SockCloseProto ==
  /\ sockClosed = "eps" /\ (\A l \in Listener : lClosed[l]) /\ (\A d \in Dialer : dClosed[d])
  /\ sockClosed' = "proto"
  /\ UNCHANGED <<now, pipeVars, async, timers, dialVars, lisVars, histVars>>
\* s.pipes.CloseAll(): every pipe listed at this moment
SockCloseAll ==
  /\ sockClosed = "proto"
  /\ sockClosed' = "done"
  /\ async' = async \cup {<<"close", p>> : p \in {q \in listed : ~closeStarted[q]}}
  /\ UNCHANGED <<now, pipeVars, timers, dialVars, lisVars, histVars>>
\* the verdict of a protocol that has been closed
ProtoVerdictOK(accept) == sockClosed \in {"proto", "done"} => ~accept

RunClose(p) == <<"close", p>> \in async /\ CloseBegin(p)

-----------------------------------------------------------------------------
\* Internal (library) steps: everything that happens without the environment.
CanInternal ==
  \/ \E p \in Pipe :
       \/ pst[p] = "check"
       \/ pst[p] = "attachedHook"
       \/ pst[p] = "new"
       \/ closeStarted[p] /\ ~closing[p]
       \/ CanNotice(p)
       \/ <<"close", p>> \in async
       \/ <<"detached", p>> \in async
       \/ <<"idfree", p>> \in async
  \/ \E d \in Dialer :
       \/ <<"redial", d>> \in async /\ dst[d] = "idle"
       \/ dst[d] = "want"
       \/ <<"pconn", d>> \in async
       \/ \E p \in Pipe : <<"pclosed", d, p>> \in async
  \/ \E l \in Listener : lst[l] = "accepting" /\ lClosed[l]
  \/ sockClosed \in {"eps", "proto"}      \* a Close that is half-way goes on

\* environment / application steps for the exhaustive model (hooks just
\* return; a hook that closes its pipe is HookClose below)
HookClose(p) == pst[p] \in {"attaching", "attachedRun"} /\ CloseBegin(p)
AppClose(p)  == pst[p] = "live" /\ CloseBegin(p)

NextCore ==
  \/ \E p \in Pipe :
       \/ HookAttaching(p) \/ HookAttachingRet(p) \/ HookAttached(p) \/ HookAttachedRet(p)
       \/ \E a \in BOOLEAN : AddPipeCheck(p, a)
       \/ CloseLocked(p) \/ RunDetached(p) \/ RunIdFree(p) \/ PeerDrop(p) \/ NoticeDrop(p)
       \/ RunClose(p) \/ CloseNoop(p) \/ HookClose(p) \/ AppClose(p)
  \/ \E d \in Dialer :
       \/ \E r \in {"ok", "pending", "ErrAddrInUse", "ErrClosed"} : DialCall(d, r)
       \/ RunRedial(d) \/ DialAbort(d) \/ DialBegin(d)
       \/ \E p \in Pipe : DialOK(d, p) \/ RunPipeClosed(d, p)
       \/ \E r2 \in 0..(IF MaxT(d) = 0 THEN MinT(d) ELSE MaxT(d)) : DialFail(d, r2)
       \/ RunPipeConnected(d)
       \/ \E r \in {"ok", "ErrClosed"} : DialerClose(d, r)
  \/ \E tm \in timers : Fire(tm)
  \/ \E l \in Listener :
       \/ \E te \in {"ok", "ErrAddrInUse"}, r \in {"ok", "ErrClosed", "ErrAddrInUse"} : ListenCall(l, te, r)
       \/ \E p \in Pipe : Accept(l, p)
       \/ \E r \in {"ok", "ErrClosed"} : ListenerClose(l, r)
       \/ ServeStop(l)
  \/ SockClose

Next == NextCore /\ UNCHANGED opt

Spec == Init /\ [][Next]_vars

\* the same with socket.Close step by step and a closed protocol refusing
NextFine ==
  \/ \E p \in Pipe :
       \/ HookAttaching(p) \/ HookAttachingRet(p) \/ HookAttached(p) \/ HookAttachedRet(p)
       \/ \E a \in BOOLEAN : ProtoVerdictOK(a) /\ AddPipeCheck(p, a)
       \/ CloseLocked(p) \/ RunDetached(p) \/ RunIdFree(p) \/ PeerDrop(p) \/ NoticeDrop(p)
       \/ RunClose(p) \/ CloseNoop(p) \/ HookClose(p) \/ AppClose(p)
  \/ \E d \in Dialer :
       \/ \E r \in {"ok", "pending", "ErrAddrInUse", "ErrClosed"} : DialCall(d, r)
       \/ RunRedial(d) \/ DialAbort(d) \/ DialBegin(d)
       \/ \E p \in Pipe : DialOK(d, p) \/ RunPipeClosed(d, p)
       \/ \E r2 \in 0..(IF MaxT(d) = 0 THEN MinT(d) ELSE MaxT(d)) : DialFail(d, r2)
       \/ RunPipeConnected(d)
       \/ \E r \in {"ok", "ErrClosed"} : DialerClose(d, r)
       \/ SockCloseD(d)
  \/ \E tm \in timers : Fire(tm)
  \/ \E l \in Listener :
       \/ \E te \in {"ok", "ErrAddrInUse"}, r \in {"ok", "ErrClosed", "ErrAddrInUse"} : ListenCall(l, te, r)
       \/ \E p \in Pipe : Accept(l, p)
       \/ \E r \in {"ok", "ErrClosed"} : ListenerClose(l, r)
       \/ ServeStop(l)
       \/ SockCloseL(l)
  \/ SockCloseBegin \/ SockCloseProto \/ SockCloseAll
SpecFine == Init /\ [][NextFine /\ UNCHANGED opt]_vars

\* weak fairness on the library's own steps (not on the environment)
Fairness ==
  /\ \A p \in Pipe :
       /\ WF_vars((HookAttaching(p)) /\ UNCHANGED opt) /\ WF_vars((HookAttachingRet(p)) /\ UNCHANGED opt)
       /\ WF_vars((HookAttached(p)) /\ UNCHANGED opt) /\ WF_vars((HookAttachedRet(p)) /\ UNCHANGED opt)
       /\ WF_vars((\E a \in BOOLEAN : AddPipeCheck(p, a)) /\ UNCHANGED opt)
       /\ WF_vars((CloseLocked(p)) /\ UNCHANGED opt) /\ WF_vars((RunDetached(p)) /\ UNCHANGED opt) /\ WF_vars((RunIdFree(p)) /\ UNCHANGED opt)
       /\ WF_vars((NoticeDrop(p)) /\ UNCHANGED opt) /\ WF_vars((RunClose(p)) /\ UNCHANGED opt) /\ WF_vars((CloseNoop(p)) /\ UNCHANGED opt)
  /\ \A d \in Dialer :
       /\ WF_vars((RunRedial(d)) /\ UNCHANGED opt) /\ WF_vars((DialAbort(d)) /\ UNCHANGED opt) /\ WF_vars((DialBegin(d)) /\ UNCHANGED opt)
       /\ WF_vars((RunPipeConnected(d)) /\ UNCHANGED opt) /\ WF_vars((\E p \in Pipe : RunPipeClosed(d, p)) /\ UNCHANGED opt)
  /\ WF_vars((\E tm \in timers : Fire(tm)) /\ UNCHANGED opt)
  /\ \A l \in Listener : WF_vars((ServeStop(l)) /\ UNCHANGED opt)
FairSpec == Spec /\ Fairness

-----------------------------------------------------------------------------
(* Properties *)

IsPrefixOf(s, t) == Len(s) <= Len(t) /\ \A i \in 1..Len(s) : s[i] = t[i]

\* C13: per pipe the hook sees a prefix-closed word of
\*      Attaching (Attached? Detached)?   with Detached only if admitted
HookWords == { <<>>, <<"attaching">>, <<"attaching", "attached">>,
               <<"attaching", "attached", "detached">>,
               <<"attaching", "detached">>,                \* Attached "is being" reported
               <<"attaching", "detached", "attached">> }   \* ... and arrives after Detached
HookLanguage == \A p \in Pipe : hookLog[p] \in HookWords

\* Detached is reported iff the pipe was admitted (Attached reported or in progress)
DetachedOnlyIfAdmitted ==
  \A p \in Pipe : (\E i \in 1..Len(hookLog[p]) : hookLog[p][i] = "detached") => added[p]
AttachedOnlyIfAdmitted ==
  \A p \in Pipe : (\E i \in 1..Len(hookLog[p]) : hookLog[p][i] = "attached") => added[p]
\* refused / closed-in-Attaching pipes get neither
RejectedGetNeither ==
  \A p \in Pipe : pst[p] \in {"refused", "abandoned"} => hookLog[p] = <<"attaching">>

\* the protocol is told of arrival and departure at most once each, departure only after arrival
ProtoWords == { <<>>, <<"add">>, <<"add", "rem">>, <<"refuse">> }
ProtoOnceEach == \A p \in Pipe : protoLog[p] \in ProtoWords

\* the id is held from newPipe until the Detached callback has returned
IdHeld ==
  \A p \in Pipe :
    /\ (pst[p] # "unborn" /\ ~closing[p]) => p \in ids
    /\ (<<"detached", p>> \in async \/ <<"idfree", p>> \in async) => p \in ids
\* listed pipes hold ids
ListedHaveIds == listed \subseteq ids

\* C10 (core part): once everything is closed and the deferred work has run, nothing remains
AllQuiet == ~CanInternal /\ async = {} /\ \A d \in Dialer : dst[d] \in {"idle"}
NothingRemains ==
  (sockClosed = "done" /\ AllQuiet /\ timers = {} /\ \A p \in Pipe : pst[p] \in {"unborn", "live", "refused", "abandoned"} /\ (pst[p] # "unborn" => closeStarted[p]))
     => (ids = {} /\ listed = {})

\* C10 / C13: once Close has done its last step and nothing moves, no connection of the socket is left open -
\* whatever was accepted, dialled or inside a hook while Close was under way (SpecFine; needs ProtoVerdictOK)
\* (a dial that was in flight when Close ran may complete afterwards: its pipe is refused by the closed protocol as
\* soon as its Attaching callback returns - "at rest" therefore also means that no callback is running)
AllClosedAtRest ==
  (sockClosed = "done" /\ AllQuiet /\ \A p \in Pipe : pst[p] \notin {"attaching", "attachedRun"})
     => \A p \in Pipe : pst[p] # "unborn" => closeStarted[p]

\* C14: no attempt after close: DialBegin is never taken when the dialer is closed
NoAttemptAfterClose ==
  [][\A d \in Dialer : (dst[d] # "dialing" /\ dst'[d] = "dialing") => ~dClosed[d]]_vars

\* C14: delays stay within [MinT, max(MinT, MaxT)]
DelayBounds == \A d \in Dialer : reconn[d] >= MinT(d) /\ (MaxT(d) # 0 => reconn[d] <= Max2(MinT(d), MaxT(d))) /\ (MaxT(d) = 0 => reconn[d] = MinT(d))

\* C14 spacing: an attempt that is not the first follows the previous
\* failure / loss by at least the delay that was in force then
Spacing ==
  \A d \in Dialer : \A i \in 2..Len(dialLog[d]) :
     (dialLog[d][i][1] = "attempt" /\ dialLog[d][i-1][1] \in {"fail", "lost"})
        => dialLog[d][i][2] >= dialLog[d][i-1][2] + dialLog[d][i-1][3]

\* C14/C12: a dialer that is open, started with redial semantics, without pipe
\* and without attempt in progress always has a retry pending
Live(p) == pst[p] # "unborn" /\ ~closing[p] /\ ~(pst[p] \in {"refused"} /\ closeStarted[p])
RetryPending(d) ==
  \/ dst[d] # "idle"
  \/ \E t \in timers : t.d = d
  \/ <<"redial", d>> \in async
  \/ \E p \in Pipe : <<"pclosed", d, p>> \in async \/ <<"close", p>> \in async
  \/ \E p \in Pipe : owner[p] = d /\ pst[p] # "unborn" /\ ~closing[p]
Started(d) == \E i \in 1..Len(dialLog[d]) : dialLog[d][i][1] \in {"ok"} \/ (Asynch(d) /\ dActive[d])
Reconnects == \A d \in Dialer : (~dClosed[d] /\ dActive[d] /\ (Asynch(d) \/ \E i \in 1..Len(dialLog[d]) : dialLog[d][i][1] = "ok")) => RetryPending(d)

\* C12: a synchronous Dial that failed leaves the dialer diallable again
SyncFailRetryable == \A d \in Dialer : (~Asynch(d) /\ dst[d] = "idle" /\ dialLog[d] # <<>> /\ \A i \in 1..Len(dialLog[d]) : dialLog[d][i][1] # "ok") => ~dActive[d]

-----------------------------------------------------------------------------
(* Liveness, checked by TLC under fairness (Core_live_*.cfg).  The library's own steps are weakly fair - goroutines  *)
(* run, callbacks return, a Close that has begun goes on -, the environment (peers, the application, the network)   *)
(* is not.  These are the "eventually" halves of C13 (every admitted connection's Detached is reported, its id is   *)
(* released), C10 (Close returns; afterwards nothing is left) and C14 (a started dialer that lost its connection    *)
(* tries again unless closed).  On executions the same facts are decided at the quiescent points (q lines); here    *)
(* TLC looks for a fair cycle of the library's own steps on which they never come true.                             *)
InLog(p, w) == \E i \in 1..Len(hookLog[p]) : hookLog[p][i] = w
FairnessClose ==
  /\ WF_vars((SockCloseProto) /\ UNCHANGED opt) /\ WF_vars((SockCloseAll) /\ UNCHANGED opt)
  /\ \A l \in Listener : WF_vars((SockCloseL(l)) /\ UNCHANGED opt)
  /\ \A d \in Dialer : WF_vars((SockCloseD(d)) /\ UNCHANGED opt)
FairSpecFine == SpecFine /\ Fairness /\ FairnessClose

\* C13: an admitted connection is reported Attached; once it is closed (by anybody), Detached is reported and the id released
AttachedReported == \A p \in Pipe : added[p] ~> InLog(p, "attached")
DetachedFollows  == \A p \in Pipe : (added[p] /\ closeStarted[p]) ~> InLog(p, "detached")
IdReleased       == \A p \in Pipe : closeStarted[p] ~> (p \notin ids /\ p \notin listed)
\* a connection whose peer went away is closed by the library itself
DropNoticed      == \A p \in Pipe : (added[p] /\ ~tranOpen[p]) ~> closing[p]
\* C10: Close, once begun, finishes; after it every connection the socket ever had is closed and nothing is held
CloseFinishes    == (sockClosed # "open") ~> (sockClosed = "done")
CloseReleases    == (sockClosed = "done") ~> (ids = {} /\ listed = {} /\ \A p \in Pipe : pst[p] # "unborn" => closing[p])
\* addPipe returns (the accept loop / the Dial call gets control back) whatever happens to the connection meanwhile
AddPipeReturns   == \A p \in Pipe : (pst[p] # "unborn") ~> AddPipeDone(p)
\* C14: a dialer that lost its connection dials again, unless it is closed
LostAt(d, i) == i \in 1..Len(dialLog[d]) /\ dialLog[d][i][1] = "lost"
Redials == \A d \in Dialer : \A i \in 1..8 :
   LostAt(d, i) ~> (dClosed[d] \/ \E j \in (i+1)..Len(dialLog[d]) : dialLog[d][j][1] = "attempt")
\* C14: a closed dialer comes to rest: no attempt in progress, no timer, no goroutine of its own
\* (an attempt that is inside the transport's Dial when the dialer is closed ends when the transport says so: environment)
ClosedDialerRests == \A d \in Dialer : (dClosed[d] /\ dst[d] # "dialing") ~> (dst[d] \in {"idle", "adding", "dialing"} /\ <<"redial", d>> \notin async)

TypeOK ==
  /\ pst \in [Pipe -> PST]
  /\ sockClosed \in {"open", "eps", "proto", "done"}
  /\ ids \subseteq Pipe /\ listed \subseteq Pipe
  /\ \A d \in Dialer : dst[d] \in {"idle", "want", "dialing", "adding"}
  /\ \A l \in Listener : lst[l] \in {"off", "accepting", "adding", "stopped"}
=============================================================================
