-------------------------------- MODULE Inproc --------------------------------
(***************************************************************************)
(* transport/inproc: the in-process transport.  A global table of          *)
(* listeners by address; a listener's accept loop offers "accepters"        *)
(* (half-made server pipes); a Dial takes one, or waits (no time limit) on  *)
(* the global condition variable until one is offered or the address is     *)
(* gone.  One action per lock region.                                      *)
(*                                                                         *)
(* Serves C10 (closing a listener affects only that object, wakes what      *)
(* waits on it, frees the address), C12 (address in use, refused dials      *)
(* leave everything usable), C13 (each connection is one client end paired  *)
(* with one server end).                                                   *)
(***************************************************************************)
EXTENDS Integers, Sequences, FiniteSets

CONSTANTS Lst,      \* listener objects
          Dlr,      \* dialing threads
          Acc,      \* accepting threads (each works for one listener at a time)
          Addr, AddrOf,   \* addresses, and the address each listener / dialer is for
          ProtoOK,  \* ProtoOK[d][l]: the dialer's socket and the listener's socket are protocol compatible
          NULL

VARIABLES bound,    \* Addr -> listener registered there, or NULL
          lst,      \* Lst -> [active, closed]
          offers,   \* Lst -> sequence of accepting threads with a server end on offer
          acc,      \* Acc -> [st: "idle" | "waiting" | "got" | "err", l, peer]
          dial,     \* Dlr -> [st: "idle" | "waiting" | "got" | "refused" | "badproto", peer]
          pairs     \* set of <<dialer thread, accepting thread>> connections made
vars == <<bound, lst, offers, acc, dial, pairs>>

Init == /\ bound = [a \in Addr |-> NULL]
        /\ lst = [l \in Lst |-> [active |-> FALSE, closed |-> FALSE]]
        /\ offers = [l \in Lst |-> <<>>]
        /\ acc = [t \in Acc |-> [st |-> "idle", l |-> NULL, peer |-> NULL]]
        /\ dial = [d \in Dlr |-> [st |-> "idle", peer |-> NULL]]
        /\ pairs = {}

\* Listen(l) -> r
Listen(l, r) ==
  /\ IF lst[l].closed THEN r = "ErrClosed" /\ UNCHANGED <<bound, lst>>
     ELSE IF bound[AddrOf[l]] # NULL THEN r = "ErrAddrInUse" /\ UNCHANGED <<bound, lst>>
     ELSE /\ r = "ok"
          /\ bound' = [bound EXCEPT ![AddrOf[l]] = l]
          /\ lst' = [lst EXCEPT ![l].active = TRUE]
  /\ UNCHANGED <<offers, acc, dial, pairs>>

\* Accept(l) by thread t, first lock region: refuse, or put a server end on offer and wait
AcceptStart(t, l) ==
  /\ acc[t].st \in {"idle", "got", "err"}
  /\ IF ~lst[l].active \/ lst[l].closed
     THEN acc' = [acc EXCEPT ![t] = [st |-> "err", l |-> l, peer |-> NULL]] /\ UNCHANGED offers
     ELSE /\ acc' = [acc EXCEPT ![t] = [st |-> "waiting", l |-> l, peer |-> NULL]]
          /\ offers' = [offers EXCEPT ![l] = Append(@, t)]
  /\ UNCHANGED <<bound, lst, dial, pairs>>

\* Dial by thread d: one pass of its loop under the lock
DialTry(d) ==
  /\ dial[d].st \in {"idle", "waiting", "refused", "badproto", "got"}
  /\ LET l == bound[AddrOf[d]] IN
     IF l = NULL THEN /\ dial' = [dial EXCEPT ![d] = [st |-> "refused", peer |-> NULL]]
                      /\ UNCHANGED <<offers, acc, pairs>>
     ELSE IF ~ProtoOK[d][l] THEN /\ dial' = [dial EXCEPT ![d] = [st |-> "badproto", peer |-> NULL]]
                                 /\ UNCHANGED <<offers, acc, pairs>>
     ELSE IF offers[l] # <<>>
          THEN LET t == offers[l][Len(offers[l])] IN             \* the newest offer is taken
               /\ offers' = [offers EXCEPT ![l] = SubSeq(@, 1, Len(@) - 1)]
               /\ dial' = [dial EXCEPT ![d] = [st |-> "got", peer |-> t]]
               /\ acc' = [acc EXCEPT ![t].st = "got", ![t].peer = d]
               /\ pairs' = pairs \cup {<<d, t>>}
          ELSE /\ dial' = [dial EXCEPT ![d] = [st |-> "waiting", peer |-> NULL]]     \* cv.Wait
               /\ UNCHANGED <<offers, acc, pairs>>
  /\ UNCHANGED <<bound, lst>>

\* Close(l): the address is freed (if it is this listener's), everybody waiting in Accept on it fails
CloseL(l) ==
  /\ bound' = [a \in Addr |-> IF bound[a] = l THEN NULL ELSE bound[a]]
  /\ lst' = [lst EXCEPT ![l].closed = TRUE]
  /\ acc' = [t \in Acc |-> IF acc[t].st = "waiting" /\ acc[t].l = l THEN [acc[t] EXCEPT !.st = "err"] ELSE acc[t]]
  /\ offers' = [offers EXCEPT ![l] = <<>>]
  /\ UNCHANGED <<dial, pairs>>

\* ------------------------------------------------------------------------
\* a dialer that waits can make progress exactly when its loop would not wait again
DialCanMove(d) == dial[d].st = "waiting" /\
                  LET l == bound[AddrOf[d]] IN IF l = NULL THEN TRUE ELSE (IF ~ProtoOK[d][l] THEN TRUE ELSE offers[l] # <<>>)

\* ------------------------------------------------------------------------
\* properties
\* one listener per address, and only active, open ones are registered
OneListener == \A a \in Addr : bound[a] # NULL => (AddrOf[bound[a]] = a /\ lst[bound[a]].active /\ ~lst[bound[a]].closed)
\* a connection is exactly one client end with exactly one server end, made between compatible sockets on the same address
Pairing == /\ \A p, q \in pairs : (p[2] = q[2]) => p = q          \* a server end goes to one dialer only
           /\ \A p \in pairs : acc[p[2]].l # NULL /\ AddrOf[p[1]] = AddrOf[acc[p[2]].l] /\ ProtoOK[p[1]][acc[p[2]].l]
\* an offer on the table belongs to a thread that is waiting in Accept on that very listener, once
OffersAreWaiters == \A l \in Lst : \A i \in 1..Len(offers[l]) :
                       /\ acc[offers[l][i]].st = "waiting" /\ acc[offers[l][i]].l = l
                       /\ \A j \in 1..Len(offers[l]) : i # j => offers[l][i] # offers[l][j]
\* nobody waits in Accept on a closed listener
NoWaiterOnClosed == \A t \in Acc : acc[t].st = "waiting" => ~lst[acc[t].l].closed
=============================================================================
