-------------------------------- MODULE Req --------------------------------
(***************************************************************************)
(* protocol/req of mangos: the cooked REQ socket with contexts.            *)
(*                                                                         *)
(* One action per lock region of req.go:                                   *)
(*   SendCall / SendWake   context.SendMsg (entry region / after cond.Wait)*)
(*   RecvCall / RecvWake   context.RecvMsg                                  *)
(*   Dispatch              one iteration of socket.send() (runs to         *)
(*                         completion under the lock: while it is pending  *)
(*                         no other action is enabled)                     *)
(*   XmitStart / XmitEnd   pipe.sendCtx: the goroutine reaches the         *)
(*                         transport / the transport call returns          *)
(*   Requeue               pipe.sendCtx's lock region after the send       *)
(*   Reply                 pipe.receiver's lock region                     *)
(*   AddPipe / RemovePipe  what the core tells the protocol                *)
(*   ResendRun             context.resendMessage (from a timer or from     *)
(*                         `go c.resendMessage(id)` after a pipe loss)     *)
(*   FireSend / FireRecv   the deadline timers' callbacks                  *)
(*   CtxClose / SockClose                                                  *)
(* Timers the code does not stop (a previous resend timer, the send        *)
(* deadline timer after a successful Send) stay armed and fire.            *)
(*                                                                         *)
(* Messages are identified by the request id issued for them (1..MaxReq,   *)
(* the low bits of the real 0x80000000|n); replies are records             *)
(* [id, hi, tag].                                                          *)
(*                                                                         *)
(* Serves C03 (only the current reply is delivered), C04 (re-send until    *)
(* answered, never after), C10 (close wakes and releases), C18 (deadlines, *)
(* best effort, fail-no-peers).                                            *)
(***************************************************************************)
EXTENDS Integers, Sequences, FiniteSets, TLC

CONSTANTS
  Ctx, Pipe, Thread, NULL,
  MaxReq,        \* bound on issued request ids (model checking only)
  Timed,         \* TRUE: timers carry due times (trace validation); FALSE: timers fire at any time
  InitOpt,       \* [Ctx -> [retry, sendExp, recvExp : Nat, bestEffort, failNoPeers : BOOLEAN]]
  ReplySet       \* replies the environment may inject (model checking only)

VARIABLES
  opt, now,
  sclosed, pipes, pclosed, readyQ, sendQ, ctxById, nextId,
  reqID, reqMsg, sendMsg, repMsg, lastPipe, queued, cclosed, recvWait,
  timers, tserial, curResend, curSend, curRecv,
  inflight, asyncRs,
  call, sendExpired, recvExpired,
  \* history
  issued,      \* [Ctx -> seq of ids accepted by SendCall]
  dead,        \* ids answered / cancelled / closed / timed out
  handed,      \* the last hand-off decided by Dispatch: <<id, pipe, ctx, first transmission?>>
  nHand,       \* number of hand-offs so far
  delivered,   \* seq of <<ctx, reply>> returned by Recv
  injected     \* set of replies injected by peers

ctxVars  == <<reqID, reqMsg, sendMsg, repMsg, lastPipe, queued, cclosed, recvWait>>
sockVars == <<sclosed, pipes, pclosed, readyQ, sendQ, ctxById, nextId>>
timeVars == <<timers, tserial, curResend, curSend, curRecv>>
callVars == <<call, sendExpired, recvExpired>>
histVars == <<issued, dead, handed, nHand, delivered, injected>>
vars == <<opt, now, sockVars, ctxVars, timeVars, inflight, asyncRs, callVars, histVars>>

Retry(c) == opt[c].retry
NoReply == [id |-> 0, hi |-> FALSE, tag |-> 0]

Init ==
  /\ opt = InitOpt /\ now = 0
  /\ sclosed = FALSE /\ pipes = {} /\ pclosed = [p \in Pipe |-> FALSE]
  /\ readyQ = <<>> /\ sendQ = <<>> /\ ctxById = <<>> /\ nextId = 0
  /\ reqID = [c \in Ctx |-> 0] /\ reqMsg = [c \in Ctx |-> 0] /\ sendMsg = [c \in Ctx |-> 0]
  /\ repMsg = [c \in Ctx |-> NoReply] /\ lastPipe = [c \in Ctx |-> NULL]
  /\ queued = [c \in Ctx |-> FALSE] /\ cclosed = [c \in Ctx |-> FALSE] /\ recvWait = [c \in Ctx |-> FALSE]
  /\ timers = {} /\ tserial = 0
  /\ curResend = [c \in Ctx |-> 0] /\ curSend = [c \in Ctx |-> 0] /\ curRecv = [c \in Ctx |-> 0]
  /\ inflight = [p \in Pipe |-> NULL]
  /\ asyncRs = {}
  /\ call = [t \in Thread |-> NULL]
  /\ sendExpired = {} /\ recvExpired = {}
  /\ issued = [c \in Ctx |-> <<>>] /\ dead = {} /\ handed = <<>> /\ nHand = 0 /\ delivered = <<>> /\ injected = {}

-----------------------------------------------------------------------------
\* ctxById is a function from the registered ids (a finite set of Nat) to contexts
Registered == DOMAIN ctxById
MapDel(f, k) == [x \in (DOMAIN f) \ {k} |-> f[x]]
MapPut(f, k, v) == [x \in (DOMAIN f) \cup {k} |-> IF x = k THEN v ELSE f[x]]

SeqRemove(s, x) == SelectSeq(s, LAMBDA y : y # x)
InSeq(s, x) == \E i \in 1..Len(s) : s[i] = x

\* socket.send() has work to do: it runs to completion under the socket lock,
\* so nothing else happens while this is true
DispatchPending == Len(sendQ) # 0 /\ Len(readyQ) # 0

Due(d) == IF Timed THEN now + d ELSE 0

\* timer handles: a record in `timers` with a unique serial; Stop(n) removes it if still armed
Stop(T, n) == {t \in T : t.n # n}

\* ---- context.cancel() as a state function ------------------------------
\* returns the new values of the variables it touches, given context c
CancelSendQ(c) == IF queued[c] THEN SeqRemove(sendQ, c) ELSE sendQ

\* The common effect of cancel(c) on every touched variable, as conjuncts.
\* (sendMsg is NOT cleared by cancel; a blocked SendMsg notices by other means)
CancelEff(C, gone) ==   \* C: set of contexts cancelled in this step; gone: timers that fired
  /\ sendQ' = SelectSeq(sendQ, LAMBDA x : ~(x \in C /\ queued[x]))
  /\ queued' = [c \in Ctx |-> IF c \in C THEN FALSE ELSE queued[c]]
  /\ ctxById' = [x \in Registered \ {reqID[c] : c \in C} |-> ctxById[x]]
  /\ reqID' = [c \in Ctx |-> IF c \in C THEN 0 ELSE reqID[c]]
  /\ repMsg' = [c \in Ctx |-> IF c \in C THEN NoReply ELSE repMsg[c]]
  /\ reqMsg' = [c \in Ctx |-> IF c \in C THEN 0 ELSE reqMsg[c]]
  /\ timers' = {t \in timers \ gone : ~(\E c \in C : t.n \in {curResend[c], curSend[c], curRecv[c]})}
  /\ curResend' = [c \in Ctx |-> IF c \in C THEN 0 ELSE curResend[c]]
  /\ curSend' = [c \in Ctx |-> IF c \in C THEN 0 ELSE curSend[c]]
  /\ curRecv' = [c \in Ctx |-> IF c \in C THEN 0 ELSE curRecv[c]]
  /\ dead' = dead \cup {reqID[c] : c \in {x \in C : reqID[x] # 0}}

-----------------------------------------------------------------------------
(* context.SendMsg *)

\* Entry lock region.  res = "wait" when the call blocks on the condition variable.
SendCall(t, c, res) ==
  /\ ~DispatchPending
  /\ call[t] = NULL
  /\ nextId < MaxReq
  /\ LET id == nextId + 1 IN
     /\ nextId' = id
     /\ IF sclosed \/ cclosed[c]
          THEN /\ res = "ErrClosed"
               /\ UNCHANGED <<sclosed, pipes, pclosed, readyQ, sendQ, ctxById, ctxVars, timeVars, callVars, issued, dead>>
        ELSE IF opt[c].failNoPeers /\ pipes = {}
          THEN /\ res = "ErrNoPeers"
               /\ UNCHANGED <<sclosed, pipes, pclosed, readyQ, sendQ, ctxById, ctxVars, timeVars, callVars, issued, dead>>
        ELSE
          \* cancel(); then reqID, queued, sendMsg, sendQ
          /\ ctxById' = [x \in Registered \ {reqID[c]} |-> ctxById[x]]
          /\ dead' = IF reqID[c] # 0 THEN dead \cup {reqID[c]} ELSE dead
          /\ reqID' = [reqID EXCEPT ![c] = id]
          /\ repMsg' = [repMsg EXCEPT ![c] = NoReply]
          /\ reqMsg' = [reqMsg EXCEPT ![c] = 0]
          /\ sendMsg' = [sendMsg EXCEPT ![c] = id]
          /\ queued' = [queued EXCEPT ![c] = TRUE]
          /\ sendQ' = Append(CancelSendQ(c), c)
          /\ issued' = [issued EXCEPT ![c] = Append(@, id)]
          /\ curResend' = [curResend EXCEPT ![c] = 0]
          /\ curRecv' = [curRecv EXCEPT ![c] = 0]
          /\ LET T0 == {x \in timers : x.n \notin {curResend[c], curSend[c], curRecv[c]}} IN
             IF opt[c].bestEffort
               THEN /\ res = "ok"
                    /\ timers' = T0 /\ curSend' = [curSend EXCEPT ![c] = 0]
                    /\ UNCHANGED <<tserial, call>>
               ELSE /\ res = "wait"
                    /\ call' = [call EXCEPT ![t] = [op |-> "send", c |-> c, id |-> id]]
                    /\ IF opt[c].sendExp > 0
                         THEN /\ tserial' = tserial + 1
                              /\ timers' = T0 \cup {[k |-> "send", c |-> c, id |-> id, due |-> Due(opt[c].sendExp), n |-> tserial + 1]}
                              /\ curSend' = [curSend EXCEPT ![c] = tserial + 1]
                         ELSE /\ timers' = T0 /\ curSend' = [curSend EXCEPT ![c] = 0]
                              /\ UNCHANGED tserial
          /\ UNCHANGED <<sclosed, pipes, pclosed, readyQ, lastPipe, cclosed, recvWait, sendExpired, recvExpired>>
  /\ UNCHANGED <<opt, now, inflight, asyncRs, handed, nHand, delivered, injected>>

\* The blocked SendMsg leaves its wait loop.
SendCanWake(t) ==
  /\ call[t] # NULL /\ call[t].op = "send"
  /\ LET c == call[t].c  id == call[t].id IN
     \* (it also leaves when the request was given up while it was still waiting for a pipe - by the receive timer of
     \* a Recv on the same context: it is no longer queued, nothing would ever dispatch it)
     ~(sendMsg[c] = id /\ queued[c] /\ id \notin sendExpired /\ ~cclosed[c] /\ ~(opt[c].failNoPeers /\ pipes = {}))

SendWake(t, res) ==
  /\ ~DispatchPending
  /\ SendCanWake(t)
  /\ LET c == call[t].c  id == call[t].id IN
     IF sendMsg[c] = id
       THEN /\ sendQ' = CancelSendQ(c)
            /\ queued' = [queued EXCEPT ![c] = FALSE]
            /\ sendMsg' = [sendMsg EXCEPT ![c] = 0]
            /\ reqID' = [reqID EXCEPT ![c] = 0]
            /\ dead' = dead \cup {id}
            /\ res = IF cclosed[c] THEN "ErrClosed"
                     ELSE IF opt[c].failNoPeers /\ pipes = {} THEN "ErrNoPeers"
                     ELSE IF id \in sendExpired THEN "ErrSendTimeout"
                     ELSE "ErrCanceled"
       ELSE /\ res = "ok"
            /\ UNCHANGED <<sendQ, queued, sendMsg, reqID, dead>>
  /\ call' = [call EXCEPT ![t] = NULL]
  /\ UNCHANGED <<opt, now, sclosed, pipes, pclosed, readyQ, ctxById, nextId, reqMsg, repMsg, lastPipe,
                 cclosed, recvWait, timeVars, inflight, asyncRs, sendExpired, recvExpired,
                 issued, handed, nHand, delivered, injected>>

-----------------------------------------------------------------------------
(* socket.send(): one iteration *)
Dispatch ==
  /\ DispatchPending
  /\ LET c == Head(sendQ)
         p == Head(readyQ)
         fresh == sendMsg[c] # 0
         m == IF fresh THEN sendMsg[c] ELSE reqMsg[c] IN
     /\ sendQ' = Tail(sendQ)
     /\ readyQ' = Tail(readyQ)
     /\ queued' = [queued EXCEPT ![c] = FALSE]
     /\ reqMsg' = [reqMsg EXCEPT ![c] = m]
     /\ sendMsg' = [sendMsg EXCEPT ![c] = 0]
     /\ ctxById' = IF fresh THEN MapPut(ctxById, reqID[c], c) ELSE ctxById
     /\ lastPipe' = [lastPipe EXCEPT ![c] = p]
     /\ IF Retry(c) > 0
          THEN /\ tserial' = tserial + 1
               /\ timers' = timers \cup {[k |-> "resend", c |-> c, id |-> reqID[c], due |-> Due(Retry(c)), n |-> tserial + 1]}
               /\ curResend' = [curResend EXCEPT ![c] = tserial + 1]   \* the previous timer is NOT stopped
          ELSE UNCHANGED <<timers, tserial, curResend>>
     /\ inflight' = [inflight EXCEPT ![p] = [id |-> m, st |-> "go"]]   \* go p.sendCtx(c, m)
     /\ handed' = <<m, p, c, fresh>>
     /\ nHand' = nHand + 1
  /\ UNCHANGED <<opt, now, sclosed, pipes, pclosed, nextId, reqID, repMsg, cclosed, recvWait,
                 curSend, curRecv, asyncRs, callVars, issued, dead, delivered, injected>>

\* pipe.sendCtx reaches the transport
XmitStart(p) ==
  /\ inflight[p] # NULL /\ inflight[p].st = "go"
  /\ inflight' = [inflight EXCEPT ![p].st = "tx"]
  /\ UNCHANGED <<opt, now, sockVars, ctxVars, timeVars, asyncRs, callVars, histVars>>

\* the transport call returns (ok: the peer took it; otherwise the pipe failed)
XmitEnd(p, ok) ==
  /\ inflight[p] # NULL /\ inflight[p].st = "tx"
  /\ inflight' = [inflight EXCEPT ![p] = IF ok THEN [id |-> inflight[p].id, st |-> "post"] ELSE NULL]
  /\ UNCHANGED <<opt, now, sockVars, ctxVars, timeVars, asyncRs, callVars, histVars>>

\* pipe.sendCtx: lock region after a successful send: the pipe is ready again
Requeue(p) ==
  /\ ~DispatchPending
  /\ inflight[p] # NULL /\ inflight[p].st = "post"
  /\ inflight' = [inflight EXCEPT ![p] = NULL]
  /\ readyQ' = IF ~sclosed /\ ~pclosed[p] THEN Append(readyQ, p) ELSE readyQ
  /\ UNCHANGED <<opt, now, sclosed, pipes, pclosed, sendQ, ctxById, nextId, ctxVars, timeVars,
                 asyncRs, callVars, histVars>>

-----------------------------------------------------------------------------
(* pipe.receiver: a message from the peer whose first word is w = [id, hi] *)
Promote(q, p) ==   \* swap p with the head of the ready queue
  IF ~InSeq(q, p) THEN q
  ELSE LET i == CHOOSE j \in 1..Len(q) : q[j] = p IN
       [j \in 1..Len(q) |-> IF j = 1 THEN q[i] ELSE IF j = i THEN q[1] ELSE q[j]]

Reply(p, r) ==
  /\ ~DispatchPending
  /\ p \in pipes \/ pclosed[p]     \* the receiver goroutine of an attached pipe
  /\ injected' = injected \cup {r}
  /\ readyQ' = Promote(readyQ, p)
  /\ IF r.hi /\ r.id \in Registered
       THEN LET c == ctxById[r.id] IN
            /\ sendQ' = CancelSendQ(c)
            /\ queued' = [queued EXCEPT ![c] = FALSE]
            /\ reqMsg' = [reqMsg EXCEPT ![c] = 0]
            /\ repMsg' = [repMsg EXCEPT ![c] = r]
            /\ ctxById' = MapDel(ctxById, r.id)
            /\ timers' = {t \in timers : t.n \notin {curResend[c], curRecv[c]}}
            /\ curResend' = [curResend EXCEPT ![c] = 0]
            /\ curRecv' = [curRecv EXCEPT ![c] = 0]
            /\ dead' = dead \cup {r.id}
       ELSE UNCHANGED <<sendQ, queued, reqMsg, repMsg, ctxById, timers, curResend, curRecv, dead>>
  /\ UNCHANGED <<opt, now, sclosed, pipes, pclosed, nextId, reqID, sendMsg, lastPipe, cclosed, recvWait,
                 tserial, curSend, inflight, asyncRs, callVars, issued, handed, nHand, delivered>>

\* a body shorter than 4 bytes is dropped before the lock is taken
ReplyShort(p) == UNCHANGED vars

-----------------------------------------------------------------------------
(* context.RecvMsg *)
RecvCall(t, c, res) ==
  /\ ~DispatchPending
  /\ call[t] = NULL
  /\ IF sclosed \/ cclosed[c] THEN res = "ErrClosed" /\ UNCHANGED <<recvWait, call, timers, tserial, curRecv>>
     ELSE IF opt[c].failNoPeers /\ pipes = {} THEN res = "ErrNoPeers" /\ UNCHANGED <<recvWait, call, timers, tserial, curRecv>>
     ELSE IF recvWait[c] \/ reqID[c] = 0 THEN res = "ErrProtoState" /\ UNCHANGED <<recvWait, call, timers, tserial, curRecv>>
     ELSE /\ res = "wait"
          /\ recvWait' = [recvWait EXCEPT ![c] = TRUE]
          /\ call' = [call EXCEPT ![t] = [op |-> "recv", c |-> c, id |-> reqID[c]]]
          /\ IF opt[c].recvExp > 0
               THEN /\ tserial' = tserial + 1
                    /\ timers' = timers \cup {[k |-> "recv", c |-> c, id |-> reqID[c], due |-> Due(opt[c].recvExp), n |-> tserial + 1]}
                    /\ curRecv' = [curRecv EXCEPT ![c] = tserial + 1]
               ELSE UNCHANGED <<timers, tserial, curRecv>>
  /\ UNCHANGED <<opt, now, sockVars, reqID, reqMsg, sendMsg, repMsg, lastPipe, queued, cclosed,
                 curResend, curSend, inflight, asyncRs, sendExpired, recvExpired, histVars>>

RecvCanWake(t) ==
  /\ call[t] # NULL /\ call[t].op = "recv"
  /\ ~(call[t].id = reqID[call[t].c] /\ repMsg[call[t].c] = NoReply)

\* res is "ok" (with the reply m) or the error
RecvWake(t, res, m) ==
  /\ ~DispatchPending
  /\ RecvCanWake(t)
  /\ LET c == call[t].c  id == call[t].id  mine == (id = reqID[c]) IN
     /\ m = IF mine THEN repMsg[c] ELSE NoReply
     \* only the request this call was waiting for is consumed; a newer one is left alone
     /\ reqID' = IF mine THEN [reqID EXCEPT ![c] = 0] ELSE reqID
     /\ repMsg' = IF mine THEN [repMsg EXCEPT ![c] = NoReply] ELSE repMsg
     /\ recvWait' = [recvWait EXCEPT ![c] = FALSE]
     /\ IF m # NoReply
          THEN /\ res = "ok"
               /\ delivered' = Append(delivered, <<c, m, id>>)
          ELSE /\ res = IF cclosed[c] THEN "ErrClosed"
                        ELSE IF id \in recvExpired THEN "ErrRecvTimeout"
                        ELSE IF opt[c].failNoPeers /\ pipes = {} THEN "ErrNoPeers"
                        ELSE "ErrCanceled"
               /\ UNCHANGED delivered
  /\ call' = [call EXCEPT ![t] = NULL]
  /\ UNCHANGED <<opt, now, sockVars, reqMsg, sendMsg, lastPipe, queued, cclosed, timeVars, inflight, asyncRs,
                 sendExpired, recvExpired, issued, dead, handed, nHand, injected>>

-----------------------------------------------------------------------------
(* what the core tells the protocol *)
AddPipe(p, ok) ==
  /\ ~DispatchPending
  /\ p \notin pipes /\ ~pclosed[p]
  /\ IF sclosed THEN ok = FALSE /\ UNCHANGED <<readyQ, pipes>>
     ELSE /\ ok = TRUE
          /\ readyQ' = Append(readyQ, p)
          /\ pipes' = pipes \cup {p}
  /\ UNCHANGED <<opt, now, sclosed, pclosed, sendQ, ctxById, nextId, ctxVars, timeVars, inflight, asyncRs,
                 callVars, histVars>>

RemovePipe(p) ==
  /\ ~DispatchPending
  /\ p \in pipes
  /\ pclosed' = [pclosed EXCEPT ![p] = TRUE]
  /\ readyQ' = SeqRemove(readyQ, p)
  /\ pipes' = pipes \ {p}
  /\ LET open == {c \in Ctx : ~cclosed[c]}
         noPeer == {c \in open : opt[c].failNoPeers /\ pipes' = {}}
         hit == {c \in open \ noPeer : lastPipe[c] = p /\ reqMsg[c] # 0}
         drop == {c \in hit : Retry(c) = 0}          \* retries disabled: cancel instead of re-sending
         again == hit \ drop
         C == noPeer \cup drop IN
     /\ lastPipe' = [c \in Ctx |-> IF c \in hit THEN NULL ELSE lastPipe[c]]
     /\ asyncRs' = asyncRs \cup {<<c, reqID[c]>> : c \in again}      \* go c.resendMessage(id)
     \* cancel() for C, cancelSend() for `again`
     /\ sendQ' = SelectSeq(sendQ, LAMBDA x : ~(x \in (C \cup again) /\ queued[x]))
     /\ queued' = [c \in Ctx |-> IF c \in C \cup again THEN FALSE ELSE queued[c]]
     /\ ctxById' = [x \in Registered \ {reqID[c] : c \in C} |-> ctxById[x]]
     /\ reqID' = [c \in Ctx |-> IF c \in C THEN 0 ELSE reqID[c]]
     /\ repMsg' = [c \in Ctx |-> IF c \in C THEN NoReply ELSE repMsg[c]]
     /\ reqMsg' = [c \in Ctx |-> IF c \in C THEN 0 ELSE reqMsg[c]]
     /\ timers' = {t \in timers : ~(\E c \in C : t.n \in {curResend[c], curSend[c], curRecv[c]})}
     /\ curResend' = [c \in Ctx |-> IF c \in C THEN 0 ELSE curResend[c]]
     /\ curSend' = [c \in Ctx |-> IF c \in C THEN 0 ELSE curSend[c]]
     /\ curRecv' = [c \in Ctx |-> IF c \in C THEN 0 ELSE curRecv[c]]
     /\ dead' = dead \cup {reqID[c] : c \in {x \in C : reqID[x] # 0}}
  /\ UNCHANGED <<opt, now, sclosed, nextId, sendMsg, cclosed, recvWait, tserial, inflight, callVars,
                 issued, handed, nHand, delivered, injected>>

-----------------------------------------------------------------------------
(* context.resendMessage(id): from `go` after a pipe loss, or from a resend timer *)
ResendEff(c, id) ==
  IF reqID[c] = id /\ reqMsg[c] # 0 /\ ~queued[c]
    THEN /\ queued' = [queued EXCEPT ![c] = TRUE]
         /\ sendQ' = Append(sendQ, c)
    ELSE UNCHANGED <<queued, sendQ>>

ResendRun(c, id) ==
  /\ ~DispatchPending
  /\ <<c, id>> \in asyncRs
  /\ asyncRs' = asyncRs \ {<<c, id>>}
  /\ ResendEff(c, id)
  /\ UNCHANGED <<opt, now, sclosed, pipes, pclosed, readyQ, ctxById, nextId, reqID, reqMsg, sendMsg, repMsg,
                 lastPipe, cclosed, recvWait, timeVars, inflight, callVars, histVars>>

\* Timer firing.  In timed mode timers fire in due order and move the clock.
MinDue == CHOOSE m \in {t.due : t \in timers} : \A t \in timers : m <= t.due
CanFire(tm) == tm \in timers /\ (Timed => tm.due = MinDue)
Tick(tm) == now' = IF Timed /\ tm.due > now THEN tm.due ELSE now

FireResend(tm) ==
  /\ ~DispatchPending
  /\ CanFire(tm) /\ tm.k = "resend"
  /\ Tick(tm)
  /\ timers' = timers \ {tm}
  /\ ResendEff(tm.c, tm.id)
  /\ UNCHANGED <<opt, sclosed, pipes, pclosed, readyQ, ctxById, nextId, reqID, reqMsg, sendMsg, repMsg,
                 lastPipe, cclosed, recvWait, tserial, curResend, curSend, curRecv, inflight, asyncRs,
                 callVars, histVars>>

\* send deadline callback: if c.sendMsg == m { expired = true; c.cancel() }
FireSend(tm) ==
  /\ ~DispatchPending
  /\ CanFire(tm) /\ tm.k = "send"
  /\ Tick(tm)
  /\ IF sendMsg[tm.c] = tm.id
       THEN /\ sendExpired' = sendExpired \cup {tm.id}
            /\ CancelEff({tm.c}, {tm})
            /\ UNCHANGED tserial
       ELSE /\ timers' = timers \ {tm}
            /\ UNCHANGED <<sendExpired, sendQ, queued, ctxById, reqID, repMsg, reqMsg, curResend, curSend, curRecv, dead, tserial>>
  /\ UNCHANGED <<opt, sclosed, pipes, pclosed, readyQ, nextId, sendMsg, lastPipe, cclosed, recvWait,
                 inflight, asyncRs, call, recvExpired, issued, handed, nHand, delivered, injected>>

\* receive deadline callback: if c.reqID == id { expired = true; c.cancel() }
FireRecv(tm) ==
  /\ ~DispatchPending
  /\ CanFire(tm) /\ tm.k = "recv"
  /\ Tick(tm)
  /\ IF reqID[tm.c] = tm.id
       THEN /\ recvExpired' = recvExpired \cup {tm.id}
            /\ CancelEff({tm.c}, {tm})
            /\ UNCHANGED tserial
       ELSE /\ timers' = timers \ {tm}
            /\ UNCHANGED <<recvExpired, sendQ, queued, ctxById, reqID, repMsg, reqMsg, curResend, curSend, curRecv, dead, tserial>>
  /\ UNCHANGED <<opt, sclosed, pipes, pclosed, readyQ, nextId, sendMsg, lastPipe, cclosed, recvWait,
                 inflight, asyncRs, call, sendExpired, issued, handed, nHand, delivered, injected>>

-----------------------------------------------------------------------------
CtxClose(c, res) ==
  /\ ~DispatchPending
  /\ IF cclosed[c] THEN res = "ErrClosed" /\ UNCHANGED <<cclosed, sendQ, queued, ctxById, reqID, repMsg, reqMsg, timers, curResend, curSend, curRecv, dead>>
     ELSE /\ res = "ok"
          /\ cclosed' = [cclosed EXCEPT ![c] = TRUE]
          /\ CancelEff({c}, {})
  /\ UNCHANGED <<opt, now, sclosed, pipes, pclosed, readyQ, nextId, sendMsg, lastPipe, recvWait, tserial,
                 inflight, asyncRs, callVars, issued, handed, nHand, delivered, injected>>

SockClose(res) ==
  /\ ~DispatchPending
  /\ IF sclosed THEN res = "ErrClosed" /\ UNCHANGED <<sclosed, cclosed, sendQ, queued, ctxById, reqID, repMsg, reqMsg, timers, curResend, curSend, curRecv, dead>>
     ELSE /\ res = "ok"
          /\ sclosed' = TRUE
          /\ cclosed' = [c \in Ctx |-> TRUE]
          /\ CancelEff({c \in Ctx : ~cclosed[c]}, {})
  /\ UNCHANGED <<opt, now, pipes, pclosed, readyQ, nextId, sendMsg, lastPipe, recvWait, tserial,
                 inflight, asyncRs, callVars, issued, handed, nHand, delivered, injected>>

-----------------------------------------------------------------------------
\* Is any library-internal step enabled?  (Quiescence = none.)
CanInternal ==
  \/ DispatchPending
  \/ \E p \in Pipe : inflight[p] # NULL /\ inflight[p].st \in {"go", "post"}
  \/ asyncRs # {}
  \/ \E t \in Thread : SendCanWake(t) \/ RecvCanWake(t)

Next ==
  \/ Dispatch
  \/ \E t \in Thread, c \in Ctx :
       \/ \E r \in {"ok", "wait", "ErrClosed", "ErrNoPeers"} : SendCall(t, c, r)
       \/ \E r \in {"wait", "ErrClosed", "ErrNoPeers", "ErrProtoState"} : RecvCall(t, c, r)
  \/ \E t \in Thread :
       \/ \E r \in {"ok", "ErrClosed", "ErrNoPeers", "ErrSendTimeout", "ErrCanceled"} : SendWake(t, r)
       \/ \E r \in {"ok", "ErrClosed", "ErrNoPeers", "ErrRecvTimeout", "ErrCanceled"} :
            \E m \in ReplySet \cup {NoReply} : RecvWake(t, r, m)
  \/ \E p \in Pipe :
       \/ XmitStart(p) \/ \E ok \in BOOLEAN : XmitEnd(p, ok)
       \/ Requeue(p)
       \/ \E r \in ReplySet : Reply(p, r)
       \/ \E ok \in BOOLEAN : AddPipe(p, ok)
       \/ RemovePipe(p)
  \/ \E x \in asyncRs : ResendRun(x[1], x[2])
  \/ \E tm \in timers : FireResend(tm) \/ FireSend(tm) \/ FireRecv(tm)
  \/ \E c \in Ctx, r \in {"ok", "ErrClosed"} : CtxClose(c, r)
  \/ \E r \in {"ok", "ErrClosed"} : SockClose(r)

Spec == Init /\ [][Next]_vars

Fairness ==
  /\ WF_vars(Dispatch)
  /\ \A p \in Pipe : WF_vars(XmitStart(p)) /\ WF_vars(XmitEnd(p, TRUE)) /\ WF_vars(Requeue(p))
  /\ \A t \in Thread : WF_vars(\E r \in {"ok", "ErrClosed", "ErrNoPeers", "ErrSendTimeout", "ErrCanceled"} : SendWake(t, r))
  /\ \A t \in Thread : WF_vars(\E r \in {"ok", "ErrClosed", "ErrNoPeers", "ErrRecvTimeout", "ErrCanceled"} :
                                  \E m \in ReplySet \cup {NoReply} : RecvWake(t, r, m))
  /\ WF_vars(\E x \in asyncRs : ResendRun(x[1], x[2]))
  /\ WF_vars(\E tm \in timers : FireResend(tm))
FairSpec == Spec /\ Fairness

-----------------------------------------------------------------------------
(* Properties *)

\* C03: a registered id belongs to the context whose current, retained request it is
MappingSound ==
  \A id \in Registered : LET c == ctxById[id] IN reqID[c] = id /\ reqMsg[c] = id
\* a stored reply answers the current request
ReplyIsCurrent == \A c \in Ctx : repMsg[c] # NoReply => (repMsg[c].hi /\ repMsg[c].id = reqID[c])
\* every delivered reply was injected by a peer, carries the request bit, and answers the most
\* recent request the context had issued when it was delivered
Last(s) == s[Len(s)]
DeliveredIsCurrent ==
  \A i \in 1..Len(delivered) :
    LET c == delivered[i][1]  r == delivered[i][2] IN
    r \in injected /\ r.hi /\ r.id = delivered[i][3] /\ InSeq(issued[c], r.id)
\* at most one reply per request
AtMostOneReply ==
  \A i, j \in 1..Len(delivered) : i # j => delivered[i][2].id # delivered[j][2].id
\* the delivered request was the most recent one issued by that context at that moment:
\* checked as an action property
DeliveredMostRecent ==
  [][\A i \in 1..Len(delivered') : i > Len(delivered) =>
        delivered'[i][2].id = Last(issued[delivered'[i][1]])]_vars

\* C04: nothing is handed to a pipe once it is answered, cancelled or closed
NoDeadDispatch ==
  [][nHand' > nHand => handed'[1] \notin dead]_vars
\* a request in the send queue is a live one
QueuedIsLive == \A i \in 1..Len(sendQ) : LET c == sendQ[i] IN queued[c] /\ (sendMsg[c] # 0 \/ reqMsg[c] # 0)
\* retries disabled: no hand-off of an id other than the first one
NoRetryNoResend ==
  [][(nHand' > nHand /\ ~handed'[4]) => Retry(handed'[3]) > 0]_vars
\* one pipe per transmission and a pipe carries one transmission at a time
ReadyNotBusy == \A i \in 1..Len(readyQ) : inflight[readyQ[i]] = NULL \/ inflight[readyQ[i]].st = "post"
ReadyDistinct == \A i, j \in 1..Len(readyQ) : i # j => readyQ[i] # readyQ[j]

\* C04 "re-sends until a peer answers" as state predicates of the quiescent states (the library has nothing left to
\* do on its own): every outstanding request is accounted for - waiting in the send queue (no connection is ready),
\* or handed to a connection the protocol still has - and, when it retries, a timer that will re-send it is armed.
\* Together with the run-to-completion of the internal steps this is what the trace validation's quiescence lines
\* check on executions; here TLC checks it in every reachable state of the model.
OutstandingReq(c) == reqID[c] # 0 /\ (sendMsg[c] # 0 \/ reqMsg[c] # 0) /\ ~cclosed[c]
Accounted(c) == queued[c] \/ (reqMsg[c] # 0 /\ lastPipe[c] \in pipes)
NoOrphan == ~CanInternal => \A c \in Ctx : OutstandingReq(c) => Accounted(c)
RetryArmed ==
  ~CanInternal => \A c \in Ctx :
     (OutstandingReq(c) /\ reqMsg[c] # 0 /\ ~queued[c] /\ Retry(c) > 0) =>
        \E tm \in timers : tm.k = "resend" /\ tm.c = c /\ tm.id = reqID[c]
\* a blocked call has a reason to be blocked: a Send is waiting for a connection, a Recv for its reply
BlockedForAReason ==
  ~CanInternal => \A t \in Thread : call[t] # NULL =>
     IF call[t].op = "send" THEN sendMsg[call[t].c] = call[t].id /\ queued[call[t].c] /\ readyQ = <<>>
     ELSE reqID[call[t].c] = call[t].id /\ repMsg[call[t].c] = NoReply

\* C10: after the socket is closed nothing is registered, queued or stored
ClosedIsEmpty == sclosed => (Registered = {} /\ \A c \in Ctx : reqMsg[c] = 0 /\ repMsg[c] = NoReply /\ (reqID[c] = 0 \/ sendMsg[c] # 0))
\* a call blocked on a closed context / socket can leave (promptness is checked on traces)
CloseUnblocks == \A t \in Thread : (call[t] # NULL /\ cclosed[call[t].c]) => (SendCanWake(t) \/ RecvCanWake(t))

\* C04 / C18 liveness, checked by TLC under FairSpec (Req_live.cfg; the library's steps, the resend timers and the peers
\* taking what they are sent are fair - replies, connections coming and going, deadlines and Close are the
\* environment's and are not):
Outstanding(c) == reqID[c] # 0 /\ (sendMsg[c] # 0 \/ reqMsg[c] # 0) /\ ~cclosed[c]
\* a request that is waiting in the send queue is dispatched, unless no connection is there to take it or it stops being
\* wanted (answered, abandoned, context or socket closed)
\* (a connection whose transport send failed is neither ready nor busy: it is on its way out - the core removes it)
NoUsablePipe == \A p \in pipes : inflight[p] = NULL /\ \A i \in 1..Len(readyQ) : readyQ[i] # p
QueuedDispatched == \A c \in Ctx : (queued[c] /\ Outstanding(c)) ~> (~queued[c] \/ ~Outstanding(c) \/ NoUsablePipe \/ sclosed)
\* a Send that is waiting returns, unless the socket has no usable connection
SendReturns == \A t \in Thread : (call[t] # NULL /\ call[t].op = "send") ~> (call[t] = NULL \/ NoUsablePipe)
\* an outstanding request is never left with nobody looking after it: it comes to be queued, in a transport, or
\* watched by an armed resend timer - or it stops being outstanding
LookedAfter(c) == queued[c] \/ (reqMsg[c] # 0 /\ lastPipe[c] \in pipes) \/ \E tm \in timers : tm.k = "resend" /\ tm.c = c /\ tm.id = reqID[c]
NeverOrphaned == \A c \in Ctx : Outstanding(c) ~> (~Outstanding(c) \/ LookedAfter(c))

TypeOK ==
  /\ \A c \in Ctx : reqID[c] \in 0..MaxReq /\ reqMsg[c] \in 0..MaxReq /\ sendMsg[c] \in 0..MaxReq
  /\ \A p \in Pipe : inflight[p] = NULL \/ inflight[p].st \in {"go", "tx", "post"}
=============================================================================
