----------------------------- MODULE Handshaker -----------------------------
(***************************************************************************)
(* transport/conn.go connHandshaker: the asynchronous handshake stage that  *)
(* sits between a stream listener's accept loop (tcp, tls+tcp, ipc) and the *)
(* socket.  One action per lock region:                                     *)
(*                                                                         *)
(*   Start(c)     the accept loop hands over a fresh connection; a worker   *)
(*                goroutine is started for it                               *)
(*   Finish(c,ok) the worker's handshake ended (the peer answered, well or  *)
(*                badly, or the connection was closed under it); under the  *)
(*                lock it files the outcome                                 *)
(*   Wait         the socket's accept loop takes the oldest outcome         *)
(*   Close        the listener is closed                                    *)
(*                                                                         *)
(* Serves C10 (no connection remains whatever was in progress), C16 (a      *)
(* stalled handshake does not hold up others), C12 (errors leave it usable).*)
(***************************************************************************)
EXTENDS Integers, Sequences, FiniteSets

CONSTANTS Conn, NULL
VARIABLES st,      \* Conn -> "new" | "working" | "done" | "handed" | "failed"
          open,    \* Conn -> BOOLEAN : the underlying connection is open
          doneq,   \* sequence of [c, ok]
          closed,  \* the handshaker was closed
          got      \* sequence of what Wait returned: [c, r] with r in {"ok", "err", "ErrClosed"}
vars == <<st, open, doneq, closed, got>>

Init == /\ st = [c \in Conn |-> "new"] /\ open = [c \in Conn |-> TRUE]
        /\ doneq = <<>> /\ closed = FALSE /\ got = <<>>

\* Start: into the work set, whatever the state of the handshaker.  After Close nobody will ever take the
\* connection over, so it is closed at once (the repaired behaviour; see StartLeaks below for the original)
Start(c) ==
  /\ st[c] = "new"
  /\ st' = [st EXCEPT ![c] = "working"]
  /\ open' = IF closed THEN [open EXCEPT ![c] = FALSE] ELSE open
  /\ UNCHANGED <<doneq, closed, got>>
\* the original Start: the connection stays open until the peer answers - or for ever
StartLeaks(c) ==
  /\ st[c] = "new"
  /\ st' = [st EXCEPT ![c] = "working"]
  /\ UNCHANGED <<open, doneq, closed, got>>

\* the worker files its outcome.  A handshake on a closed connection cannot succeed.
Finish(c, ok) ==
  /\ st[c] = "working"
  /\ ok => open[c]
  /\ IF ~ok THEN /\ open' = [open EXCEPT ![c] = FALSE]
                 /\ doneq' = Append(doneq, [c |-> NULL, ok |-> FALSE])
                 /\ st' = [st EXCEPT ![c] = "failed"]
     ELSE IF closed THEN /\ open' = [open EXCEPT ![c] = FALSE]       \* late finisher: closed, reported as ErrClosed
                         /\ doneq' = Append(doneq, [c |-> c, ok |-> FALSE])
                         /\ st' = [st EXCEPT ![c] = "failed"]
     ELSE /\ doneq' = Append(doneq, [c |-> c, ok |-> TRUE])
          /\ st' = [st EXCEPT ![c] = "done"]
          /\ UNCHANGED open
  /\ UNCHANGED <<closed, got>>

\* Wait returns: ErrClosed once closed, otherwise the oldest outcome
WaitClosed == closed /\ got' = Append(got, [c |-> NULL, r |-> "ErrClosed"]) /\ UNCHANGED <<st, open, doneq, closed>>
WaitItem ==
  /\ ~closed /\ doneq # <<>>
  /\ LET it == Head(doneq) IN
       /\ got' = Append(got, [c |-> it.c, r |-> IF it.ok THEN "ok" ELSE "err"])
       /\ st' = IF it.ok THEN [st EXCEPT ![it.c] = "handed"] ELSE st
  /\ doneq' = Tail(doneq)
  /\ UNCHANGED <<open, closed>>

\* Close: every connection in negotiation and every finished one not yet taken is closed
Close ==
  /\ ~closed /\ closed' = TRUE
  /\ open' = [c \in Conn |-> IF st[c] = "working" \/ (st[c] = "done") THEN FALSE ELSE open[c]]
  /\ doneq' = <<>>
  /\ st' = [c \in Conn |-> IF st[c] = "done" THEN "failed" ELSE st[c]]
  /\ UNCHANGED got

\* the peer (or the network) closes a connection under a worker: its handshake can then only fail
PeerDrop(c) == st[c] = "working" /\ open[c] /\ open' = [open EXCEPT ![c] = FALSE] /\ UNCHANGED <<st, doneq, closed, got>>

Next == \/ \E c \in Conn : Start(c) \/ PeerDrop(c) \/ \E ok \in BOOLEAN : Finish(c, ok)
        \/ WaitClosed \/ WaitItem \/ Close
Spec == Init /\ [][Next]_vars

\* ------------------------------------------------------------------------
\* a connection is handed to the socket at most once, and only if its handshake succeeded while open
HandedOnce == \A i, j \in 1..Len(got) : (i # j /\ got[i].r = "ok") => got[i].c # got[j].c
HandedAreOpenOnes == \A i \in 1..Len(got) : got[i].r = "ok" => st[got[i].c] = "handed"
\* once closed, nothing that was given to the handshaker and not handed on stays open:
\* not in negotiation, not finished-and-waiting, not started afterwards
NothingRemains == closed => \A c \in Conn : (st[c] \in {"working", "done", "failed"}) => ~open[c]
\* after Close, Wait only ever says ErrClosed
ClosedStaysClosed == \A i \in 1..Len(got) : \A j \in 1..Len(got) : (i < j /\ got[i].r = "ErrClosed") => got[j].r = "ErrClosed"
=============================================================================
