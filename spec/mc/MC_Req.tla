---- MODULE MC_Req ----
EXTENDS Req
CONSTANTS c1, c2, p1, p2, p3, t1, t2
Rep(n, h) == [id |-> n, hi |-> h, tag |-> 0]
MC_Replies == {Rep(n, TRUE) : n \in 1..MaxReq} \cup {Rep(1, FALSE)}
O(retry, se, re, be, fnp) == [retry |-> retry, sendExp |-> se, recvExp |-> re, bestEffort |-> be, failNoPeers |-> fnp]
\* option mixes: c1 retries, c2 does not; deadlines on one of them
OptRetry == (c1 :> O(5, 0, 0, FALSE, FALSE)) @@ (c2 :> O(0, 0, 0, FALSE, FALSE))
OptDeadl == (c1 :> O(5, 3, 0, FALSE, FALSE)) @@ (c2 :> O(5, 0, 3, FALSE, FALSE))
OptBE    == (c1 :> O(5, 0, 0, TRUE, FALSE)) @@ (c2 :> O(0, 0, 3, TRUE, TRUE))
OptFNP   == (c1 :> O(5, 0, 0, FALSE, TRUE)) @@ (c2 :> O(5, 3, 3, FALSE, TRUE))
Opt1Retry == (c1 :> O(5, 0, 0, FALSE, FALSE))
Opt1All   == (c1 :> O(5, 3, 3, FALSE, TRUE))
Bound == tserial <= 5
\* liveness: no state constraint, no VIEW; finite by construction (timer serials and hand-offs stop)
LiveNext == Next /\ tserial' <= 3 /\ nHand' <= 4
LiveSpec == Init /\ [][LiveNext]_vars /\ Fairness
View == <<opt, sockVars, ctxVars, timers, curResend, curSend, curRecv, inflight, asyncRs, callVars, issued, dead, handed, delivered>>
Sym == Permutations({p1, p2}) \cup Permutations({t1, t2})
====
