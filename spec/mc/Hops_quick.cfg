SPECIFICATION Spec
CONSTANT TTLs <- SomeTTL
