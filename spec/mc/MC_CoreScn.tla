---- MODULE MC_CoreScn ----
(***************************************************************************)
(* Scenario generation from Core.tla (specification -> implementation),    *)
(* same construction as MC_ReqScn: the library's own steps are eager, the   *)
(* environment acts in quiescent states only and every environment action   *)
(* is logged as the core driver's step string.  What a pipe's event hook    *)
(* and the protocol do with a new connection is a script chosen when the    *)
(* connection is made ("ansok:closeAttaching", "offer:refuse", ...).        *)
(***************************************************************************)
EXTENDS Core
CONSTANTS p1, p2, p3, d1, l1, Depth, ScnOpt, AdvMs
VARIABLES envlog, order, script

svars == <<vars, envlog, order, script>>
O(mn, mx, a) == [min |-> mn, max |-> mx, asynch |-> a]
OptAs == (d1 :> O(10, 40, TRUE))
OptSy == (d1 :> O(10, 0, FALSE))

PipeSeq == <<p1, p2, p3>>
Scripts == {"none", "closeAttaching", "closeAttached", "refuse"}
Idx(p) == CHOOSE i \in 1..Len(order) : order[i] = p
PName(p) == "p" \o ToString(Idx(p))
Say(s) == /\ envlog' = Append(envlog, s)
          /\ PrintT(<<"SCN", ScnOpt, envlog'>>)
Keep == UNCHANGED <<order, script>>
ScriptOf(p) == IF p \in DOMAIN script THEN script[p] ELSE "none"

\* the hook scripts: a scripted close happens in its phase, before the hook returns
WantsClose(p) == \/ pst[p] = "attaching" /\ ScriptOf(p) = "closeAttaching" /\ ~closeStarted[p]
                 \/ pst[p] = "attachedRun" /\ ScriptOf(p) = "closeAttached" /\ ~closeStarted[p]

Internal ==
  /\ UNCHANGED <<envlog, order, script, opt>>
  /\ \/ \E p \in Pipe :
          \/ HookAttaching(p) \/ HookAttached(p)
          \/ WantsClose(p) /\ HookClose(p)
          \/ ~WantsClose(p) /\ (HookAttachingRet(p) \/ HookAttachedRet(p))
          \/ AddPipeCheck(p, ScriptOf(p) # "refuse")
          \/ CloseLocked(p) \/ RunDetached(p) \/ RunIdFree(p) \/ NoticeDrop(p) \/ RunClose(p) \/ CloseNoop(p)
     \/ \E d \in Dialer :
          \/ RunRedial(d) \/ DialAbort(d) \/ DialBegin(d) \/ RunPipeConnected(d)
          \/ \E p \in Pipe : RunPipeClosed(d, p)
     \/ \E l \in Listener : ServeStop(l)

Busy == CanInternal \/ \E p \in Pipe : pst[p] \in {"attaching", "attachedRun"}

NewConn(p, s) == order' = Append(order, p) /\ script' = (p :> s) @@ script

Env ==
  /\ ~Busy
  /\ Len(envlog) < Depth
  /\ opt' = opt
  /\ \/ (\E r \in {"ok", "pending", "ErrAddrInUse", "ErrClosed"} : DialCall(d1, r)) /\ Say("dial") /\ Keep
     \/ /\ Len(order) < Len(PipeSeq) /\ dst[d1] = "dialing"
        /\ LET p == PipeSeq[Len(order) + 1] IN
           \E s \in Scripts : DialOK(d1, p) /\ NewConn(p, s) /\ Say("ansok:" \o s)
     \/ /\ dst[d1] = "dialing"
        /\ (\E r2 \in 0..(IF MaxT(d1) = 0 THEN MinT(d1) ELSE MaxT(d1)) : DialFail(d1, r2)) /\ Say("ansfail") /\ Keep
     \/ (\E r \in {"ok", "ErrClosed", "ErrAddrInUse"} : ListenCall(l1, "ok", r)) /\ Say("listen") /\ Keep
     \/ /\ Len(order) < Len(PipeSeq)
        /\ LET p == PipeSeq[Len(order) + 1] IN
           \E s \in Scripts : Accept(l1, p) /\ NewConn(p, s) /\ Say("offer:" \o s)
     \/ \E p \in Pipe : pst[p] = "live" /\ PeerDrop(p) /\ Say("drop " \o PName(p)) /\ Keep
     \/ \E p \in Pipe : AppClose(p) /\ Say("appclose " \o PName(p)) /\ Keep
     \/ (\E tm \in timers : Fire(tm)) /\ Say("adv " \o ToString(AdvMs) \o "ms") /\ Keep
     \/ (\E r \in {"ok", "ErrClosed"} : DialerClose(d1, r)) /\ Say("dclose") /\ Keep
     \/ (\E r \in {"ok", "ErrClosed"} : ListenerClose(l1, r)) /\ Say("lclose") /\ Keep
     \/ SockClose /\ Say("sclose") /\ Keep

ScnInit == Init /\ envlog = <<>> /\ order = <<>> /\ script = <<>>
ScnNext == Internal \/ Env
ScnSpec == ScnInit /\ [][ScnNext]_svars
\* (time and the exact delays are outside the view: the random back-off factor only multiplies equivalent states)
ScnView == <<sockClosed, pst, owner, added, closing, closeStarted, tranOpen, ids, listed, async,
             {<<t.d, t.stored>> : t \in timers}, dClosed, dActive, dst, dRedial, dSync, lisVars, order, script,
             [d \in Dialer |-> reconn[d] > MinT(d)]>>
====
