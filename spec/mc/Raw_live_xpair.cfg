SPECIFICATION FairSpec
CONSTANTS
  p1 = p1
  p2 = p2
  p3 = p3
  t1 = t1
  t2 = t2
  NULL = NULL
  Proto = "xpair"
  Pipe = {p1, p2}
  Thread = {t1, t2}
  Timed = FALSE
  InitOpt <- Opt11
  MsgSet <- MsgPlain
PROPERTIES SendCompletes AcceptedHandedOn
CHECK_DEADLOCK FALSE
