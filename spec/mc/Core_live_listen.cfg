SPECIFICATION LiveSpec
CONSTANTS
  p1 = p1
  p2 = p2
  p3 = p3
  d1 = d1
  l1 = l1
  NULL = NULL
  Pipe = {p1, p2}
  Dialer = {}
  Listener = {l1}
  InitOpt <- OptNone
INVARIANTS TypeOK
PROPERTIES AttachedReported DetachedFollows IdReleased DropNoticed CloseFinishes CloseReleases AddPipeReturns
CHECK_DEADLOCK FALSE
