---- MODULE MC_Inproc ----
EXTENDS Inproc, TLC
MCAddrOf == [x \in Lst \cup Dlr |-> IF x \in {"l3"} THEN "a2" ELSE "a1"]
MCProtoOK == [d \in Dlr |-> [l \in Lst |-> ~(d = "d2" /\ l = "l2")]]
\* every thread makes at most one connection; a listener is listened on at most twice, closed at most once
MCNext ==
  \/ \E l \in Lst, r \in {"ok", "ErrClosed", "ErrAddrInUse"} : Listen(l, r)
  \/ \E t \in Acc, l \in Lst : acc[t].st \in {"idle", "err"} /\ AcceptStart(t, l)
  \/ \E d \in Dlr : dial[d].st # "got" /\ (dial[d].st = "waiting" => DialCanMove(d)) /\ DialTry(d)
  \/ \E l \in Lst : ~lst[l].closed /\ CloseL(l)
MCSpec == Init /\ [][MCNext]_vars
\* a dialer that waits has a listener that is there, compatible, and has nothing on offer - unless it can move
WaitingIsJustified == \A d \in Dlr : dial[d].st = "waiting" => (IF DialCanMove(d) THEN TRUE ELSE (bound[AddrOf[d]] # NULL /\ offers[bound[AddrOf[d]]] = <<>>))
====
