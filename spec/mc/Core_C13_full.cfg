SPECIFICATION Spec
CONSTANTS
  p1 = p1
  p2 = p2
  p3 = p3
  d1 = d1
  l1 = l1
  NULL = NULL
  Pipe = {p1, p2, p3}
  Dialer = {d1}
  Listener = {l1}
  InitOpt <- OptSync0
CONSTRAINT TimeBound
SYMMETRY PipeSym
INVARIANTS TypeOK HookLanguage DetachedOnlyIfAdmitted AttachedOnlyIfAdmitted RejectedGetNeither ProtoOnceEach IdHeld ListedHaveIds NothingRemains
CHECK_DEADLOCK FALSE
