---- MODULE MC_RepScn ----
(***************************************************************************)
(* Scenario generation from RepLike.tla (specification -> implementation), *)
(* same construction as MC_ReqScn: internal actions eager, environment     *)
(* actions only in quiescent states and logged as the REP / RESPONDENT     *)
(* driver's step strings; every environment transition TLC generates from  *)
(* a distinct quiescent state is printed with the steps leading to it.     *)
(***************************************************************************)
EXTENDS RepLike
CONSTANTS c1, c2, p1, p2, p3, t1, t2, t3, Depth, ScnOpt, MaxReq
VARIABLES envlog, order, gated, nreq

svars == <<vars, envlog, order, gated, nreq>>
O(se, re, be) == [sendExp |-> se, recvExp |-> re, bestEffort |-> be]
OptPlain == (c1 :> O(0, 0, FALSE)) @@ (c2 :> O(0, 0, FALSE))
OptMixed == (c1 :> O(2, 3, FALSE)) @@ (c2 :> O(0, 0, TRUE))

PipeSeq == <<p1, p2, p3>>
CName(c) == IF c = c1 THEN "c0" ELSE "c1"
Idx(p) == CHOOSE i \in 1..Len(order) : order[i] = p
PName(p) == "p" \o ToString(Idx(p))
Say(s) == /\ envlog' = Append(envlog, s)
          /\ PrintT(<<"SCN", ScnOpt, envlog'>>)
Keep == UNCHANGED <<order, gated, nreq>>

AutoXmitEnd(p) == txHold[p] # NULL /\ txHold[p].st = "tx" /\ (pclosed[p] \/ p \notin gated) /\ XmitEnd(p)
Busy ==
  \/ CanInternal
  \/ \E p \in Pipe : \/ ENABLED Push(p) \/ ENABLED Abandon(p)
                     \/ txHold[p] # NULL /\ (txHold[p].st = "go" \/ pclosed[p] \/ p \notin gated)

Internal ==
  /\ UNCHANGED <<envlog, order, gated, nreq>>
  /\ \/ \E p \in Pipe : Push(p) \/ Abandon(p) \/ SenderTake(p) \/ XmitStart(p) \/ AutoXmitEnd(p)
     \/ \E t \in Thread :
          \/ \E p \in Pipe : rxHold[p] # NULL /\ RecvTake(t, rxHold[p])
          \/ recvQ # <<>> /\ RecvTake(t, Head(recvQ))
          \/ \E res \in {"ErrClosed", "ErrRecvTimeout"} : RecvFail(t, res)
          \/ \E res \in {"ok", "ErrClosed", "ErrSendTimeout"} : SendDone(t, res)
          \/ SendHandOver(t)

FreeThread == CHOOSE t \in Thread : call[t] = NULL
Hdr(d) == [i \in 1..d |-> "w"]
Dues == {call[t].due : t \in {x \in Thread : call[x] # NULL /\ call[x].due > now}}

Env ==
  /\ ~Busy
  /\ Len(envlog) < Depth
  /\ \/ /\ ~sclosed /\ Len(order) < Len(PipeSeq)
        /\ LET p == PipeSeq[Len(order) + 1] IN
           \E g \in BOOLEAN :
             /\ AddPipe(p, TRUE)
             /\ order' = Append(order, p)
             /\ gated' = IF g THEN gated \cup {p} ELSE gated
             /\ UNCHANGED nreq
             /\ Say(IF g THEN "conngated" ELSE "conn")
     \/ \E p \in pipes : RemovePipe(p) /\ Say("drop " \o PName(p)) /\ Keep
     \/ \E p \in pipes \cap gated :
          /\ txHold[p] # NULL /\ txHold[p].st = "tx"
          /\ XmitEnd(p) /\ Say("release " \o PName(p)) /\ Keep
     \* a request with d routing words (d - 1 devices crossed), or a garbled one
     \/ /\ nreq < MaxReq
        /\ \E p \in pipes :
             \/ \E d \in 1..3 :
                  /\ PeerReq(p, d, d, Hdr(d), nreq + 1)
                  /\ Say("req " \o PName(p) \o " " \o ToString(d))
             \/ /\ PeerReq(p, 1, 0, <<>>, nreq + 1)
                /\ Say("req " \o PName(p) \o " 2 short")
        /\ nreq' = nreq + 1 /\ UNCHANGED <<order, gated>>
     \/ /\ \E t \in Thread : call[t] = NULL
        /\ \E c \in Ctx :
             \/ /\ \E r \in {"wait", "ErrClosed", "ErrProtoState"} : SendCall(FreeThread, c, c, r)
                /\ Say("send " \o CName(c)) /\ Keep
             \/ /\ \E r \in {"wait", "ErrClosed", "ErrProtoState"} : RecvCall(FreeThread, c, r)
                /\ Say("recv " \o CName(c)) /\ Keep
     \/ /\ Dues # {}
        /\ LET d == CHOOSE x \in Dues : \A y \in Dues : x <= y IN
           /\ now' = d
           /\ UNCHANGED <<opt, ttl, sqCap, rqCap, sclosed, pipes, pclosed, rxHold, recvQ, sendQ, txHold, cclosed, recvWait,
                          backtrace, recvPipe, call, timers, arrived, taken, sent>>
           /\ Say("advto " \o ToString(d)) /\ Keep
     \* RESPONDENT: the receive queue is replaced by one of another length, whatever is queued or held
     \/ /\ ~IsRep /\ ~sclosed
        /\ \E n \in {0, 2} : n # rqCap /\ SetRQ(n) /\ Say("rq " \o ToString(n)) /\ Keep
     \/ /\ c2 \in Ctx /\ ~cclosed[c2] /\ CtxClose(c2, "ok") /\ Say("cclose c1") /\ Keep
     \/ /\ ~sclosed /\ SockClose("ok") /\ Say("sclose") /\ Keep

ScnInit == Init /\ envlog = <<>> /\ order = <<>> /\ gated = {} /\ nreq = 0
ScnNext == Internal \/ Env
ScnSpec == ScnInit /\ [][ScnNext]_svars
ScnView == <<opt, ttl, sqCap, rqCap, now, sclosed, pipes, pclosed, rxHold, recvQ, sendQ, txHold,
             cclosed, recvWait, backtrace, recvPipe, call, timers, order, gated, nreq>>
====
