SPECIFICATION LiveSpec
CONSTANTS
  c1 = c1
  c2 = c2
  p1 = p1
  p2 = p2
  t1 = t1
  t2 = t2
  NULL = NULL
  Ctx = {c1, c2}
  Pipe = {p1}
  Thread = {t1}
  Timed = FALSE
  InitQLen <- QL
  InitRecvExp <- RE
  Topics <- MC_Topics2
  Bodies <- MC_Bodies2

PROPERTIES WaitingServed ClosedReturns
CHECK_DEADLOCK FALSE
