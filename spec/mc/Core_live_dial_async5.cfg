SPECIFICATION LiveSpec
CONSTANTS
  p1 = p1
  p2 = p2
  p3 = p3
  d1 = d1
  l1 = l1
  NULL = NULL
  Pipe = {p1, p2}
  Dialer = {d1}
  Listener = {}
  InitOpt <- OptAsync5
INVARIANTS TypeOK
PROPERTIES AttachedReported DetachedFollows IdReleased DropNoticed CloseFinishes CloseReleases AddPipeReturns Redials ClosedDialerRests
CHECK_DEADLOCK FALSE
