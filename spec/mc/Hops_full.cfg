SPECIFICATION Spec
CONSTANT TTLs <- AllTTL
