SPECIFICATION MCSpec
CONSTANTS
  Conn = {c1, c2, c3}
  NULL = NULL
  LeakyStart = FALSE
SYMMETRY Perms
INVARIANTS HandedOnce HandedAreOpenOnes NothingRemains ClosedStaysClosed
CHECK_DEADLOCK FALSE
