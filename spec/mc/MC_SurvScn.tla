---- MODULE MC_SurvScn ----
(***************************************************************************)
(* Scenario generation from Surveyor.tla (specification -> implementation),*)
(* same construction as MC_ReqScn.                                         *)
(***************************************************************************)
EXTENDS Surveyor
CONSTANTS c1, c2, p1, p2, p3, t1, t2, t3, Depth, ScnOpt
VARIABLES envlog, order, gated

svars == <<vars, envlog, order, gated>>
O(se, re, q) == [survExp |-> se, recvExp |-> re, qlen |-> q]
OptA == (c1 :> O(3, 0, 1)) @@ (c2 :> O(3, 2, 2))
OptB == (c1 :> O(0, 0, 2)) @@ (c2 :> O(4, 0, 0))
Scn_Resps == {[id |-> n, hi |-> TRUE, tag |-> 0] : n \in 1..MaxSurvey} \cup {[id |-> 1, hi |-> FALSE, tag |-> 0]}

PipeSeq == <<p1, p2, p3>>
CName(c) == IF c = c1 THEN "c0" ELSE "c1"
Idx(p) == CHOOSE i \in 1..Len(order) : order[i] = p
PName(p) == "p" \o ToString(Idx(p))
Say(s) == /\ envlog' = Append(envlog, s)
          /\ PrintT(<<"SCN", ScnOpt, envlog'>>)
Keep == UNCHANGED <<order, gated>>

AutoXmitEnd(p) == txHold[p] # NULL /\ txHold[p].st = "tx" /\ (pclosed[p] \/ p \notin gated) /\ XmitEnd(p)
Busy == CanInternal \/ \E p \in Pipe : txHold[p] # NULL /\ txHold[p].st = "tx" /\ (pclosed[p] \/ p \notin gated)

Internal ==
  /\ UNCHANGED <<envlog, order, gated>>
  /\ \/ \E x \in async : CancelRun(x[1], x[2])
     \/ \E p \in Pipe : SenderTake(p) \/ XmitStart(p) \/ AutoXmitEnd(p)
     \/ \E t \in Thread :
          \/ \E r \in RespSet : RecvTake(t, r)
          \/ \E r \in {"ErrClosed", "ErrProtoState", "ErrCanceled", "ErrRecvTimeout"} : RecvEnd(t, r)

FreeThread == CHOOSE t \in Thread : call[t] = NULL
Dues == {call[t].due : t \in {x \in Thread : call[x] # NULL /\ call[x].due > now}}
SDues == {surveys[i].due : i \in {j \in Registered : surveys[j].due >= 0}}

Env ==
  /\ ~Busy
  /\ Len(envlog) < Depth
  /\ \/ /\ ~sclosed /\ Len(order) < Len(PipeSeq)
        /\ LET p == PipeSeq[Len(order) + 1] IN
           \E g \in BOOLEAN :
             /\ AddPipe(p, TRUE)
             /\ order' = Append(order, p)
             /\ gated' = IF g THEN gated \cup {p} ELSE gated
             /\ Say(IF g THEN "conngated" ELSE "conn")
     \/ \E p \in pipes : RemovePipe(p) /\ Say("drop " \o PName(p)) /\ Keep
     \/ \E p \in pipes \cap gated :
          /\ txHold[p] # NULL /\ txHold[p].st = "tx"
          /\ XmitEnd(p) /\ Say("release " \o PName(p)) /\ Keep
     \/ /\ \E t \in Thread : call[t] = NULL
        /\ \E c \in Ctx :
             \/ /\ \E r \in {"ok", "ErrClosed"} : SurveyCall(FreeThread, c, c, r)
                /\ Say("survey " \o CName(c)) /\ Keep
             \/ /\ \E r \in {"wait", "ErrClosed", "ErrProtoState"} : RecvCall(FreeThread, c, r)
                /\ Say("recv " \o CName(c)) /\ Keep
     \/ \E p \in pipes, r \in RespSet :
          /\ Response(p, r)
          /\ Say("respid " \o PName(p) \o " " \o ToString(r.id) \o (IF r.hi THEN " hi" ELSE " lo"))
          /\ Keep
     \* time: to the next survey expiry (which then fires) or the next receive deadline
     \/ \E id \in Registered :
          /\ surveys[id].due >= 0 /\ (Dues = {} \/ \A d \in Dues : surveys[id].due <= d)
          /\ Expire(id) /\ Say("advto " \o ToString(surveys[id].due)) /\ Keep
     \/ /\ Dues # {}
        /\ LET d == CHOOSE x \in Dues : \A y \in Dues : x <= y IN
           /\ \A s \in SDues : d < s
           /\ now' = d
           /\ UNCHANGED <<opt, sqCap, sclosed, pipes, pclosed, sendQ, txHold, cclosed, cur, surveys, cancelled,
                          async, nextId, call, sentTo, delivered>>
           /\ Say("advto " \o ToString(d)) /\ Keep
     \/ /\ c2 \in Ctx /\ ~cclosed[c2] /\ CtxClose(c2, "ok") /\ Say("cclose c1") /\ Keep
     \/ /\ ~sclosed /\ SockClose("ok") /\ Say("sclose") /\ Keep

ScnInit == Init /\ envlog = <<>> /\ order = <<>> /\ gated = {}
ScnNext == Internal \/ Env
ScnSpec == ScnInit /\ [][ScnNext]_svars
ScnView == <<opt, sqCap, now, sclosed, pipes, pclosed, sendQ, txHold, cclosed, cur, surveys, cancelled,
             async, nextId, call, order, gated>>
====
