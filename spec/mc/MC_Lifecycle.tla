---- MODULE MC_Lifecycle ----
EXTENDS Lifecycle
Inv == returned <= pending
====
