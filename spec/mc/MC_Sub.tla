---- MODULE MC_Sub ----
EXTENDS Sub
CONSTANTS c1, c2, p1, p2, t1, t2
\* strings over {a, b} of length <= 2: empty, equal, prefix-of-each-other topics all occur
MC_Topics == {<<>>, <<1>>, <<1, 2>>}
MC_Topics2 == {<<>>, <<1>>}
MC_Bodies == {<<>>, <<1>>, <<1, 2>>, <<2>>}
MC_Bodies2 == {<<1>>, <<2>>}
QL == (c1 :> 1) @@ (c2 :> 2)
RE == (c1 :> 0) @@ (c2 :> 1)
Bound == Len(arrivedSeq) <= 3 /\ \A c \in Ctx : Len(subs[c]) <= 2
Bound2 == Len(arrivedSeq) <= 2 /\ \A c \in Ctx : Len(subs[c]) <= 2
====
