---- MODULE MC_Msg ----
EXTENDS Msg
ASSUME PoolOK == \A sz \in 0..70000 : PoolCap(sz) >= sz /\ (sz < 65536 => PoolCap(sz) \in {64, 128, 256, 512, 1024, 4096, 8192, 65536})
RefBound == \A s \in live : ref[s] <= 3
====
