SPECIFICATION Spec
