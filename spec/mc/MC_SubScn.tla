---- MODULE MC_SubScn ----
(***************************************************************************)
(* Scenario generation from Sub.tla (specification -> implementation),     *)
(* same construction as MC_ReqScn.  Topics and bodies are strings over the  *)
(* bytes 0x61 and 0xff: empty, equal and prefix-of-each-other strings all   *)
(* occur.                                                                   *)
(***************************************************************************)
EXTENDS Sub
CONSTANTS c1, c2, p1, p2, t1, t2, t3, Depth, ScnOpt
VARIABLES envlog, order

svars == <<vars, envlog, order>>
Scn_Topics == {<<>>, <<1>>, <<1, 2>>, <<2>>}
Scn_Bodies == {<<>>, <<1>>, <<1, 2>>, <<2, 1>>}
QL == (c1 :> 1) @@ (c2 :> 2)
RE == (c1 :> 0) @@ (c2 :> 2)
QL0 == (c1 :> 0) @@ (c2 :> 1)

PipeSeq == <<p1, p2>>
CName(c) == IF c = c1 THEN "c0" ELSE "c1"
Idx(p) == CHOOSE i \in 1..Len(order) : order[i] = p
PName(p) == "p" \o ToString(Idx(p))
RECURSIVE Hex(_)
Hex(b) == IF b = <<>> THEN "" ELSE (IF Head(b) = 1 THEN "61" ELSE "ff") \o Hex(Tail(b))
HexOf(b) == IF b = <<>> THEN "-" ELSE Hex(b)
Say(s) == /\ envlog' = Append(envlog, s)
          /\ PrintT(<<"SCN", ScnOpt, envlog'>>)

Internal ==
  /\ UNCHANGED <<envlog, order>>
  /\ \E t \in Thread : (\E b \in Bodies : RecvTake(t, b)) \/ \E r \in {"ErrClosed", "ErrRecvTimeout"} : RecvFail(t, r)

FreeThread == CHOOSE t \in Thread : call[t] = NULL
Dues == {call[t].due : t \in {x \in Thread : call[x] # NULL /\ call[x].due > now}}

Env ==
  /\ ~CanInternal
  /\ Len(envlog) < Depth
  /\ \/ /\ ~sclosed /\ Len(order) < Len(PipeSeq)
        /\ LET p == PipeSeq[Len(order) + 1] IN
           AddPipe(p, TRUE) /\ order' = Append(order, p) /\ Say("conn")
     \/ \E p \in pipes : RemovePipe(p) /\ Say("drop " \o PName(p)) /\ UNCHANGED order
     \/ \E p \in pipes, b \in Bodies : Arrive(p, b) /\ Say("pub " \o PName(p) \o " " \o HexOf(b)) /\ UNCHANGED order
     \/ \E c \in Ctx, tp \in Topics :
          /\ ~cclosed[c]
          /\ \/ Subscribe(c, tp) /\ Say("sub " \o CName(c) \o " " \o HexOf(tp))
             \/ (\E r \in {"ok", "ErrBadValue"} : Unsubscribe(c, tp, r)) /\ Say("unsub " \o CName(c) \o " " \o HexOf(tp))
          /\ UNCHANGED order
     \/ /\ \E t \in Thread : call[t] = NULL
        /\ \E c \in Ctx : RecvCall(FreeThread, c) /\ Say("recv " \o CName(c)) /\ UNCHANGED order
     \/ /\ Dues # {}
        /\ LET d == CHOOSE x \in Dues : \A y \in Dues : x <= y IN
           /\ now' = d
           /\ UNCHANGED <<sclosed, pipes, cclosed, subs, qlen, recvExp, recvQ, call, arrivedSeq, offered, delivered>>
           /\ Say("advto " \o ToString(d)) /\ UNCHANGED order
     \/ /\ c2 \in Ctx /\ ~cclosed[c2] /\ CtxClose(c2, "ok") /\ Say("cclose c1") /\ UNCHANGED order
     \/ /\ ~sclosed /\ SockClose("ok") /\ Say("sclose") /\ UNCHANGED order

ScnInit == Init /\ envlog = <<>> /\ order = <<>>
ScnNext == Internal \/ Env
ScnSpec == ScnInit /\ [][ScnNext]_svars
ScnView == <<now, sclosed, pipes, cclosed, subs, qlen, recvExp, recvQ, call, order>>
====
