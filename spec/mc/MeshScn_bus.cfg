SPECIFICATION MCSpec
CONSTANTS
  NULL = NULL
  Kind = "bus"
  MaxN = 5
  TtlVals = {8}
  MaxSend = 1
  Emit = TRUE
  ScnOpt = "bus"
CHECK_DEADLOCK FALSE
