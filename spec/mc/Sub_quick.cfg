SPECIFICATION Spec
CONSTANTS
  c1 = c1
  c2 = c2
  p1 = p1
  p2 = p2
  t1 = t1
  t2 = t2
  NULL = NULL
  Ctx = {c1, c2}
  Pipe = {p1}
  Thread = {t1}
  Timed = FALSE
  InitQLen <- QL
  InitRecvExp <- RE
  Topics <- MC_Topics2
  Bodies <- MC_Bodies2
CONSTRAINT Bound2
INVARIANTS QueuedMatches QueueBounded DeliveredInOrder OfferedArrived
PROPERTIES Independent
CHECK_DEADLOCK FALSE
