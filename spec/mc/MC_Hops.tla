---- MODULE MC_Hops ----
EXTENDS Hops, TLC
CONSTANT TTLs
VARIABLE x
Init == x = 0
Next == UNCHANGED x
Spec == Init /\ [][Next]_x
AllTTL == 1..255
SomeTTL == {1, 2, 3, 8, 9, 254, 255}
ASSUME HopRep == HopExactLoop("rep", TTLs)
ASSUME HopXRep == HopExactLoop("xrep", TTLs)
ASSUME HopRespondent == HopExactLoop("respondent", TTLs)
ASSUME HopXRespondent == HopExactLoop("xrespondent", TTLs)
ASSUME HopStar == HopExactStar(AllTTL)
ASSUME HopPair1 == HopExactPair1(AllTTL)
====
