---- MODULE MC_Wire ----
EXTENDS Wire, TLC
VARIABLE x
Init == x = 0
Next == UNCHANGED x
Spec == Init /\ [][Next]_x
Alpha == {0, 1, 255}
Msgs == {<<>>} \cup {<<a>> : a \in Alpha} \cup {<<a, b>> : a, b \in Alpha} \cup {<<a, b, c>> : a \in {0, 255}, b \in Alpha, c \in {1}}
Protos == {16, 17, 32, 33, 48, 49, 80, 81, 98, 99, 112, 1600}
ASSUME RoundTrip1 == \A m \in Msgs, mx \in {0, 1, 2, 3}, ipc \in BOOLEAN : RoundTrip(<<m>>, mx, ipc)
ASSUME RoundTrip2 == \A m1, m2 \in Msgs, mx \in {0, 3}, ipc \in BOOLEAN : RoundTrip(<<m1, m2>>, mx, ipc)
ASSUME Limit == \A m \in Msgs, ipc \in BOOLEAN : LimitExact(m, ipc)
ASSUME Strict == \A p \in Protos : HeaderStrict(p)
ASSUME Table == SPTableOK /\ {SPNumber[n] : n \in SPNames} = Protos
\* an oversize frame between two good ones: the first is delivered, nothing after it, the connection is dropped
\* having consumed the first frame and the offending length only
ASSUME Mixed == \A m1 \in Msgs, ipc \in BOOLEAN :
   LET bytes == Encode(m1, ipc) \o Encode(<<1, 1, 1, 1, 1>>, ipc) \o Encode(<<0>>, ipc)
       r == ParseAll(bytes, 4, ipc) IN
   Len(m1) <= 4 => (r.msgs = <<m1>> /\ r.status = "toolong" /\ r.used = Len(Encode(m1, ipc)) + (IF ipc THEN 9 ELSE 8))
\* negative and > 2^32 lengths
ASSUME Negative == \A ipc \in BOOLEAN, mx \in {0, 8} :
   LET pre == IF ipc THEN <<1>> ELSE <<>> IN
   /\ ParseAll(pre \o <<255, 255, 255, 255, 255, 255, 255, 255>> \o <<9, 9>>, mx, ipc).status = "toolong"
   /\ ParseAll(pre \o <<128, 0, 0, 0, 0, 0, 0, 1>> \o <<9, 9>>, mx, ipc).status = "toolong"
   /\ ParseAll(pre \o <<0, 0, 0, 1, 0, 0, 0, 0>> \o <<9, 9>>, 8, ipc).status = "toolong"
====
