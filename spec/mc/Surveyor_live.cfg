SPECIFICATION LiveSpec
CONSTANTS
  c1 = c1
  c2 = c2
  p1 = p1
  p2 = p2
  t1 = t1
  t2 = t2
  NULL = NULL
  Ctx = {c1, c2}
  Pipe = {p1}
  Thread = {t1}
  Timed = FALSE
  MaxSurvey = 2
  InitOpt <- Opt2
  InitSQ = 1
  RespSet <- MC_Resps
PROPERTIES RecvReturns SurveySent CancelHappens SurveysEnd
CHECK_DEADLOCK FALSE
