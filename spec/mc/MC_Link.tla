---- MODULE MC_Link ----
EXTENDS Link
B == \A d \in Dir : Len(inflight[d]) <= 2
====
