---- MODULE MsgInd ----
EXTENDS Msg
\* the candidate inductive invariant: types, the invariants of Msg.tla, and what they need to be inductive
IndInv ==
  /\ live \subseteq Serial /\ app \subseteq live /\ sending \subseteq Serial /\ released \subseteq Serial
  /\ shared \subseteq Serial /\ pend \subseteq Serial
  /\ DOMAIN ref = live /\ DOMAIN extra = app
  /\ \A s \in live : ref[s] >= 1
  /\ \A s \in app : extra[s] >= 0
  /\ released \cap live = {}
  /\ \A s \in app : ref[s] >= AppRefs(s)
  /\ \A s \in app : (s \notin sending /\ s \notin shared) => ref[s] = AppRefs(s)
  /\ \A s \in app : extra[s] > 0 => s \in shared
  /\ \A s \in app : s \in sending => s \in shared
CInit == Serial = 1..4
IndInit ==
  /\ live \in SUBSET Serial
  /\ ref \in [live -> Int]
  /\ app \in SUBSET Serial
  /\ extra \in [app -> Int]
  /\ sending \in SUBSET Serial
  /\ released \in SUBSET Serial
  /\ shared \in SUBSET Serial
  /\ pend \in SUBSET Serial
  /\ IndInv
====
