SPECIFICATION MCSpec
CONSTANTS
  NULL = NULL
  Clients = {"c1", "c2"}
  MaxSend = 2
  Pats = {"pipeline", "pair"}
  Ring = FALSE
INVARIANTS OneWayOrder
CHECK_DEADLOCK FALSE
