SPECIFICATION MCSpec
CONSTANTS
  NULL = NULL
  Kind = "bus"
  MaxN = 4
  TtlVals = {8}
  MaxSend = 2
  Emit = FALSE
  ScnOpt = "bus"
INVARIANTS NoEcho OnceEach AllReached
CHECK_DEADLOCK FALSE
