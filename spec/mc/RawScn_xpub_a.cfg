SPECIFICATION ScnSpec
CONSTANTS
  p1 = p1
  p2 = p2
  p3 = p3
  t1 = t1
  t2 = t2
  t3 = t3
  NULL = NULL
  Proto = "xpub"
  Pipe = {p1, p2, p3}
  Thread = {t1, t2, t3}
  Timed = TRUE
  InitOpt <- OptA
  MsgSet = {}
  MaxMsg = 3
  Depth = 5
  ScnOpt = "xpub_a"
VIEW ScnView
CHECK_DEADLOCK FALSE
