---- MODULE MC_Mesh ----
EXTENDS Mesh
CONSTANTS Kind, Topos, MaxSend
Sym(es) == es \cup {<<e[2], e[1]>> : e \in es}
\* named topologies over up to 4 members
Topo(t) ==
  CASE t = "pair" -> [n |-> 2, edges |-> Sym({<<1, 2>>}), hubs |-> {}]
    [] t = "line3" -> [n |-> 3, edges |-> Sym({<<1, 2>>, <<2, 3>>}), hubs |-> {}]
    [] t = "line4" -> [n |-> 4, edges |-> Sym({<<1, 2>>, <<2, 3>>, <<3, 4>>}), hubs |-> {}]
    [] t = "star4" -> [n |-> 4, edges |-> Sym({<<1, 2>>, <<1, 3>>, <<1, 4>>}), hubs |-> {}]
    [] t = "mesh3" -> [n |-> 3, edges |-> Sym({<<1, 2>>, <<2, 3>>, <<1, 3>>}), hubs |-> {}]
    [] t = "hub3" -> [n |-> 4, edges |-> Sym({<<1, 2>>, <<1, 3>>, <<1, 4>>}), hubs |-> {1}]
Ttls(n) == IF Kind = "star" THEN [1..n -> {1, 2, 8}] ELSE {[i \in 1..n |-> 8]}
Cfgs == {[kind |-> Kind, n |-> Topo(t).n, edges |-> Topo(t).edges, hubs |-> Topo(t).hubs, ttl |-> tt] : t \in Topos, tt \in UNION {Ttls(Topo(t2).n) : t2 \in Topos}}
GoodCfg(c) == Len(c.ttl) = c.n
MCInit == mcfg \in {c \in Cfgs : GoodCfg(c)} /\ copies = {} /\ inbox = <<>> /\ got = <<>> /\ origin = <<>>
NSent(a) == Cardinality({p \in DOMAIN origin : origin[p] = a})
MCNext ==
  \/ \E a \in Nodes : NSent(a) < MaxSend /\ Cardinality(DOMAIN origin) < MaxSend + 1 /\ MSend(a, <<a, NSent(a) + 1>>)
  \/ \E c \in copies : Xs(c.src, c.dst, c.p, IF Star THEN c.k - 1 ELSE 0)
  \/ \E b \in Nodes, p \in DOMAIN origin : MRecv(b, p)
MCSpec == MCInit /\ [][MCNext]_mvars
====
