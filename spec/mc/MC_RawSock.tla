---- MODULE MC_RawSock ----
EXTENDS RawSock
CONSTANTS p1, p2, p3, t1, t2
O(se, re, be, fnp, sq, rq) == [sendExp |-> se, recvExp |-> re, bestEffort |-> be, failNoPeers |-> fnp, ttl |-> 8, sq |-> sq, rq |-> rq]
Opt11 == O(0, 0, FALSE, FALSE, 1, 1)
Opt22 == O(0, 0, FALSE, FALSE, 2, 2)
Opt01 == O(0, 0, FALSE, FALSE, 0, 1)
OptDl == O(2, 2, FALSE, TRUE, 1, 1)
OptBE == O(0, 0, TRUE, FALSE, 1, 0)
M(n, to, skip) == [tag |-> n, ok |-> TRUE, to |-> to, skip |-> skip, h |-> 0]
\* plain messages (pair, push, pub, req ...)
MsgPlain == {M(1, NULL, NULL), M(2, NULL, NULL), M(3, NULL, NULL)}
\* routed (xrep / xrespondent): to a named pipe, one to an unknown pipe, one with a bad header
MsgRouted == {M(1, p1, NULL), M(2, p2, NULL), M(3, NULL, NULL), [tag |-> 4, ok |-> FALSE, to |-> p1, skip |-> NULL, h |-> 0]}
\* bus: fresh messages and forwarded ones naming their origin
MsgBus == {M(1, NULL, NULL), M(2, NULL, p1), M(3, NULL, p2)}
Bound == Len(accepted) + Len(arrivedOK) <= 3 /\ Len(handed) <= 4
Bound2 == Len(accepted) + Len(arrivedOK) <= 2 /\ Len(handed) <= 4
Sym == Permutations({t1, t2})
====
