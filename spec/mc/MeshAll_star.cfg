SPECIFICATION MCSpec
CONSTANTS
  NULL = NULL
  Kind = "star"
  MaxN = 4
  TtlVals = {1, 2, 3}
  MaxSend = 1
  Emit = FALSE
  ScnOpt = "star"
INVARIANTS NoEcho OnceEach AllReached
CHECK_DEADLOCK FALSE
