SPECIFICATION MCSpec
CONSTANTS
  NULL = NULL
  Kind = "star"
  Topos = {"pair", "line3", "line4", "star4"}
  MaxSend = 1
INVARIANTS NoEcho OnceEach AllReached
CHECK_DEADLOCK FALSE
