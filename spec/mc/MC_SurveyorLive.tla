---- MODULE MC_SurveyorLive ----
(***************************************************************************)
(* Liveness of Surveyor.tla, checked by TLC under fairness (no state        *)
(* constraint: the number of surveys is MaxSurvey by construction, the      *)
(* deliveries are bounded inside LiveNext).  Fair: the asynchronous cancel  *)
(* of a superseded survey, the expiry timers (every survey of these         *)
(* configurations has a survey time), the per-connection senders and the    *)
(* peers taking what they are sent, a Recv taking a queued response         *)
(* (strongly: its own deadline does not win every race) or leaving when its *)
(* survey is over.  Not fair: responses, connections, the application's     *)
(* calls, receive deadlines, Close.                                         *)
(***************************************************************************)
EXTENDS MC_Surveyor
Fairness ==
  /\ WF_vars(\E x \in async : CancelRun(x[1], x[2]))
  /\ WF_vars(\E id \in Registered : Expire(id))
  /\ \A p \in Pipe : WF_vars(SenderTake(p)) /\ WF_vars(XmitStart(p)) /\ WF_vars(XmitEnd(p))
  /\ \A t \in Thread : /\ SF_vars(\E r \in RespSet : RecvTake(t, r))
                       /\ WF_vars(\E r \in {"ErrClosed", "ErrProtoState", "ErrCanceled"} : RecvEnd(t, r))
LiveNext == Next /\ Len(delivered') <= 2
LiveSpec == Init /\ [][LiveNext]_vars /\ Fairness

\* C07 / C18: a Recv on a survey ends - with a response, or because the survey expired, was superseded or closed; it never
\* outlives its survey
RecvReturns == \A t \in Thread : (call[t] # NULL) ~> (call[t] = NULL)
\* a survey queued for a connection reaches its transport, or the connection has gone
SurveySent == \A p \in Pipe : (sendQ[p] # <<>>) ~> (sendQ[p] = <<>> \/ pclosed[p])
\* the deferred cancel of a superseded survey happens
CancelHappens == (async # {}) ~> (async = {})
\* every survey ends: nothing stays registered for ever (no survey of these configurations is unlimited)
SurveysEnd == \A id \in 1..MaxSurvey : (id \in Registered) ~> (id \notin Registered)
====
