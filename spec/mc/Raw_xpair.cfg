SPECIFICATION Spec
CONSTANTS
  p1 = p1
  p2 = p2
  p3 = p3
  t1 = t1
  t2 = t2
  NULL = NULL
  Proto = "xpair"
  Pipe = {p1, p2}
  Thread = {t1, t2}
  Timed = FALSE
  InitOpt <- Opt11
  MsgSet <- MsgPlain
CONSTRAINT Bound
SYMMETRY Sym
INVARIANTS HandedWasAccepted NoDuplicate PerPipeOrder NoEcho NoEchoStar RoutedRight DeliveredArrived AtMostOnePeer ReadyNotBusy ReadyDistinct QueuesBounded CloseUnblocks NoStuckSend AllHandedAtRest
CHECK_DEADLOCK FALSE
