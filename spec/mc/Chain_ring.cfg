SPECIFICATION MCSpec
CONSTANTS
  NULL = NULL
  Clients = {"c1", "c2"}
  MaxSend = 2
  Pats = {"reqrep", "survey"}
  Ring = TRUE
INVARIANTS HopLimit LoopsDie
CHECK_DEADLOCK FALSE
