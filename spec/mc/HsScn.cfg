SPECIFICATION ScnSpec
CONSTANTS
  c1 = c1
  c2 = c2
  c3 = c3
  c4 = c4
  Conn = {c1, c2, c3, c4}
  NULL = NULL
  Depth = 7
  ScnOpt = "hs"
VIEW ScnView
CHECK_DEADLOCK FALSE
