SPECIFICATION Spec
CONSTANT Serial = {1, 2}
CONSTRAINT RefBound
INVARIANTS RefPositive ReleasedDead AppOwnsAlone ExtraOnApp
CHECK_DEADLOCK FALSE
