SPECIFICATION Spec
CONSTANT Serial = {1, 2}
CONSTRAINT RefBound
INVARIANTS RefPositive ReleasedDead AppOwnsAlone
CHECK_DEADLOCK FALSE
