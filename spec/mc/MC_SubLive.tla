---- MODULE MC_SubLive ----
(***************************************************************************)
(* Liveness of Sub.tla, checked by TLC under fairness (no state constraint: *)
(* arrivals and subscriptions are bounded inside LiveNext).  Fair: a Recv   *)
(* taking a message queued for its context (strongly: its own deadline does *)
(* not win every race), a Recv leaving when its context is closed.  Not     *)
(* fair: publications, subscriptions, connections, deadlines, Close.        *)
(***************************************************************************)
EXTENDS MC_Sub
Fairness ==
  \A t \in Thread : /\ SF_vars(\E m \in Bodies : RecvTake(t, m))
                    /\ WF_vars(RecvFail(t, "ErrClosed"))
LiveNext == Next /\ Len(arrivedSeq') <= 2 /\ \A c \in Ctx : Len(subs'[c]) <= 2
LiveSpec == Init /\ [][LiveNext]_vars /\ Fairness

\* C06: a matching publication queued for a context reaches a Recv that is waiting on that context - or is displaced by a
\* newer one (drop-oldest), pruned by an unsubscribe, discarded with a queue-length change - while the Recv goes on waiting
\* only if the queue is empty again
WaitingServed == \A t \in Thread : \A c \in Ctx :
  (call[t] # NULL /\ call[t].c = c /\ recvQ[c] # <<>>) ~> (call[t] = NULL \/ recvQ[c] = <<>>)
\* a Recv on a closed context returns
ClosedReturns == \A t \in Thread : (call[t] # NULL /\ cclosed[call[t].c]) ~> (call[t] = NULL)
====
