SPECIFICATION MCSpec
CONSTANTS
  NULL = NULL
  Kind = "star"
  MaxN = 5
  TtlVals = {1, 2, 3}
  MaxSend = 1
  Emit = TRUE
  ScnOpt = "star"
CHECK_DEADLOCK FALSE
