---- MODULE MC_RawScn ----
(***************************************************************************)
(* Scenario generation from RawSock.tla (specification -> implementation), *)
(* same construction as MC_ReqScn, for any engine (Proto): internal        *)
(* actions eager, environment actions in quiescent states only and logged  *)
(* as the raw driver's step strings.  Sends name their target (routed      *)
(* engines) or origin (BUS forwarding) explicitly.                         *)
(***************************************************************************)
EXTENDS RawSock
CONSTANTS p1, p2, p3, t1, t2, t3, Depth, ScnOpt, MaxMsg
VARIABLES envlog, order, gated, nmsg

svars == <<vars, envlog, order, gated, nmsg>>
O(se, re, be, fnp, sq, rq) == [sendExp |-> se, recvExp |-> re, bestEffort |-> be, failNoPeers |-> fnp, ttl |-> 8, sq |-> sq, rq |-> rq]
OptA == O(0, 0, FALSE, FALSE, 1, 1)
OptB == O(2, 3, FALSE, TRUE, 1, 1)
OptZ == O(0, 0, FALSE, FALSE, 0, 0)

PipeSeq == <<p1, p2, p3>>
Idx(p) == CHOOSE i \in 1..Len(order) : order[i] = p
PName(p) == "p" \o ToString(Idx(p))
Say(s) == /\ envlog' = Append(envlog, s)
          /\ PrintT(<<"SCN", ScnOpt, envlog'>>)
Keep == UNCHANGED <<order, gated, nmsg>>

\* the first connection, when it is gated, lingers: a transport send in flight when it goes away still succeeds once it
\* is released ("connlinger" / "releasel" of the raw driver; RawSock LingerTake / LingerExit)
Lingers(p) == p \in gated /\ Len(order) >= 1 /\ order[1] = p
AutoXmitEnd(p) ==
  /\ txHold[p] # NULL /\ txHold[p].st = "tx"
  /\ IF pclosed[p] /\ ~Lingers(p) THEN XmitEnd(p, FALSE) ELSE (p \notin gated /\ XmitEnd(p, TRUE))
Busy == CanInternal \/ \E p \in Pipe : txHold[p] # NULL /\ txHold[p].st = "tx" /\ ((pclosed[p] /\ ~Lingers(p)) \/ p \notin gated)

Internal ==
  /\ UNCHANGED <<envlog, order, gated, nmsg>>
  /\ \/ \E t \in Thread :
          \/ \E r \in {"ok", "ErrClosed", "ErrNoPeers", "ErrSendTimeout"} : SendDone(t, r)
          \/ recvQ # <<>> /\ RecvTake(t, Head(recvQ))
          \/ \E r \in {"ErrClosed", "ErrRecvTimeout"} : RecvFail(t, r)
     \/ \E p \in Pipe : SenderTake(p) \/ XmitStart(p) \/ AutoXmitEnd(p) \/ Requeue(p) \/ Push(p) \/ Abandon(p) \/ LingerTake(p) \/ LingerExit(p)
     \/ Schedule

FreeThread == CHOOSE t \in Thread : call[t] = NULL
Msg(to, skip) == [tag |-> nmsg + 1, ok |-> TRUE, to |-> to, skip |-> skip, h |-> 0]
In(k) == [tag |-> 100 + k, short |-> FALSE, zeros |-> TRUE, h |-> 0, n |-> 1, avail |-> 1]
Dues == {call[t].due : t \in {x \in Thread : call[x] # NULL /\ call[x].due > now}}
SendRes == {"ok", "wait", "ErrClosed", "ErrProtoOp", "ErrNoPeers"}

Env ==
  /\ ~Busy
  /\ Len(envlog) < Depth
  /\ \/ /\ ~sclosed /\ Len(order) < Len(PipeSeq)
        /\ LET p == PipeSeq[Len(order) + 1] IN
           \E g \in BOOLEAN :
             /\ \E ok \in BOOLEAN : AddPipe(p, ok)
             /\ order' = Append(order, p)
             /\ gated' = IF g THEN gated \cup {p} ELSE gated
             /\ UNCHANGED nmsg
             /\ Say(IF g THEN (IF Len(order) = 0 THEN "connlinger" ELSE "conngated") ELSE "conn")
     \/ \E p \in pipes : RemovePipe(p) /\ Say("drop " \o PName(p)) /\ Keep
     \/ \E p \in (pipes \cup {q \in Pipe : pclosed[q] /\ Lingers(q)}) \cap gated :
          /\ txHold[p] # NULL /\ txHold[p].st = "tx"
          /\ XmitEnd(p, TRUE) /\ Say((IF pclosed[p] THEN "releasel " ELSE "release ") \o PName(p)) /\ Keep
     \/ /\ nmsg < MaxMsg /\ \E t \in Thread : call[t] = NULL
        /\ nmsg' = nmsg + 1 /\ UNCHANGED <<order, gated>>
        /\ \/ /\ SendKind # "routed"
              /\ \E r \in SendRes : SendCall(FreeThread, Msg(NULL, NULL), r)
              /\ Say("send ok")
           \/ /\ SendKind = "routed"
              /\ \E p \in pipes : (\E r \in SendRes : SendCall(FreeThread, Msg(p, NULL), r)) /\ Say("send ok " \o PName(p))
           \/ /\ SendKind = "routed"
              /\ \E r \in SendRes : SendCall(FreeThread, Msg(NULL, NULL), r)
              /\ Say("send unknown")
           \/ /\ Proto = "xbus"
              /\ \E p \in pipes : (\E r \in SendRes : SendCall(FreeThread, Msg(NULL, p), r)) /\ Say("send fwd " \o PName(p))
     \/ /\ nmsg < MaxMsg
        /\ \E p \in pipes :
             /\ rxHold[p] = NULL
             /\ PeerMsg(p, In(nmsg + 1)) /\ Say("inj " \o PName(p) \o " ok")
        /\ nmsg' = nmsg + 1 /\ UNCHANGED <<order, gated>>
     \/ /\ \E t \in Thread : call[t] = NULL
        /\ \E r \in {"wait", "ErrProtoOp"} : RecvCall(FreeThread, r)
        /\ Say("recv") /\ Keep
     \/ /\ RecvKind # "discard" /\ ~sclosed /\ Proto \notin {"xpull", "xbus"}
        /\ \E n \in {0, 1, 3} : n # opt.rq /\ SetRQ(n) /\ Say("rq " \o ToString(n)) /\ Keep
     \/ /\ Dues # {}
        /\ LET d == CHOOSE x \in Dues : \A y \in Dues : x <= y IN
           /\ now' = d
           /\ opt' = opt
           /\ UNCHANGED <<sockVars, sendVars, recvVars, call, histVars>>
           /\ Say("advto " \o ToString(d)) /\ Keep
     \/ /\ ~sclosed /\ SockClose("ok") /\ Say("sclose") /\ Keep

ScnInit == Init /\ envlog = <<>> /\ order = <<>> /\ gated = {} /\ nmsg = 0
ScnNext == Internal \/ Env
ScnSpec == ScnInit /\ [][ScnNext]_svars
ScnView == <<cfgVars, sockVars, sendVars, recvVars, call, order, gated, nmsg>>
====
