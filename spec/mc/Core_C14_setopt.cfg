SPECIFICATION SetOptSpec
CONSTANTS
  p1 = p1
  p2 = p2
  p3 = p3
  d1 = d1
  l1 = l1
  NULL = NULL
  Pipe = {p1, p2}
  Dialer = {d1}
  Listener = {l1}
  InitOpt <- OptAsync5
CONSTRAINT TimeBound
SYMMETRY PipeSym
INVARIANTS TypeOK DelayEverBounds Spacing Reconnects SyncFailRetryable NothingRemains
PROPERTIES NoAttemptAfterClose
CHECK_DEADLOCK FALSE
