SPECIFICATION ScnSpec
CONSTANTS
  c1 = c1
  c2 = c2
  p1 = p1
  p2 = p2
  p3 = p3
  t1 = t1
  t2 = t2
  t3 = t3
  NULL = NULL
  Ctx = {c1, c2}
  Pipe = {p1, p2, p3}
  Thread = {t1, t2, t3}
  Timed = TRUE
  MaxSurvey = 3
  InitOpt <- OptA
  InitSQ = 1
  RespSet <- Scn_Resps
  Depth = 5
  ScnOpt = "a5"
VIEW ScnView
CHECK_DEADLOCK FALSE
