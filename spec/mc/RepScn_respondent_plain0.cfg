SPECIFICATION ScnSpec
CONSTANTS
  c1 = c1
  c2 = c2
  p1 = p1
  p2 = p2
  p3 = p3
  t1 = t1
  t2 = t2
  t3 = t3
  NULL = NULL
  Kind = "respondent"
  Ctx = {c1, c2}
  Pipe = {p1, p2, p3}
  Thread = {t1, t2, t3}
  Timed = TRUE
  InitOpt <- OptPlain
  InitTTL = 2
  InitSQ = 0
  InitRQ = 2
  ReqSet = {}
  MaxReq = 3
  Depth = 6
  ScnOpt = "respondent_plain0"
VIEW ScnView
CHECK_DEADLOCK FALSE
