---- MODULE MC_Surveyor ----
EXTENDS Surveyor
CONSTANTS c1, c2, p1, p2, t1, t2
R(n, h) == [id |-> n, hi |-> h, tag |-> 0]
MC_Resps == {R(n, TRUE) : n \in 1..MaxSurvey} \cup {R(1, FALSE)}
O(se, re, q) == [survExp |-> se, recvExp |-> re, qlen |-> q]
Opt2 == (c1 :> O(3, 0, 1)) @@ (c2 :> O(3, 2, 2))
Opt1 == (c1 :> O(3, 2, 2))
Bound == Len(delivered) <= 2
Sym == Permutations({p1, p2}) \cup Permutations({t1, t2})
====
