---- MODULE MC_MeshScn ----
(***************************************************************************)
(* Direction 1 for BUS / STAR topologies (C08, C09): the configurations of  *)
(* Mesh.tla within the bounds are enumerated from the specification instead *)
(* of being picked by the driver - every loop-free topology up to MaxN       *)
(* members (one representative per shape: the trees whose labels grow from   *)
(* the root), on STAR with every assignment of the listed TTLs, on BUS with  *)
(* every choice of hubs (raw BUS sockets with a loop-back device, or          *)
(* application-level bridges) and, without hubs, every connected graph        *)
(* (cycles included: a cooked BUS socket does not pass on what it receives).  *)
(* With Emit = TRUE every configuration is printed as a scenario (the step    *)
(* strings are the driver's configuration vocabulary) and nothing else is     *)
(* explored; with Emit = FALSE the same set is model checked against the      *)
(* invariants of Mesh.tla.                                                    *)
(***************************************************************************)
EXTENDS Mesh
CONSTANTS Kind, MaxN, TtlVals, MaxSend, Emit, ScnOpt

Sym(es) == es \cup {<<x[2], x[1]>> : x \in es}
\* trees on 1..n in which every member but the first hangs off an earlier one
Parents(n) == {f \in [2..n -> 1..n] : \A i \in 2..n : f[i] < i}
TreeEdges(n, f) == {<<f[i], i>> : i \in 2..n}
\* connected graphs on 1..n (BUS without hubs)
AllEdges(n) == {<<a, b>> \in (1..n) \X (1..n) : a < b}
RECURSIVE Grow(_, _)
Grow(es, s) == LET t == s \cup {x[2] : x \in {y \in Sym(es) : y[1] \in s}} IN IF t = s THEN s ELSE Grow(es, t)
Connected(n, es) == Grow(es, {1}) = 1..n
Graphs(n) == {es \in SUBSET AllEdges(n) : Connected(n, es)}

StarCfgs == UNION {{[kind |-> "star", n |-> n, edges |-> Sym(TreeEdges(n, f)), hubs |-> {}, ttl |-> tt, bridge |-> FALSE] :
                     f \in Parents(n), tt \in [1..n -> TtlVals] \cup {[i \in 1..n |-> 8]}} : n \in 2..MaxN}
Eights(n) == [i \in 1..n |-> 8]
BusPlain == UNION {{[kind |-> "bus", n |-> n, edges |-> Sym(es), hubs |-> {}, ttl |-> Eights(n), bridge |-> FALSE] :
                     es \in Graphs(n)} : n \in 2..MaxN}
\* hubs only on trees (a loop of forwarders never ends); at least two members remain
BusHubs == UNION {{[kind |-> "bus", n |-> n, edges |-> Sym(TreeEdges(n, f)), hubs |-> hs, ttl |-> Eights(n), bridge |-> br] :
                     f \in Parents(n), hs \in {h \in SUBSET (1..n) : h # {} /\ Cardinality((1..n) \ h) >= 2},
                     br \in BOOLEAN} : n \in 3..MaxN}
\* a bridge (two raw sockets) is run with a single hub only
Cfgs == IF Kind = "star" THEN StarCfgs ELSE BusPlain \cup {c \in BusHubs : c.bridge => Cardinality(c.hubs) = 1}

RECURSIVE Join(_)
Join(s) == IF s = <<>> THEN "" ELSE " " \o ToString(Head(s)) \o Join(Tail(s))
RECURSIVE SetSeq(_)
SetSeq(S) == IF S = {} THEN <<>> ELSE LET x == CHOOSE y \in S : TRUE IN <<x>> \o SetSeq(S \ {x})
Steps(c) == <<"kind " \o c.kind, "n " \o ToString(c.n)>>
            \o [i \in 1..Cardinality({x \in c.edges : x[1] < x[2]}) |->
                  LET x == SetSeq({y \in c.edges : y[1] < y[2]})[i] IN "edge " \o ToString(x[1]) \o " " \o ToString(x[2])]
            \o <<"ttl" \o Join(c.ttl), "hubs" \o Join(SetSeq(c.hubs)), IF c.bridge THEN "bridge" ELSE "device">>

MCInit == /\ \E c \in Cfgs :
               /\ mcfg = [kind |-> c.kind, n |-> c.n, edges |-> c.edges, hubs |-> c.hubs, ttl |-> c.ttl]
               /\ Emit => PrintT(<<"SCN", ScnOpt, Steps(c)>>)
          /\ copies = {} /\ inbox = <<>> /\ got = <<>> /\ origin = <<>>
NSent(a) == Cardinality({p \in DOMAIN origin : origin[p] = a})
MCNext ==
  /\ ~Emit
  /\ \/ \E a \in Nodes : NSent(a) < MaxSend /\ Cardinality(DOMAIN origin) < MaxSend + 1 /\ MSend(a, <<a, NSent(a) + 1>>)
     \/ \E c \in copies : Xs(c.src, c.dst, c.p, IF Star THEN c.k - 1 ELSE 0)
     \/ \E b \in Nodes, p \in DOMAIN origin : MRecv(b, p)
MCSpec == MCInit /\ [][MCNext]_mvars
====
