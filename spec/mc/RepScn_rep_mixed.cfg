SPECIFICATION ScnSpec
CONSTANTS
  c1 = c1
  c2 = c2
  p1 = p1
  p2 = p2
  p3 = p3
  t1 = t1
  t2 = t2
  t3 = t3
  NULL = NULL
  Kind = "rep"
  Ctx = {c1, c2}
  Pipe = {p1, p2, p3}
  Thread = {t1, t2, t3}
  Timed = TRUE
  InitOpt <- OptMixed
  InitTTL = 2
  InitSQ = 1
  InitRQ = 0
  ReqSet = {}
  MaxReq = 3
  Depth = 6
  ScnOpt = "rep_mixed"
VIEW ScnView
CHECK_DEADLOCK FALSE
