SPECIFICATION Spec
CONSTANT MaxLen = 5
INVARIANT Implements
CHECK_DEADLOCK FALSE
