SPECIFICATION Spec
CONSTRAINT Report
INVARIANT Bounded
CHECK_DEADLOCK FALSE
