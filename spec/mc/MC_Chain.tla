---- MODULE MC_Chain ----
EXTENDS Chain
CONSTANTS Clients, MaxSend, Pats, Ring
Ttls == {1, 2, 3}
Cfgs == {[pat |-> pt, ndev |-> n, ttl |-> t, ring |-> Ring, maxttl |-> 3] :
           pt \in Pats, n \in (IF Ring THEN {1, 2} ELSE {0, 1, 2}), t \in [1..3 -> Ttls]}
MCInit == /\ cfg \in Cfgs /\ out = <<>> /\ msgs = {} /\ cur = NULL /\ cnt = <<>> /\ nxt = <<>>
Payload(c, n) == <<c, n>>
MCNext ==
  \/ \E c \in Clients : Get(cnt, <<c, "req">>, 0) < MaxSend /\ CSend(c, Payload(c, Get(cnt, <<c, "req">>, 0) + 1))
  \/ (cur = NULL /\ \E m \in msgs : SRecv(m.p))      \* the server application answers before it receives again
  \/ (cur # NULL /\ TwoWay /\ SSend(<<"r", cur.p>>))
  \/ (cfg.pat = "pair" /\ Get(cnt, <<"srv", "rep">>, 0) < MaxSend /\ SSend(<<"srv", Get(cnt, <<"srv", "rep">>, 0) + 1>>))
  \/ \E c \in Clients : \E m \in msgs : CRecvOK(c, m.p)
  \/ \E c \in Clients : Get(out, c, NULL) # NULL /\ ~Stuck /\ CRecvNone(c)
  \/ \E m \in msgs, j \in 1..3, nw \in 0..4 : FwdReq(m.p, j, nw) \/ FwdRep(m.p, j, nw)
  \/ Discard
MCSpec == MCInit /\ [][MCNext]_vars

\* answers only ever travel toward the client that asked, carrying the request they answer
ReplyToAsker == \A m \in msgs : (m.dir = "rep" /\ TwoWay) => m.c = m.q[1] /\ m.p = <<"r", m.q>>
\* at quiescence nothing was lost that the hop limits allow: a current request whose path is within every TTL
\* is with the server (or answered and on its way back is impossible at quiescence), everything else is gone
Deliverable == \A k \in 1..Last : k <= cfg.ttl[k]
NoLoss == (~cfg.ring /\ TwoWay /\ ~Stuck) =>
            \A c \in Clients : (Get(out, c, NULL) # NULL /\ Deliverable) =>
               \/ \E m \in msgs : m.dir = "req" /\ m.p = out[c] /\ m.at = Last
               \/ cur # NULL /\ cur.p = out[c]
               \/ \E m \in msgs : m.dir = "rep" /\ m.q = out[c] /\ m.at = 0
NoGhost == (~cfg.ring /\ TwoWay /\ ~Deliverable) => cur = NULL /\ \A m \in msgs : m.dir = "req" /\ m.at < Last
OneWayOrder == ~TwoWay => \A m \in msgs : m.seq > Get(nxt, <<m.c, m.dir>>, 0)
====
