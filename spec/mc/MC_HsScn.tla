---- MODULE MC_HsScn ----
(***************************************************************************)
(* Scenario generation from Handshaker.tla (specification ->               *)
(* implementation): every sequence of Start / peer answers well, badly or  *)
(* goes away / Wait / Close up to the depth bound that leads through a      *)
(* distinct state of the model, as the handshaker driver's step strings.    *)
(* A Wait that finds nothing stays pending (counted) and completes as soon  *)
(* as an outcome is filed or the handshaker is closed - eagerly, like every  *)
(* other step the library takes on its own.                                 *)
(***************************************************************************)
EXTENDS Handshaker, TLC
CONSTANTS c1, c2, c3, c4, Depth, ScnOpt
VARIABLES envlog, nstart, waiters, acted

svars == <<vars, envlog, nstart, waiters, acted>>
ConnSeq == <<c1, c2, c3, c4>>
Name(c) == "c" \o ToString(CHOOSE i \in 1..4 : ConnSeq[i] = c)
Say(s) == /\ envlog' = Append(envlog, s)
          /\ PrintT(<<"SCN", ScnOpt, envlog'>>)

Busy == \/ waiters > 0 /\ (closed \/ doneq # <<>>)
        \/ \E c \in Conn : st[c] = "working" /\ ~open[c]

Internal ==
  /\ UNCHANGED <<envlog, nstart, acted>>
  /\ \/ /\ waiters > 0 /\ (WaitClosed \/ WaitItem) /\ waiters' = waiters - 1
     \/ /\ \E c \in Conn : st[c] = "working" /\ ~open[c] /\ Finish(c, FALSE)
        /\ UNCHANGED waiters

Env ==
  /\ ~Busy
  /\ Len(envlog) < Depth
  /\ \/ /\ nstart < 4
        /\ Start(ConnSeq[nstart + 1]) /\ nstart' = nstart + 1
        /\ Say("start " \o Name(ConnSeq[nstart + 1])) /\ UNCHANGED <<waiters, acted>>
     \/ \E c \in Conn :
          /\ st[c] = "working" /\ c \notin acted /\ open[c]
          /\ acted' = acted \cup {c} /\ UNCHANGED <<nstart, waiters>>
          /\ \/ Finish(c, TRUE) /\ Say("good " \o Name(c))
             \/ Finish(c, FALSE) /\ Say("bad " \o Name(c))
             \/ PeerDrop(c) /\ Say("drop " \o Name(c))
     \/ /\ waiters < 3 /\ waiters' = waiters + 1
        /\ UNCHANGED <<vars, nstart, acted>> /\ Say("wait")
     \/ /\ Close /\ Say("close") /\ UNCHANGED <<nstart, waiters, acted>>

ScnInit == Init /\ envlog = <<>> /\ nstart = 0 /\ waiters = 0 /\ acted = {}
ScnNext == Internal \/ Env
ScnSpec == ScnInit /\ [][ScnNext]_svars
ScnView == <<st, open, doneq, closed, nstart, waiters, acted>>
====
