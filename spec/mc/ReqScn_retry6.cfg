SPECIFICATION ScnSpec
CONSTANTS
  c1 = c1
  c2 = c2
  p1 = p1
  p2 = p2
  p3 = p3
  t1 = t1
  t2 = t2
  t3 = t3
  NULL = NULL
  Ctx = {c1, c2}
  Pipe = {p1, p2, p3}
  Thread = {t1, t2, t3}
  MaxReq = 3
  Timed = TRUE
  Depth = 6
  ScnOpt = "retry"
  InitOpt <- OptRetry
  ReplySet <- Scn_Replies
VIEW ScnView
CHECK_DEADLOCK FALSE
