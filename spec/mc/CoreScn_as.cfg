SPECIFICATION ScnSpec
CONSTANTS
  p1 = p1
  p2 = p2
  p3 = p3
  d1 = d1
  l1 = l1
  NULL = NULL
  Pipe = {p1, p2, p3}
  Dialer = {d1}
  Listener = {l1}
  InitOpt <- OptAs
  Depth = 6
  AdvMs = 100
  ScnOpt = "as"
VIEW ScnView
CHECK_DEADLOCK FALSE
