SPECIFICATION Spec
CONSTANTS
  c1 = c1
  c2 = c2
  p1 = p1
  p2 = p2
  t1 = t1
  t2 = t2
  NULL = NULL
  Ctx = {c1, c2}
  Pipe = {p1, p2}
  Thread = {t1, t2}
  Timed = FALSE
  MaxSurvey = 2
  InitOpt <- Opt2
  InitSQ = 1
  RespSet <- MC_Resps
SYMMETRY Sym
INVARIANTS QueuesHoldOwn CurrentRegistered OneLivePerCtx DeliveredIsBound CancelledGone QueueBounded CloseUnblocks
CONSTRAINT Bound
CHECK_DEADLOCK FALSE
