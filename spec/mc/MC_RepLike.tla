---- MODULE MC_RepLike ----
EXTENDS RepLike
CONSTANTS c1, c2, p1, p2, t1, t2
O(se, re, be) == [sendExp |-> se, recvExp |-> re, bestEffort |-> be]
OptPlain == (c1 :> O(0, 0, FALSE)) @@ (c2 :> O(0, 0, FALSE))
OptMixed == (c1 :> O(2, 2, FALSE)) @@ (c2 :> O(0, 0, TRUE))
MC_Reqs == { [n |-> 1, avail |-> 1, hdr |-> <<"A">>, tag |-> 1],
             [n |-> 2, avail |-> 3, hdr |-> <<"x", "A">>, tag |-> 2],
             [n |-> 3, avail |-> 3, hdr |-> <<"x", "y", "B">>, tag |-> 3],   \* over the TTL of 2
             [n |-> 1, avail |-> 0, hdr |-> <<>>, tag |-> 4] }                \* garbled
MC_RQ == {0, 2}
Bound == Len(arrived) <= 3 /\ Len(sent) <= 3
\* liveness: no state constraint; finite by construction
LiveNext == Next /\ Len(arrived') <= 2 /\ Len(sent') <= 3
LiveSpec == Init /\ [][LiveNext]_vars /\ Fairness
Bound2 == Len(arrived) <= 2 /\ Len(sent) <= 2
Sym == Permutations({p1, p2}) \cup Permutations({t1, t2})
====
