---- MODULE MC_ReqScn ----
(***************************************************************************)
(* Scenario generation from Req.tla (direction 1: specification ->         *)
(* implementation).  The REQ driver executes one environment step at a     *)
(* time and then lets the library run until nothing moves (quiescence).    *)
(* This module gives Req.tla the same shape: internal actions are taken    *)
(* eagerly, environment actions only in quiescent states, and every        *)
(* environment action appends the driver's step string to `envlog`.        *)
(* `envlog` is not part of the VIEW, so TLC explores each distinct         *)
(* abstract state once; every environment transition TLC generates from a  *)
(* distinct quiescent state prints the step sequence that leads through    *)
(* it.  The printed sequences (maximal ones) are the scenarios: together    *)
(* they take the real socket through every environment transition of the   *)
(* reachable quiescent states of the model within the depth bound, and the  *)
(* recorded executions are validated against TraceReq as usual.  The model  *)
(* of the environment here only has to be roughly right: it decides which   *)
(* scenarios are run, never the verdict.                                    *)
(***************************************************************************)
EXTENDS Req
CONSTANTS c1, c2, p1, p2, p3, t1, t2, t3,
          Depth,        \* number of environment steps per scenario
          ScnOpt        \* name of the option mix (printed with each scenario)
VARIABLES envlog, order, gated

svars == <<vars, envlog, order, gated>>

O(retry, se, re, be, fnp) == [retry |-> retry, sendExp |-> se, recvExp |-> re, bestEffort |-> be, failNoPeers |-> fnp]
OptRetry == (c1 :> O(5, 0, 0, FALSE, FALSE)) @@ (c2 :> O(0, 0, 0, FALSE, FALSE))
OptDeadl == (c1 :> O(5, 2, 0, FALSE, FALSE)) @@ (c2 :> O(5, 0, 3, FALSE, FALSE))
OptBE    == (c1 :> O(5, 0, 0, TRUE, FALSE)) @@ (c2 :> O(0, 0, 3, FALSE, TRUE))
Scn_Replies == {[id |-> n, hi |-> TRUE, tag |-> 0] : n \in 1..MaxReq} \cup {[id |-> 1, hi |-> FALSE, tag |-> 0]}

PipeSeq == <<p1, p2, p3>>
CName(c) == IF c = c1 THEN "c0" ELSE "c1"
Idx(p) == CHOOSE i \in 1..Len(order) : order[i] = p
PName(p) == "p" \o ToString(Idx(p))
Log(s) == /\ envlog' = Append(envlog, s)
          /\ PrintT(<<"SCN", ScnOpt, envlog'>>)

\* the transport takes what an ungated pipe is handed; a send on a pipe that went away fails
AutoXmit(p) ==
  /\ inflight[p] # NULL /\ inflight[p].st = "tx"
  /\ IF pclosed[p] THEN XmitEnd(p, FALSE) ELSE (p \notin gated /\ XmitEnd(p, TRUE))

Busy == CanInternal \/ \E p \in Pipe : inflight[p] # NULL /\ inflight[p].st = "tx" /\ (pclosed[p] \/ p \notin gated)

Internal ==
  /\ UNCHANGED <<envlog, order, gated>>
  /\ \/ Dispatch
     \/ \E p \in Pipe : XmitStart(p) \/ AutoXmit(p) \/ Requeue(p)
     \/ \E x \in asyncRs : ResendRun(x[1], x[2])
     \/ \E t \in Thread : \E r \in {"ok", "ErrClosed", "ErrNoPeers", "ErrSendTimeout", "ErrCanceled"} : SendWake(t, r)
     \/ \E t \in Thread : \E r \in {"ok", "ErrClosed", "ErrNoPeers", "ErrRecvTimeout", "ErrCanceled"} :
          \E m \in ReplySet \cup {NoReply} : RecvWake(t, r, m)

FreeThread == CHOOSE t \in Thread : call[t] = NULL

Env ==
  /\ ~Busy
  /\ Len(envlog) < Depth
  /\ \/ \* a new connection (the next unused pipe), taking or stalling
        /\ ~sclosed /\ Len(order) < Len(PipeSeq)
        /\ LET p == PipeSeq[Len(order) + 1] IN
           \E g \in BOOLEAN :
             /\ AddPipe(p, TRUE)
             /\ order' = Append(order, p)
             /\ gated' = IF g THEN gated \cup {p} ELSE gated
             /\ Log(IF g THEN "conngated" ELSE "conn")
     \/ \E p \in pipes : RemovePipe(p) /\ Log("drop " \o PName(p)) /\ UNCHANGED <<order, gated>>
     \/ \E p \in pipes \cap gated :
          /\ inflight[p] # NULL /\ inflight[p].st = "tx"
          /\ XmitEnd(p, TRUE) /\ Log("release " \o PName(p)) /\ UNCHANGED <<order, gated>>
     \/ /\ \E t \in Thread : call[t] = NULL
        /\ \E c \in Ctx :
             \/ /\ \E r \in {"ok", "wait", "ErrClosed", "ErrNoPeers"} : SendCall(FreeThread, c, r)
                /\ Log("send " \o CName(c)) /\ UNCHANGED <<order, gated>>
             \/ /\ \E r \in {"wait", "ErrClosed", "ErrNoPeers", "ErrProtoState"} : RecvCall(FreeThread, c, r)
                /\ Log("recv " \o CName(c)) /\ UNCHANGED <<order, gated>>
     \/ \E p \in pipes, r \in ReplySet :
          /\ Reply(p, r)
          /\ Log("replyid " \o PName(p) \o " " \o ToString(r.id) \o (IF r.hi THEN " hi" ELSE " lo"))
          /\ UNCHANGED <<order, gated>>
     \/ \E tm \in timers :
          /\ FireResend(tm) \/ FireSend(tm) \/ FireRecv(tm)
          /\ Log("advto " \o ToString(tm.due)) /\ UNCHANGED <<order, gated>>
     \/ /\ c2 \in Ctx /\ ~cclosed[c2] /\ CtxClose(c2, "ok")
        /\ Log("cclose c1") /\ UNCHANGED <<order, gated>>
     \/ /\ ~sclosed /\ SockClose("ok") /\ Log("sclose") /\ UNCHANGED <<order, gated>>

ScnInit == Init /\ envlog = <<>> /\ order = <<>> /\ gated = {}
ScnNext == Internal \/ Env
ScnSpec == ScnInit /\ [][ScnNext]_svars
ScnView == <<opt, now, sockVars, ctxVars, timers, curResend, curSend, curRecv, inflight, asyncRs, callVars, order, gated>>
====
