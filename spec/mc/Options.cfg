SPECIFICATION Spec
INVARIANTS AcceptedValid NoValueIfUnsupported
CHECK_DEADLOCK FALSE
