---- MODULE MC_WsListener ----
EXTENDS WsListener, TLC
CONSTANT Blind
Perms == Permutations(Conn)
MCNext == \/ \E c \in Conn : Check(c) \/ (IF Blind THEN ParkBlind(c) ELSE Park(c)) \/ \E ok \in BOOLEAN : Upgrade(c, ok)
          \/ AcceptTake \/ (Len(got) < 4 /\ AcceptClosed) \/ Close
MCSpec == Init /\ [][MCNext]_vars
====
