---- MODULE MC_Options ----
EXTENDS Options
====
