SPECIFICATION ScnSpec
CONSTANTS
  c1 = c1
  c2 = c2
  p1 = p1
  p2 = p2
  t1 = t1
  t2 = t2
  t3 = t3
  NULL = NULL
  Ctx = {c1, c2}
  Pipe = {p1, p2}
  Thread = {t1, t2, t3}
  Timed = TRUE
  InitQLen <- QL
  InitRecvExp <- RE
  Topics <- Scn_Topics
  Bodies <- Scn_Bodies
  Depth = 5
  ScnOpt = "q5"
VIEW ScnView
CHECK_DEADLOCK FALSE
