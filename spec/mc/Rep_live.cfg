SPECIFICATION LiveSpec
CONSTANTS
  c1 = c1
  c2 = c2
  p1 = p1
  p2 = p2
  t1 = t1
  t2 = t2
  NULL = NULL
  Kind = "rep"
  Ctx = {c1, c2}
  Pipe = {p1, p2}
  Thread = {t1, t2}
  Timed = FALSE
  InitOpt <- OptMixed
  InitTTL = 2
  InitSQ = 1
  InitRQ = 0
  ReqSet <- MC_Reqs
PROPERTIES SendReturns AcceptedReplySent WaitingRecvServed
CHECK_DEADLOCK FALSE
