---- MODULE MC_Handshaker ----
EXTENDS Handshaker, TLC
CONSTANT LeakyStart
Perms == Permutations(Conn)
MCNext == \/ \E c \in Conn : (IF LeakyStart THEN StartLeaks(c) ELSE Start(c)) \/ PeerDrop(c) \/ \E ok \in BOOLEAN : Finish(c, ok)
          \/ (Len(got) < 4 /\ WaitClosed) \/ WaitItem \/ Close
MCSpec == Init /\ [][MCNext]_vars
====
