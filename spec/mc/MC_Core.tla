---- MODULE MC_Core ----
EXTENDS Core
CONSTANTS p1, p2, p3, d1, l1
OptAsync5 == (d1 :> [min |-> 2, max |-> 5, asynch |-> TRUE])
OptSync5  == (d1 :> [min |-> 2, max |-> 5, asynch |-> FALSE])
OptAsync0 == (d1 :> [min |-> 2, max |-> 0, asynch |-> TRUE])
OptSync0  == (d1 :> [min |-> 2, max |-> 0, asynch |-> FALSE])
TimeBound == now <= 12 /\ \A d \in Dialer : Len(dialLog[d]) <= 7
PipeSym == Permutations(Pipe)
\* reconnect times changed while the dialer is at work (SetReconnOpt): the environment picks among a few settings at any
\* moment; the delay stays within the smallest initial value and the largest maximum (or initial value) there ever was,
\* attempts stay spaced by the delay in force when they were scheduled, a started dialer always has a retry pending
OptChoices == {[min |-> 2, max |-> 5], [min |-> 2, max |-> 0], [min |-> 1, max |-> 3]}
SetOptNext == \/ Next
              \/ \E d \in Dialer, v \in OptChoices : (opt[d].min # v.min \/ opt[d].max # v.max) /\ SetReconnOpt(d, v.min, v.max)
SetOptSpec == Init /\ [][SetOptNext]_vars
DelayEverBounds == \A d \in Dialer : reconn[d] >= 1 /\ reconn[d] <= 5
\* liveness configurations: no state constraint (it would cut behaviours short); the environment is finite by construction
OptNone == [d \in {} |-> [min |-> 0, max |-> 0, asynch |-> TRUE]]
LiveNext == NextFine /\ UNCHANGED opt /\ \A d \in Dialer : Len(dialLog'[d]) <= 6
LiveSpec == Init /\ [][LiveNext]_vars /\ Fairness /\ FairnessClose
View == <<opt, now, sockClosed, pipeVars, async, timers, dialVars, lisVars, hookLog, protoLog>>
====
