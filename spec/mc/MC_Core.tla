---- MODULE MC_Core ----
EXTENDS Core
CONSTANTS p1, p2, p3, d1, l1
OptAsync5 == (d1 :> [min |-> 2, max |-> 5, asynch |-> TRUE])
OptSync5  == (d1 :> [min |-> 2, max |-> 5, asynch |-> FALSE])
OptAsync0 == (d1 :> [min |-> 2, max |-> 0, asynch |-> TRUE])
OptSync0  == (d1 :> [min |-> 2, max |-> 0, asynch |-> FALSE])
TimeBound == now <= 12 /\ \A d \in Dialer : Len(dialLog[d]) <= 7
PipeSym == Permutations(Pipe)
\* liveness configurations: no state constraint (it would cut behaviours short); the environment is finite by construction
OptNone == [d \in {} |-> [min |-> 0, max |-> 0, asynch |-> TRUE]]
LiveNext == NextFine /\ UNCHANGED opt /\ \A d \in Dialer : Len(dialLog'[d]) <= 6
LiveSpec == Init /\ [][LiveNext]_vars /\ Fairness /\ FairnessClose
View == <<opt, now, sockClosed, pipeVars, async, timers, dialVars, lisVars, hookLog, protoLog>>
====
