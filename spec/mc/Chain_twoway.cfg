SPECIFICATION MCSpec
CONSTANTS
  NULL = NULL
  Clients = {"c1", "c2"}
  MaxSend = 2
  Pats = {"reqrep"}
  Ring = FALSE
INVARIANTS HopLimit ReplyToAsker NoLoss NoGhost
CHECK_DEADLOCK FALSE
