SPECIFICATION ScnSpec
CONSTANTS
  Lst = {"l1", "l2", "l3", "l4"}
  Dlr = {"d1", "d2", "d3", "d4"}
  Acc = {"t1", "t2", "t3", "t4"}
  Addr = {"a1", "a2"}
  AddrOf <- SAddrOf
  ProtoOK <- SProtoOK
  NULL = "NULL"
  Depth = 5
  ScnOpt = "inproc"
VIEW ScnView
CHECK_DEADLOCK FALSE
