SPECIFICATION MCSpec
CONSTANTS
  NULL = NULL
  Kind = "bus"
  Topos = {"pair", "line3", "mesh3", "hub3"}
  MaxSend = 2
INVARIANTS NoEcho OnceEach AllReached
CHECK_DEADLOCK FALSE
