SPECIFICATION MCSpec
CONSTANTS
  Lst = {"l1", "l2", "l3"}
  Dlr = {"d1", "d2"}
  Acc = {"t1", "t2"}
  Addr = {"a1", "a2"}
  AddrOf <- MCAddrOf
  ProtoOK <- MCProtoOK
  NULL = NULL
INVARIANTS OneListener Pairing OffersAreWaiters NoWaiterOnClosed WaitingIsJustified
CHECK_DEADLOCK FALSE
