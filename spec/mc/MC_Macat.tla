---- MODULE MC_Macat ----
EXTENDS Macat
\* --- codec lemmas (evaluated by TLC before the state exploration)
Bytes == 0..255
Special == {0, 9, 10, 13, 31, 32, 34, 46, 48, 65, 92, 97, 102, 110, 114, 120, 126, 127, 128, 173, 255}
ASSUME QuoteByteDecodes == \A b \in Bytes : Unquote(QuoteByte(b)) = [ok |-> TRUE, v |-> <<b>>]
ASSUME QuoteNoRawNewline == \A b \in Bytes : \A i \in 1..Len(QuoteByte(b)) : QuoteByte(b)[i] \notin {10, 13} /\ QuoteByte(b)[i] >= 32 /\ QuoteByte(b)[i] < 127
ASSUME QuotePairs == \A a \in Special, b \in Special : Unquote(QuoteFrom(<<a, b>>, 1)).v = <<a, b>>
ASSUME QuoteTriples == \A a \in {92, 120, 48}, b \in {92, 120, 48, 10}, d \in {92, 48, 65} :
                          LET m == <<a, b, d>> IN OutputOK("quoted", <<m, <<>>, m>>, Quoted(m) \o Quoted(<<>>) \o Quoted(m))
\* the strict reader refuses what is not an encoding
ASSUME UnquoteStrict == /\ ~Unquote(<<34>>).ok /\ ~Unquote(<<92>>).ok /\ ~Unquote(<<92, 120, 52>>).ok /\ ~Unquote(<<92, 113>>).ok
                        /\ ~Unquote(<<9>>).ok /\ ~Unquote(<<127>>).ok /\ ~Unquote(<<92, 120, 103, 48>>).ok
ASSUME AsciiShape == \A a \in Bytes : LET o == Ascii(<<a, 65>>) IN
                        /\ Len(o) = 3 /\ o[3] = 10 /\ o[2] = 65
                        /\ o[1] = (IF a >= 32 /\ a <= 126 THEN a ELSE 46)
Sizes == {0, 1, 255, 256, 257, 65535, 65536, 65537, 16777215, 16777216, 16777217, 2147483647}
ASSUME MpRoundTrip == \A n \in Sizes : MpLen(MpHeader(n)) = n /\ MpHdrLen(MpHeader(n)) = Len(MpHeader(n))
ASSUME MpClasses == /\ \A n \in Sizes : \A i \in 1..Len(MpHeader(n)) : MpHeader(n)[i] \in Bytes
                    /\ MpHeader(255)[1] = 196 /\ MpHeader(256)[1] = 197 /\ MpHeader(65535)[1] = 197 /\ MpHeader(65536)[1] = 198
ASSUME MpStream == \A a \in {0, 196, 255} : LET m1 == <<a>> m2 == <<>> m3 == <<a, a, 10>> IN
                      /\ OutputOK("msgpack", <<m1, m2, m3>>, Msgpack(m1) \o Msgpack(m2) \o Msgpack(m3))
                      /\ ~OutputOK("msgpack", <<m1, m3>>, Msgpack(m1) \o <<196, 4>> \o m3)
                      /\ ~OutputOK("msgpack", <<m3>>, <<197, 0>> \o m3)
ASSUME AsciiReadings == /\ \A a \in Bytes : AsciiOK(<<a>>, Ascii(<<a>>))
                        /\ AsciiOK(<<233>>, <<233, 10>>) /\ ~AsciiOK(<<128>>, <<128, 10>>) /\ ~AsciiOK(<<173>>, <<173, 10>>)
                        /\ ~AsciiOK(<<7>>, <<7, 10>>) /\ ~AsciiOK(<<65>>, <<46, 10>>) /\ ~AsciiOK(<<65>>, <<65>>)
ASSUME RawAscii == /\ OutputOK("raw", <<<<1, 10>>, <<>>, <<0>>>>, <<1, 10, 0>>)
                   /\ OutputOK("ascii", <<<<1, 65>>, <<>>>>, <<46, 65, 10, 10>>)
                   /\ OutputOK("no", <<<<1>>>>, <<>>) /\ ~OutputOK("no", <<<<1>>>>, <<1>>)
ASSUME Durations == /\ DurMs("int", 5, "") = 5000 /\ DurMs("go", 5, "ms") = 5 /\ DurMs("go", 2, "m") = 120000
                    /\ DurMs("frac", 15, "s") = 1500 /\ DurMs("int", -1, "") = -1000 /\ DurMs("int", 0, "") = 0

\* --- the command-line automaton against the order-free statement
Tok(o, v, n) == [o |-> o, v |-> v, n |-> n]
Alphabet == {Tok("proto", "push", 0), Tok("proto", "pull", 0), Tok("proto", "req", 0), Tok("proto", "sub", 0), Tok("proto", "pair", 0),
             Tok("bind", "ok", 0), Tok("connect", "bad", 0), Tok("sub", "", 0), Tok("fmt", "ascii", 0), Tok("fmt", "bogus", 0),
             Tok("data", "", 0), Tok("file", "ok", 0), Tok("file", "missing", 0),
             Tok("count", "", 0), Tok("count", "", 1), Tok("count", "", 2), Tok("interval", "ok", 10), Tok("rt", "ok", 100), Tok("extra", "", 0)}
CONSTANT MaxLen
Next == Len(hist) < MaxLen /\ \E t \in Alphabet : Read(t)
Spec == Init /\ [][Next]_vars
====
