SPECIFICATION MCSpec
CONSTANTS
  Conn = {c1, c2, c3}
  NULL = NULL
  Blind = FALSE
SYMMETRY Perms
INVARIANTS NothingParkedAfterClose HandedOnce
CHECK_DEADLOCK FALSE
