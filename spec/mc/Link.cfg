SPECIFICATION Spec
CONSTANT Dir = {ab, ba}
CONSTRAINT B
INVARIANT Bounded
