SPECIFICATION Spec
CONSTANTS
  c1 = c1
  c2 = c2
  p1 = p1
  p2 = p2
  p3 = p3
  t1 = t1
  t2 = t2
  NULL = NULL
  Ctx = {c1, c2}
  Pipe = {p1, p2}
  Thread = {t1, t2}
  MaxReq = 2
  Timed = FALSE
  InitOpt <- OptDeadl
  ReplySet <- MC_Replies
CONSTRAINT Bound
VIEW View
SYMMETRY Sym
INVARIANTS TypeOK MappingSound ReplyIsCurrent DeliveredIsCurrent AtMostOneReply QueuedIsLive ReadyNotBusy ReadyDistinct ClosedIsEmpty CloseUnblocks NoOrphan RetryArmed BlockedForAReason
PROPERTIES DeliveredMostRecent NoDeadDispatch NoRetryNoResend
CHECK_DEADLOCK FALSE
