SPECIFICATION LiveSpec
CONSTANTS
  c1 = c1
  c2 = c2
  p1 = p1
  p2 = p2
  p3 = p3
  t1 = t1
  t2 = t2
  NULL = NULL
  Ctx = {c1}
  Pipe = {p1, p2}
  Thread = {t1, t2}
  MaxReq = 2
  Timed = FALSE
  InitOpt <- Opt1All
  ReplySet <- MC_Replies
PROPERTIES QueuedDispatched SendReturns NeverOrphaned
CHECK_DEADLOCK FALSE
