SPECIFICATION Spec
CONSTANT MaxLen = 4
INVARIANT Implements
CHECK_DEADLOCK FALSE
