---- MODULE MC_InprocScn ----
(***************************************************************************)
(* Scenario generation from Inproc.tla (specification -> implementation):  *)
(* Listen / Accept / Dial / Close in every order up to the depth bound,    *)
(* with the listener and dialer names of the driver's convention (l1, l3,   *)
(* l4 PAIR, l2 REP; l3 on the second address; d3 REQ, d4 on the second      *)
(* address).  A waiting dialer looks at the table again as soon as it can   *)
(* move (eagerly).                                                          *)
(***************************************************************************)
EXTENDS Inproc, TLC
CONSTANTS Depth, ScnOpt
VARIABLES envlog, nacc, ndial

svars == <<vars, envlog, nacc, ndial>>
SAddrOf == [x \in Lst \cup Dlr |-> IF x \in {"l3", "d4"} THEN "a2" ELSE "a1"]
SProtoOK == [d \in Dlr |-> [x \in Lst |-> (d = "d3") = (x = "l2")]]
AccSeq == <<"t1", "t2", "t3", "t4">>
DlrSeq == <<"d1", "d2", "d3", "d4">>
Say(s) == /\ envlog' = Append(envlog, s)
          /\ PrintT(<<"SCN", ScnOpt, envlog'>>)
Busy == \E d \in Dlr : DialCanMove(d)
Internal == /\ UNCHANGED <<envlog, nacc, ndial>>
            /\ \E d \in Dlr : DialCanMove(d) /\ DialTry(d)
Env ==
  /\ ~Busy
  /\ Len(envlog) < Depth
  /\ \/ \E x \in Lst : (\E r \in {"ok", "ErrClosed", "ErrAddrInUse"} : Listen(x, r)) /\ Say("listen " \o x) /\ UNCHANGED <<nacc, ndial>>
     \/ /\ nacc < Len(AccSeq)
        /\ \E x \in Lst : AcceptStart(AccSeq[nacc + 1], x) /\ Say("accept " \o x)
        /\ nacc' = nacc + 1 /\ UNCHANGED ndial
     \/ /\ ndial < Len(DlrSeq)
        /\ \E d \in Dlr : dial[d].st = "idle" /\ DialTry(d) /\ Say("dial " \o d)
        /\ ndial' = ndial + 1 /\ UNCHANGED nacc
     \/ \E x \in Lst : ~lst[x].closed /\ CloseL(x) /\ Say("close " \o x) /\ UNCHANGED <<nacc, ndial>>
ScnInit == Init /\ envlog = <<>> /\ nacc = 0 /\ ndial = 0
ScnNext == Internal \/ Env
ScnSpec == ScnInit /\ [][ScnNext]_svars
ScnView == <<vars, nacc, ndial>>
====
