----------------------------- MODULE WsListener -----------------------------
(***************************************************************************)
(* transport/ws listener: an HTTP server whose handler upgrades a request   *)
(* to a WebSocket and parks the connection in `pending` until the socket's  *)
(* accept loop takes it.  One action per lock region:                       *)
(*                                                                         *)
(*   Check(c)    ServeHTTP: sub-protocol matched, `running` looked at under  *)
(*               the lock, lock released                                    *)
(*   Upgrade(c)  the HTTP upgrade itself (network I/O, no lock)              *)
(*   Park(c)     handler: under the lock the connection goes into pending;  *)
(*               the HTTP goroutine then waits until the pipe is closed      *)
(*   Accept      takes the newest pending connection, or ErrClosed           *)
(*   Close       stops the server, closes what is pending                    *)
(*                                                                         *)
(* Serves C10 (no connection remains after Close whatever was in progress). *)
(***************************************************************************)
EXTENDS Integers, Sequences, FiniteSets

CONSTANTS Conn, NULL
VARIABLES st,       \* Conn -> "new" | "checked" | "upgraded" | "pending" | "handed" | "refused" | "closed"
          pending,  \* sequence of connections parked
          running, closed,
          got       \* what Accept returned, in order
vars == <<st, pending, running, closed, got>>

Init == /\ st = [c \in Conn |-> "new"] /\ pending = <<>> /\ running = TRUE /\ closed = FALSE /\ got = <<>>

Check(c) == /\ st[c] = "new"
            /\ st' = [st EXCEPT ![c] = IF running THEN "checked" ELSE "refused"]
            /\ UNCHANGED <<pending, running, closed, got>>
Upgrade(c, ok) == /\ st[c] = "checked"
                  /\ st' = [st EXCEPT ![c] = IF ok THEN "upgraded" ELSE "refused"]
                  /\ UNCHANGED <<pending, running, closed, got>>
\* the repaired handler looks at `running` again under the lock and closes the connection if the listener went away
Park(c) == /\ st[c] = "upgraded"
           /\ IF running THEN pending' = Append(pending, c) /\ st' = [st EXCEPT ![c] = "pending"]
              ELSE pending' = pending /\ st' = [st EXCEPT ![c] = "closed"]
           /\ UNCHANGED <<running, closed, got>>
\* the original handler parks unconditionally: after Close nobody will ever take or close the connection
ParkBlind(c) == /\ st[c] = "upgraded"
                /\ pending' = Append(pending, c) /\ st' = [st EXCEPT ![c] = "pending"]
                /\ UNCHANGED <<running, closed, got>>
AcceptTake == /\ running /\ pending # <<>>
              /\ LET c == pending[Len(pending)] IN
                   /\ got' = Append(got, c) /\ st' = [st EXCEPT ![c] = "handed"]
              /\ pending' = SubSeq(pending, 1, Len(pending) - 1)
              /\ UNCHANGED <<running, closed>>
AcceptClosed == ~running /\ got' = Append(got, NULL) /\ UNCHANGED <<st, pending, running, closed>>
Close == /\ ~closed /\ closed' = TRUE /\ running' = FALSE
         /\ st' = [c \in Conn |-> IF st[c] = "pending" THEN "closed" ELSE st[c]]
         /\ pending' = <<>> /\ UNCHANGED got

Next == \/ \E c \in Conn : Check(c) \/ Park(c) \/ \E ok \in BOOLEAN : Upgrade(c, ok)
        \/ AcceptTake \/ AcceptClosed \/ Close
Spec == Init /\ [][Next]_vars

\* once closed, no upgraded connection is left parked (it would stay open for ever, with its HTTP goroutine)
NothingParkedAfterClose == closed => pending = <<>> /\ \A c \in Conn : st[c] # "pending"
\* a connection is handed on at most once
HandedOnce == \A i, j \in 1..Len(got) : (i # j /\ got[i] # NULL) => got[i] # got[j]
=============================================================================
