SPECIFICATION TSpec
CONSTANT Serial <- TSerial
CONSTRAINT TConstraint
POSTCONDITION Verdict
CHECK_DEADLOCK FALSE
