---- MODULE TraceRaw_xpush ----
EXTENDS TraceRaw
====
