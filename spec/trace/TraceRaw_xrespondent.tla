---- MODULE TraceRaw_xrespondent ----
EXTENDS TraceRaw
====
