---- MODULE TraceRaw_xpair1 ----
EXTENDS TraceRaw
====
