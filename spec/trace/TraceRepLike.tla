---------------------------- MODULE TraceRepLike ----------------------------
(* Trace validation of protocol/rep and protocol/respondent against         *)
(* RepLike.tla (Kind is fixed per batch by the cfg).                        *)
(* Logged: API call / return, padd / prem, peer requests taken by the       *)
(* library (rv: position of the terminating word, complete words available, *)
(* routing words, payload tag), replies handed to the transport (xs: pipe,  *)
(* routing words, tag), virtual time, quiescence, snapshots.                *)
(* Silent: the channel rendez-vous (RecvTake, Push, SendDone), Abandon,     *)
(* deadline expiry.                                                         *)
EXTENDS RepLike, TraceLib

VARIABLES l, res, got
tvars == <<l, res, got>>
allvars == <<vars, tvars>>
e == Log[l]

TCtx == {"c0", "c1", "c2"}
TPipe == PipeNames
TThread == ThreadNames

OptOf(c) ==
  [x \in Ctx |-> IF Has(c, x) THEN [sendExp |-> c[x].sendExp, recvExp |-> c[x].recvExp, bestEffort |-> c[x].bestEffort]
                 ELSE [sendExp |-> 0, recvExp |-> 0, bestEffort |-> FALSE]]
TInitOpt == OptOf(Log[1])
TInitTTL == Log[1].ttl
TInitSQ == Log[1].sq
TInitRQ == Log[1].rq
TReqSet == {}

TInit ==
  /\ InitRegs /\ l = 2 /\ Log[1].k = "reset" /\ Log[1].kind = Kind
  /\ Init
  /\ res = [t \in Thread |-> "none"]
  /\ got = [t \in Thread |-> "none"]

Reset(c) ==
  /\ c.kind = Kind
  /\ opt' = OptOf(c) /\ ttl' = c.ttl /\ sqCap' = c.sq /\ rqCap' = c.rq /\ now' = 0
  /\ sclosed' = FALSE /\ pipes' = {} /\ pclosed' = [p \in Pipe |-> FALSE]
  /\ rxHold' = [p \in Pipe |-> NULL] /\ recvQ' = <<>>
  /\ sendQ' = [p \in Pipe |-> <<>>] /\ txHold' = [p \in Pipe |-> NULL]
  /\ cclosed' = [x \in Ctx |-> FALSE] /\ recvWait' = [x \in Ctx |-> FALSE]
  /\ backtrace' = [x \in Ctx |-> NULL] /\ recvPipe' = [x \in Ctx |-> NULL]
  /\ call' = [t \in Thread |-> NULL]
  /\ timers' = {}
  /\ arrived' = <<>> /\ taken' = [x \in Ctx |-> <<>>] /\ sent' = <<>>
  /\ res' = [t \in Thread |-> "none"]
  /\ got' = [t \in Thread |-> "none"]

AtNow == e.t = now
\* no pending deadline at or before t
NoDeadlineBy(t) == \A th \in Thread : (call[th] # NULL /\ call[th].due >= 0) => call[th].due > t

Ignored == {"accept", "listen", "lclose", "hook", "hookret", "pclose", "drop", "mkpipe", "pdrop", "dial", "dialres"}
UNCH_T == UNCHANGED <<res, got>>

SnapOK ==
  /\ e.closed = sclosed /\ e.ttl = ttl
  /\ e.recvq = Len(recvQ)
  /\ \A c \in Ctx : Has(e, c) =>
       LET x == e[c] IN
       /\ x.closed = cclosed[c]
       /\ x.rw = recvWait[c]
       /\ x.hasbt = (backtrace[c] # NULL)
       /\ x.hasbt => (x.bt = backtrace[c] /\ x.rp = recvPipe[c])

Line ==
  /\ l <= NLines
  /\ l' = l + 1
  /\ CASE e.k = "reset" -> Reset(e)
     [] e.k = "end" -> e.status = "ok" /\ UNCHANGED vars /\ UNCH_T
     [] e.k \in Ignored -> UNCHANGED vars /\ UNCH_T
     [] e.k = "census" -> e.n = 0 /\ UNCHANGED vars /\ UNCH_T
     \* C10: after everything was closed and every timer ran out no pipe id is reserved, no pipe listed
     [] e.k = "final" -> e.ids = 0 /\ e.listed = 0 /\ UNCHANGED vars /\ UNCH_T
     [] e.k = "q" -> AtNow /\ ~CanInternal /\ UNCHANGED vars /\ UNCH_T
     [] e.k = "adv" ->
          /\ e.t >= now /\ NoDeadlineBy(e.t) /\ ~CanInternal
          /\ now' = e.t
          /\ UNCHANGED <<opt, ttl, sqCap, rqCap, sclosed, pipes, pclosed, rxHold, recvQ, sendQ, txHold,
                         cclosed, recvWait, backtrace, recvPipe, call, timers, arrived, taken, sent>> /\ UNCH_T
     [] e.k = "snap" -> SnapOK /\ UNCHANGED vars /\ UNCH_T
     [] e.k = "call" ->
          /\ AtNow
          /\ CASE e.op = "recv" ->
                    \E r \in {"wait", "ErrClosed", "ErrProtoState"} :
                      /\ RecvCall(e.th, e.o, r)
                      /\ res' = [res EXCEPT ![e.th] = IF r = "wait" THEN "none" ELSE r]
                      /\ UNCHANGED got
               [] e.op = "send" ->
                    \E r \in {"wait", "ErrClosed", "ErrProtoState"} :
                      /\ SendCall(e.th, e.o, e.tag, r)
                      /\ res' = [res EXCEPT ![e.th] = IF r = "wait" THEN "none" ELSE r]
                      /\ UNCHANGED got
               [] e.op = "cclose" ->
                    \E r \in {"ok", "ErrClosed"} :
                      CtxClose(e.o, r) /\ res' = [res EXCEPT ![e.th] = r] /\ UNCHANGED got
               [] e.op = "sclose" ->
                    \E r \in {"ok", "ErrClosed"} :
                      SockClose(r) /\ res' = [res EXCEPT ![e.th] = r] /\ UNCHANGED got
               [] OTHER -> UNCHANGED vars /\ UNCH_T
     [] e.k = "ret" ->
          /\ AtNow
          /\ call[e.th] = NULL
          /\ res[e.th] = e.r
          /\ (e.op = "recv" /\ e.r = "ok") => (got[e.th] = e.tag /\ e.hl = 0)
          /\ res' = [res EXCEPT ![e.th] = "none"]
          /\ UNCHANGED <<vars, got>>
     [] e.k = "padd" ->
          \* the protocol is being told of the pipe; its verdict is a function of its state
          AtNow /\ (\E ok \in BOOLEAN : AddPipe(e.p, ok)) /\ UNCH_T
     [] e.k = "paddres" ->
          \* ... and must be the one observed
          (e.r = "ok") = (e.p \in pipes) /\ UNCHANGED vars /\ UNCH_T
     [] e.k = "setrq" -> AtNow /\ SetRQ(e.n) /\ UNCH_T
     [] e.k = "prem" -> AtNow /\ RemovePipe(e.p) /\ UNCH_T
     [] e.k = "rv" -> AtNow /\ PeerReq(e.o, e.n, e.avail, e.hdr, e.tag) /\ UNCH_T
     [] e.k = "xs" ->
          \* the sender goroutine reached the transport with the message it holds
          /\ AtNow
          /\ XmitStart(e.o)
          /\ txHold[e.o].m.hdr = e.hdr /\ txHold[e.o].m.tag = e.tag
          /\ e.hl = 4 * Len(e.hdr)
          /\ UNCH_T
     [] e.k \in {"xd", "xf"} -> AtNow /\ XmitEnd(e.o) /\ UNCH_T
     [] OTHER -> FALSE

Silent ==
  /\ l <= NLines
  /\ UNCHANGED l
  /\ \/ \E p \in Pipe : (Push(p) \/ Abandon(p) \/ SenderTake(p)) /\ UNCH_T
     \/ \E t \in Thread : SendHandOver(t) /\ res' = [res EXCEPT ![t] = "ok"] /\ UNCHANGED got
     \/ \E t \in Thread :
          \/ \E p \in Pipe : /\ rxHold[p] # NULL /\ RecvTake(t, rxHold[p])
                             /\ res' = [res EXCEPT ![t] = "ok"] /\ got' = [got EXCEPT ![t] = rxHold[p].tag]
          \/ /\ recvQ # <<>> /\ RecvTake(t, Head(recvQ))
             /\ res' = [res EXCEPT ![t] = "ok"] /\ got' = [got EXCEPT ![t] = Head(recvQ).tag]
          \/ \E r \in {"ErrClosed", "ErrRecvTimeout"} : RecvFail(t, r) /\ res' = [res EXCEPT ![t] = r] /\ UNCHANGED got
          \/ \E r \in {"ok", "ErrClosed", "ErrSendTimeout"} : SendDone(t, r) /\ res' = [res EXCEPT ![t] = r] /\ UNCHANGED got
     \/ \* virtual time reaches the earliest pending deadline (not beyond the next logged event)
        \E t \in Thread :
          /\ call[t] # NULL /\ call[t].due > now /\ call[t].due <= e.t
          /\ \A u \in Thread : (call[u] # NULL /\ call[u].due >= 0 /\ call[u].due > now) => call[t].due <= call[u].due
          /\ ~CanInternal
          /\ now' = call[t].due
          /\ UNCHANGED <<opt, ttl, sqCap, rqCap, sclosed, pipes, pclosed, rxHold, recvQ, sendQ, txHold,
                         cclosed, recvWait, backtrace, recvPipe, call, timers, arrived, taken, sent>> /\ UNCH_T

TNext == Line \/ Silent
TSpec == TInit /\ [][TNext]_allvars

TInv == TypeOK /\ ReplyRoute /\ HoldsLastTaken /\ AtMostOnceAnswered /\ TakenArrived
TConstraint == TInv /\ Progress(l)
=============================================================================
