SPECIFICATION TSpec
CONSTANTS
  Ctx <- TCtx
  Pipe <- PipeNames
  Thread <- ThreadNames
  NULL = NULL
  Timed = TRUE
  MaxSurvey = 100000
  InitOpt <- TInitOpt
  InitSQ <- TInitSQ
  RespSet <- TEmpty
CONSTRAINT TConstraint
POSTCONDITION Verdict
CHECK_DEADLOCK FALSE
