---- MODULE TraceRawConf_xpush ----
EXTENDS TraceRaw
====
