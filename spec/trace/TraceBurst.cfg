SPECIFICATION TSpec
CONSTRAINT TConstraint
POSTCONDITION Verdict
CHECK_DEADLOCK FALSE
