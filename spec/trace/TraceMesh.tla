----------------------------- MODULE TraceMesh -----------------------------
(* Executions of real BUS / STAR topologies (cooked sockets and raw BUS hubs  *)
(* joined by linked virtual pipes in one bubble) against Mesh.tla.            *)
EXTENDS Mesh, TraceLib
VARIABLE l
e == Log[l]
TInit == InitRegs /\ l = 2 /\ Log[1].k = "reset" /\ MInit
Pairs(s) == {<<s[i][1], s[i][2]>> : i \in 1..Len(s)}
Line ==
  /\ l <= NLines /\ l' = l + 1
  /\ CASE e.k = "reset" -> mcfg' = NULL /\ copies' = {} /\ inbox' = <<>> /\ got' = <<>> /\ origin' = <<>>
       [] e.k = "end" -> e.status = "ok" /\ UNCHANGED mvars
       [] e.k = "mcfg" -> /\ mcfg' = [kind |-> e.kind, n |-> e.n, edges |-> Pairs(e.edges), ttl |-> e.ttl, hubs |-> {e.hubs[i] : i \in 1..Len(e.hubs)}]
                          /\ UNCHANGED <<copies, inbox, got, origin>>
       [] e.k = "msend" -> MSend(e.a, e.p)
       [] e.k = "xs" -> Xs(e.a, e.b, e.p, e.h)
       [] e.k = "mrecv" -> MRecv(e.a, e.p)
       \* quiescence with every application having drained its socket: everything is where it belongs
       [] e.k = "q" -> copies = {} /\ UNCHANGED mvars
       [] e.k = "final" -> Settled /\ AllReached /\ UNCHANGED mvars
       [] OTHER -> FALSE
TSpec == TInit /\ [][Line]_<<mvars, l>>
TConstraint == NoEcho /\ OnceEach /\ Progress(l)
=============================================================================
