SPECIFICATION TSpec
CONSTANTS
  Ctx <- TCtx
  Pipe <- TPipe
  Thread <- TThread
  NULL = NULL
  MaxReq = 100000
  Timed = TRUE
  InitOpt <- TInitOpt
  ReplySet <- TReplySet
CONSTRAINT TConstraint
ACTION_CONSTRAINT TAct
POSTCONDITION Verdict
CHECK_DEADLOCK FALSE
