SPECIFICATION TSpec
CONSTANTS
  NULL = NULL
CONSTRAINT TConstraint
POSTCONDITION Verdict
CHECK_DEADLOCK FALSE
