----------------------------- MODULE TraceCore -----------------------------
(* Trace validation of internal/core against Core.tla.                      *)
(* Every recorded line is mapped to the Core action that represents that    *)
(* boundary crossing; lock regions the harness cannot observe are silent    *)
(* steps TLC has to infer.  "q" lines demand that no internal step is       *)
(* enabled (quiescence); "snap" lines compare the projected state of the    *)
(* real objects with the specification's variables.  Virtual time: only     *)
(* "adv" lines and timer firings move `now`; every event the library        *)
(* produces must carry exactly the current time.                            *)
EXTENDS Core, TraceLib

VARIABLES
  l,        \* next line to explain
  script,   \* per pipe: what the harness' hook / protocol wrapper does
  appCl,    \* pipes the application is closing (Pipe.Close call in progress)
  pend,     \* per client thread: result the pending call must return, or "?"
  preDrop   \* connections the peer dropped before the library ever saw them

tvars == <<l, script, appCl, pend, preDrop>>
allvars == <<vars, tvars>>

D == "d1"
L == "l1"
TPipes == PipeNames
Threads == ThreadNames

e == Log[l]

ResetVars(c) ==
  /\ opt = (D :> [min |-> c.minT, max |-> c.maxT, asynch |-> c.asynch])
  /\ now = 0
  /\ sockClosed = "open"
  /\ pst = [p \in Pipe |-> "unborn"]
  /\ owner = [p \in Pipe |-> NULL]
  /\ added = [p \in Pipe |-> FALSE]
  /\ closing = [p \in Pipe |-> FALSE]
  /\ closeStarted = [p \in Pipe |-> FALSE]
  /\ tranOpen = [p \in Pipe |-> FALSE]
  /\ ids = {} /\ listed = {} /\ async = {} /\ timers = {}
  /\ dClosed = [d \in Dialer |-> FALSE]
  /\ dActive = [d \in Dialer |-> FALSE]
  /\ reconn = [d \in Dialer |-> c.minT]
  /\ dst = [d \in Dialer |-> "idle"]
  /\ dRedial = [d \in Dialer |-> FALSE]
  /\ dSync = [d \in Dialer |-> FALSE]
  /\ lClosed = [x \in Listener |-> FALSE]
  /\ lActive = [x \in Listener |-> FALSE]
  /\ lst = [x \in Listener |-> "off"]
  /\ hookLog = [p \in Pipe |-> <<>>]
  /\ protoLog = [p \in Pipe |-> <<>>]
  /\ dialLog = [d \in Dialer |-> <<>>]
  /\ script = [p \in Pipe |-> "none"]
  /\ appCl = {}
  /\ pend = [t \in Threads |-> "none"]
  /\ preDrop = {}

TInit ==
  /\ InitRegs
  /\ l = 2
  /\ Log[1].k = "reset"
  /\ ResetVars(Log[1])

\* the primed version, for reset lines inside a batch
ResetNext(c) ==
  /\ opt' = (D :> [min |-> c.minT, max |-> c.maxT, asynch |-> c.asynch])
  /\ now' = 0
  /\ sockClosed' = "open"
  /\ pst' = [p \in Pipe |-> "unborn"]
  /\ owner' = [p \in Pipe |-> NULL]
  /\ added' = [p \in Pipe |-> FALSE]
  /\ closing' = [p \in Pipe |-> FALSE]
  /\ closeStarted' = [p \in Pipe |-> FALSE]
  /\ tranOpen' = [p \in Pipe |-> FALSE]
  /\ ids' = {} /\ listed' = {} /\ async' = {} /\ timers' = {}
  /\ dClosed' = [d \in Dialer |-> FALSE]
  /\ dActive' = [d \in Dialer |-> FALSE]
  /\ reconn' = [d \in Dialer |-> c.minT]
  /\ dst' = [d \in Dialer |-> "idle"]
  /\ dRedial' = [d \in Dialer |-> FALSE]
  /\ dSync' = [d \in Dialer |-> FALSE]
  /\ lClosed' = [x \in Listener |-> FALSE]
  /\ lActive' = [x \in Listener |-> FALSE]
  /\ lst' = [x \in Listener |-> "off"]
  /\ hookLog' = [p \in Pipe |-> <<>>]
  /\ protoLog' = [p \in Pipe |-> <<>>]
  /\ dialLog' = [d \in Dialer |-> <<>>]
  /\ script' = [p \in Pipe |-> "none"]
  /\ appCl' = {}
  /\ pend' = [t \in Threads |-> "none"]
  /\ preDrop' = {}

-----------------------------------------------------------------------------
NoTimerDueBy(t) == \A tm \in timers : tm.due > t
AtNow == e.t = now

\* may the library close p now?  (someone must have a reason)
CloseJustified(p) ==
  \/ <<"close", p>> \in async
  \/ CanNotice(p)
  \/ pst[p] = "attaching" /\ script[p] = "closeAttaching"
  \/ pst[p] = "attachedRun" /\ script[p] = "closeAttached"
  \/ p \in appCl

LastDial(d) == dialLog[d][Len(dialLog[d])]

\* reconn value recorded by the first snapshot after line l (binds the random backoff factor)
RECURSIVE SnapRcFrom(_)
SnapRcFrom(j) ==     \* walks forward to the first snapshot of this trace; cost independent of the batch size
  IF j > NLines THEN -1
  ELSE IF Log[j].k = "reset" THEN -1
  ELSE IF Log[j].k = "snap" /\ Has(Log[j], "rc") THEN Log[j].rc
  ELSE SnapRcFrom(j + 1)
NextSnapRc == SnapRcFrom(l + 1)

UNCH_T == UNCHANGED tvars

Line ==
  /\ l <= NLines
  /\ l' = l + 1
  /\ (e.k \notin {"reset", "drop"} => UNCHANGED preDrop)
  /\ CASE e.k = "reset" -> ResetNext(e)
     [] e.k = "end" -> e.status = "ok" /\ UNCHANGED <<vars, script, appCl, pend>>
     [] e.k = "q" ->
          /\ AtNow /\ ~CanInternal /\ NoTimerDueBy(e.t)
          /\ \A p \in preDrop : ~tranOpen[p]
          /\ UNCHANGED <<vars, script, appCl, pend>>
     [] e.k = "adv" ->
          /\ e.t >= now /\ NoTimerDueBy(e.t) /\ ~CanInternal
          /\ now' = e.t
          /\ UNCHANGED <<opt, sockClosed, pipeVars, async, timers, dialVars, lisVars, histVars, script, appCl, pend>>
     [] e.k = "snap" ->
          /\ e.ids = Cardinality(ids)
          /\ e.listed = Cardinality(listed)
          /\ Has(e, "dact") => /\ e.dact = dActive[D]
                               /\ e.dclosed = dClosed[D]
                               /\ (dActive[D] => e.rc = reconn[D])
          /\ Has(e, "lact") => /\ e.lact = lActive[L]
                               /\ e.lclosed = lClosed[L]
          /\ UNCHANGED <<vars, script, appCl, pend>>
     [] e.k = "census" -> e.n = 0 /\ UNCHANGED <<vars, script, appCl, pend>>
     \* the reconnect times changed while the dialer is at work (accepted: both values are valid); from here on the
     \* bounds on the delay are those of the option values in force when it was computed (OptChanged)
     [] e.k = "setopt" ->
          /\ AtNow /\ e.r1 = "ok" /\ e.r2 = "ok"
          /\ SetReconnOpt(D, e.minT, e.maxT)
          /\ appCl' = appCl \cup {"optchg"}
          /\ UNCHANGED <<script, pend>>
     [] e.k = "mkpipe" ->
          /\ script' = [script EXCEPT ![e.p] = e.script]
          /\ UNCHANGED <<vars, appCl, pend>>
     [] e.k = "call" ->
          CASE e.op = "dial" ->
                 /\ AtNow
                 /\ \E r \in {"ok", "pending", "ErrAddrInUse", "ErrClosed"} :
                      /\ DialCall(D, r)
                      /\ pend' = [pend EXCEPT ![e.th] = r]
                 /\ UNCHANGED <<opt, script, appCl>>
            [] e.op = "sclose" ->
                 /\ AtNow
                 /\ IF sockClosed # "open" THEN UNCHANGED vars ELSE SockClose /\ UNCHANGED opt
                 /\ UNCHANGED <<script, appCl, pend>>
            [] e.op = "pclose" ->
                 /\ appCl' = appCl \cup {e.o}
                 /\ UNCHANGED <<vars, script, pend>>
            [] e.op = "listen" ->
                 /\ pend' = [pend EXCEPT ![e.th] = "?"]
                 /\ UNCHANGED <<vars, script, appCl>>
            [] OTHER -> UNCHANGED <<vars, script, appCl, pend>>
     [] e.k = "ret" ->
          CASE e.op = "dial" ->
                 /\ AtNow
                 /\ IF pend[e.th] = "pending"
                      THEN /\ ~dSync[D]
                           /\ dialLog[D] # <<>>
                           /\ CASE LastDial(D)[1] = "fail" -> e.r = "ErrConnRefused"
                                [] LastDial(D)[1] = "abort" -> e.r = "ErrClosed"
                                [] OTHER -> e.r = "ok"
                      ELSE e.r = pend[e.th]
                 /\ pend' = [pend EXCEPT ![e.th] = "none"]
                 /\ UNCHANGED <<vars, script, appCl>>
            [] e.op = "dclose" ->
                 /\ DialerClose(D, e.r) /\ UNCHANGED <<opt, script, appCl, pend>>
            [] e.op = "lclose" ->
                 /\ ListenerClose(L, e.r) /\ UNCHANGED <<opt, script, appCl, pend>>
            [] e.op = "listen" ->
                 /\ IF pend[e.th] = "?"
                      THEN \* the transport was never asked: closed or already active
                           /\ e.r \in {"ErrClosed", "ErrAddrInUse"}
                           /\ ListenCall(L, "ok", e.r)
                           /\ UNCHANGED opt
                      ELSE e.r = pend[e.th] /\ UNCHANGED vars
                 /\ pend' = [pend EXCEPT ![e.th] = "none"]
                 /\ UNCHANGED <<script, appCl>>
            [] e.op = "pclose" ->
                 /\ e.r = "ok"
                 /\ closeStarted[e.o]
                 /\ appCl' = appCl \ {e.o}
                 /\ UNCHANGED <<vars, script, pend>>
            [] e.op = "sclose" -> UNCHANGED <<vars, script, appCl, pend>>
            [] OTHER -> UNCHANGED <<vars, script, appCl, pend>>
     [] e.k = "listen" ->
          \* the transport's Listen was called by the one pending Listen() call
          /\ \E t \in Threads : pend[t] = "?" /\
               \E r \in {"ok", e.r} :
                 /\ ListenCall(L, e.r, r)
                 /\ pend' = [pend EXCEPT ![t] = r]
          /\ UNCHANGED <<opt, script, appCl>>
     [] e.k = "lclose" -> UNCHANGED <<vars, script, appCl, pend>>
     [] e.k = "dial" ->
          /\ AtNow /\ e.o = D /\ DialBegin(D) /\ UNCHANGED <<opt, script, appCl, pend>>
     [] e.k = "dialres" ->
          /\ AtNow
          /\ IF e.r = "ok" THEN DialOK(D, e.p)
             ELSE LET rc == NextSnapRc IN
                  \E r2 \in (IF rc >= 0 THEN {rc} ELSE {reconn[D]}) : DialFail(D, r2)
          /\ UNCHANGED <<opt, script, appCl, pend>>
     [] e.k = "accept" ->
          /\ AtNow /\ Accept(L, e.p) /\ UNCHANGED <<opt, script, appCl, pend>>
     [] e.k = "hook" ->
          /\ AtNow
          \* the id is held for as long as the specification says it is: until the Detached callback has returned.  An
          \* Attached callback that "is being reported" while the connection is already going may be entered after that
          \* (hook word attaching, detached, attached): the id may have been released by then
          /\ (e.p \in ids => e.inuse = TRUE) /\ e.idok = TRUE
          /\ e.ep = (IF owner[e.p] \in Dialer THEN "d" ELSE "l")
          /\ CASE e.ev = "attaching" -> HookAttaching(e.p)
               [] e.ev = "attached" -> HookAttached(e.p)
               [] e.ev = "detached" -> RunDetached(e.p)
          /\ UNCHANGED <<opt, script, appCl, pend>>
     [] e.k = "hookret" ->
          /\ CASE e.ev = "attaching" -> HookAttachingRet(e.p)
               [] e.ev = "attached" -> HookAttachedRet(e.p)
               [] e.ev = "detached" -> RunIdFree(e.p)
          /\ UNCHANGED <<opt, script, appCl, pend>>
     [] e.k = "padd" ->
          /\ AtNow /\ ~closing[e.p]
          /\ AddPipeCheck(e.p, e.r = "ok")
          /\ UNCHANGED <<opt, script, appCl, pend>>
     [] e.k = "prem" ->
          /\ AtNow /\ added[e.p] /\ CloseLocked(e.p)
          /\ UNCHANGED <<opt, script, appCl, pend>>
     [] e.k = "pclose" ->
          /\ AtNow /\ tranOpen[e.o] /\ CloseJustified(e.o) /\ CloseBegin(e.o)
          /\ UNCHANGED <<opt, script, appCl, pend>>
     [] e.k = "drop" ->
          \* a connection the library never saw (offered to a closed listener) is nobody's business
          /\ IF pst[e.p] = "unborn" THEN UNCHANGED vars /\ preDrop' = preDrop \cup {e.p}
                                     ELSE PeerDrop(e.p) /\ UNCHANGED <<opt, preDrop>>
          /\ UNCHANGED <<script, appCl, pend>>
     [] OTHER -> FALSE

SilentCore ==
     \/ \E p \in Pipe :
          \/ closing[p] /\ AddPipeCheck(p, TRUE)
          \/ ~tranOpen[p] /\ CloseJustified(p) /\ CloseBegin(p)
          \/ CloseNoop(p)
          \/ ~added[p] /\ CloseLocked(p)
     \/ \E d \in Dialer :
          \/ RunRedial(d) \/ DialAbort(d) \/ RunPipeConnected(d)
          \/ \E p \in Pipe : RunPipeClosed(d, p)
     \/ \E tm \in timers : tm.due <= e.t /\ Fire(tm)
     \/ \E x \in Listener : ServeStop(x)

\* lock regions and deferred calls the harness cannot see
Silent ==
  /\ l <= NLines
  /\ UNCHANGED <<l, script, appCl, pend, opt>>
  /\ \/ \E p \in preDrop : PeerDrop(p) /\ preDrop' = preDrop \ {p}
     \/ UNCHANGED preDrop /\ SilentCore

TNext == Line \/ Silent
TSpec == TInit /\ [][TNext]_allvars

TDialers == {"d1"}
TListeners == {"l1"}
TNull == "NULL"
TInitOpt == ("d1" :> [min |-> 1, max |-> 0, asynch |-> FALSE])

\* (appCl also carries the mark that the reconnect options were changed in this scenario)
OptChanged == "optchg" \in appCl
\* Properties monitored on every explaining behaviour
TInv ==
  /\ HookLanguage /\ DetachedOnlyIfAdmitted /\ AttachedOnlyIfAdmitted /\ RejectedGetNeither
  /\ ProtoOnceEach /\ IdHeld /\ ListedHaveIds /\ (OptChanged \/ DelayBounds) /\ Spacing /\ Reconnects

\* States on which a property fails are pruned, so "accepted" means: some
\* behaviour of Core explains the whole log and satisfies the properties
\* at every step.
TConstraint == TInv /\ Progress(l)
=============================================================================
