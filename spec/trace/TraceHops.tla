----------------------------- MODULE TraceHops -----------------------------
(* Conformance of the real receive paths with the transcribed loops of      *)
(* Hops.tla: every recorded injection {proto, ttl, n, avail, delivered, hl} *)
(* (backtrace protocols) or {proto, ttl, h, delivered, hl, hout} (hop byte  *)
(* protocols) must be what the transcription computes; and the TTL option   *)
(* accepts exactly 1..255 with default 8.                                   *)
EXTENDS Hops, TraceLib

VARIABLE l
e == Log[l]

TInit == InitRegs /\ l = 1

Cooked == {"rep", "respondent", "pair1", "star"}
LoopOf(p) == IF p = "rep" THEN "rep" ELSE IF p = "xrep" THEN "xrep"
             ELSE IF p = "respondent" THEN "respondent" ELSE "xrespondent"

LineOK ==
  CASE e.k \in {"reset", "q", "adv", "listen", "accept", "pclose", "lclose"} -> TRUE
    [] e.k = "end" -> e.status = "ok"
    [] e.k = "ttlopt" ->
         /\ e.default = DefaultTTL
         /\ e.set0 = "ErrBadValue" /\ e.set256 = "ErrBadValue" /\ e.setneg = "ErrBadValue" /\ e.setstr = "ErrBadValue"
         /\ e.set1 = "ok" /\ e.set255 = "ok"
    \* the driver could not set a hop limit it wanted to inject under: every value in 1..255 is settable
    [] e.k = "httl" -> (e.ttl \in 1..255) => e.r = "ok"
    [] e.k = "hop" ->
         LET r == Loop(LoopOf(e.proto), e.n, e.avail, e.ttl) IN
         /\ e.delivered = (r # 0)
         \* raw sockets hand up the pipe id word plus exactly the routing header; cooked ones strip it
         /\ e.delivered => e.hl = (IF e.proto \in Cooked THEN 0 ELSE 4 * (r + 1))
    [] e.k = "hopb" ->
         LET acc == IF e.proto \in {"pair1", "xpair1"} THEN XPair1Accept(e.h, e.ttl) ELSE XStarAccept(e.h, e.ttl) IN
         /\ e.delivered = acc
         /\ e.delivered => /\ e.hl = (IF e.proto \in Cooked THEN 0 ELSE 4)
                           /\ (e.proto \notin Cooked => e.hout = e.h + 1)
    [] e.k = "hopg" ->
         \* garbage is never delivered: short bodies everywhere; non-zero leading bytes are a hop count
         \* >= 2^8 for PAIR1 (dropped: >= 255) and malformed for STAR
         e.delivered = FALSE
    [] OTHER -> FALSE

TNext == l <= NLines /\ LineOK /\ l' = l + 1
TSpec == TInit /\ [][TNext]_l
TConstraint == Progress(l)
=============================================================================
