------------------------------ MODULE TraceLink ------------------------------
(* Traces of message exchanges over the real transports (tcp, ipc, tls+tcp, *)
(* ws, wss, inproc) for every pattern, cooked and raw, validated against    *)
(* Link.tla: what Recv returned is exactly what Send accepted, in order.    *)
EXTENDS Link, TraceLib
VARIABLE l
e == Log[l]
TDir == {"ab", "ba"}
TInit == InitRegs /\ l = 2 /\ Log[1].k = "reset" /\ Init
TNext ==
  /\ l <= NLines /\ l' = l + 1
  /\ CASE e.k = "reset" -> inflight' = [d \in Dir |-> <<>>]
       [] e.k = "end" -> e.status = "ok" /\ UNCHANGED inflight
       [] e.k = "link" -> UNCHANGED inflight
       [] e.k = "lsend" -> Send(e.dir, e.len, e.d)
       [] e.k = "lrecv" -> Recv(e.dir, e.len, e.d)
       [] e.k = "lhold" -> StillIntact(e.d0, e.d) /\ UNCHANGED inflight
       [] e.k = "lerr" -> FALSE      \* a send or receive failed or timed out: the message was not delivered
       [] e.k = "lmsgbad" -> FALSE   \* the ledger saw a release or a Clone of a message that is not live (Msg.tla RefPositive)
       [] OTHER -> FALSE
TSpec == TInit /\ [][TNext]_<<l, inflight>>
TConstraint == Progress(l)
=============================================================================
