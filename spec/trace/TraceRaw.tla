------------------------------ MODULE TraceRaw ------------------------------
(* Trace validation of the raw socket implementations (and their thin       *)
(* cooked wrappers) against RawSock.tla; Proto is fixed per batch.          *)
(* Logged: API call / return (Send with the abstract description of the     *)
(* message: tag, header acceptable, target pipe, origin pipe, hop byte;     *)
(* Recv with tag, header length, origin pipe, hop byte), padd / prem, every *)
(* message a sender goroutine hands to the transport (xs) with tag and hop  *)
(* byte, every peer message taken (rv) with what the header logic sees,     *)
(* virtual time, quiescence.                                                *)
EXTENDS RawSock, TraceLib

VARIABLES l, res, got,
          pend     \* Thread -> the message of a Send call issued concurrently with others (its first step has not happened yet), or NULL
tvars == <<l, res, got, pend>>
allvars == <<vars, tvars>>
e == Log[l]

N(x) == IF x = "none" THEN NULL ELSE x
OptOf(c) == [sendExp |-> c.sendExp, recvExp |-> c.recvExp, bestEffort |-> c.bestEffort, failNoPeers |-> c.failNoPeers,
             ttl |-> c.ttl, sq |-> c.sq, rq |-> c.rq]
TInitOpt == OptOf(Log[1])
TEmpty == {}
Cooked == Log[1].cooked

TInit ==
  /\ InitRegs /\ l = 2 /\ Log[1].k = "reset" /\ Log[1].eng = Proto /\ Init
  /\ res = [t \in Thread |-> "none"] /\ got = [t \in Thread |-> NULL] /\ pend = [t \in Thread |-> NULL]

Reset(c) ==
  /\ c.eng = Proto
  /\ opt' = OptOf(c) /\ now' = 0
  /\ sclosed' = FALSE /\ pipes' = {} /\ pclosed' = [p \in Pipe |-> FALSE]
  /\ sendQ' = <<>> /\ psendQ' = [p \in Pipe |-> <<>>] /\ txHold' = [p \in Pipe |-> NULL] /\ readyQ' = <<>>
  /\ recvQ' = <<>> /\ rxHold' = [p \in Pipe |-> NULL]
  /\ call' = [t \in Thread |-> NULL]
  /\ accepted' = <<>> /\ handed' = <<>> /\ delivered' = <<>> /\ arrivedOK' = <<>>
  /\ res' = [t \in Thread |-> "none"] /\ got' = [t \in Thread |-> NULL] /\ pend' = [t \in Thread |-> NULL]

AtNow == e.t = now
NoDeadlineBy(t) == \A th \in Thread : (call[th] # NULL /\ call[th].due >= 0) => call[th].due > t
Ignored == {"accept", "listen", "lclose", "hook", "hookret", "pclose", "drop", "mkpipe", "pdrop", "dial", "dialres"}
UNCH_T == UNCHANGED <<res, got, pend>>
NoPend == \A t \in Thread : pend[t] = NULL

\* which pipe did the delivered message arrive on (for the origin reported by raw BUS / REP / RESPONDENT)
ArrivedPipe(tag) == LET i == CHOOSE j \in 1..Len(arrivedOK) : arrivedOK[j][1] = tag IN arrivedOK[i][2]

Line ==
  /\ l <= NLines
  /\ l' = l + 1
  /\ CASE e.k = "reset" -> Reset(e)
     [] e.k = "end" -> e.status = "ok" /\ UNCHANGED vars /\ UNCH_T
     [] e.k \in Ignored -> UNCHANGED vars /\ UNCH_T
     [] e.k = "census" -> e.n = 0 /\ UNCHANGED vars /\ UNCH_T
     \* C10: after everything was closed and every timer ran out no pipe id is reserved, no pipe listed
     [] e.k = "final" -> e.ids = 0 /\ e.listed = 0 /\ UNCHANGED vars /\ UNCH_T
     [] e.k = "q" -> AtNow /\ ~CanInternal /\ NoPend /\ UNCHANGED vars /\ UNCH_T
     [] e.k = "adv" ->
          /\ e.t >= now /\ NoDeadlineBy(e.t) /\ ~CanInternal /\ NoPend /\ now' = e.t
          /\ UNCHANGED <<opt, sockVars, sendVars, recvVars, call, histVars>> /\ UNCH_T
     [] e.k = "call" ->
          /\ AtNow
          /\ CASE e.op = "send" ->
                    \E r \in {"ok", "wait", "ErrClosed", "ErrProtoOp", "ErrNoPeers"} :
                      /\ SendCall(e.th, [tag |-> e.tag, ok |-> e.ok, to |-> N(e.to), skip |-> N(e.skip), h |-> e.h], r)
                      /\ res' = [res EXCEPT ![e.th] = IF r = "wait" THEN "none" ELSE r] /\ UNCHANGED <<got, pend>>
               [] e.op = "recv" ->
                    \E r \in {"wait", "ErrProtoOp"} :
                      RecvCall(e.th, r) /\ res' = [res EXCEPT ![e.th] = IF r = "wait" THEN "none" ELSE r] /\ UNCHANGED <<got, pend>>
               [] e.op = "sclose" -> \E r \in {"ok", "ErrClosed"} : SockClose(r) /\ res' = [res EXCEPT ![e.th] = r] /\ UNCHANGED <<got, pend>>
               [] OTHER -> UNCHANGED vars /\ UNCH_T
     \* a Send issued at the same moment as others: only the intent is known here; its first step (SendCall) is internal
     [] e.k = "callc" ->
          /\ AtNow /\ call[e.th] = NULL /\ pend[e.th] = NULL
          /\ pend' = [pend EXCEPT ![e.th] = [tag |-> e.tag, ok |-> e.ok, to |-> N(e.to), skip |-> N(e.skip), h |-> e.h]]
          /\ UNCHANGED <<vars, res, got>>
     [] e.k = "ret" ->
          /\ AtNow /\ call[e.th] = NULL /\ pend[e.th] = NULL /\ res[e.th] = e.r
          /\ (e.op = "recv" /\ e.r = "ok") =>
               /\ got[e.th] = e.tag
               \* header handed up: none by the cooked wrappers; raw: protocol specific
               /\ Cooked => e.hl = 0
               /\ (~Cooked /\ Proto \in {"xbus"}) => (e.hl = 4 /\ N(e.from) = ArrivedPipe(e.tag))
               /\ (~Cooked /\ Proto \in {"xrep", "xrespondent"}) => (e.hl >= 8 /\ N(e.from) = ArrivedPipe(e.tag))
               /\ (~Cooked /\ Proto \in {"xreq", "xsurveyor"}) => e.hl = 4
               /\ (~Cooked /\ Proto \in {"xpair", "xpull", "xsub"}) => e.hl = 0
          /\ res' = [res EXCEPT ![e.th] = "none"] /\ UNCHANGED <<vars, got, pend>>
     [] e.k = "setrq" -> AtNow /\ SetRQ(e.n) /\ UNCH_T
     [] e.k = "padd" ->
          \* the protocol is being told of the pipe; its verdict is a function of its state
          AtNow /\ (\E ok \in BOOLEAN : AddPipe(e.p, ok)) /\ UNCH_T
     [] e.k = "paddres" ->
          \* ... and must be the one observed
          (e.r = "ok") = (e.p \in pipes) /\ UNCHANGED vars /\ UNCH_T
     [] e.k = "prem" -> AtNow /\ RemovePipe(e.p) /\ UNCH_T
     [] e.k = "rv" ->
          /\ AtNow
          /\ PeerMsg(e.o, [tag |-> e.tag, short |-> e.short, zeros |-> e.zeros, h |-> e.h, n |-> e.n, avail |-> e.avail])
          /\ UNCH_T
     [] e.k = "xs" ->
          /\ AtNow /\ XmitStart(e.o)
          /\ txHold[e.o].m.tag = e.tag
          \* hop byte on the wire: as sent by the application, + 1 when forwarded by STAR
          /\ (Proto \in {"xstar", "xpair1"}) => (~e.short /\ e.zeros /\ e.h = txHold[e.o].m.h /\ e.hl = 4)
          /\ (Proto = "xbus") => e.hl = 0
          /\ UNCH_T
     [] e.k = "xd" -> AtNow /\ XmitEnd(e.o, TRUE) /\ UNCH_T
     [] e.k = "xf" -> AtNow /\ XmitEnd(e.o, FALSE) /\ UNCH_T
     [] OTHER -> FALSE

Silent ==
  /\ l <= NLines /\ UNCHANGED l
  /\ \/ \E p \in Pipe : (SenderTake(p) \/ Requeue(p) \/ Push(p) \/ Abandon(p) \/ LingerTake(p) \/ LingerExit(p)) /\ UNCH_T
     \/ Schedule /\ UNCH_T
     \/ \E t \in Thread : \E r \in {"ok", "wait", "ErrClosed", "ErrProtoOp", "ErrNoPeers"} :
          /\ pend[t] # NULL /\ SendCall(t, pend[t], r)
          /\ res' = [res EXCEPT ![t] = IF r = "wait" THEN "none" ELSE r] /\ pend' = [pend EXCEPT ![t] = NULL] /\ UNCHANGED got
     \/ \E t \in Thread : \E r \in {"ok", "ErrClosed", "ErrNoPeers", "ErrSendTimeout"} : SendDone(t, r) /\ res' = [res EXCEPT ![t] = r] /\ UNCHANGED <<got, pend>>
     \/ \E t \in Thread : /\ recvQ # <<>> /\ RecvTake(t, Head(recvQ))
                          /\ res' = [res EXCEPT ![t] = "ok"] /\ got' = [got EXCEPT ![t] = Head(recvQ)] /\ UNCHANGED pend
     \/ \E t \in Thread : \E r \in {"ErrClosed", "ErrRecvTimeout"} : RecvFail(t, r) /\ res' = [res EXCEPT ![t] = r] /\ UNCHANGED <<got, pend>>
     \/ \E t \in Thread :
          /\ call[t] # NULL /\ call[t].due > now /\ call[t].due <= e.t
          /\ \A u \in Thread : (call[u] # NULL /\ call[u].due >= 0 /\ call[u].due > now) => call[t].due <= call[u].due
          /\ ~CanInternal /\ now' = call[t].due
          /\ UNCHANGED <<opt, sockVars, sendVars, recvVars, call, histVars>> /\ UNCH_T

TNext == Line \/ Silent
TSpec == TInit /\ [][TNext]_allvars
TInv == /\ HandedWasAccepted /\ NoDuplicate /\ PerPipeOrder /\ NoEcho /\ NoEchoStar /\ RoutedRight
        /\ DeliveredArrived /\ AtMostOnePeer /\ ReadyNotBusy /\ ReadyDistinct /\ QueuesBounded /\ NoStuckSend
TConstraint == TInv /\ Progress(l)
\* conformance only: every safety invariant but not the send-completes property
TInvConf == /\ HandedWasAccepted /\ NoDuplicate /\ PerPipeOrder /\ NoEcho /\ NoEchoStar /\ RoutedRight
            /\ DeliveredArrived /\ AtMostOnePeer /\ ReadyNotBusy /\ ReadyDistinct /\ QueuesBounded
TConstraintConf == TInvConf /\ Progress(l)
=============================================================================
