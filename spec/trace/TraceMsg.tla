------------------------------ MODULE TraceMsg ------------------------------
(* The message ledger recorded from the real library (hooks in message.go)   *)
(* and the application's ownership markers, validated against Msg.tla: every *)
(* NewMessage / Clone / Free must be the corresponding action with exactly   *)
(* the observed reference count; so a double free, a clone or free after     *)
(* release, a library operation on a message the application owns, a message *)
(* handed to the application while still shared, or a failed Send that does  *)
(* not leave the caller the sole owner of an intact message is a rejection.  *)
EXTENDS Msg, TraceLib
VARIABLE l
e == Log[l]
TSerial == 0..20000
TInit == InitRegs /\ l = 2 /\ Log[1].k = "reset" /\ Init

Line ==
  /\ l <= NLines /\ l' = l + 1
  /\ CASE e.k = "reset" ->
            live' = {} /\ ref' = <<>> /\ app' = {} /\ extra' = <<>> /\ sending' = {} /\ released' = {} /\ pend' = {} /\ shared' = {}
       [] e.k = "end" -> e.status = "ok" /\ UNCHANGED vars
       [] e.k = "m" ->
            (CASE e.op = "new" ->
                   \* starts empty, with room for what was asked
                   /\ New(e.s) /\ e.cap >= e.len /\ e.hl = 0
              \* (a Clone announced by the application is the application's; the count is checked either way)
              [] e.op = "clone" -> (IF e.s \in app /\ e.s \notin sending THEN AppClone(e.s) ELSE Clone(e.s)) /\ e.ref = ref[e.s]
              [] e.op = "free" -> Free(e.s) /\ e.ref = ref[e.s]
              [] OTHER -> FALSE)
       [] e.k = "a" ->
            (CASE e.op = "new" -> AppNew(e.s) /\ e.len = 0 /\ e.cap >= e.want
              [] e.op = "got" -> AppGot(e.s)
              [] e.op = "free" -> AppFree(e.s)
              [] e.op = "send" -> AppSend(e.s)
              [] e.op = "sendok" -> AppSendOK(e.s)
              [] e.op = "sendfail" -> AppSendFail(e.s) /\ e.intact = TRUE /\ e.now = e.s
              [] OTHER -> FALSE)
       [] e.k = "pool" -> NewIsEmpty(e.sz, e.len, e.cap, e.hl) /\ UNCHANGED vars
       \* MakeUnique of a shared message with the other holder releasing, allocating and writing at the moment the copy
       \* starts: the copy has the original bytes and is nobody else's message
       [] e.k = "mu" -> e.intact = TRUE /\ e.alias = FALSE /\ UNCHANGED vars
       \* two holders releasing a shared message at the same moment: released once (the allocations that follow are
       \* never the same message)
       [] e.k = "poolrace" -> e.aliased = 0 /\ UNCHANGED vars
       [] OTHER -> FALSE
TSpec == TInit /\ [][Line]_<<vars, l>>
TConstraint == RefPositive /\ ReleasedDead /\ AppOwnsAlone /\ ExtraOnApp /\ Progress(l)
=============================================================================
