SPECIFICATION TSpec
CONSTANTS
  Proto = "xpush"
  Pipe <- PipeNames
  Thread <- ThreadNames
  NULL = NULL
  Timed = TRUE
  InitOpt <- TInitOpt
  MsgSet <- TEmpty
CONSTRAINT TConstraintConf
POSTCONDITION Verdict
CHECK_DEADLOCK FALSE
