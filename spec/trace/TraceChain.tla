----------------------------- MODULE TraceChain -----------------------------
(* Executions of real device chains (mangos.Device over raw sockets joined by *)
(* linked virtual pipes, cooked sockets at both ends) against Chain.tla: every *)
(* application call at the ends and every transport send on every connection. *)
EXTENDS Chain, TraceLib
VARIABLE l
e == Log[l]
allvars == <<vars, l>>
TInit == InitRegs /\ l = 2 /\ Log[1].k = "reset" /\ Init

Line ==
  /\ l <= NLines /\ l' = l + 1
  /\ CASE e.k = "reset" -> cfg' = NULL /\ out' = <<>> /\ msgs' = {} /\ cur' = NULL /\ cnt' = <<>> /\ nxt' = <<>>
       [] e.k = "end" -> e.status = "ok" /\ UNCHANGED vars
       [] e.k = "ccfg" -> /\ cfg' = [pat |-> e.pat, ndev |-> e.ndev, ttl |-> e.ttl, ring |-> e.ring, maxttl |-> e.maxttl]
                          /\ UNCHANGED <<out, msgs, cur, cnt, nxt>>
       [] e.k = "csend" -> CSend(e.c, e.p)
       [] e.k = "srecv" -> SRecv(e.p)
       [] e.k = "ssend" -> SSend(e.p)
       [] e.k = "crecv" -> IF e.r = "ok" THEN CRecvOK(e.c, e.p) ELSE CRecvNone(e.c)
       \* a transport send on connection j: toward the server on the client-side end ("a"), toward the client on the other
       [] e.k = "xs" -> IF e.side = "a" THEN FwdReq(e.p, e.j, e.nw) ELSE FwdRep(e.p, e.j, e.nw)
       \* quiescence: nothing that could still move
       [] e.k = "q" -> ~Stuck /\ UNCHANGED vars
       [] OTHER -> FALSE
Silent == /\ l <= NLines /\ UNCHANGED l /\ Discard
TNext == Line \/ Silent
TSpec == TInit /\ [][TNext]_allvars
TConstraint == HopLimit /\ (cfg # NULL => LoopsDie) /\ Progress(l)
=============================================================================
