------------------------------ MODULE TraceWire ------------------------------
(* Conformance of the real stream codec (transport/conn.go, connipc) with   *)
(* Wire.tla.  Each scenario is one connection: what mangos wrote as its     *)
(* handshake header, the verdict on the (possibly deviated / truncated)     *)
(* header the harness sent, then either a byte stream written by the        *)
(* harness in some chunking (what Recv delivers, how it ends, how many      *)
(* bytes were consumed) or messages mangos sends (the raw bytes seen).      *)
EXTENDS Wire, TraceLib

VARIABLES l, cfg, got      \* cfg: the scenario's reset line; got: messages delivered so far
e == Log[l]
TInit == InitRegs /\ l = 2 /\ Log[1].k = "reset" /\ cfg = Log[1] /\ got = <<>>

Expected == ParseAll(cfg.stream, cfg.maxrx, cfg.ipc)

LineOK ==
  CASE e.k = "reset" -> TRUE
    [] e.k = "end" -> e.status = "ok"
    [] e.k = "hsout" ->
         \* mangos writes exactly its header first
         e.b = Header(e.self) /\ e.rerr = "ok"
    [] e.k = "hsres" ->
         LET v == HeaderVerdict(e.sent, e.peer) IN
         /\ (e.r = "ok") = (v = "ok")
         /\ e.r # "stuck"
         /\ v \in {"ErrBadHeader", "ErrBadVersion", "ErrBadProto"} => e.r = v
         /\ (e.r = "ok") = e.haspipe
    [] e.k = "wrecv" ->
         \* the next delivered message is the next one of the independent parse; no protocol header is invented
         /\ Len(got) < Len(Expected.msgs)
         /\ e.b = Expected.msgs[Len(got) + 1]
         /\ e.hl = 0
    [] e.k = "wend" ->
         /\ got = Expected.msgs                               \* everything deliverable was delivered, nothing else
         /\ Expected.status = "toolong" =>
              /\ e.r = "ErrTooLong"
              /\ e.took = Expected.used                       \* dropped at once: nothing beyond the length field was read
         /\ Expected.status # "toolong" => e.r # "ErrTooLong"
    [] e.k = "wsent" ->
         /\ e.r = "ok"
         /\ e.raw = Encode(e.hdr \o e.body, cfg.ipc)
    [] e.k = "stall" -> e.done = TRUE /\ e.r = "ok"
    \* --- real transports (tcp, ipc, tls+tcp) against raw peers
    [] e.k = "hsreal" ->
         \* a header that is not acceptable makes mangos drop the connection
         HeaderVerdict(e.sent, e.peer) # "ok" => e.closed = TRUE
    \* every pattern, cooked and raw, by name: mangos writes the header of its own SP number first, attaches a peer
    \* that presents its partner's number and drops one that presents another valid SP number
    [] e.k = "hsname" ->
         /\ e.name \in SPNames
         /\ e.b = Header(SPNumber[e.name])
         /\ e.sent = Header(SPNumber[SPPartner[e.name]]) /\ e.accepted = TRUE
         /\ HeaderVerdict(e.wrong, SPNumber[SPPartner[e.name]]) = "ErrBadProto"
         /\ e.wrongclosed = TRUE /\ e.wrongattached = FALSE
    [] e.k = "rrecv" ->
         \* an in-limit frame written by an independent implementation (length field split across
         \* segments) is delivered whole and unchanged
         e.r = "ok" /\ e.len = e.n /\ e.d = e.want
    [] e.k = "oversize" -> e.announced > e.limit => e.closed = TRUE
    [] e.k = "control" -> e.ok = TRUE
    \* --- WebSocket mapping against an independent implementation
    [] e.k = "wsdial" -> e.accepted = (e.sub = WsSubprotocol(e.self))
    [] e.k = "wsneg" -> e.proto = WsSubprotocol("pair")
    [] e.k = "wsframe" -> e.binary = TRUE /\ e.d = e.want /\ e.r = "ok"
    [] e.k = "wsoffer" -> e.subs = WsSubprotocol(e.peer)
    [] OTHER -> FALSE

TNext ==
  /\ l <= NLines /\ LineOK /\ l' = l + 1
  /\ cfg' = IF e.k = "reset" THEN e ELSE cfg
  /\ got' = IF e.k = "reset" THEN <<>> ELSE IF e.k = "wrecv" THEN Append(got, e.b) ELSE got
TSpec == TInit /\ [][TNext]_<<l, cfg, got>>
TConstraint == Progress(l)
=============================================================================
