SPECIFICATION TSpec
CONSTANTS
  Ctx <- TCtx
  Pipe <- PipeNames
  Thread <- ThreadNames
  NULL = NULL
  Timed = TRUE
  InitQLen <- TInitQLen
  InitRecvExp <- TInitRecvExp
  Topics <- TEmpty
  Bodies <- TEmpty
CONSTRAINT TConstraint
POSTCONDITION Verdict
CHECK_DEADLOCK FALSE
