SPECIFICATION TSpec
CONSTANTS
  Kind = "rep"
  Ctx <- TCtx
  Pipe <- TPipe
  Thread <- TThread
  NULL = NULL
  Timed = TRUE
  InitOpt <- TInitOpt
  InitTTL <- TInitTTL
  InitSQ <- TInitSQ
  InitRQ <- TInitRQ
  ReqSet <- TReqSet
CONSTRAINT TConstraint
POSTCONDITION Verdict
CHECK_DEADLOCK FALSE
