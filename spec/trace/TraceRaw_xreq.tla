---- MODULE TraceRaw_xreq ----
EXTENDS TraceRaw
====
