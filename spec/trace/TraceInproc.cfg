SPECIFICATION TSpec
CONSTANTS
  Lst <- TLst
  Dlr <- TDlr
  Acc <- TAcc
  Addr <- TAddr
  AddrOf <- TAddrOf
  ProtoOK <- TProtoOK
  NULL = NULL
CONSTRAINT TConstraint
POSTCONDITION Verdict
CHECK_DEADLOCK FALSE
