---- MODULE TraceRaw_xpub ----
EXTENDS TraceRaw
====
