---- MODULE TraceRespondent ----
EXTENDS TraceRepLike
====
