----------------------------- MODULE TraceBurst -----------------------------
(* Send storms on the raw sockets: several application goroutines call Send    *)
(* back to back at the same time while every connected pipe takes what it is   *)
(* given at once; at each quiescence the driver records how many Sends were     *)
(* accepted so far, how many messages each pipe was handed, and how many calls  *)
(* are still blocked.  RawSock.tla's quiescence law (nothing can move, no call  *)
(* pending, no transport send outstanding: AllHandedAtRest, with                *)
(* HandedWasAccepted and NoDuplicate) then fixes the counts: every accepted     *)
(* message was handed on - once in all (PAIR, PUSH, raw REQ: mode "one"), once  *)
(* per pipe (PUB, BUS, STAR, raw SURVEYOR: mode "all") - none twice, none       *)
(* invented, and no Send is left waiting.  A lost wake-up, a message parked in  *)
(* a queue with an idle peer, or a duplicate shows up as a wrong count.         *)
EXTENDS TraceLib
VARIABLE l
e == Log[l]
RECURSIVE Sum(_)
Sum(s) == IF s = <<>> THEN 0 ELSE Head(s) + Sum(Tail(s))
CountsOK(x) ==
  /\ x.blocked = 0
  /\ x.dup = FALSE
  /\ IF x.mode = "one" THEN Sum(x.sent) = x.accepted
     ELSE \A i \in 1..Len(x.sent) : x.sent[i] = x.accepted
TInit == InitRegs /\ l = 2 /\ Log[1].k = "reset"
Line ==
  /\ l <= NLines /\ l' = l + 1
  /\ CASE e.k = "reset" -> TRUE
       [] e.k = "end" -> e.status = "ok"
       [] e.k = "bq" -> CountsOK(e)
       \* connection storm on a PAIR socket: never two peers at once, none left when all have gone, and the socket
       \* kept admitting (one per round: refusing the others did not disturb it)
       [] e.k = "bconn" -> e.most <= 1 /\ e.live = 0 /\ e.admitted = e.rounds
       [] OTHER -> FALSE
TSpec == TInit /\ [][Line]_l
TConstraint == Progress(l)
=============================================================================
