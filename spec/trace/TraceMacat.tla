----------------------------- MODULE TraceMacat -----------------------------
(* Every recorded run of the real macat binary (and every Duration parse)    *)
(* against Macat.tla: the command-line automaton decides refusal, the number  *)
(* of messages sent and whether the run ends; the format section decides what *)
(* stdout must be for the messages that crossed the socket.                   *)
EXTENDS Macat, TraceLib
VARIABLE l
e == Log[l]
TInit == InitRegs /\ l = 2 /\ Log[1].k = "reset" /\ Init

\* one invocation: tokens of the command line -> observed exit status, messages seen by the peer, stdout length
RunOK(x) ==
  LET p == Parse(x.toks) IN
  IF RunRejects(p) THEN x.code = 1 /\ x.nsent = 0 /\ x.outlen = 0          \* refused with an error, nothing ran
  ELSE
    /\ (x.late \/ (x.code # 1 /\ (Ends(p) => x.code = 0) /\ (~Ends(p) => x.code = -1)))  \* -1: had to be stopped
    /\ (x.nsent > 0 => IF p.data /\ ~x.dataempty THEN x.alleq ELSE x.allempty)   \* exactly the bytes given (an empty payload: empty messages)
    /\ CASE Mode(p) \in {"send", "sendrecv"} ->
              \* the number of times requested (a peer that got connected to a binding macat only after it had started
              \* sending - a busy machine - may have missed some: the run decides nothing then)
              IF x.late THEN (Sends(p) >= 0 => x.nsent <= Sends(p))
              ELSE IF Sends(p) >= 0 THEN x.nsent = Sends(p) ELSE x.nsent >= x.killat
         [] Mode(p) = "reply" -> x.nsent = x.nreq                           \* one answer per request
         [] OTHER -> x.nsent = 0
    /\ (p.fmt \in {"", "no"} => x.outlen = 0)

\* a bounded wait measured on the real clock: never shorter than what the text means
TimeOK(x) ==
  /\ DurOK(x.kind)
  /\ x.code = 0
  /\ x.ms >= DurMs(x.kind, x.n, x.unit)

Line ==
  /\ l <= NLines /\ l' = l + 1 /\ UNCHANGED vars
  /\ CASE e.k = "reset" -> TRUE
       [] e.k = "end" -> e.status = "ok"
       [] e.k = "mrun" -> RunOK(e)
       \* what was printed for the messages that arrived, in order
       [] e.k = "mfmt" -> OutputOK(e.fmt, e.ins, e.out)
       \* a long message, decoded by the harness: the announced length is the length, the payload is the payload
       [] e.k = "mbig" -> e.eq = TRUE /\ (e.fmt = "msgpack" => MpLen(e.hdr) = e.len)
       \* Duration.UnmarshalText
       [] e.k = "mdur" -> IF DurOK(e.kind) THEN e.r = "ok" /\ e.ms = DurMs(e.kind, e.n, e.unit) /\ e.exact = TRUE ELSE e.r = "err"
       [] e.k = "mtime" -> TimeOK(e)
       [] OTHER -> FALSE
TSpec == TInit /\ [][Line]_<<vars, l>>
TConstraint == Progress(l)
=============================================================================
