---- MODULE TraceRep ----
EXTENDS TraceRepLike
====
