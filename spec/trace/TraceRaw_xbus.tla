---- MODULE TraceRaw_xbus ----
EXTENDS TraceRaw
====
