---- MODULE TraceRaw_xpull ----
EXTENDS TraceRaw
====
