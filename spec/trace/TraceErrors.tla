----------------------------- MODULE TraceErrors -----------------------------
(* Dynamic part of C12 on the real transports: after any API outcome the next *)
(* call on the same object completes (never hangs) and returns one of the     *)
(* results the contract allows at that point ("Err:" stands for any operating  *)
(* system error text); in particular a corrected Listen / Dial succeeds.       *)
EXTENDS TraceLib, Sequences
VARIABLE l
e == Log[l]
TInit == InitRegs /\ l = 2 /\ Log[1].k = "reset"
IsOsError(r) == Len(r) >= 4 /\ SubSeq(r, 1, 4) = "Err:"
Allowed(r, want) == \E i \in 1..Len(want) : want[i] = r \/ (want[i] = "Err:" /\ IsOsError(r))
TNext ==
  /\ l <= NLines /\ l' = l + 1
  /\ CASE e.k = "reset" -> TRUE
       [] e.k = "end" -> e.status = "ok"
       [] e.k = "ecall" -> e.hung = FALSE /\ Allowed(e.r, e.want)
       [] OTHER -> FALSE
TSpec == TInit /\ [][TNext]_l
TConstraint == Progress(l)
=============================================================================
