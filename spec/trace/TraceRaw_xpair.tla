---- MODULE TraceRaw_xpair ----
EXTENDS TraceRaw
====
