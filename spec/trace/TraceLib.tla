----------------------------- MODULE TraceLib -----------------------------
(* Shared plumbing of the trace specifications: the recorded NDJSON log, the *)
(* position in it, and the acceptance bookkeeping.                           *)
(*   - VERIF_TRACE (environment) names the NDJSON file.                      *)
(*   - TLC register 1 keeps the highest line index reached by any explored   *)
(*     behaviour (run with -workers 1): when no behaviour of the             *)
(*     specification explains the whole log, it identifies the first line    *)
(*     that could not be matched.                                            *)
EXTENDS Integers, Sequences, TLC, Json, IOUtils

Log == ndJsonDeserialize(IOEnv.VERIF_TRACE)
NLines == Len(Log)

Has(e, f) == f \in DOMAIN e
\* names of the client threads / pipes the drivers use
ThreadNames == {"T" \o ToString(i) : i \in 1..48}
PipeNames == {"p" \o ToString(i) : i \in 1..24}
MinSet(S) == CHOOSE m \in S : \A x \in S : m <= x

\* index of the call line matching the ret line at index i (same thread, latest before i); the search walks
\* backwards from i and stops at the first match: its cost does not depend on the size of the batch
RECURSIVE CallBack(_, _)
CallBack(j, th) == IF j < 1 THEN 0
                   ELSE IF Log[j].k \in {"call", "callc"} /\ Log[j].th = th THEN j
                   ELSE CallBack(j - 1, th)
CallLine(i) == CallBack(i - 1, Log[i].th)

\* pipes the peer dropped so far in the current trace (drop lines back to the last reset)
RECURSIVE DroppedBack(_, _)
DroppedBack(j, acc) == IF j < 1 THEN acc
                       ELSE IF Log[j].k = "reset" THEN acc
                       ELSE DroppedBack(j - 1, IF Log[j].k = "drop" THEN acc \cup {Log[j].p} ELSE acc)
DroppedSoFar(i) == DroppedBack(i - 1, {})

\* Evaluated as a state constraint: record progress, stop TLC at acceptance.
Progress(l) ==
  /\ IF l > TLCGet(1) THEN TLCSet(1, l) ELSE TRUE
  /\ IF l > NLines THEN TLCSet("exit", TRUE) ELSE TRUE

InitRegs == TLCSet(1, 0)

\* POSTCONDITION: prints the verdict in a form run.py parses.
Verdict ==
  /\ PrintT(<<"TRACE_HIGHWATER", TLCGet(1), NLines>>)
  /\ TRUE
=============================================================================
