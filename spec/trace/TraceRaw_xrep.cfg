SPECIFICATION TSpec
CONSTANTS
  Proto = "xrep"
  Pipe <- PipeNames
  Thread <- ThreadNames
  NULL = NULL
  Timed = TRUE
  InitOpt <- TInitOpt
  MsgSet <- TEmpty
CONSTRAINT TConstraint
POSTCONDITION Verdict
CHECK_DEADLOCK FALSE
