----------------------------- MODULE TraceInproc -----------------------------
(* The real inproc transport driven through its Transport / Listener / Dialer *)
(* interface in a bubble (scripted and random sequences of Listen, Accept,     *)
(* Dial, Close with blocked calls left pending), against Inproc.tla.  A        *)
(* dialer's re-examination of the table after a wake-up is an internal step;   *)
(* at quiescence no waiting dialer may be able to move.                        *)
EXTENDS Inproc, TraceLib
VARIABLE l
e == Log[l]
allvars == <<vars, l>>
\* fixed naming convention shared with the driver
TLst == {"l1", "l2", "l3", "l4"}
TDlr == {"d" \o ToString(i) : i \in 1..12}
TAcc == {"t" \o ToString(i) : i \in 1..12}
TAddr == {"a1", "a2"}
TAddrOf == [x \in TLst \cup TDlr |-> IF x \in {"l3", "d4", "d8", "d12"} THEN "a2" ELSE "a1"]
\* sockets: listeners l1, l3, l4 and most dialers are PAIR; l2 is REP; d3, d7, d11 are REQ
TProtoOK == [d \in TDlr |-> [x \in TLst |-> (d \in {"d3", "d7", "d11"}) = (x = "l2")]]

TInit == InitRegs /\ l = 2 /\ Log[1].k = "reset" /\ Init
Line ==
  /\ l <= NLines /\ l' = l + 1
  /\ CASE e.k = "reset" -> /\ bound' = [a \in Addr |-> NULL] /\ lst' = [x \in Lst |-> [active |-> FALSE, closed |-> FALSE]]
                           /\ offers' = [x \in Lst |-> <<>>] /\ acc' = [t \in Acc |-> [st |-> "idle", l |-> NULL, peer |-> NULL]]
                           /\ dial' = [d \in Dlr |-> [st |-> "idle", peer |-> NULL]] /\ pairs' = {}
       [] e.k = "end" -> e.status = "ok" /\ UNCHANGED vars
       [] e.k = "ilisten" -> Listen(e.l, e.r)
       [] e.k = "iacccall" -> AcceptStart(e.th, e.l)
       [] e.k = "iaccret" -> /\ acc[e.th].st = (IF e.r = "ok" THEN "got" ELSE "err")
                             /\ (e.r # "ok" => e.r = "ErrClosed")
                             /\ (e.r = "ok" => e.peer = acc[e.th].peer)          \* the far end is the dialer the table paired it with
                             /\ UNCHANGED vars
       [] e.k = "idialcall" -> DialTry(e.d)
       [] e.k = "idialret" -> /\ dial[e.d].st = (CASE e.r = "ok" -> "got" [] e.r = "ErrConnRefused" -> "refused" [] e.r = "ErrBadProto" -> "badproto" [] OTHER -> "none")
                              /\ UNCHANGED vars
       [] e.k = "iclose" -> CloseL(e.l)
       [] e.k = "q" -> (\A d \in Dlr : ~DialCanMove(d)) /\ UNCHANGED vars
       [] OTHER -> FALSE
Silent == /\ l <= NLines /\ UNCHANGED l
          /\ \E d \in Dlr : DialCanMove(d) /\ DialTry(d)
TNext == Line \/ Silent
TSpec == TInit /\ [][TNext]_allvars
TConstraint == OneListener /\ Pairing /\ OffersAreWaiters /\ NoWaiterOnClosed /\ Progress(l)
=============================================================================
