SPECIFICATION TSpec
CONSTANT Dir <- TDir
CONSTRAINT TConstraint
POSTCONDITION Verdict
CHECK_DEADLOCK FALSE
