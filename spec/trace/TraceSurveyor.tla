--------------------------- MODULE TraceSurveyor ---------------------------
(* Trace validation of protocol/surveyor against Surveyor.tla.              *)
(* Logged: API call / return, padd / prem, every survey the library hands   *)
(* to a pipe (xs: pipe, abstract id, request bit, tag), every response it   *)
(* took (rv), exact virtual time, quiescence, snapshots (registered surveys *)
(* with owner / queue length / capacity, each context's current survey,     *)
(* per-pipe queue lengths).  Silent: the asynchronous cancels, expiry, the  *)
(* channel operations of Recv and of the pipe senders.                      *)
EXTENDS Surveyor, TraceLib

VARIABLES l, res, got
tvars == <<l, res, got>>
allvars == <<vars, tvars>>
e == Log[l]

TCtx == {"c0", "c1", "c2"}
OptOf(c) == [x \in Ctx |-> IF Has(c, x) THEN [survExp |-> c[x].survExp, recvExp |-> c[x].recvExp, qlen |-> c[x].qlen]
                           ELSE [survExp |-> 0, recvExp |-> 0, qlen |-> 0]]
TInitOpt == OptOf(Log[1])
TInitSQ == Log[1].sq
TEmpty == {}

TInit ==
  /\ InitRegs /\ l = 2 /\ Log[1].k = "reset" /\ Init
  /\ res = [t \in Thread |-> "none"] /\ got = [t \in Thread |-> "none"]

Reset(c) ==
  /\ opt' = OptOf(c) /\ sqCap' = c.sq /\ now' = 0
  /\ sclosed' = FALSE /\ pipes' = {} /\ pclosed' = [p \in Pipe |-> FALSE]
  /\ sendQ' = [p \in Pipe |-> <<>>] /\ txHold' = [p \in Pipe |-> NULL]
  /\ cclosed' = [x \in Ctx |-> FALSE] /\ cur' = [x \in Ctx |-> 0]
  /\ surveys' = <<>> /\ cancelled' = <<>> /\ async' = {}
  /\ nextId' = 0 /\ call' = [t \in Thread |-> NULL]
  /\ sentTo' = <<>> /\ delivered' = <<>>
  /\ res' = [t \in Thread |-> "none"] /\ got' = [t \in Thread |-> "none"]

AtNow == e.t = now
NoDueBy(t) ==
  /\ \A th \in Thread : (call[th] # NULL /\ call[th].due >= 0) => call[th].due > t
  /\ \A id \in Registered : surveys[id].due >= 0 => surveys[id].due > t
\* no receive deadline strictly before d is still pending
NoCallDueBefore(d) == \A th \in Thread : (call[th] # NULL /\ call[th].due >= 0 /\ call[th].due > now) => call[th].due >= d
Ignored == {"accept", "listen", "lclose", "hook", "hookret", "pclose", "drop", "mkpipe", "pdrop", "dial", "dialres"}
UNCH_T == UNCHANGED <<res, got>>
SeqToSet(s) == {s[i] : i \in 1..Len(s)}

SnapOK ==
  /\ e.closed = sclosed /\ e.next = nextId
  /\ {<<x[1], x[2], x[3], x[4]>> : x \in SeqToSet(e.surveys)} =
       {<<id, surveys[id].ctx, Len(surveys[id].q), surveys[id].cap>> : id \in Registered}
  /\ \A c \in Ctx : Has(e, c) => (e[c].cur = cur[c] /\ e[c].closed = cclosed[c])
  /\ \A p \in pipes : Has(e.sendq, p) => e.sendq[p] = Len(sendQ[p])

Line ==
  /\ l <= NLines
  /\ l' = l + 1
  /\ CASE e.k = "reset" -> Reset(e)
     [] e.k = "end" -> e.status = "ok" /\ UNCHANGED vars /\ UNCH_T
     [] e.k \in Ignored -> UNCHANGED vars /\ UNCH_T
     [] e.k = "census" -> e.n = 0 /\ UNCHANGED vars /\ UNCH_T
     \* C10: after everything was closed and every timer ran out no pipe id is reserved, no pipe listed
     [] e.k = "final" -> e.ids = 0 /\ e.listed = 0 /\ UNCHANGED vars /\ UNCH_T
     \* (a connection the peer dropped has been taken off the socket by the time nothing moves any more: the receiver of
     \* this pattern never waits for the application, so it always gets back to reading and sees the loss)
     [] e.k = "q" -> AtNow /\ ~CanInternal /\ (DroppedSoFar(l) \cap pipes = {}) /\ NoDueBy(e.t - 1) /\ UNCHANGED vars /\ UNCH_T
     [] e.k = "adv" ->
          /\ e.t >= now /\ NoDueBy(e.t) /\ ~CanInternal /\ now' = e.t
          /\ UNCHANGED <<opt, sqCap, sclosed, pipes, pclosed, sendQ, txHold, cclosed, cur, surveys, cancelled,
                         async, nextId, call, sentTo, delivered>> /\ UNCH_T
     [] e.k = "snap" -> SnapOK /\ UNCHANGED vars /\ UNCH_T
     [] e.k = "call" ->
          /\ AtNow
          /\ CASE e.op = "survey" ->
                    \E r \in {"ok", "ErrClosed"} : SurveyCall(e.th, e.o, e.tag, r) /\ res' = [res EXCEPT ![e.th] = r] /\ UNCHANGED got
               [] e.op = "recv" ->
                    \E r \in {"wait", "ErrClosed", "ErrProtoState"} :
                      RecvCall(e.th, e.o, r) /\ res' = [res EXCEPT ![e.th] = IF r = "wait" THEN "none" ELSE r] /\ UNCHANGED got
               [] e.op = "cclose" -> \E r \in {"ok", "ErrClosed"} : CtxClose(e.o, r) /\ res' = [res EXCEPT ![e.th] = r] /\ UNCHANGED got
               [] e.op = "sclose" -> \E r \in {"ok", "ErrClosed"} : SockClose(r) /\ res' = [res EXCEPT ![e.th] = r] /\ UNCHANGED got
               [] OTHER -> UNCHANGED vars /\ UNCH_T
     [] e.k = "ret" ->
          /\ AtNow /\ call[e.th] = NULL /\ res[e.th] = e.r
          /\ (e.op = "recv" /\ e.r = "ok") => (got[e.th] = e.tag /\ e.hl = 4)
          /\ res' = [res EXCEPT ![e.th] = "none"] /\ UNCHANGED <<vars, got>>
     [] e.k = "padd" ->
          \* the protocol is being told of the pipe; its verdict is a function of its state
          AtNow /\ (\E ok \in BOOLEAN : AddPipe(e.p, ok)) /\ UNCH_T
     [] e.k = "paddres" ->
          \* ... and must be the one observed
          (e.r = "ok") = (e.p \in pipes) /\ UNCHANGED vars /\ UNCH_T
     [] e.k = "prem" -> AtNow /\ RemovePipe(e.p) /\ UNCH_T
     [] e.k = "rv" ->
          /\ AtNow
          /\ IF e.short THEN UNCHANGED vars ELSE Response(e.o, [id |-> e.id, hi |-> e.hi, tag |-> e.tag])
          /\ UNCH_T
     [] e.k = "xs" ->
          /\ AtNow /\ XmitStart(e.o)
          /\ ~e.short /\ e.hi = TRUE /\ e.hl = 4
          /\ txHold[e.o].m.id = e.id /\ txHold[e.o].m.tag = e.tag
          /\ UNCH_T
     [] e.k \in {"xd", "xf"} -> AtNow /\ XmitEnd(e.o) /\ UNCH_T
     [] OTHER -> FALSE

Silent ==
  /\ l <= NLines /\ UNCHANGED l
  /\ \/ \E x \in async : CancelRun(x[1], x[2]) /\ UNCH_T
     \/ \E id \in Registered : surveys[id].due >= 0 /\ surveys[id].due <= e.t /\ NoCallDueBefore(surveys[id].due) /\ Expire(id) /\ UNCH_T
     \/ \E p \in Pipe : SenderTake(p) /\ UNCH_T
     \/ \E t \in Thread :
          /\ call[t] # NULL /\ call[t].sid \in Registered /\ surveys[call[t].sid].q # <<>>
          /\ RecvTake(t, Head(surveys[call[t].sid].q))
          /\ res' = [res EXCEPT ![t] = "ok"] /\ got' = [got EXCEPT ![t] = Head(surveys[call[t].sid].q).tag]
     \/ \E t \in Thread : \E r \in {"ErrClosed", "ErrProtoState", "ErrCanceled", "ErrRecvTimeout"} :
          RecvEnd(t, r) /\ res' = [res EXCEPT ![t] = r] /\ UNCHANGED got
     \/ \* virtual time reaches the earliest pending receive deadline
        \E t \in Thread :
          /\ call[t] # NULL /\ call[t].due > now /\ call[t].due <= e.t
          /\ \A u \in Thread : (call[u] # NULL /\ call[u].due >= 0 /\ call[u].due > now) => call[t].due <= call[u].due
          /\ \A id \in Registered : surveys[id].due >= 0 => surveys[id].due >= call[t].due
          /\ ~CanInternal /\ now' = call[t].due
          /\ UNCHANGED <<opt, sqCap, sclosed, pipes, pclosed, sendQ, txHold, cclosed, cur, surveys, cancelled,
                         async, nextId, call, sentTo, delivered>> /\ UNCH_T

TNext == Line \/ Silent
TSpec == TInit /\ [][TNext]_allvars
TInv == QueuesHoldOwn /\ CurrentRegistered /\ OneLivePerCtx /\ DeliveredIsBound /\ CancelledGone /\ QueueBounded
TConstraint == TInv /\ Progress(l)
=============================================================================
