SPECIFICATION TSpec
CONSTANTS
  Conn <- TConn
  NULL = NULL
CONSTRAINT TConstraint
POSTCONDITION Verdict
CHECK_DEADLOCK FALSE
