--------------------------- MODULE TraceLifecycle ---------------------------
(* Real-transport close scenarios (tcp, ipc, tls+tcp, ws, wss, inproc)       *)
(* validated against Lifecycle.tla.                                          *)
EXTENDS Lifecycle, TraceLib
VARIABLE l
e == Log[l]
TInit == InitRegs /\ l = 2 /\ Log[1].k = "reset" /\ Init
TNext ==
  /\ l <= NLines /\ l' = l + 1
  /\ CASE e.k = "reset" -> closed' = {} /\ pending' = 0 /\ returned' = 0
       [] e.k = "end" -> e.status = "ok" /\ UNCHANGED vars
       [] e.k = "rbase" -> e.g = 0 /\ UNCHANGED vars          \* nothing left over from the previous scenario
       [] e.k = "rdup" -> e.failed = TRUE /\ UNCHANGED vars     \* a second listener on a bound address is refused
       [] e.k = "rconn" -> e.ok = TRUE /\ UNCHANGED vars        \* ... and closing it left the first one working
       [] e.k = "rpending" -> Block(e.n)
       [] e.k = "rclose" -> Close(e.sock, e.r)
       [] e.k = "rret" -> Return(e.sock, e.r, e.prompt)
       [] e.k = "runblocked" -> AllUnblocked(e.n, e.want)
       [] e.k = "rlater" -> Later(e.sock, e.r)
       [] e.k = "rpeerdown" -> e.ok = TRUE /\ UNCHANGED vars
       [] e.k = "rrebind" -> e.ok = TRUE /\ UNCHANGED vars
       [] e.k = "rreconnect" -> e.ok = TRUE /\ UNCHANGED vars
       \* a Dial that was waiting for the endpoint when it closed comes back, promptly
       [] e.k = "rdialret" -> e.prompt = TRUE /\ e.r # "hung" /\ UNCHANGED vars
       \* Close raced with arriving connections: with the peers still connected and silent, nothing of the closed
       \* socket is left running in the library (no handshake worker, no parked upgrade)
       [] e.k = "rrace" -> e.leaked = 0 /\ UNCHANGED vars
       \* the socket was dialing a server that accepts and stays silent: closing it leaves nothing of it running
       [] e.k = "rdialsilent" -> e.leaked = 0 /\ UNCHANGED vars
       [] e.k = "rhsdrop" -> e.closed = TRUE /\ UNCHANGED vars
       [] e.k = "rcensus" -> e.n = 0 /\ UNCHANGED vars
       [] OTHER -> FALSE
TSpec == TInit /\ [][TNext]_<<vars, l>>
TConstraint == Progress(l)
=============================================================================
