------------------------------ MODULE TraceConc ------------------------------
(* Concurrent use (C11): the tallied results of every call made while many   *)
(* goroutines hammer connected sockets of every pattern - including socket    *)
(* Close while everything is running - must be results the sequential         *)
(* contract of that operation allows, and every goroutine must come back      *)
(* (no deadlock).  Data races are reported by the race detector the driver    *)
(* is built with; the lock order is checked statically (LockDiscipline.tla).  *)
EXTENDS TraceLib, Sequences
VARIABLE l
e == Log[l]
TInit == InitRegs /\ l = 2 /\ Log[1].k = "reset"
IsOsError(r) == Len(r) >= 4 /\ SubSeq(r, 1, 4) = "Err:"
Allowed(op) ==
  \* (ErrCanceled: a REQ Send still waiting for a connection when a Recv deadline or another Send on the same context
  \* gives the request up - Req.tla SendWake)
  CASE op \in {"send", "ctxsend"} -> {"ok", "ErrSendTimeout", "ErrClosed", "ErrNoPeers", "ErrProtoOp", "ErrProtoState", "ErrCanceled"}
    [] op \in {"recv", "ctxrecv"} -> {"ok", "ErrRecvTimeout", "ErrClosed", "ErrNoPeers", "ErrProtoOp", "ErrProtoState", "ErrCanceled"}
    [] op = "opt" -> {"ok", "ErrBadOption", "ErrBadValue"}
    [] op = "openctx" -> {"ok", "ErrProtoOp", "ErrClosed"}
    [] op \in {"ctxclose", "lclose", "dclose", "close"} -> {"ok", "ErrClosed"}
    [] op = "listen" -> {"ok", "ErrClosed", "ErrAddrInUse"}
    [] op = "dial" -> {"ok", "ErrClosed", "ErrConnRefused", "ErrAddrInUse"}
    [] OTHER -> {}
TNext ==
  /\ l <= NLines /\ l' = l + 1
  /\ CASE e.k = "reset" -> TRUE
       [] e.k = "end" -> e.status = "ok"
       [] e.k = "cdone" -> e.ok = TRUE
       \* the same Listen / Dial from several goroutines at once on one endpoint: one starts it, the others find it active
       [] e.k = "cone" -> e.mostok <= 1 /\ e.other = 0
       \* contexts and their socket closed from several goroutines at once: every Close says nil or ErrClosed
       [] e.k = "cctx" -> e.other = 0
       [] e.k = "cres" -> e.r \in Allowed(e.op) \/ (e.op = "dial" /\ IsOsError(e.r))
       [] OTHER -> FALSE
TSpec == TInit /\ [][TNext]_l
TConstraint == Progress(l)
=============================================================================
