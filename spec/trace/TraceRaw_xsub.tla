---- MODULE TraceRaw_xsub ----
EXTENDS TraceRaw
====
