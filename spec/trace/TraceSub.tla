------------------------------ MODULE TraceSub ------------------------------
(* Trace validation of protocol/sub against Sub.tla.  TLC recomputes the    *)
(* prefix matching on the logged byte strings; every Recv result must be    *)
(* the head of the specification's queue for that context; snapshots bind   *)
(* subscriptions and queue lengths at every quiescence.                     *)
EXTENDS Sub, TraceLib

VARIABLES l, res, got
tvars == <<l, res, got>>
allvars == <<vars, tvars>>
e == Log[l]
CallArg(f) == Log[CallLine(l)][f]

TCtx == {"c0", "c1", "c2"}
TInitQLen == [c \in TCtx |-> IF Has(Log[1], c) THEN Log[1][c].qlen ELSE 1]
TInitRecvExp == [c \in TCtx |-> IF Has(Log[1], c) THEN Log[1][c].recvExp ELSE 0]
TEmpty == {}

TInit ==
  /\ InitRegs /\ l = 2 /\ Log[1].k = "reset"
  /\ Init
  /\ res = [t \in Thread |-> "none"] /\ got = [t \in Thread |-> <<>>]

Reset(c) ==
  /\ now' = 0 /\ sclosed' = FALSE /\ pipes' = {}
  /\ cclosed' = [x \in Ctx |-> FALSE]
  /\ subs' = [x \in Ctx |-> <<>>]
  /\ qlen' = [x \in Ctx |-> IF Has(c, x) THEN c[x].qlen ELSE 1]
  /\ recvExp' = [x \in Ctx |-> IF Has(c, x) THEN c[x].recvExp ELSE 0]
  /\ recvQ' = [x \in Ctx |-> <<>>]
  /\ call' = [t \in Thread |-> NULL]
  /\ arrivedSeq' = <<>> /\ offered' = [x \in Ctx |-> <<>>] /\ delivered' = [x \in Ctx |-> <<>>]
  /\ res' = [t \in Thread |-> "none"] /\ got' = [t \in Thread |-> <<>>]

AtNow == e.t = now
NoDeadlineBy(t) == \A th \in Thread : (call[th] # NULL /\ call[th].due >= 0) => call[th].due > t
Ignored == {"accept", "listen", "lclose", "hook", "hookret", "pclose", "drop", "mkpipe", "pdrop", "dial", "dialres"}
UNCH_T == UNCHANGED <<res, got>>

SnapOK ==
  /\ e.closed = sclosed
  /\ \A c \in Ctx : Has(e, c) =>
       /\ e[c].closed = cclosed[c] /\ e[c].qlen = qlen[c]
       /\ e[c].subs = subs[c]
       /\ e[c].queued = Len(recvQ[c])

Line ==
  /\ l <= NLines
  /\ l' = l + 1
  /\ CASE e.k = "reset" -> Reset(e)
     [] e.k = "end" -> e.status = "ok" /\ UNCHANGED vars /\ UNCH_T
     [] e.k \in Ignored -> UNCHANGED vars /\ UNCH_T
     [] e.k = "census" -> e.n = 0 /\ UNCHANGED vars /\ UNCH_T
     \* C10: after everything was closed and every timer ran out no pipe id is reserved, no pipe listed
     [] e.k = "final" -> e.ids = 0 /\ e.listed = 0 /\ UNCHANGED vars /\ UNCH_T
     [] e.k = "q" -> AtNow /\ ~CanInternal /\ UNCHANGED vars /\ UNCH_T
     [] e.k = "adv" ->
          /\ e.t >= now /\ NoDeadlineBy(e.t) /\ ~CanInternal /\ now' = e.t
          /\ UNCHANGED <<sclosed, pipes, cclosed, subs, qlen, recvExp, recvQ, call, arrivedSeq, offered, delivered>> /\ UNCH_T
     [] e.k = "snap" -> SnapOK /\ UNCHANGED vars /\ UNCH_T
     [] e.k = "call" ->
          /\ AtNow
          /\ CASE e.op = "recv" -> RecvCall(e.th, e.o) /\ UNCH_T
               [] e.op = "cclose" -> \E r \in {"ok", "ErrClosed"} : CtxClose(e.o, r) /\ res' = [res EXCEPT ![e.th] = r] /\ UNCHANGED got
               [] e.op = "sclose" -> \E r \in {"ok", "ErrClosed"} : SockClose(r) /\ res' = [res EXCEPT ![e.th] = r] /\ UNCHANGED got
               [] OTHER -> UNCHANGED vars /\ UNCH_T      \* option calls take effect at their return
     [] e.k = "ret" ->
          /\ AtNow
          /\ CASE e.op = "recv" ->
                    /\ call[e.th] = NULL /\ res[e.th] = e.r
                    /\ e.r = "ok" => (got[e.th] = e.b /\ e.hl = 0)
                    /\ res' = [res EXCEPT ![e.th] = "none"] /\ UNCHANGED <<vars, got>>
               [] e.op \in {"cclose", "sclose"} -> res[e.th] = e.r /\ UNCHANGED vars /\ UNCH_T
               [] e.op = "sub" -> e.r = "ok" /\ Subscribe(e.o, CallArg("topic")) /\ UNCH_T
               [] e.op = "unsub" -> Unsubscribe(e.o, CallArg("topic"), e.r) /\ UNCH_T
               [] e.op = "qlen" ->
                    \* a negative length is a bad value and changes nothing
                    IF CallArg("n") < 0 THEN e.r = "ErrBadValue" /\ UNCHANGED vars /\ UNCH_T
                    ELSE e.r = "ok" /\ SetQLen(e.o, CallArg("n")) /\ UNCH_T
               [] OTHER -> UNCHANGED vars /\ UNCH_T
     [] e.k = "padd" ->
          \* the protocol is being told of the pipe; its verdict is a function of its state
          AtNow /\ (\E ok \in BOOLEAN : AddPipe(e.p, ok)) /\ UNCH_T
     [] e.k = "paddres" ->
          \* ... and must be the one observed
          (e.r = "ok") = (e.p \in pipes) /\ UNCHANGED vars /\ UNCH_T
     [] e.k = "prem" -> AtNow /\ RemovePipe(e.p) /\ UNCH_T
     [] e.k = "rv" -> AtNow /\ Arrive(e.o, e.b) /\ UNCH_T
     [] OTHER -> FALSE

Silent ==
  /\ l <= NLines /\ UNCHANGED l
  /\ \/ \E t \in Thread : /\ call[t] # NULL /\ recvQ[call[t].c] # <<>>
                          /\ RecvTake(t, Head(recvQ[call[t].c]))
                          /\ res' = [res EXCEPT ![t] = "ok"] /\ got' = [got EXCEPT ![t] = Head(recvQ[call[t].c])]
     \/ \E t \in Thread : \E r \in {"ErrClosed", "ErrRecvTimeout"} : RecvFail(t, r) /\ res' = [res EXCEPT ![t] = r] /\ UNCHANGED got
     \/ \E t \in Thread :
          /\ call[t] # NULL /\ call[t].due > now /\ call[t].due <= e.t
          /\ \A u \in Thread : (call[u] # NULL /\ call[u].due >= 0 /\ call[u].due > now) => call[t].due <= call[u].due
          /\ ~CanInternal /\ now' = call[t].due
          /\ UNCHANGED <<sclosed, pipes, cclosed, subs, qlen, recvExp, recvQ, call, arrivedSeq, offered, delivered>> /\ UNCH_T

TNext == Line \/ Silent
TSpec == TInit /\ [][TNext]_allvars
TInv == QueuedMatches /\ QueueBounded /\ DeliveredInOrder /\ OfferedArrived
TConstraint == TInv /\ Progress(l)
=============================================================================
