SPECIFICATION TSpec
CONSTANTS
  Pipe <- TPipes
  Dialer <- TDialers
  Listener <- TListeners
  NULL <- TNull
  InitOpt <- TInitOpt
CONSTRAINT TConstraint
POSTCONDITION Verdict
CHECK_DEADLOCK FALSE
