------------------------------ MODULE TraceReq ------------------------------
(* Trace validation of protocol/req against Req.tla.                        *)
(* Logged: API call / return (per client thread), what the core told the    *)
(* protocol (padd / prem), every transmission the library hands to the      *)
(* virtual transport (xs / xd / xf with pipe, abstract request id, request  *)
(* bit, header length, digest), every peer message the library took (rv),   *)
(* virtual time (adv), quiescence (q) and snapshots of the private state.   *)
(* Silent (inferred): Dispatch, Requeue, ResendRun, timer firings, the      *)
(* wake-up regions of blocked Send / Recv.                                  *)
EXTENDS Req, TraceLib

VARIABLES
  l,
  res,      \* per thread: result of the completed call, or "none"
  got,      \* per thread: the reply a completed Recv returns
  digest    \* abstract request id -> digest of its first transmission

tvars == <<l, res, got, digest>>
allvars == <<vars, tvars>>

e == Log[l]

TCtx == {"c0", "c1", "c2"}
TPipe == PipeNames
TThread == ThreadNames
TNull == "NULL"

OptOf(c) ==   \* contexts beyond nctx exist in the model but are never used
  [x \in Ctx |->
     IF Has(c, x)
       THEN [retry |-> c[x].retry, sendExp |-> c[x].sendExp, recvExp |-> c[x].recvExp,
             bestEffort |-> c[x].bestEffort, failNoPeers |-> c[x].failNoPeers]
       ELSE [retry |-> 0, sendExp |-> 0, recvExp |-> 0, bestEffort |-> FALSE, failNoPeers |-> FALSE]]

TInit ==
  /\ InitRegs
  /\ l = 2
  /\ Log[1].k = "reset"
  /\ Init
  /\ res = [t \in Thread |-> "none"]
  /\ got = [t \in Thread |-> NoReply]
  /\ digest = <<>>

\* Init has opt = InitOpt; the trace's options come from the reset line
TInitOpt == OptOf(Log[1])

Reset(c) ==
  /\ opt' = OptOf(c) /\ now' = 0
  /\ sclosed' = FALSE /\ pipes' = {} /\ pclosed' = [p \in Pipe |-> FALSE]
  /\ readyQ' = <<>> /\ sendQ' = <<>> /\ ctxById' = <<>> /\ nextId' = 0
  /\ reqID' = [c2 \in Ctx |-> 0] /\ reqMsg' = [c2 \in Ctx |-> 0] /\ sendMsg' = [c2 \in Ctx |-> 0]
  /\ repMsg' = [c2 \in Ctx |-> NoReply] /\ lastPipe' = [c2 \in Ctx |-> NULL]
  /\ queued' = [c2 \in Ctx |-> FALSE] /\ cclosed' = [c2 \in Ctx |-> FALSE] /\ recvWait' = [c2 \in Ctx |-> FALSE]
  /\ timers' = {} /\ tserial' = 0
  /\ curResend' = [c2 \in Ctx |-> 0] /\ curSend' = [c2 \in Ctx |-> 0] /\ curRecv' = [c2 \in Ctx |-> 0]
  /\ inflight' = [p \in Pipe |-> NULL]
  /\ asyncRs' = {}
  /\ call' = [t \in Thread |-> NULL]
  /\ sendExpired' = {} /\ recvExpired' = {}
  /\ issued' = [c2 \in Ctx |-> <<>>] /\ dead' = {} /\ handed' = <<>> /\ nHand' = 0
  /\ delivered' = <<>> /\ injected' = {}
  /\ res' = [t \in Thread |-> "none"]
  /\ got' = [t \in Thread |-> NoReply]
  /\ digest' = <<>>

NoTimerDueBy(t) == \A tm \in timers : tm.due > t
AtNow == e.t = now

Ignored == {"accept", "listen", "lclose", "hook", "hookret", "pclose", "drop", "mkpipe", "pdrop", "dial", "dialres"}

SeqToSet(s) == {s[i] : i \in 1..Len(s)}

SnapOK ==
  /\ e.closed = sclosed
  /\ e.next = nextId
  /\ {<<x[1], x[2]>> : x \in SeqToSet(e.ids)} = {<<id, ctxById[id]>> : id \in Registered}
  /\ e.sendq = sendQ
  /\ e.readyq = readyQ
  /\ SeqToSet(e.pipes) = pipes
  /\ \A c \in Ctx : Has(e, c) =>
       LET x == e[c] IN
       /\ x.rid = reqID[c]
       /\ x.req = (reqMsg[c] # 0)
       /\ x.snd = (sendMsg[c] # 0)
       /\ x.rep = (repMsg[c] # NoReply)
       /\ x.queued = queued[c]
       /\ x.rw = recvWait[c]
       /\ x.closed = cclosed[c]
       /\ x.lp = (IF lastPipe[c] = NULL THEN "-" ELSE lastPipe[c])

UNCH_T == UNCHANGED <<res, got, digest>>

Line ==
  /\ l <= NLines
  /\ l' = l + 1
  /\ CASE e.k = "reset" -> Reset(e)
     [] e.k = "end" -> e.status = "ok" /\ UNCHANGED vars /\ UNCH_T
     [] e.k \in Ignored -> UNCHANGED vars /\ UNCH_T
     [] e.k = "census" -> e.n = 0 /\ UNCHANGED vars /\ UNCH_T
     \* C10: after everything was closed and every timer ran out no pipe id is reserved, no pipe listed
     [] e.k = "final" -> e.ids = 0 /\ e.listed = 0 /\ UNCHANGED vars /\ UNCH_T
     \* (a connection the peer dropped has been taken off the socket by the time nothing moves any more: the receiver of
     \* this pattern never waits for the application, so it always gets back to reading and sees the loss)
     [] e.k = "q" -> AtNow /\ ~CanInternal /\ (DroppedSoFar(l) \cap pipes = {}) /\ NoTimerDueBy(e.t) /\ UNCHANGED vars /\ UNCH_T
     [] e.k = "adv" ->
          /\ e.t >= now /\ NoTimerDueBy(e.t) /\ ~CanInternal
          /\ now' = e.t
          /\ UNCHANGED <<opt, sockVars, ctxVars, timeVars, inflight, asyncRs, callVars, histVars>> /\ UNCH_T
     [] e.k = "snap" -> SnapOK /\ UNCHANGED vars /\ UNCH_T
     [] e.k = "call" ->
          /\ AtNow
          /\ CASE e.op = "send" ->
                    \E r \in {"ok", "wait", "ErrClosed", "ErrNoPeers"} :
                      /\ SendCall(e.th, e.o, r)
                      /\ res' = [res EXCEPT ![e.th] = IF r = "wait" THEN "none" ELSE r]
                      /\ UNCHANGED <<got, digest>>
               [] e.op = "recv" ->
                    \E r \in {"wait", "ErrClosed", "ErrNoPeers", "ErrProtoState"} :
                      /\ RecvCall(e.th, e.o, r)
                      /\ res' = [res EXCEPT ![e.th] = IF r = "wait" THEN "none" ELSE r]
                      /\ UNCHANGED <<got, digest>>
               [] e.op = "cclose" ->
                    \E r \in {"ok", "ErrClosed"} :
                      /\ CtxClose(e.o, r)
                      /\ res' = [res EXCEPT ![e.th] = r]
                      /\ UNCHANGED <<got, digest>>
               [] e.op = "sclose" ->
                    \E r \in {"ok", "ErrClosed"} :
                      /\ SockClose(r)
                      /\ res' = [res EXCEPT ![e.th] = r]
                      /\ UNCHANGED <<got, digest>>
               [] OTHER -> UNCHANGED vars /\ UNCH_T
     [] e.k = "ret" ->
          /\ AtNow
          /\ IF e.op \in {"send", "recv", "cclose", "sclose"}
               THEN /\ call[e.th] = NULL
                    /\ res[e.th] = e.r
                    /\ (e.op = "recv" /\ e.r = "ok") => (got[e.th].tag = e.tag /\ e.hl = 4)
                    /\ res' = [res EXCEPT ![e.th] = "none"]
                    /\ UNCHANGED <<vars, got, digest>>
               ELSE UNCHANGED vars /\ UNCH_T
     [] e.k = "padd" ->
          \* the protocol is being told of the pipe; its verdict is a function of its state
          AtNow /\ (\E ok \in BOOLEAN : AddPipe(e.p, ok)) /\ UNCH_T
     [] e.k = "paddres" ->
          \* ... and must be the one observed
          (e.r = "ok") = (e.p \in pipes) /\ UNCHANGED vars /\ UNCH_T
     [] e.k = "prem" ->
          /\ AtNow /\ RemovePipe(e.p) /\ UNCH_T
     [] e.k = "xs" ->
          /\ AtNow
          /\ XmitStart(e.o)
          /\ ~e.short /\ e.hi = TRUE /\ e.hl = 4
          /\ inflight[e.o].id = e.id
          \* every transmission of a request is byte-identical to its first
          /\ IF e.id \in DOMAIN digest THEN digest[e.id] = e.d /\ UNCHANGED digest
             ELSE digest' = [x \in DOMAIN digest \cup {e.id} |-> IF x = e.id THEN e.d ELSE digest[x]]
          /\ UNCHANGED <<res, got>>
     [] e.k = "xd" -> AtNow /\ XmitEnd(e.o, TRUE) /\ UNCH_T
     [] e.k = "xf" -> AtNow /\ XmitEnd(e.o, FALSE) /\ UNCH_T
     [] e.k = "rv" ->
          /\ AtNow
          /\ IF e.short THEN ReplyShort(e.o)
             ELSE Reply(e.o, [id |-> e.id, hi |-> e.hi, tag |-> e.tag])
          /\ UNCH_T
     [] OTHER -> FALSE

Silent ==
  /\ l <= NLines
  /\ UNCHANGED <<l, digest>>
  /\ \/ Dispatch /\ UNCHANGED <<res, got>>
     \/ \E p \in Pipe : Requeue(p) /\ UNCHANGED <<res, got>>
     \/ \E x \in asyncRs : ResendRun(x[1], x[2]) /\ UNCHANGED <<res, got>>
     \/ \E tm \in timers : tm.due <= e.t /\ (FireResend(tm) \/ FireSend(tm) \/ FireRecv(tm)) /\ UNCHANGED <<res, got>>
     \/ \E t \in Thread : \E r \in {"ok", "ErrClosed", "ErrNoPeers", "ErrSendTimeout", "ErrCanceled"} :
          /\ SendWake(t, r)
          /\ res' = [res EXCEPT ![t] = r]
          /\ UNCHANGED got
     \/ \E t \in Thread : \E r \in {"ok", "ErrClosed", "ErrNoPeers", "ErrRecvTimeout", "ErrCanceled"} :
          /\ RecvCanWake(t)
          /\ LET c == call[t].c IN
             \E m \in {repMsg[c], NoReply} :
               /\ RecvWake(t, r, m)
               /\ res' = [res EXCEPT ![t] = r]
               /\ got' = [got EXCEPT ![t] = m]

TNext == Line \/ Silent
TSpec == TInit /\ [][TNext]_allvars

TInv ==
  /\ MappingSound /\ ReplyIsCurrent /\ DeliveredIsCurrent /\ AtMostOneReply
  /\ QueuedIsLive /\ ReadyNotBusy /\ ReadyDistinct /\ ClosedIsEmpty
  /\ NoOrphan /\ RetryArmed /\ BlockedForAReason

\* action properties of Req.tla, evaluated as a constraint on the step
TAct ==
  /\ nHand' > nHand => handed'[1] \notin dead
  /\ (nHand' > nHand /\ ~handed'[4]) => Retry(handed'[3]) > 0
  /\ \A i \in 1..Len(delivered') : i > Len(delivered) =>
        delivered'[i][2].id = Last(issued[delivered'[i][1]])

TConstraint == TInv /\ Progress(l)
TReplySet == {}
=============================================================================
