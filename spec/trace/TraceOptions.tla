----------------------------- MODULE TraceOptions -----------------------------
(* Every recorded SetOption / GetOption on every object, checked against the  *)
(* contract state machine of Options.tla; plus inheritance by new dialers,     *)
(* listeners and contexts, unsupported operations, read-only pipe facts and    *)
(* queue resizing with traffic in flight.                                      *)
EXTENDS Options, TraceLib
VARIABLE l
e == Log[l]
TInit == InitRegs /\ l = 2 /\ Log[1].k = "reset" /\ Init

\* at the end of an object: a supported read-write option accepted at least one of its valid values
EndOK(o) == \A k \in DOMAIN sup : (k[1] = o /\ sup[k] = "rw" /\ k[2] # "UNSUBSCRIBE") => (k \in DOMAIN val)

Line ==
  /\ l <= NLines /\ l' = l + 1
  /\ CASE e.k = "reset" -> sup' = <<>> /\ val' = <<>>
       [] e.k = "end" -> e.status = "ok" /\ UNCHANGED vars
       [] e.k = "oset" -> Set(e.obj, e.name, e.cls, e.r)
       [] e.k = "oget" -> Get(e.obj, e.name, e.r, e.same)
       [] e.k = "oend" -> EndOK(e.obj) /\ UNCHANGED vars
       \* what the socket was given is what a new dialer / listener / context starts with
       \* (an endpoint that does not have the option at all - inproc has no receive limit - says so)
       [] e.k = "oinh" -> e.r \in {"ok", "ErrBadOption"} /\ (e.r = "ok" => e.same = TRUE) /\ (e.kind = "ctx" => e.r = "ok") /\ UNCHANGED vars
       \* unsupported operations fail with the designated error
       [] e.k = "oop" -> e.r = e.want /\ UNCHANGED vars
       \* ... and without side effect: a refused Device started nothing
       [] e.k = "oopside" -> e.started = 0 /\ UNCHANGED vars
       \* a pipe describes the actual connection and the endpoint that created it
       [] e.k = "opipe" -> e.local /\ e.remote /\ e.dialer /\ e.listener /\ e.addr /\ e.idok /\ UNCHANGED vars
       [] e.k = "opipepid" -> e.ok = TRUE /\ UNCHANGED vars
       \* the TLS state a pipe reports is that of the connection it is: negotiated, with a protocol version and a cipher
       \* suite - on the dialing and on the accepting side, and the same on both
       [] e.k = "opipetls" -> e.ok = TRUE /\ e.complete = TRUE /\ e.ver # 0 /\ e.cs # 0 /\ UNCHANGED vars
       [] e.k = "opipetlsx" -> e.same = TRUE /\ UNCHANGED vars
       \* the accepting side's view of the connection is the dialing side's the other way round, on the bound port
       [] e.k = "opipex" -> e.ok = TRUE /\ UNCHANGED vars
       \* ... and the process at its far end (its process, user and group id, each its own)
       [] e.k = "opipecred" -> e.pid = TRUE /\ e.uid = TRUE /\ e.gid = TRUE /\ UNCHANGED vars
       \* changing a queue length never disconnects a peer
       [] e.k = "oresize" -> e.detached = FALSE /\ e.alive = TRUE /\ UNCHANGED vars
       [] OTHER -> FALSE
TSpec == TInit /\ [][Line]_<<vars, l>>
TConstraint == AcceptedValid /\ NoValueIfUnsupported /\ Progress(l)
=============================================================================
