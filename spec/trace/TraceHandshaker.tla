--------------------------- MODULE TraceHandshaker ---------------------------
(* The real connHandshaker driven over net.Pipe connections in a bubble,      *)
(* against Handshaker.tla.  The worker's filing of an outcome is not logged:   *)
(* it is an internal step, enabled by what the peer did; quiescence lines      *)
(* require that no such step is left, snapshots compare which connections are  *)
(* still open.                                                                 *)
EXTENDS Handshaker, TraceLib
VARIABLES l,
          peer,     \* Conn -> "silent" | "good" | "bad" | "drop": what the far end has done so far
          waiting   \* number of Wait calls in progress
e == Log[l]
allvars == <<vars, l, peer, waiting>>
TConn == {"c1", "c2", "c3", "c4"}
TInit == InitRegs /\ l = 2 /\ Log[1].k = "reset" /\ Init /\ peer = [c \in Conn |-> "silent"] /\ waiting = 0

\* the worker can file: the peer answered (well: success needs the connection still open), or the connection is gone
CanFinish(c, ok) == /\ st[c] = "working"
                    /\ IF ok THEN peer[c] = "good" /\ open[c] ELSE (peer[c] \in {"bad", "drop"} \/ ~open[c])
CanInternal == \/ \E c \in Conn, ok \in BOOLEAN : CanFinish(c, ok)
               \/ waiting > 0 /\ (closed \/ doneq # <<>>)

Line ==
  /\ l <= NLines /\ l' = l + 1
  /\ CASE e.k = "reset" -> /\ st' = [c \in Conn |-> "new"] /\ open' = [c \in Conn |-> TRUE] /\ doneq' = <<>> /\ closed' = FALSE /\ got' = <<>>
                           /\ peer' = [c \in Conn |-> "silent"] /\ waiting' = 0
       [] e.k = "end" -> e.status = "ok" /\ UNCHANGED <<vars, peer, waiting>>
       [] e.k = "hstart" -> Start(e.c) /\ UNCHANGED <<peer, waiting>>
       [] e.k = "hpeer" -> /\ peer' = [peer EXCEPT ![e.c] = IF @ = "silent" THEN e.what ELSE @]
                           /\ open' = IF e.what = "drop" THEN [open EXCEPT ![e.c] = FALSE] ELSE open
                           /\ UNCHANGED <<st, doneq, closed, got, waiting>>
       [] e.k = "hwaitcall" -> waiting' = waiting + 1 /\ UNCHANGED <<vars, peer>>
       [] e.k = "hwait" -> /\ waiting > 0 /\ waiting' = waiting - 1 /\ UNCHANGED peer
                           /\ IF e.r = "ErrClosed" /\ closed THEN WaitClosed
                              ELSE /\ WaitItem
                                   /\ LET it == Head(doneq) IN
                                        IF it.ok THEN e.r = "ok" /\ e.c = it.c ELSE e.r # "ok" /\ e.c = "none"
       [] e.k = "hclose" -> (IF closed THEN UNCHANGED vars ELSE Close) /\ UNCHANGED <<peer, waiting>>
       [] e.k = "q" -> ~CanInternal /\ UNCHANGED <<vars, peer, waiting>>
       \* which connections are still open, seen from their far ends
       [] e.k = "hsnap" -> (\A c \in Conn : st[c] # "new" => e[c] = open[c]) /\ UNCHANGED <<vars, peer, waiting>>
       [] OTHER -> FALSE
Silent == /\ l <= NLines /\ UNCHANGED <<l, peer, waiting>>
          /\ \E c \in Conn, ok \in BOOLEAN : CanFinish(c, ok) /\ Finish(c, ok)
TNext == Line \/ Silent
TSpec == TInit /\ [][TNext]_allvars
TConstraint == HandedOnce /\ HandedAreOpenOnes /\ NothingRemains /\ ClosedStaysClosed /\ Progress(l)
=============================================================================
