---- MODULE TraceRaw_xsurveyor ----
EXTENDS TraceRaw
====
