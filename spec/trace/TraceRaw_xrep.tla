---- MODULE TraceRaw_xrep ----
EXTENDS TraceRaw
====
