---- MODULE TraceRaw_xstar ----
EXTENDS TraceRaw
====
