-------------------------------- MODULE Hops --------------------------------
(***************************************************************************)
(* The hop-count / TTL logic of the seven receive loops of mangos,          *)
(* transcribed statement by statement, and the property they must meet     *)
(* (C09): a message that has crossed k connections is delivered iff        *)
(* k <= TTL (PAIR1 counts forwarders, permitting one more), identically in *)
(* cooked and raw mode; garbage (short body, no terminating word) is never *)
(* delivered; the TTL option accepts exactly 1..255 and defaults to 8.     *)
(*                                                                         *)
(* Backtrace protocols (REP, XREP, RESPONDENT, XRESPONDENT): the body      *)
(* starts with 32-bit words; the last one of the routing header has the    *)
(* top bit set.  A message abstracts to (n, avail): n = position of the    *)
(* first word with the top bit (0 = none), avail = number of complete      *)
(* words in the body.  A message that crossed k connections has n = k.     *)
(* Hop-byte protocols (XPAIR1/PAIR1, XSTAR/STAR): the first word is        *)
(* 00 00 00 h; a message that crossed k connections has h = k - 1.         *)
(***************************************************************************)
EXTENDS Integers, Sequences

\* ------------------------------------------------------------------------
\* protocol/rep/rep.go and protocol/respondent/respondent.go, pipe.receiver:
\*     hops := 0
\*     for { if hops >= ttl {drop}; hops++; if len(body) < 4 {drop};
\*           move word; if top bit {break} }
\* Returns the number of words moved to the header, or 0 if dropped.
RECURSIVE CookedLoop(_, _, _, _)
CookedLoop(hops, n, avail, ttl) ==
  IF hops >= ttl THEN 0
  ELSE LET h2 == hops + 1 IN
       IF avail < h2 THEN 0                 \* len(m.Body) < 4
       ELSE IF n = h2 THEN h2               \* this word has the top bit: break
       ELSE CookedLoop(h2, n, avail, ttl)
RepLoop(n, avail, ttl) == CookedLoop(0, n, avail, ttl)
RespondentLoop(n, avail, ttl) == CookedLoop(0, n, avail, ttl)

\* protocol/xrep/xrep.go, pipe.receiver:
\*     hops := 1; finish := false
\*     for !finish { if hops > ttl {drop}; hops++; if len(body) < 4 {drop};
\*                   if top bit {finish = true}; move word }
RECURSIVE XRepLoopR(_, _, _, _, _)
XRepLoopR(hops, moved, n, avail, ttl) ==
  IF hops > ttl THEN 0
  ELSE IF avail < moved + 1 THEN 0
  ELSE IF n = moved + 1 THEN moved + 1
  ELSE XRepLoopR(hops + 1, moved + 1, n, avail, ttl)
XRepLoop(n, avail, ttl) == XRepLoopR(1, 0, n, avail, ttl)

\* protocol/xrespondent/xrespondent.go, pipe.receiver: as xrep, after an
\* initial `if len(m.Body) < 4 {drop}`:
\*     hops := 1 ... if hops > ttl {drop} ...
RECURSIVE XRespLoopR(_, _, _, _, _)
XRespLoopR(hops, moved, n, avail, ttl) ==
  IF hops > ttl THEN 0
  ELSE IF avail < moved + 1 THEN 0
  ELSE IF n = moved + 1 THEN moved + 1
  ELSE XRespLoopR(hops + 1, moved + 1, n, avail, ttl)
XRespondentLoop(n, avail, ttl) == IF avail < 1 THEN 0 ELSE XRespLoopR(1, 0, n, avail, ttl)

\* protocol/xpair1/xpair1.go, pipe.receiver (hop word h, any 32-bit value):
\*     if hops >= 255 || hops > ttl {drop}; header byte 3 := hops + 1
XPair1Accept(h, ttl) == ~(h >= 255 \/ h > ttl)
\* protocol/xstar/xstar.go, pipe.receiver (first three bytes must be 0, hop byte h):
\*     if int(body[3]) >= ttl {drop}; header[3]++
XStarAccept(h, ttl) == ~(h >= ttl)

\* ------------------------------------------------------------------------
\* What the property demands
BacktraceDelivered(k, avail, ttl) == k >= 1 /\ k <= avail /\ k <= ttl
Loops == {"rep", "xrep", "respondent", "xrespondent"}
Loop(x, n, avail, ttl) ==
  CASE x = "rep" -> RepLoop(n, avail, ttl)
    [] x = "respondent" -> RespondentLoop(n, avail, ttl)
    [] x = "xrep" -> XRepLoop(n, avail, ttl)
    [] x = "xrespondent" -> XRespondentLoop(n, avail, ttl)

\* HopExact for one backtrace loop: for every TTL, every position n of the
\* terminating word (0 = none) and the interesting numbers of available
\* words (none, one short of n, exactly n, plenty)
Avails(n, ttl) == {0, IF n > 0 THEN n - 1 ELSE 0, n, ttl + 3}
HopExactLoop(x, ttls) ==
  \A ttl \in ttls : \A n \in 0..(ttl + 2) : \A avail \in Avails(n, ttl) :
     LET r == Loop(x, n, avail, ttl) IN
     /\ (r # 0) = BacktraceDelivered(n, avail, ttl)
     /\ (r # 0) => r = n                       \* exactly the routing header is moved
HopExactBacktrace(ttls) == \A x \in Loops : HopExactLoop(x, ttls)

\* hop-byte protocols: k connections crossed <=> h = k - 1
HopExactStar(ttls) == \A ttl \in ttls : \A k \in 1..(ttl + 2) : (k - 1 <= 255) => (XStarAccept(k - 1, ttl) = (k <= ttl))
HopExactPair1(ttls) == \A ttl \in ttls : \A k \in 1..(ttl + 3) : XPair1Accept(k - 1, ttl) = (k <= ttl + 1 /\ k - 1 < 255)

TTLRange == 1..255
TTLAccepted(v) == v \in TTLRange
DefaultTTL == 8
=============================================================================
