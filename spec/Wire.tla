-------------------------------- MODULE Wire --------------------------------
(***************************************************************************)
(* The SP stream mapping used by mangos on TCP, TLS+TCP and IPC            *)
(* (transport/conn.go, connipc_posix.go), as an independent codec:         *)
(*                                                                         *)
(*   handshake header   00 'S' 'P' 00 <protocol number, big endian> 00 00  *)
(*   message            8-byte big-endian length, then exactly that many   *)
(*                      bytes (protocol header, then body); on IPC the     *)
(*                      length is preceded by one byte 0x01                *)
(*                                                                         *)
(* and the reader as a state machine over the byte stream that delivers a  *)
(* message only when it is complete, drops the connection as soon as an    *)
(* announced length is negative or above the receive limit (without        *)
(* consuming anything further), and never looks at more than it needs.     *)
(*                                                                         *)
(* Bytes are 0..255; lengths are handled as 8 separate bytes so that the   *)
(* 64-bit field never has to be a TLC integer.                             *)
(* Serves C15, C16, C01.                                                   *)
(***************************************************************************)
EXTENDS Integers, Sequences, TLC

\* ------------------------------------------------------------------------
\* writer
Header(proto) == <<0, 83, 80, 0, proto \div 256, proto % 256, 0, 0>>

\* big-endian 8-byte length of n (n < 2^31)
BE8(n) == <<0, 0, 0, 0, (n \div 16777216) % 256, (n \div 65536) % 256, (n \div 256) % 256, n % 256>>
Frame(m) == BE8(Len(m)) \o m
IpcFrame(m) == <<1>> \o Frame(m)
Encode(m, ipc) == IF ipc THEN IpcFrame(m) ELSE Frame(m)

RECURSIVE EncodeAll(_, _)
EncodeAll(ms, ipc) == IF ms = <<>> THEN <<>> ELSE Encode(Head(ms), ipc) \o EncodeAll(Tail(ms), ipc)

\* ------------------------------------------------------------------------
\* The SP protocol numbers (sp-*-mapping RFCs; STAR is mangos' own, 100 * 16) and who talks to whom.  This is
\* the independent table: nothing the library defines is consulted when a trace is validated against it.
SPNumber == [pair |-> 16, pair1 |-> 17, pub |-> 32, sub |-> 33, req |-> 48, rep |-> 49, push |-> 80, pull |-> 81,
             surveyor |-> 98, respondent |-> 99, bus |-> 112, star |-> 1600]
SPPartner == [pair |-> "pair", pair1 |-> "pair1", pub |-> "sub", sub |-> "pub", req |-> "rep", rep |-> "req",
              push |-> "pull", pull |-> "push", surveyor |-> "respondent", respondent |-> "surveyor",
              bus |-> "bus", star |-> "star"]
SPNames == DOMAIN SPNumber
\* numbers are distinct, partnership is symmetric, and a number's low nibble tells the role within its family
SPTableOK ==
  /\ \A a, b \in SPNames : a # b => SPNumber[a] # SPNumber[b]
  /\ \A a \in SPNames : SPPartner[a] \in SPNames /\ SPPartner[SPPartner[a]] = a
  /\ \A a \in SPNames : SPNumber[a] \div 16 = SPNumber[SPPartner[a]] \div 16

\* ------------------------------------------------------------------------
\* handshake: what the reader accepts
HeaderOK(h, peer) ==
  /\ Len(h) = 8
  /\ h[1] = 0 /\ h[2] = 83 /\ h[3] = 80        \* 00 'S' 'P'
  /\ h[4] = 0                                  \* version
  /\ h[5] * 256 + h[6] = peer                  \* the expected peer protocol
  /\ h[7] = 0 /\ h[8] = 0                      \* reserved
\* the error the code reports, in the order it checks
HeaderVerdict(h, peer) ==
  IF Len(h) < 8 THEN "short"
  ELSE IF h[1] # 0 \/ h[2] # 83 \/ h[3] # 80 \/ h[7] # 0 \/ h[8] # 0 THEN "ErrBadHeader"
  ELSE IF h[4] # 0 THEN "ErrBadVersion"
  ELSE IF h[5] * 256 + h[6] # peer THEN "ErrBadProto"
  ELSE "ok"

\* ------------------------------------------------------------------------
\* reader over a complete byte string: result of parsing `bytes` with receive
\* limit maxrx (0 = none).  Returns [msgs, status, used]:
\*   msgs   - the messages delivered, in order
\*   status - "more" (clean: waiting for the next frame), "partial" (inside a
\*            frame: nothing of it is delivered), "toolong" (connection dropped)
\*   used   - number of bytes consumed when the verdict was reached
\* A length field is the 8 bytes big endian; it is "huge" when any of the
\* first four bytes is non-zero (>= 2^32, or negative when the top bit is set).
LenHuge(b) == b[1] # 0 \/ b[2] # 0 \/ b[3] # 0 \/ b[4] # 0
LenOf(b) == ((b[5] * 256 + b[6]) * 256 + b[7]) * 256 + b[8]
\* the 32-bit value would not fit a TLC integer when b[5] >= 128; such lengths
\* are above every limit used here (and above 2^31 - 1)
LenTooBig(b, maxrx) ==
  \/ LenHuge(b) /\ (b[1] >= 128 \/ maxrx > 0)        \* negative, or beyond any limit
  \/ maxrx > 0 /\ (b[5] >= 128 \/ LenOf(b) > maxrx)

RECURSIVE Parse(_, _, _, _, _)
Parse(bytes, off, maxrx, ipc, acc) ==
  LET pre == IF ipc THEN 1 ELSE 0
      rest == Len(bytes) - off IN
  IF rest = 0 THEN [msgs |-> acc, status |-> "more", used |-> off]
  ELSE IF rest < pre + 8 THEN [msgs |-> acc, status |-> "partial", used |-> off]
  ELSE LET lb == SubSeq(bytes, off + pre + 1, off + pre + 8) IN
       IF LenTooBig(lb, maxrx) THEN [msgs |-> acc, status |-> "toolong", used |-> off + pre + 8]
       ELSE IF LenHuge(lb) \/ lb[5] >= 128 THEN [msgs |-> acc, status |-> "partial", used |-> off]   \* no limit, body cannot be complete here
       ELSE LET n == LenOf(lb) IN
            IF rest < pre + 8 + n THEN [msgs |-> acc, status |-> "partial", used |-> off]
            ELSE Parse(bytes, off + pre + 8 + n, maxrx, ipc,
                       Append(acc, SubSeq(bytes, off + pre + 9, off + pre + 8 + n)))
ParseAll(bytes, maxrx, ipc) == Parse(bytes, 0, maxrx, ipc, <<>>)

\* ------------------------------------------------------------------------
\* Properties of the codec itself (evaluated by TLC over small alphabets)

\* round trip: what the writer emits parses back to exactly the messages sent,
\* whole, in order, nothing left over - provided every message is within the limit
RoundTrip(ms, maxrx, ipc) ==
  LET r == ParseAll(EncodeAll(ms, ipc), maxrx, ipc) IN
  (\A i \in 1..Len(ms) : maxrx = 0 \/ Len(ms[i]) <= maxrx) => (r.msgs = ms /\ r.status = "more")

\* a message of exactly the limit is delivered, one byte more drops the connection
\* at once: only its length field is consumed
LimitExact(m, ipc) ==
  /\ ParseAll(Encode(m, ipc), Len(m), ipc).msgs = <<m>> \/ Len(m) = 0
  /\ Len(m) >= 2 => LET r == ParseAll(Encode(m, ipc), Len(m) - 1, ipc) IN     \* (a limit of 0 means none)
                      r.status = "toolong" /\ r.msgs = <<>> /\ r.used = (IF ipc THEN 9 ELSE 8)

\* every single-byte deviation of the handshake header is rejected
Deviate(h, i, v) == [h EXCEPT ![i] = v]
HeaderStrict(proto) ==
  /\ HeaderOK(Header(proto), proto)
  /\ \A i \in 1..8 : \A v \in {0, 1, 83, 80, 255, (Header(proto)[i] + 1) % 256} :
       v # Header(proto)[i] => ~HeaderOK(Deviate(Header(proto), i, v), proto)

\* WebSocket mapping: the subprotocol string
WsSubprotocol(peerName) == peerName \o ".sp.nanomsg.org"
=============================================================================
