------------------------------ MODULE Surveyor ------------------------------
(***************************************************************************)
(* protocol/surveyor of mangos: the cooked SURVEYOR socket with contexts.  *)
(*                                                                         *)
(* Actions (one per lock region / channel operation):                      *)
(*   SurveyCall     context.SendMsg: register the new survey, make it       *)
(*                  current, schedule the *asynchronous* cancel of the      *)
(*                  previous one (go oldsurv.cancel), broadcast to a        *)
(*                  snapshot of the pipes (a full pipe queue drops)         *)
(*   CancelRun      survey.cancel (once): from the expiry timer, from a new *)
(*                  survey, from close                                      *)
(*   Response       pipe.receiver: route by id to the registered survey's   *)
(*                  queue (drop if none or full)                            *)
(*   RecvCall / RecvTake / RecvEnd   context.RecvMsg                        *)
(*   SenderTake / XmitStart / XmitEnd   pipe.sender                         *)
(*   AddPipe / RemovePipe, CtxClose / SockClose                             *)
(*                                                                         *)
(* Survey ids are 1..MaxSurvey (the low bits of the real 0x80000000|n).    *)
(* Serves C07, C10, C18.                                                   *)
(***************************************************************************)
EXTENDS Integers, Sequences, FiniteSets, TLC

CONSTANTS Ctx, Pipe, Thread, NULL, Timed, MaxSurvey,
          InitOpt,      \* [Ctx -> [survExp, recvExp, qlen : Nat]]
          InitSQ,       \* per-pipe send queue length
          RespSet       \* model checking: responses the environment injects

VARIABLES
  opt, sqCap, now,
  sclosed, pipes, pclosed, sendQ, txHold,
  cclosed, cur,          \* cur[c]: id of the context's current survey, 0 if none
  surveys,               \* function from registered ids to [ctx, q, cap, due]
  cancelled,             \* ids whose cancel has run: id -> error
  async,                 \* pending cancels <<id, err>> (go surv.cancel(err)), not yet run
  nextId, call,
  \* history
  sentTo,                \* [id -> set of pipes the survey was queued for]
  delivered              \* seq of <<ctx, response, survey id the Recv was bound to>>

vars == <<opt, sqCap, now, sclosed, pipes, pclosed, sendQ, txHold, cclosed, cur, surveys, cancelled,
          async, nextId, call, sentTo, delivered>>

Init ==
  /\ opt = InitOpt /\ sqCap = InitSQ /\ now = 0
  /\ sclosed = FALSE /\ pipes = {} /\ pclosed = [p \in Pipe |-> FALSE]
  /\ sendQ = [p \in Pipe |-> <<>>] /\ txHold = [p \in Pipe |-> NULL]
  /\ cclosed = [c \in Ctx |-> FALSE] /\ cur = [c \in Ctx |-> 0]
  /\ surveys = <<>> /\ cancelled = <<>> /\ async = {}
  /\ nextId = 0 /\ call = [t \in Thread |-> NULL]
  /\ sentTo = <<>> /\ delivered = <<>>

Registered == DOMAIN surveys
MapPut(f, k, v) == [x \in (DOMAIN f) \cup {k} |-> IF x = k THEN v ELSE f[x]]
MapDel(f, k) == [x \in (DOMAIN f) \ {k} |-> f[x]]
Due(d) == IF Timed THEN now + d ELSE 0

-----------------------------------------------------------------------------
\* context.SendMsg.  tag identifies the survey body.
SurveyCall(t, c, tag, res) ==
  /\ call[t] = NULL
  /\ nextId < MaxSurvey
  /\ LET id == nextId + 1 IN
     /\ nextId' = id
     /\ IF sclosed \/ cclosed[c]
          THEN res = "ErrClosed" /\ UNCHANGED <<cur, surveys, async, sendQ, txHold, sentTo>>
          ELSE /\ res = "ok"
               /\ surveys' = MapPut(surveys, id, [ctx |-> c, q |-> <<>>, cap |-> opt[c].qlen,
                                                  due |-> IF opt[c].survExp > 0 THEN Due(opt[c].survExp) ELSE -1])
               /\ cur' = [cur EXCEPT ![c] = id]
               /\ async' = IF cur[c] # 0 THEN async \cup {<<cur[c], "ErrCanceled">>} ELSE async
               \* best-effort broadcast to every attached pipe: queued if there is room; with
               \* WriteQLen 0 handed to the pipe's sender goroutine if that one is idle
               /\ LET takes == {p \in pipes : IF sqCap > 0 THEN Len(sendQ[p]) < sqCap ELSE txHold[p] = NULL} IN
                  /\ sendQ' = [p \in Pipe |-> IF p \in takes /\ sqCap > 0
                                                THEN Append(sendQ[p], [id |-> id, tag |-> tag]) ELSE sendQ[p]]
                  /\ txHold' = [p \in Pipe |-> IF p \in takes /\ sqCap = 0
                                                 THEN [m |-> [id |-> id, tag |-> tag], st |-> "go"] ELSE txHold[p]]
                  /\ sentTo' = MapPut(sentTo, id, takes)
  /\ UNCHANGED <<opt, sqCap, now, sclosed, pipes, pclosed, cclosed, cancelled, call, delivered>>

\* survey.cancel(err), first (only effective) run
CancelEff(id, err) ==
  /\ surveys' = MapDel(surveys, id)
  /\ cur' = [c \in Ctx |-> IF cur[c] = id THEN 0 ELSE cur[c]]
  /\ cancelled' = MapPut(cancelled, id, err)

\* the asynchronous cancel started by a new survey or by close
CancelRun(id, err) ==
  /\ <<id, err>> \in async
  /\ async' = async \ {<<id, err>>}
  /\ IF id \in Registered THEN CancelEff(id, err) ELSE UNCHANGED <<surveys, cur, cancelled>>
  /\ UNCHANGED <<opt, sqCap, now, sclosed, pipes, pclosed, sendQ, txHold, cclosed, nextId, call, sentTo, delivered>>

\* the expiry timer of a registered survey fires: cancel(ErrProtoState)
MinDue == CHOOSE m \in {surveys[i].due : i \in {j \in Registered : surveys[j].due >= 0}} :
            \A i \in Registered : surveys[i].due >= 0 => m <= surveys[i].due
Expire(id) ==
  /\ id \in Registered /\ surveys[id].due >= 0
  /\ Timed => surveys[id].due = MinDue
  /\ now' = IF Timed /\ surveys[id].due > now THEN surveys[id].due ELSE now
  /\ CancelEff(id, "ErrProtoState")
  /\ UNCHANGED <<opt, sqCap, sclosed, pipes, pclosed, sendQ, txHold, cclosed, async, nextId, call, sentTo, delivered>>

\* pipe.receiver: a response whose first word is [id, hi]
Response(p, r) ==
  /\ p \in pipes \/ pclosed[p]
  /\ IF r.hi /\ r.id \in Registered /\
        (\/ Len(surveys[r.id].q) < surveys[r.id].cap
         \* ReadQLen 0: a rendez-vous - taken only if a Recv bound to this survey is waiting
         \/ surveys[r.id].cap = 0 /\ surveys[r.id].q = <<>> /\ \E t \in Thread : call[t] # NULL /\ call[t].sid = r.id)
       THEN surveys' = [surveys EXCEPT ![r.id].q = Append(@, r)]
       ELSE UNCHANGED surveys
  /\ UNCHANGED <<opt, sqCap, now, sclosed, pipes, pclosed, sendQ, txHold, cclosed, cur, cancelled, async,
                 nextId, call, sentTo, delivered>>

-----------------------------------------------------------------------------
\* context.RecvMsg: binds to the survey that is current at the call
RecvCall(t, c, res) ==
  /\ call[t] = NULL
  /\ IF sclosed THEN res = "ErrClosed" /\ UNCHANGED call
     ELSE IF cur[c] = 0 THEN res = "ErrProtoState" /\ UNCHANGED call
     ELSE /\ res = "wait"
          /\ call' = [call EXCEPT ![t] = [c |-> c, sid |-> cur[c],
                                           due |-> IF opt[c].recvExp > 0 THEN Due(opt[c].recvExp) ELSE -1]]
  /\ UNCHANGED <<opt, sqCap, now, sclosed, pipes, pclosed, sendQ, txHold, cclosed, cur, surveys, cancelled,
                 async, nextId, sentTo, delivered>>

\* a response is taken from the bound survey's queue
RecvTake(t, r) ==
  /\ call[t] # NULL
  /\ LET sid == call[t].sid IN
     /\ sid \in Registered /\ surveys[sid].q # <<>> /\ r = Head(surveys[sid].q)
     /\ surveys' = [surveys EXCEPT ![sid].q = Tail(@)]
     /\ delivered' = Append(delivered, <<call[t].c, r, sid>>)
  /\ call' = [call EXCEPT ![t] = NULL]
  /\ UNCHANGED <<opt, sqCap, now, sclosed, pipes, pclosed, sendQ, txHold, cclosed, cur, cancelled, async,
                 nextId, sentTo>>

\* the waiting Recv ends without a response: its survey was cancelled (the queue was closed:
\* the error recorded by cancel), its context closed, or its receive deadline passed
RecvEnd(t, res) ==
  /\ call[t] # NULL
  /\ \/ cclosed[call[t].c] /\ res = "ErrClosed"
     \/ call[t].sid \in DOMAIN cancelled /\ res = cancelled[call[t].sid]
     \/ call[t].due >= 0 /\ (Timed => now >= call[t].due) /\ res = "ErrRecvTimeout"
  /\ call' = [call EXCEPT ![t] = NULL]
  /\ UNCHANGED <<opt, sqCap, now, sclosed, pipes, pclosed, sendQ, txHold, cclosed, cur, surveys, cancelled,
                 async, nextId, sentTo, delivered>>

-----------------------------------------------------------------------------
SenderTake(p) ==
  /\ sendQ[p] # <<>> /\ txHold[p] = NULL /\ ~pclosed[p]
  /\ txHold' = [txHold EXCEPT ![p] = [m |-> Head(sendQ[p]), st |-> "go"]]
  /\ sendQ' = [sendQ EXCEPT ![p] = Tail(@)]
  /\ UNCHANGED <<opt, sqCap, now, sclosed, pipes, pclosed, cclosed, cur, surveys, cancelled, async, nextId,
                 call, sentTo, delivered>>
XmitStart(p) ==
  /\ txHold[p] # NULL /\ txHold[p].st = "go"
  /\ txHold' = [txHold EXCEPT ![p].st = "tx"]
  /\ UNCHANGED <<opt, sqCap, now, sclosed, pipes, pclosed, sendQ, cclosed, cur, surveys, cancelled, async,
                 nextId, call, sentTo, delivered>>
XmitEnd(p) ==
  /\ txHold[p] # NULL /\ txHold[p].st = "tx"
  /\ txHold' = [txHold EXCEPT ![p] = NULL]
  /\ UNCHANGED <<opt, sqCap, now, sclosed, pipes, pclosed, sendQ, cclosed, cur, surveys, cancelled, async,
                 nextId, call, sentTo, delivered>>

AddPipe(p, ok) ==
  /\ p \notin pipes /\ ~pclosed[p]
  /\ IF sclosed THEN ok = FALSE /\ UNCHANGED pipes ELSE ok = TRUE /\ pipes' = pipes \cup {p}
  /\ UNCHANGED <<opt, sqCap, now, sclosed, pclosed, sendQ, txHold, cclosed, cur, surveys, cancelled, async,
                 nextId, call, sentTo, delivered>>
RemovePipe(p) ==
  /\ p \in pipes /\ pipes' = pipes \ {p} /\ pclosed' = [pclosed EXCEPT ![p] = TRUE]
  /\ UNCHANGED <<opt, sqCap, now, sclosed, sendQ, txHold, cclosed, cur, surveys, cancelled, async,
                 nextId, call, sentTo, delivered>>

\* context.close(): closed, closeQ closed, current survey cancelled asynchronously
CloseCtxs(C) ==
  /\ cclosed' = [c \in Ctx |-> cclosed[c] \/ c \in C]
  /\ cur' = [c \in Ctx |-> IF c \in C THEN 0 ELSE cur[c]]
  /\ async' = async \cup {<<cur[c], "ErrClosed">> : c \in {x \in C : cur[x] # 0}}
CtxClose(c, res) ==
  /\ IF cclosed[c] THEN res = "ErrClosed" /\ UNCHANGED <<cclosed, cur, async>>
     ELSE res = "ok" /\ CloseCtxs({c})
  /\ UNCHANGED <<opt, sqCap, now, sclosed, pipes, pclosed, sendQ, txHold, surveys, cancelled, nextId, call,
                 sentTo, delivered>>
SockClose(res) ==
  /\ IF sclosed THEN res = "ErrClosed" /\ UNCHANGED <<sclosed, cclosed, cur, async>>
     ELSE res = "ok" /\ sclosed' = TRUE /\ CloseCtxs({c \in Ctx : ~cclosed[c]})
  /\ UNCHANGED <<opt, sqCap, now, pipes, pclosed, sendQ, txHold, surveys, cancelled, nextId, call, sentTo, delivered>>

-----------------------------------------------------------------------------
RecvReady(t) ==
  /\ call[t] # NULL
  /\ \/ cclosed[call[t].c]
     \/ call[t].sid \in DOMAIN cancelled
     \/ call[t].sid \in Registered /\ surveys[call[t].sid].q # <<>>
     \/ call[t].due >= 0 /\ now >= call[t].due
CanInternal ==
  \/ async # {}
  \/ \E t \in Thread : RecvReady(t)
  \/ \E p \in Pipe : \/ sendQ[p] # <<>> /\ txHold[p] = NULL /\ ~pclosed[p]
                     \/ txHold[p] # NULL /\ txHold[p].st = "go"

Next ==
  \/ \E t \in Thread, c \in Ctx :
       \/ \E r \in {"ok", "ErrClosed"} : SurveyCall(t, c, c, r)
       \/ \E r \in {"wait", "ErrClosed", "ErrProtoState"} : RecvCall(t, c, r)
  \/ \E x \in async : CancelRun(x[1], x[2])
  \/ \E id \in Registered : Expire(id)
  \/ \E p \in Pipe :
       \/ \E r \in RespSet : Response(p, r)
       \/ SenderTake(p) \/ XmitStart(p) \/ XmitEnd(p)
       \/ \E ok \in BOOLEAN : AddPipe(p, ok)
       \/ RemovePipe(p)
  \/ \E t \in Thread :
       \/ \E r \in RespSet : RecvTake(t, r)
       \/ \E r \in {"ErrClosed", "ErrProtoState", "ErrCanceled", "ErrRecvTimeout"} : RecvEnd(t, r)
  \/ \E c \in Ctx, r \in {"ok", "ErrClosed"} : CtxClose(c, r)
  \/ \E r \in {"ok", "ErrClosed"} : SockClose(r)
Spec == Init /\ [][Next]_vars

-----------------------------------------------------------------------------
\* C07: a survey's queue only ever holds responses carrying its id (with the request bit)
QueuesHoldOwn == \A id \in Registered : \A i \in 1..Len(surveys[id].q) : surveys[id].q[i].id = id /\ surveys[id].q[i].hi
\* a context's current survey is registered and its own
CurrentRegistered == \A c \in Ctx : cur[c] # 0 => (cur[c] \in Registered /\ surveys[cur[c]].ctx = c)
\* at most one registered survey per context besides those waiting for their asynchronous cancel
OneLivePerCtx ==
  \A c \in Ctx : Cardinality({id \in Registered : surveys[id].ctx = c /\ ~\E e \in async : e[1] = id}) <= 1
\* every delivered response answers the survey the Recv was bound to, which belonged to that context
DeliveredIsBound ==
  \A i \in 1..Len(delivered) : delivered[i][2].id = delivered[i][3] /\ delivered[i][2].hi
\* cancelled surveys are not registered any more
CancelledGone == \A id \in DOMAIN cancelled : id \notin Registered
\* queues respect their capacity
QueueBounded == \A id \in Registered : Len(surveys[id].q) <= IF surveys[id].cap = 0 THEN 1 ELSE surveys[id].cap
CloseUnblocks == \A t \in Thread : (call[t] # NULL /\ cclosed[call[t].c]) => RecvReady(t)
=============================================================================
