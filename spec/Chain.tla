-------------------------------- MODULE Chain --------------------------------
(***************************************************************************)
(* Cooked sockets joined through a chain (or a ring) of devices             *)
(* (device.go: two forwarder goroutines between two raw sockets), seen end  *)
(* to end and hop by hop (C09, with C05 / C02 / C06 for what arrives):      *)
(*                                                                         *)
(*   client(s) --1-- D1 --2-- D2 ... Dn --(n+1)-- server                   *)
(*                                                                         *)
(* Node 0 is the client side, node j (1..n) device j, node n+1 the server.  *)
(* Connection j joins node j-1 and node j.  A message that has crossed j   *)
(* connections carries j routing words on REQ/REP and SURVEY (the request  *)
(* id plus one pipe id per raw REP/RESPONDENT socket it came through), and  *)
(* the socket that receives it at node j delivers it iff j <= its TTL.      *)
(* Replies retrace the path, losing one word per connection, and are not    *)
(* subject to a hop limit.  One-way patterns (PUSH/PULL, PUB/SUB, PAIR)     *)
(* carry no routing words and have no hop limit; each sender's messages    *)
(* stay in order.                                                          *)
(*                                                                         *)
(* One action per transport send (one forwarder step = receive on one raw  *)
(* socket + send on the other), per application call on the cooked ends.   *)
(***************************************************************************)
EXTENDS Integers, Sequences, FiniteSets, TLC

CONSTANT NULL
VARIABLES cfg,    \* [pat, ndev, ttl (sequence: ttl[j] = TTL of the socket receiving on connection j), ring]
          out,    \* client -> payload of its current request / survey, or NULL        (two-way patterns)
          msgs,   \* messages in the system: [p, c, dir, at, seq]; at = node that holds it (for a ring: connections crossed)
          cur,    \* the request the server application holds (received, not yet answered), or NULL
          cnt,    \* <<c, dir>> -> number of messages that sender has sent (FIFO bookkeeping)
          nxt     \* <<c, dir>> -> sequence number the far end expects next from that sender (one-way patterns)
vars == <<cfg, out, msgs, cur, cnt, nxt>>

TwoWay == cfg.pat \in {"reqrep", "survey"}
Last == cfg.ndev + 1                       \* index of the last connection and of the server node

Get(f, k, d) == IF k \in DOMAIN f THEN f[k] ELSE d
Put(f, k, v) == [x \in DOMAIN f \cup {k} |-> IF x = k THEN v ELSE f[x]]

\* routing words a message carries while on connection j (two-way patterns; none otherwise)
Words(j) == IF TwoWay THEN j ELSE 0

\* does the socket receiving on connection j (crossed count k) take the message?
Accepts(j, k) == ~TwoWay \/ k <= cfg.ttl[j]

Init == /\ cfg = NULL /\ out = <<>> /\ msgs = {} /\ cur = NULL /\ cnt = <<>> /\ nxt = <<>>

\* ------------------------------------------------------------------------
\* application calls at the cooked ends
CSend(c, p) ==
  /\ msgs' = msgs \cup {[p |-> p, c |-> c, dir |-> "req", at |-> 0, seq |-> Get(cnt, <<c, "req">>, 0) + 1, q |-> NULL]}
  /\ cnt' = Put(cnt, <<c, "req">>, Get(cnt, <<c, "req">>, 0) + 1)
  /\ out' = IF TwoWay THEN Put(out, c, p) ELSE out
  /\ UNCHANGED <<cfg, cur, nxt>>

\* the server application receives p
SRecv(p) ==
  \E m \in msgs :
    /\ m.p = p /\ m.dir = "req" /\ m.at = Last /\ ~cfg.ring
    /\ ~TwoWay => m.seq = Get(nxt, <<m.c, "req">>, 0) + 1      \* each sender's messages in order, none skipped
    /\ msgs' = msgs \ {m}
    /\ cur' = IF TwoWay THEN m ELSE cur
    /\ nxt' = IF TwoWay THEN nxt ELSE Put(nxt, <<m.c, "req">>, m.seq)
    /\ UNCHANGED <<cfg, out, cnt>>

\* the server application sends: the answer rp to the request it holds (two-way), or a message of its own (PAIR)
SSend(rp) ==
  IF TwoWay THEN
    /\ cur # NULL
    /\ msgs' = msgs \cup {[p |-> rp, c |-> cur.c, dir |-> "rep", at |-> Last, seq |-> 0, q |-> cur.p]}
    /\ cur' = NULL
    /\ UNCHANGED <<cfg, out, cnt, nxt>>
  ELSE
    /\ cfg.pat = "pair"
    /\ msgs' = msgs \cup {[p |-> rp, c |-> "srv", dir |-> "rep", at |-> Last, seq |-> Get(cnt, <<"srv", "rep">>, 0) + 1, q |-> NULL]}
    /\ cnt' = Put(cnt, <<"srv", "rep">>, Get(cnt, <<"srv", "rep">>, 0) + 1)
    /\ UNCHANGED <<cfg, out, cur, nxt>>

\* client c receives rp: the answer to its CURRENT request and nothing else
CRecvOK(c, rp) ==
  \E m \in msgs :
    /\ m.p = rp /\ m.dir = "rep" /\ m.at = 0
    /\ IF TwoWay THEN m.c = c /\ Get(out, c, NULL) = m.q
       ELSE m.seq = Get(nxt, <<"srv", "rep">>, 0) + 1
    /\ msgs' = msgs \ {m}
    /\ out' = IF TwoWay /\ cfg.pat = "reqrep" THEN Put(out, c, NULL) ELSE out
    /\ nxt' = IF TwoWay THEN nxt ELSE Put(nxt, <<"srv", "rep">>, m.seq)
    /\ UNCHANGED <<cfg, cur, cnt>>

\* nothing for client c: legal only when nothing for it is anywhere on the way
Live(c) == \E m \in msgs : \/ m.dir = "req" /\ m.c = c /\ m.p = Get(out, c, NULL)
                           \/ m.dir = "rep" /\ m.c = c /\ m.q = Get(out, c, NULL)
CRecvNone(c) ==
  /\ TwoWay
  /\ ~Live(c) /\ (IF cur = NULL THEN TRUE ELSE (cur.c # c \/ cur.p # Get(out, c, NULL)))
  /\ out' = Put(out, c, NULL)
  /\ UNCHANGED <<cfg, msgs, cur, cnt, nxt>>

\* ------------------------------------------------------------------------
\* one transport send on connection j, toward the server (dir req) or toward the client (dir rep),
\* carrying nw routing words
FwdReq(p, j, nw) ==
  \E m \in msgs :
    /\ m.p = p /\ m.dir = "req"
    /\ IF cfg.ring THEN j = (m.at % cfg.ndev) + 1 ELSE m.at = j - 1 /\ j <= Last
    /\ nw = Words(m.at + 1)
    /\ msgs' = IF Accepts(j, m.at + 1) THEN (msgs \ {m}) \cup {[m EXCEPT !.at = m.at + 1]} ELSE msgs \ {m}
    /\ UNCHANGED <<cfg, out, cur, cnt, nxt>>
FwdRep(p, j, nw) ==
  \E m \in msgs :
    /\ m.p = p /\ m.dir = "rep" /\ m.at = j /\ j >= 1
    /\ nw = Words(j)
    /\ msgs' = (msgs \ {m}) \cup {[m EXCEPT !.at = j - 1]}
    /\ UNCHANGED <<cfg, out, cur, cnt, nxt>>

\* a stale answer (its request is no longer current) is discarded by the client socket
Discard ==
  \E m \in msgs : /\ TwoWay /\ m.dir = "rep" /\ m.at = 0 /\ Get(out, m.c, NULL) # m.q
                  /\ msgs' = msgs \ {m} /\ UNCHANGED <<cfg, out, cur, cnt, nxt>>

\* ------------------------------------------------------------------------
\* quiescence: everything that can move has moved (requests reached the server or were dropped at a hop
\* limit, answers reached their clients)
Stuck == \E m \in msgs : \/ m.dir = "req" /\ (cfg.ring \/ m.at < Last)
                         \/ m.dir = "rep" /\ m.at > 0
                         \/ TwoWay /\ m.dir = "rep" /\ m.at = 0 /\ Get(out, m.c, NULL) # m.q

\* ------------------------------------------------------------------------
\* what the property says, as state predicates
\* a request held by or waiting for the server crossed exactly ndev+1 connections, within every TTL on the way
TtlAt(k) == cfg.ttl[IF cfg.ring THEN ((k - 1) % cfg.ndev) + 1 ELSE k]       \* TTL of the socket that received crossing number k
HopLimit == cfg # NULL => \A m \in msgs : (m.dir = "req" /\ TwoWay) => \A k \in 1..m.at : k <= TtlAt(k)
\* in a ring nothing travels for ever: the number of connections crossed is bounded by the largest TTL
LoopsDie == cfg # NULL /\ cfg.ring => \A m \in msgs : m.at <= cfg.maxttl
=============================================================================
