------------------------------ MODULE Lifecycle ------------------------------
(***************************************************************************)
(* What Close must achieve on a real transport (C10), as a small state      *)
(* machine over the observable events of one scenario: sockets are open or  *)
(* closed; a call pending on a socket when it is closed must return a       *)
(* closed error promptly; a call started on a closed socket must fail with  *)
(* a closed error; closing a listener that failed to bind leaves the owner  *)
(* of the address alone; the peer notices; the address can be bound again;  *)
(* a connection still in its handshake is dropped; when every socket is     *)
(* closed no library goroutine remains.                                     *)
(***************************************************************************)
EXTENDS Integers, FiniteSets, Sequences

VARIABLES closed,     \* sockets that were closed
          pending,    \* number of calls blocked on socket "a"
          returned    \* number of those that returned after the close

vars == <<closed, pending, returned>>
Init == closed = {} /\ pending = 0 /\ returned = 0

Block(n) == pending' = pending + n /\ UNCHANGED <<closed, returned>>
Close(s, r) == r = "ok" /\ s \notin closed /\ closed' = closed \cup {s} /\ UNCHANGED <<pending, returned>>
\* a blocked call returns: only after its socket was closed, with a closed error, promptly
Return(s, r, prompt) ==
  /\ s \in closed /\ r = "ErrClosed" /\ prompt
  /\ returned < pending /\ returned' = returned + 1
  /\ UNCHANGED <<closed, pending>>
\* every blocked call has returned
AllUnblocked(n, want) == n = want /\ returned = pending /\ UNCHANGED vars
\* a call started after the close fails with a closed error
Later(s, r) == s \in closed /\ r = "ErrClosed" /\ UNCHANGED vars
Next == \E s \in {"a", "s"}, r \in {"ok", "ErrClosed"} : Close(s, r) \/ Return(s, r, TRUE) \/ Later(s, r)
Spec == Init /\ [][Next]_vars
=============================================================================
