------------------------------ MODULE RepLike ------------------------------
(***************************************************************************)
(* protocol/rep and protocol/respondent of mangos: the cooked replying     *)
(* sockets with contexts.  Kind = "rep" or "respondent" selects the        *)
(* differences (REP: unbuffered shared receive queue and a recvWait flag;  *)
(* RESPONDENT: buffered receive queue, RecvMsg forgets the pending         *)
(* backtrace on entry).                                                    *)
(*                                                                         *)
(* One action per lock region / channel rendez-vous:                       *)
(*   PeerReq     pipe.receiver: message taken from the transport, backtrace *)
(*               moved to the header (Hops.tla loop), then offered          *)
(*   Push        the receiver's channel send into a buffered recvQ          *)
(*   RecvCall / RecvTake / RecvFail   context.RecvMsg                       *)
(*   SendCall / SendDone              context.SendMsg (entry region, then   *)
(*               the select on closeQ / pipe closeQ / deadline / sendQ)     *)
(*   SenderTake / XmitEnd             pipe.sender                           *)
(*   AddPipe / RemovePipe, CtxClose / SockClose                             *)
(*                                                                         *)
(* Serves C05 (a reply goes only to the connection its request arrived on, *)
(* with exactly that routing header; per-context pairing; ErrProtoState    *)
(* without request), C10, C18.                                             *)
(***************************************************************************)
EXTENDS Integers, Sequences, FiniteSets, TLC, Hops

CONSTANTS
  Kind,          \* "rep" | "respondent"
  Ctx, Pipe, Thread, NULL,
  Timed,
  InitOpt,       \* [Ctx -> [sendExp, recvExp : Nat, bestEffort : BOOLEAN]]
  InitTTL, InitSQ, InitRQ,       \* TTL, per-pipe send queue length, receive queue length (RESPONDENT)
  ReqSet         \* requests the environment may inject (model checking): [n, avail, tag]

VARIABLES
  opt, ttl, sqCap, rqCap, now,
  sclosed, pipes, pclosed,
  rxHold,        \* [Pipe -> NULL | request]  the receiver goroutine's message in hand
  recvQ,         \* buffered receive queue (RESPONDENT)
  sendQ,         \* [Pipe -> seq of replies]
  txHold,        \* [Pipe -> NULL | reply]    the sender goroutine's message in hand (inside transport Send)
  cclosed, recvWait, backtrace, recvPipe,
  call,          \* [Thread -> NULL | record]
  timers,
  \* history
  arrived,       \* seq of requests the receivers accepted: [p, hdr, tag]
  taken,         \* [Ctx -> seq of requests returned by Recv on that context]
  sent           \* seq of replies handed to the transport: [p, hdr, tag, c]

vars == <<opt, ttl, sqCap, rqCap, now, sclosed, pipes, pclosed, rxHold, recvQ, sendQ, txHold,
          cclosed, recvWait, backtrace, recvPipe, call, timers, arrived, taken, sent>>

Init ==
  /\ opt = InitOpt /\ ttl = InitTTL /\ sqCap = InitSQ /\ rqCap = InitRQ /\ now = 0
  /\ sclosed = FALSE /\ pipes = {} /\ pclosed = [p \in Pipe |-> FALSE]
  /\ rxHold = [p \in Pipe |-> NULL] /\ recvQ = <<>>
  /\ sendQ = [p \in Pipe |-> <<>>] /\ txHold = [p \in Pipe |-> NULL]
  /\ cclosed = [c \in Ctx |-> FALSE] /\ recvWait = [c \in Ctx |-> FALSE]
  /\ backtrace = [c \in Ctx |-> NULL] /\ recvPipe = [c \in Ctx |-> NULL]
  /\ call = [t \in Thread |-> NULL]
  /\ timers = {}
  /\ arrived = <<>> /\ taken = [c \in Ctx |-> <<>>] /\ sent = <<>>

Due(d) == IF Timed THEN now + d ELSE 0
IsRep == Kind = "rep"
\* the receive queue is a rendez-vous: REP always, RESPONDENT with ReadQLen 0
Unbuf == IsRep \/ rqCap = 0

-----------------------------------------------------------------------------
(* pipe.receiver *)

\* A peer message with terminating word at position n and `avail` complete
\* words, carrying header words hdr (the first n words) and payload tag.
\* Dropped unless the TTL loop accepts it; otherwise held for the receive queue.
PeerReq(p, n, avail, hdr, tag) ==
  /\ p \in pipes /\ rxHold[p] = NULL
  /\ LET moved == IF IsRep THEN RepLoop(n, avail, ttl) ELSE RespondentLoop(n, avail, ttl) IN
     IF moved = 0
       THEN UNCHANGED <<rxHold, arrived>>
       ELSE /\ rxHold' = [rxHold EXCEPT ![p] = [p |-> p, hdr |-> hdr, tag |-> tag]]
            /\ arrived' = Append(arrived, [p |-> p, hdr |-> hdr, tag |-> tag])
  /\ UNCHANGED <<opt, ttl, sqCap, rqCap, now, sclosed, pipes, pclosed, recvQ, sendQ, txHold, cclosed, recvWait,
                 backtrace, recvPipe, call, timers, taken, sent>>

\* RESPONDENT: the receiver's send into the buffered queue succeeds
Push(p) ==
  /\ ~Unbuf /\ rxHold[p] # NULL /\ Len(recvQ) < rqCap /\ ~sclosed
  /\ recvQ' = Append(recvQ, rxHold[p])
  /\ rxHold' = [rxHold EXCEPT ![p] = NULL]
  /\ UNCHANGED <<opt, ttl, sqCap, rqCap, now, sclosed, pipes, pclosed, sendQ, txHold, cclosed, recvWait,
                 backtrace, recvPipe, call, timers, arrived, taken, sent>>

\* the receiver gives up its message: its pipe (REP) or the socket (RESPONDENT) closed
Abandon(p) ==
  /\ rxHold[p] # NULL
  /\ IF IsRep THEN pclosed[p] ELSE sclosed
  /\ rxHold' = [rxHold EXCEPT ![p] = NULL]
  /\ UNCHANGED <<opt, ttl, sqCap, rqCap, now, sclosed, pipes, pclosed, recvQ, sendQ, txHold, cclosed, recvWait,
                 backtrace, recvPipe, call, timers, arrived, taken, sent>>

-----------------------------------------------------------------------------
(* context.RecvMsg *)
RecvCall(t, c, res) ==
  /\ call[t] = NULL
  /\ IF cclosed[c] THEN res = "ErrClosed" /\ UNCHANGED <<recvWait, call, timers, backtrace, recvPipe>>
     ELSE IF IsRep /\ recvWait[c] THEN res = "ErrProtoState" /\ UNCHANGED <<recvWait, call, timers, backtrace, recvPipe>>
     ELSE /\ res = "wait"
          /\ recvWait' = IF IsRep THEN [recvWait EXCEPT ![c] = TRUE] ELSE recvWait
          \* RESPONDENT forgets what it was about to answer
          /\ backtrace' = IF IsRep THEN backtrace ELSE [backtrace EXCEPT ![c] = NULL]
          /\ recvPipe' = IF IsRep THEN recvPipe ELSE [recvPipe EXCEPT ![c] = NULL]
          /\ call' = [call EXCEPT ![t] = [op |-> "recv", c |-> c, due |-> IF opt[c].recvExp > 0 THEN Due(opt[c].recvExp) ELSE -1]]
          /\ UNCHANGED timers
  /\ UNCHANGED <<opt, ttl, sqCap, rqCap, now, sclosed, pipes, pclosed, rxHold, recvQ, sendQ, txHold, cclosed,
                 arrived, taken, sent>>

\* the waiting Recv gets request r: from a receiver in hand (REP) or the queue head (RESPONDENT)
RecvTake(t, r) ==
  /\ call[t] # NULL /\ call[t].op = "recv"
  /\ LET c == call[t].c IN
     /\ IF Unbuf
          THEN /\ \E p \in Pipe : rxHold[p] = r /\ rxHold' = [rxHold EXCEPT ![p] = NULL]
               /\ UNCHANGED recvQ
          ELSE /\ recvQ # <<>> /\ r = Head(recvQ)
               /\ recvQ' = Tail(recvQ)
               /\ UNCHANGED rxHold
     /\ backtrace' = [backtrace EXCEPT ![c] = r.hdr]
     /\ recvPipe' = [recvPipe EXCEPT ![c] = r.p]
     /\ recvWait' = [recvWait EXCEPT ![c] = FALSE]
     /\ taken' = [taken EXCEPT ![c] = Append(@, r)]
  /\ call' = [call EXCEPT ![t] = NULL]
  /\ UNCHANGED <<opt, ttl, sqCap, rqCap, now, sclosed, pipes, pclosed, sendQ, txHold, cclosed, timers, arrived, sent>>

\* the waiting Recv fails: context closed, or its deadline is reached
RecvFail(t, res) ==
  /\ call[t] # NULL /\ call[t].op = "recv"
  /\ LET c == call[t].c IN
     /\ \/ cclosed[c] /\ res = "ErrClosed"
        \/ call[t].due >= 0 /\ (Timed => now >= call[t].due) /\ res = "ErrRecvTimeout"
     /\ recvWait' = [recvWait EXCEPT ![c] = FALSE]
  /\ call' = [call EXCEPT ![t] = NULL]
  /\ UNCHANGED <<opt, ttl, sqCap, rqCap, now, sclosed, pipes, pclosed, rxHold, recvQ, sendQ, txHold, cclosed,
                 backtrace, recvPipe, timers, arrived, taken, sent>>

-----------------------------------------------------------------------------
(* context.SendMsg *)
SendCall(t, c, tag, res) ==
  /\ call[t] = NULL
  /\ IF sclosed \/ cclosed[c] THEN res = "ErrClosed" /\ UNCHANGED <<backtrace, recvPipe, call>>
     ELSE IF backtrace[c] = NULL THEN res = "ErrProtoState" /\ UNCHANGED <<backtrace, recvPipe, call>>
     ELSE /\ res = "wait"
          /\ call' = [call EXCEPT ![t] = [op |-> "send", c |-> c, p |-> recvPipe[c], hdr |-> backtrace[c], tag |-> tag,
                                           due |-> IF opt[c].bestEffort THEN -2
                                                   ELSE IF opt[c].sendExp > 0 THEN Due(opt[c].sendExp) ELSE -1]]
          /\ backtrace' = [backtrace EXCEPT ![c] = NULL]
          /\ recvPipe' = [recvPipe EXCEPT ![c] = NULL]
  /\ UNCHANGED <<opt, ttl, sqCap, rqCap, now, sclosed, pipes, pclosed, rxHold, recvQ, sendQ, txHold, cclosed, recvWait,
                 timers, arrived, taken, sent>>

\* the select in SendMsg: any ready case may be chosen
SendDone(t, res) ==
  /\ call[t] # NULL /\ call[t].op = "send"
  /\ LET c == call[t].c  p == call[t].p IN
     \/ /\ cclosed[c] /\ res = "ErrClosed" /\ UNCHANGED sendQ
     \/ /\ pclosed[p] /\ res = "ok" /\ UNCHANGED sendQ                     \* discarded: the requester has gone
     \/ /\ call[t].due = -2 /\ res = "ok" /\ UNCHANGED sendQ               \* best effort: dropped (Go's select may pick
                                                                           \* the closed time channel even when the queue has room)
     \/ /\ call[t].due >= 0 /\ (Timed => now >= call[t].due) /\ res = "ErrSendTimeout" /\ UNCHANGED sendQ
     \/ /\ Len(sendQ[p]) < sqCap /\ res = "ok"
        /\ sendQ' = [sendQ EXCEPT ![p] = Append(@, [p |-> p, hdr |-> call[t].hdr, tag |-> call[t].tag, c |-> c])]
  /\ call' = [call EXCEPT ![t] = NULL]
  /\ UNCHANGED <<opt, ttl, sqCap, rqCap, now, sclosed, pipes, pclosed, rxHold, recvQ, txHold, cclosed, recvWait,
                 backtrace, recvPipe, timers, arrived, taken, sent>>

\* WriteQLen 0: the per-pipe queue is a rendez-vous with the idle sender goroutine
SendHandOver(t) ==
  /\ call[t] # NULL /\ call[t].op = "send"
  /\ sqCap = 0
  /\ LET p == call[t].p  m == [p |-> p, hdr |-> call[t].hdr, tag |-> call[t].tag, c |-> call[t].c] IN
     /\ txHold[p] = NULL /\ sendQ[p] = <<>> /\ p \in pipes
     /\ txHold' = [txHold EXCEPT ![p] = [m |-> m, st |-> "go"]]
     /\ sent' = Append(sent, m)
  /\ call' = [call EXCEPT ![t] = NULL]
  /\ UNCHANGED <<opt, ttl, sqCap, rqCap, now, sclosed, pipes, pclosed, rxHold, recvQ, sendQ, cclosed, recvWait,
                 backtrace, recvPipe, timers, arrived, taken>>

-----------------------------------------------------------------------------
(* pipe.sender *)
SenderTake(p) ==
  /\ sendQ[p] # <<>> /\ txHold[p] = NULL /\ ~pclosed[p]
  /\ txHold' = [txHold EXCEPT ![p] = [m |-> Head(sendQ[p]), st |-> "go"]]
  /\ sendQ' = [sendQ EXCEPT ![p] = Tail(@)]
  /\ sent' = Append(sent, Head(sendQ[p]))
  /\ UNCHANGED <<opt, ttl, sqCap, rqCap, now, sclosed, pipes, pclosed, rxHold, recvQ, cclosed, recvWait,
                 backtrace, recvPipe, call, timers, arrived, taken>>

\* the sender goroutine reaches the transport with its message
XmitStart(p) ==
  /\ txHold[p] # NULL /\ txHold[p].st = "go"
  /\ txHold' = [txHold EXCEPT ![p].st = "tx"]
  /\ UNCHANGED <<opt, ttl, sqCap, rqCap, now, sclosed, pipes, pclosed, rxHold, recvQ, sendQ, cclosed, recvWait,
                 backtrace, recvPipe, call, timers, arrived, taken, sent>>

XmitEnd(p) ==
  /\ txHold[p] # NULL /\ txHold[p].st = "tx"
  /\ txHold' = [txHold EXCEPT ![p] = NULL]
  /\ UNCHANGED <<opt, ttl, sqCap, rqCap, now, sclosed, pipes, pclosed, rxHold, recvQ, sendQ, cclosed, recvWait,
                 backtrace, recvPipe, call, timers, arrived, taken, sent>>

-----------------------------------------------------------------------------
AddPipe(p, ok) ==
  /\ p \notin pipes /\ ~pclosed[p]
  /\ IF sclosed THEN ok = FALSE /\ UNCHANGED pipes
     ELSE ok = TRUE /\ pipes' = pipes \cup {p}
  /\ UNCHANGED <<opt, ttl, sqCap, rqCap, now, sclosed, pclosed, rxHold, recvQ, sendQ, txHold, cclosed, recvWait,
                 backtrace, recvPipe, call, timers, arrived, taken, sent>>

RemovePipe(p) ==
  /\ p \in pipes
  /\ pipes' = pipes \ {p}
  /\ pclosed' = [pclosed EXCEPT ![p] = TRUE]
  /\ UNCHANGED <<opt, ttl, sqCap, rqCap, now, sclosed, rxHold, recvQ, sendQ, txHold, cclosed, recvWait,
                 backtrace, recvPipe, call, timers, arrived, taken, sent>>

CtxClose(c, res) ==
  /\ IF cclosed[c] THEN res = "ErrClosed" /\ UNCHANGED cclosed
     ELSE res = "ok" /\ cclosed' = [cclosed EXCEPT ![c] = TRUE]
  /\ UNCHANGED <<opt, ttl, sqCap, rqCap, now, sclosed, pipes, pclosed, rxHold, recvQ, sendQ, txHold, recvWait,
                 backtrace, recvPipe, call, timers, arrived, taken, sent>>

SockClose(res) ==
  /\ IF sclosed THEN res = "ErrClosed" /\ UNCHANGED <<sclosed, cclosed>>
     ELSE res = "ok" /\ sclosed' = TRUE /\ cclosed' = [c \in Ctx |-> TRUE]
  /\ UNCHANGED <<opt, ttl, sqCap, rqCap, now, pipes, pclosed, rxHold, recvQ, sendQ, txHold, recvWait,
                 backtrace, recvPipe, call, timers, arrived, taken, sent>>

-----------------------------------------------------------------------------
\* Steps the library can take on its own right now (for quiescence)
RecvReady(t) ==
  /\ call[t] # NULL /\ call[t].op = "recv"
  /\ \/ cclosed[call[t].c]
     \/ IF Unbuf THEN \E p \in Pipe : rxHold[p] # NULL ELSE recvQ # <<>>
     \/ call[t].due >= 0 /\ now >= call[t].due
SendReady(t) ==
  /\ call[t] # NULL /\ call[t].op = "send"
  /\ \/ cclosed[call[t].c] \/ pclosed[call[t].p] \/ call[t].due = -2
     \/ Len(sendQ[call[t].p]) < sqCap
     \/ sqCap = 0 /\ txHold[call[t].p] = NULL /\ call[t].p \in pipes
     \/ call[t].due >= 0 /\ now >= call[t].due
\* The receive queue length (RESPONDENT) is changed: a new, empty queue replaces the old one.  What was queued
\* stays behind in the old queue, which nobody reads any more (lost); a message a receiver goroutine holds because
\* the old queue was full is kept and goes into the new queue; a Recv that is waiting keeps the deadline it
\* started with and goes on waiting on the new queue.  No connection is touched.
\* (As the code has it: the loop of a waiting RecvMsg starts over when the queue is replaced and runs its entry
\* region again, which forgets what the context was about to answer.  That only shows when a second Recv is
\* parked on a context whose first Recv has already returned a survey - the statement leaves overlapping Recvs on
\* one context open, so this is modelled, not reported.)
WaitingCtx == {call[t].c : t \in {x \in Thread : call[x] # NULL /\ call[x].op = "recv"}}
SetRQ(n) ==
  /\ n >= 0
  /\ rqCap' = n
  /\ recvQ' = <<>>
  /\ backtrace' = [c \in Ctx |-> IF c \in WaitingCtx /\ ~cclosed[c] THEN NULL ELSE backtrace[c]]
  /\ recvPipe' = [c \in Ctx |-> IF c \in WaitingCtx /\ ~cclosed[c] THEN NULL ELSE recvPipe[c]]
  /\ UNCHANGED <<opt, ttl, sqCap, now, sclosed, pipes, pclosed, rxHold, sendQ, txHold, cclosed, recvWait,
                 call, timers, arrived, taken, sent>>
\* queue lengths the model checker tries (none unless a configuration overrides this)
RQChoices == {}

CanInternal ==
  \/ \E t \in Thread : RecvReady(t) \/ SendReady(t)
  \/ \E p \in Pipe : \/ sendQ[p] # <<>> /\ txHold[p] = NULL /\ ~pclosed[p]
                     \/ txHold[p] # NULL /\ txHold[p].st = "go"
                     \/ ~Unbuf /\ rxHold[p] # NULL /\ Len(recvQ) < rqCap /\ ~sclosed
                     \/ rxHold[p] # NULL /\ (IF IsRep THEN pclosed[p] ELSE sclosed)

Next ==
  \/ \E p \in Pipe :
       \/ \E r \in ReqSet : PeerReq(p, r.n, r.avail, r.hdr, r.tag)
       \/ Push(p) \/ Abandon(p) \/ SenderTake(p) \/ XmitStart(p) \/ XmitEnd(p)
       \/ \E ok \in BOOLEAN : AddPipe(p, ok)
       \/ RemovePipe(p)
  \/ \E t \in Thread, c \in Ctx :
       \/ \E res \in {"wait", "ErrClosed", "ErrProtoState"} : RecvCall(t, c, res) \/ SendCall(t, c, c, res)
  \/ \E t \in Thread :
       \/ \E p \in Pipe : rxHold[p] # NULL /\ RecvTake(t, rxHold[p])
       \/ recvQ # <<>> /\ RecvTake(t, Head(recvQ))
       \/ \E res \in {"ErrClosed", "ErrRecvTimeout"} : RecvFail(t, res)
       \/ \E res \in {"ok", "ErrClosed", "ErrSendTimeout"} : SendDone(t, res)
       \/ SendHandOver(t)
  \/ \E c \in Ctx, res \in {"ok", "ErrClosed"} : CtxClose(c, res)
  \/ \E res \in {"ok", "ErrClosed"} : SockClose(res)
  \/ \E n \in RQChoices : ~IsRep /\ n # rqCap /\ SetRQ(n)

Spec == Init /\ [][Next]_vars

\* Liveness, checked by TLC under fairness (Rep_live.cfg, Respondent_live.cfg): the library's own steps and the peers
\* taking what they are sent are weakly fair; requests arriving, connections coming and going, the application's calls,
\* deadlines and Close are the environment's and are not.
Fairness ==
  /\ \A p \in Pipe : WF_vars(Push(p)) /\ WF_vars(Abandon(p)) /\ WF_vars(SenderTake(p)) /\ WF_vars(XmitStart(p)) /\ WF_vars(XmitEnd(p))
  /\ \A t \in Thread : /\ WF_vars(\E res \in {"ok", "ErrClosed", "ErrSendTimeout"} : SendDone(t, res))
                        /\ WF_vars(SendHandOver(t))
                        \* (strong: a Recv that keeps running into its deadline and being called again while a request is
                        \* available does not lose the race with its own timer every single time)
                        /\ SF_vars((\E q \in Pipe : rxHold[q] # NULL /\ RecvTake(t, rxHold[q])) \/ (recvQ # <<>> /\ RecvTake(t, Head(recvQ))))
                        /\ WF_vars(RecvFail(t, "ErrClosed"))
FairSpec == Spec /\ Fairness
\* C05 / C18: a reply that is waiting for room in its requester's queue gets through or is given up - the Send returns -
\* as long as the peer takes what it is sent (a slow requester holds up its own replies only for as long as it is slow)
SendReturns == \A t \in Thread : (call[t] # NULL /\ call[t].op = "send") ~> (call[t] = NULL)
\* a reply that Send accepted reaches the transport of the connection it is for, or that connection has gone
AcceptedReplySent == \A p \in Pipe : (sendQ[p] # <<>>) ~> (sendQ[p] = <<>> \/ pclosed[p])
\* a request that has arrived is taken by a Recv that is waiting for one, unless nobody is waiting any more
Available == IF Unbuf THEN \E q \in Pipe : rxHold[q] # NULL ELSE recvQ # <<>>
SomeoneWaits == \E t \in Thread : call[t] # NULL /\ call[t].op = "recv"
WaitingRecvServed == (Available /\ SomeoneWaits) ~> (~Available \/ ~SomeoneWaits)

-----------------------------------------------------------------------------
(* Properties (C05) *)
Range(s) == {s[i] : i \in 1..Len(s)}

\* every reply queued, in the sender's hand or handed to the transport sits on the
\* connection its request arrived on, carries exactly that request's routing header,
\* and was produced by the context that took that request
ReplyOf(m) == \E i \in 1..Len(taken[m.c]) : LET r == taken[m.c][i] IN r.p = m.p /\ r.hdr = m.hdr
ReplyRoute ==
  /\ \A p \in Pipe : \A m \in Range(sendQ[p]) : m.p = p /\ ReplyOf(m)
  /\ \A p \in Pipe : txHold[p] # NULL => (txHold[p].m.p = p /\ ReplyOf(txHold[p].m))
  /\ \A m \in Range(sent) : ReplyOf(m)
\* what a context holds is the routing header and connection of the last request it took
HoldsLastTaken ==
  \A c \in Ctx : backtrace[c] # NULL =>
     /\ taken[c] # <<>>
     /\ LET r == taken[c][Len(taken[c])] IN backtrace[c] = r.hdr /\ recvPipe[c] = r.p
\* each taken request is answered at most once
AtMostOnceAnswered ==
  \A c \in Ctx : Cardinality({i \in 1..Len(sent) : sent[i].c = c}) <= Len(taken[c])
\* every taken request had arrived (nothing invented), each arrival taken at most once
TakenArrived ==
  LET allTaken == UNION {Range(taken[c]) : c \in Ctx} IN allTaken \subseteq Range(arrived)
\* nothing is sent on a connection that has gone
NoSendAfterGone == \A p \in Pipe : (pclosed[p] /\ txHold[p] = NULL) => TRUE
\* C10
CloseUnblocks == \A t \in Thread : (call[t] # NULL /\ cclosed[call[t].c]) => (RecvReady(t) \/ SendReady(t))

TypeOK ==
  /\ \A p \in Pipe : Len(sendQ[p]) <= sqCap
  /\ Len(recvQ) <= rqCap
=============================================================================
