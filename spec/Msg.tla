-------------------------------- MODULE Msg --------------------------------
(***************************************************************************)
(* Message ownership in mangos (message.go and its users): a message is    *)
(* reference counted; every holder (a queue slot, a goroutine's in-hand     *)
(* slot, REQ's retained request, the application) owns one reference;      *)
(* Clone adds one before an additional hand-off, every holder Frees its     *)
(* own; the message returns to its pool when the count reaches zero.        *)
(*                                                                         *)
(* The specification tracks, per message (a serial number valid between     *)
(* NewMessage and release), the count and whether the application owns it.  *)
(* C17: the library never releases a message twice, never touches one       *)
(* after releasing it; a message handed to the application is exclusively   *)
(* the application's until it frees or re-sends it; Send takes ownership on *)
(* success and on failure leaves the message, intact, with the caller; a    *)
(* new message starts empty with enough capacity.                           *)
(***************************************************************************)
EXTENDS Integers, FiniteSets, TLC

CONSTANT Serial           \* message identities
VARIABLES live, ref,
          app,       \* messages the application holds at least one reference to
          extra,     \* [app -> Nat]: references the application holds beyond the first (it called Clone itself, to send
                     \* the same message more than once)
          sending, released,
          shared,    \* messages the application ever took a second reference to (history)
          pend       \* messages the application has said it is releasing a reference of (its Free follows in the ledger)

vars == <<live, ref, app, extra, sending, released, pend, shared>>
Init == live = {} /\ ref = <<>> /\ app = {} /\ extra = <<>> /\ sending = {} /\ released = {} /\ pend = {} /\ shared = {}
\* ref is a function on the live messages only
Put(f, k, v) == [x \in (DOMAIN f) \cup {k} |-> IF x = k THEN v ELSE f[x]]
Del(f, k) == [x \in (DOMAIN f) \ {k} |-> f[x]]
\* the number of references that are the application's
AppRefs(s) == IF s \in app THEN 1 + extra[s] ELSE 0

\* mangos.NewMessage: a fresh identity, one reference
New(s) ==
  /\ s \notin live /\ s \notin released
  /\ live' = live \cup {s} /\ ref' = Put(ref, s, 1)
  /\ UNCHANGED <<app, extra, sending, released, pend, shared>>
\* Message.Clone by a library holder: on a live message it holds a reference to - one the application does not own,
\* or one the application has handed to a Send that is still running
Clone(s) ==
  /\ s \in live /\ ref[s] > AppRefs(s) /\ (s \notin app \/ s \in sending)
  /\ ref' = [ref EXCEPT ![s] = @ + 1]
  /\ UNCHANGED <<live, app, extra, sending, released, pend, shared>>
\* Message.Free.  By a holder other than the application: it releases a reference of its own - never one of those
\* the application still holds.  By the application (announced, see AppFree): one of the application's goes.
Free(s) ==
  /\ s \in live
  /\ IF s \in pend
       THEN /\ s \in app
            /\ pend' = pend \ {s}
            /\ IF extra[s] > 0 THEN extra' = [extra EXCEPT ![s] = @ - 1] /\ app' = app
                                ELSE extra' = Del(extra, s) /\ app' = app \ {s}
       ELSE /\ ref[s] > AppRefs(s)
            /\ UNCHANGED <<app, extra, pend>>
  /\ ref' = IF ref[s] = 1 THEN Del(ref, s) ELSE [ref EXCEPT ![s] = @ - 1]
  /\ live' = IF ref[s] = 1 THEN live \ {s} ELSE live
  /\ released' = IF ref[s] = 1 THEN released \cup {s} ELSE released
  /\ UNCHANGED <<sending, shared>>
\* the application allocated s itself
AppNew(s) == /\ s \in live /\ ref[s] = 1 /\ s \notin app /\ s \notin sending
             /\ app' = app \cup {s} /\ extra' = Put(extra, s, 0) /\ UNCHANGED <<live, ref, sending, released, pend, shared>>
\* Recv handed s to the application: it must be the only reference
AppGot(s) == /\ s \in live /\ ref[s] = 1 /\ s \notin app /\ s \notin sending
             /\ app' = app \cup {s} /\ extra' = Put(extra, s, 0) /\ UNCHANGED <<live, ref, sending, released, pend, shared>>
\* the application takes another reference to a message that is exclusively its own (to send it twice)
AppClone(s) ==
  /\ s \in app /\ s \notin sending /\ ref[s] = AppRefs(s)
  /\ ref' = [ref EXCEPT ![s] = @ + 1] /\ extra' = [extra EXCEPT ![s] = @ + 1] /\ shared' = shared \cup {s}
  /\ UNCHANGED <<live, app, sending, released, pend>>
\* the application announces that it releases one of its references (the next Free of s in the ledger is that one)
AppFree(s) ==
  /\ s \in app /\ s \notin pend
  /\ pend' = pend \cup {s}
  /\ UNCHANGED <<live, ref, app, extra, sending, released, shared>>
\* the application calls Send: one of its references goes with the call; until Send returns the library may do
\* what it wants with that one reference - and with that one only
AppSend(s) ==
  /\ s \in app /\ s \notin sending
  /\ IF extra[s] > 0 THEN extra' = [extra EXCEPT ![s] = @ - 1] /\ app' = app
                      ELSE extra' = Del(extra, s) /\ app' = app \ {s}
  /\ sending' = sending \cup {s} /\ UNCHANGED <<live, ref, released, pend, shared>>
AppSendOK(s) == s \in sending /\ sending' = sending \ {s} /\ UNCHANGED <<live, ref, app, extra, released, pend, shared>>
\* Send failed: the reference is the caller's again - the message is still live and nobody else holds it
AppSendFail(s) ==
  /\ s \in sending /\ s \in live /\ ref[s] = AppRefs(s) + 1
  /\ sending' = sending \ {s}
  /\ IF s \in app THEN extra' = [extra EXCEPT ![s] = @ + 1] /\ app' = app
                   ELSE extra' = Put(extra, s, 0) /\ app' = app \cup {s}
  /\ UNCHANGED <<live, ref, released, pend, shared>>

\* mangos.NewMessage(sz): the first pool class with sz < class, else an exact buffer
PoolClasses == <<64, 128, 256, 512, 1024, 4096, 8192, 65536>>
PoolCap(sz) == IF \E i \in 1..8 : sz < PoolClasses[i]
                 THEN PoolClasses[CHOOSE i \in 1..8 : sz < PoolClasses[i] /\ \A j \in 1..(i-1) : ~(sz < PoolClasses[j])]
                 ELSE sz
NewIsEmpty(sz, len, cap, hl) == len = 0 /\ hl = 0 /\ cap >= sz /\ cap = PoolCap(sz)

Next == \E s \in Serial : New(s) \/ Clone(s) \/ Free(s) \/ AppNew(s) \/ AppGot(s) \/ AppClone(s) \/ AppFree(s) \/ AppSend(s) \/ AppSendOK(s) \/ AppSendFail(s)
Spec == Init /\ [][Next]_vars

\* invariants that hold by construction of the actions; the trace specification checks that every
\* observed operation is one of these actions with the observed reference count
RefPositive == DOMAIN ref = live /\ \A s \in live : ref[s] >= 1
ReleasedDead == \A s \in released : s \notin live /\ s \notin DOMAIN ref
\* what the application holds is live, its references are never released by anybody else, and outside a Send a
\* message of the application's that it never shared has no other holder
AppOwnsAlone == \A s \in app : s \in live /\ ref[s] >= AppRefs(s) /\ ((s \notin sending /\ s \notin shared) => ref[s] = AppRefs(s))
ExtraOnApp == DOMAIN extra = app
=============================================================================
