-------------------------------- MODULE Msg --------------------------------
(***************************************************************************)
(* Message ownership in mangos (message.go and its users): a message is    *)
(* reference counted; every holder (a queue slot, a goroutine's in-hand     *)
(* slot, REQ's retained request, the application) owns one reference;      *)
(* Clone adds one before an additional hand-off, every holder Frees its     *)
(* own; the message returns to its pool when the count reaches zero.        *)
(*                                                                         *)
(* The specification tracks, per message (a serial number valid between     *)
(* NewMessage and release), the count and whether the application owns it.  *)
(* C17: the library never releases a message twice, never touches one       *)
(* after releasing it; a message handed to the application is exclusively   *)
(* the application's until it frees or re-sends it; Send takes ownership on *)
(* success and on failure leaves the message, intact, with the caller; a    *)
(* new message starts empty with enough capacity.                           *)
(***************************************************************************)
EXTENDS Integers, FiniteSets, TLC

CONSTANT Serial           \* message identities
VARIABLES live, ref, app, sending, released

vars == <<live, ref, app, sending, released>>
Init == live = {} /\ ref = <<>> /\ app = {} /\ sending = {} /\ released = {}
\* ref is a function on the live messages only
Put(f, k, v) == [x \in (DOMAIN f) \cup {k} |-> IF x = k THEN v ELSE f[x]]
Del(f, k) == [x \in (DOMAIN f) \ {k} |-> f[x]]

\* mangos.NewMessage: a fresh identity, one reference
New(s) ==
  /\ s \notin live /\ s \notin released
  /\ live' = live \cup {s} /\ ref' = Put(ref, s, 1)
  /\ UNCHANGED <<app, sending, released>>
\* Message.Clone by a library holder: only on a live message the application does not own
Clone(s) ==
  /\ s \in live /\ ref[s] >= 1 /\ s \notin app
  /\ ref' = [ref EXCEPT ![s] = @ + 1]
  /\ UNCHANGED <<live, app, sending, released>>
\* Message.Free by a holder
Free(s) ==
  /\ s \in live /\ ref[s] >= 1 /\ s \notin app
  /\ ref' = IF ref[s] = 1 THEN Del(ref, s) ELSE [ref EXCEPT ![s] = @ - 1]
  /\ live' = IF ref[s] = 1 THEN live \ {s} ELSE live
  /\ released' = IF ref[s] = 1 THEN released \cup {s} ELSE released
  /\ UNCHANGED <<app, sending>>
\* the application allocated s itself
AppNew(s) == s \in live /\ ref[s] = 1 /\ s \notin app /\ app' = app \cup {s} /\ UNCHANGED <<live, ref, sending, released>>
\* Recv handed s to the application: it must be the only reference
AppGot(s) == s \in live /\ ref[s] = 1 /\ s \notin app /\ s \notin sending /\ app' = app \cup {s} /\ UNCHANGED <<live, ref, sending, released>>
\* the application releases its message (the Free that follows is the application's)
AppFree(s) == s \in app /\ app' = app \ {s} /\ UNCHANGED <<live, ref, sending, released>>
\* the application calls Send: until it returns the library may do what it wants with s
AppSend(s) == s \in app /\ app' = app \ {s} /\ sending' = sending \cup {s} /\ UNCHANGED <<live, ref, released>>
AppSendOK(s) == s \in sending /\ sending' = sending \ {s} /\ UNCHANGED <<live, ref, app, released>>
\* Send failed: the message is the caller's again - still live, sole reference
AppSendFail(s) ==
  /\ s \in sending /\ s \in live /\ ref[s] = 1
  /\ sending' = sending \ {s} /\ app' = app \cup {s}
  /\ UNCHANGED <<live, ref, released>>

\* mangos.NewMessage(sz): the first pool class with sz < class, else an exact buffer
PoolClasses == <<64, 128, 256, 512, 1024, 4096, 8192, 65536>>
PoolCap(sz) == IF \E i \in 1..8 : sz < PoolClasses[i]
                 THEN PoolClasses[CHOOSE i \in 1..8 : sz < PoolClasses[i] /\ \A j \in 1..(i-1) : ~(sz < PoolClasses[j])]
                 ELSE sz
NewIsEmpty(sz, len, cap, hl) == len = 0 /\ hl = 0 /\ cap >= sz /\ cap = PoolCap(sz)

Next == \E s \in Serial : New(s) \/ Clone(s) \/ Free(s) \/ AppNew(s) \/ AppGot(s) \/ AppFree(s) \/ AppSend(s) \/ AppSendOK(s) \/ AppSendFail(s)
Spec == Init /\ [][Next]_vars

\* invariants that hold by construction of the actions; the trace specification checks that every
\* observed operation is one of these actions with the observed reference count
RefPositive == DOMAIN ref = live /\ \A s \in live : ref[s] >= 1
ReleasedDead == \A s \in released : s \notin live /\ s \notin DOMAIN ref
AppOwnsAlone == \A s \in app : s \in live /\ ref[s] = 1
=============================================================================
