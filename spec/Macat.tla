-------------------------------- MODULE Macat --------------------------------
(***************************************************************************)
(* The macat command (macat/macat.go) as a specification (C20):            *)
(*                                                                         *)
(*  1. the output formats as encoders over byte sequences, with            *)
(*     independent decoders (a strict un-quoter, a msgpack bin reader):    *)
(*     what is printed for a message must decode back to it, one record    *)
(*     per message;                                                        *)
(*  2. the Duration syntax: a bare integer is seconds, otherwise Go        *)
(*     duration syntax, otherwise an error;                                *)
(*  3. the command line as an automaton over option tokens, one step per   *)
(*     option handler exactly as optopia calls them, followed by Run's     *)
(*     validation and the dispatch by protocol; against it a declarative,  *)
(*     order-independent statement of what a command line asks for         *)
(*     (Rejected / Requested), which the automaton must implement;         *)
(*  4. the run itself: how many messages are sent and when it ends.        *)
(*                                                                         *)
(* Bytes are 0..255.                                                       *)
(***************************************************************************)
EXTENDS Integers, Sequences, TLC

\* ------------------------------------------------------------------------
\* 1. formats
IsAsciiPrint(b) == b >= 32 /\ b <= 126

\* raw: the bytes, nothing else
Raw(m) == m
\* ascii: printable ASCII unchanged, everything else a dot; newline ends the record.
\* Bytes above 0x7f: the statement ("non-printable bytes as dots") does not say whether a byte that is a
\* printable Latin-1 character (0xa1..0xff except the soft hyphen 0xad, what strconv.IsPrint(rune(b)) says)
\* counts as printable: such a byte may be kept or dotted; 0x80..0xa0 and 0xad are printable under no reading.
Ascii(m) == [i \in 1..Len(m) |-> IF IsAsciiPrint(m[i]) THEN m[i] ELSE 46] \o <<10>>       \* the 7-bit reading
Latin1Print(b) == b >= 161 /\ b # 173
AsciiOK(m, o) ==
  /\ Len(o) = Len(m) + 1 /\ o[Len(o)] = 10
  /\ \A i \in 1..Len(m) : IF IsAsciiPrint(m[i]) THEN o[i] = m[i]
                          ELSE IF Latin1Print(m[i]) THEN o[i] \in {46, m[i]}
                          ELSE o[i] = 46
RECURSIVE AsciiAll(_, _, _, _)
AsciiAll(ins, k, out, off) ==      \* records are as long as their messages: no delimiter search needed
  IF k > Len(ins) THEN off = Len(out)
  ELSE /\ off + Len(ins[k]) + 1 <= Len(out)
       /\ AsciiOK(ins[k], SubSeq(out, off + 1, off + Len(ins[k]) + 1))
       /\ AsciiAll(ins, k + 1, out, off + Len(ins[k]) + 1)

HexDigit(d) == IF d < 10 THEN 48 + d ELSE 87 + d          \* 0-9 a-f
\* quoted: the canonical escape of one byte (what nanocat prints)
QuoteByte(b) ==
  CASE b = 10 -> <<92, 110>>          \* \n
    [] b = 13 -> <<92, 114>>          \* \r
    [] b = 92 -> <<92, 92>>           \* \\
    [] b = 34 -> <<92, 34>>           \* \"
    [] IsAsciiPrint(b) /\ b \notin {92, 34} -> <<b>>
    [] OTHER -> <<92, 120, HexDigit(b \div 16), HexDigit(b % 16)>>
RECURSIVE QuoteFrom(_, _)
QuoteFrom(m, i) == IF i > Len(m) THEN <<>> ELSE QuoteByte(m[i]) \o QuoteFrom(m, i + 1)
Quoted(m) == QuoteFrom(m, 1) \o <<10>>

\* the independent decoder: strict - a raw control byte, DEL, an unescaped quote, a dangling backslash, an
\* unknown escape or a bad hex digit make the record undecodable.  Bytes >= 128 may appear raw (they decode
\* to themselves) or escaped.
HexVal(c) == IF c >= 48 /\ c <= 57 THEN c - 48
             ELSE IF c >= 97 /\ c <= 102 THEN c - 87
             ELSE IF c >= 65 /\ c <= 70 THEN c - 55 ELSE -1
RECURSIVE Unq(_, _, _)
Unq(s, i, acc) ==
  IF i > Len(s) THEN [ok |-> TRUE, v |-> acc]
  ELSE LET c == s[i] IN
    IF c = 92 THEN
      IF i + 1 > Len(s) THEN [ok |-> FALSE, v |-> acc]
      ELSE LET d == s[i + 1] IN
        CASE d = 110 -> Unq(s, i + 2, Append(acc, 10))
          [] d = 114 -> Unq(s, i + 2, Append(acc, 13))
          [] d = 92 -> Unq(s, i + 2, Append(acc, 92))
          [] d = 34 -> Unq(s, i + 2, Append(acc, 34))
          [] d = 120 -> IF i + 3 > Len(s) \/ HexVal(s[i + 2]) < 0 \/ HexVal(s[i + 3]) < 0 THEN [ok |-> FALSE, v |-> acc]
                        ELSE Unq(s, i + 4, Append(acc, HexVal(s[i + 2]) * 16 + HexVal(s[i + 3])))
          [] OTHER -> [ok |-> FALSE, v |-> acc]
    ELSE IF c < 32 \/ c = 127 \/ c = 34 THEN [ok |-> FALSE, v |-> acc]
    ELSE Unq(s, i + 1, Append(acc, c))
Unquote(s) == Unq(s, 1, <<>>)

\* msgpack: a bin object.  Header for a payload of n bytes (bin 8 / 16 / 32 by size class)
MpHeader(n) ==
  IF n < 256 THEN <<196, n>>
  ELSE IF n < 65536 THEN <<197, n \div 256, n % 256>>
  ELSE <<198, n \div 16777216, (n \div 65536) % 256, (n \div 256) % 256, n % 256>>
Msgpack(m) == MpHeader(Len(m)) \o m
\* the independent reader: length announced by a header (-1: not a bin header / truncated)
MpHdrLen(h) ==
  IF Len(h) >= 2 /\ h[1] = 196 THEN 2
  ELSE IF Len(h) >= 3 /\ h[1] = 197 THEN 3
  ELSE IF Len(h) >= 5 /\ h[1] = 198 THEN 5 ELSE -1
MpLen(h) ==
  CASE MpHdrLen(h) = 2 -> h[2]
    [] MpHdrLen(h) = 3 -> h[2] * 256 + h[3]
    [] MpHdrLen(h) = 5 /\ h[2] < 128 -> ((h[2] * 256 + h[3]) * 256 + h[4]) * 256 + h[5]
    [] OTHER -> -1

\* splitting an output stream into records
RECURSIVE SplitLines(_, _, _, _)
SplitLines(s, i, cur, acc) ==       \* records end with byte 10; anything after the last 10 is a partial record
  IF i > Len(s) THEN [recs |-> acc, rest |-> cur]
  ELSE IF s[i] = 10 THEN SplitLines(s, i + 1, <<>>, Append(acc, cur))
  ELSE SplitLines(s, i + 1, Append(cur, s[i]), acc)
Lines(s) == SplitLines(s, 1, <<>>, <<>>)

RECURSIVE MpSplit(_, _, _)
MpSplit(s, i, acc) ==
  IF i > Len(s) THEN [recs |-> acc, ok |-> TRUE]
  ELSE LET h == SubSeq(s, i, IF i + 4 <= Len(s) THEN i + 4 ELSE Len(s))
           hl == MpHdrLen(h)
           n == MpLen(h) IN
       IF hl < 0 \/ n < 0 \/ i + hl + n - 1 > Len(s) THEN [recs |-> acc, ok |-> FALSE]
       ELSE MpSplit(s, i + hl + n, Append(acc, SubSeq(s, i + hl, i + hl + n - 1)))

RECURSIVE Concat(_)
Concat(ss) == IF ss = <<>> THEN <<>> ELSE Head(ss) \o Concat(Tail(ss))

\* what the output `out` must be when the messages `ins` were received, in order, under format f
OutputOK(f, ins, out) ==
  CASE f = "no" -> out = <<>>
    [] f = "raw" -> out = Concat(ins)
    [] f = "ascii" -> AsciiAll(ins, 1, out, 0)
    [] f = "quoted" ->
         LET l == Lines(out) IN
         /\ l.rest = <<>>                                        \* every record is terminated
         /\ Len(l.recs) = Len(ins)                               \* one record per message
         /\ \A i \in 1..Len(ins) : LET u == Unquote(l.recs[i]) IN u.ok /\ u.v = ins[i]
    [] f = "msgpack" ->
         LET r == MpSplit(out, 1, <<>>) IN r.ok /\ r.recs = ins
    [] OTHER -> FALSE

\* ------------------------------------------------------------------------
\* 2. durations (milliseconds; the drivers stay within 32 bits)
UnitMs(u) == CASE u = "ms" -> 1 [] u = "s" -> 1000 [] u = "m" -> 60000 [] u = "h" -> 3600000
\* kind "int": a bare (optionally signed) decimal integer = seconds;
\* kind "go": <n><unit>;  kind "frac": <n/10><unit> written with one decimal;  kind "bad": neither
DurOK(kind) == kind \in {"int", "go", "frac"}
DurMs(kind, n, u) ==
  CASE kind = "int" -> n * 1000
    [] kind = "go" -> n * UnitMs(u)
    [] kind = "frac" -> (n * UnitMs(u)) \div 10

\* ------------------------------------------------------------------------
\* 3. the command line.  A token is [o |-> option, v |-> string, n |-> integer]:
\*   proto v=<name> | bind / connect v="ok"|"bad" | sub | fmt v=<format or "bogus"> | data | file v="ok"|"missing"
\*   count n | interval n(ms) v="ok"|"bad" | rt / st / delay n(ms) v="ok"|"bad" | extra | unknown | noval
Protos == {"push", "pull", "pub", "sub", "req", "rep", "surveyor", "respondent", "bus", "pair", "star"}
Formats == {"no", "raw", "ascii", "quoted", "msgpack"}

C0 == [proto |-> "none", naddr |-> 0, nsub |-> 0, fmt |-> "", data |-> FALSE, count |-> 1, countSet |-> FALSE,
       ival |-> -1, rt |-> -1, delay |-> -1, err |-> FALSE]

\* one option handler (optopia stops at the first error)
Step(c, t) ==
  IF c.err THEN c
  ELSE CASE t.o = "proto" -> IF c.proto # "none" THEN [c EXCEPT !.err = TRUE] ELSE [c EXCEPT !.proto = t.v]
         [] t.o \in {"bind", "connect"} -> IF t.v = "ok" THEN [c EXCEPT !.naddr = @ + 1] ELSE [c EXCEPT !.err = TRUE]
         [] t.o = "sub" -> [c EXCEPT !.nsub = @ + 1]
         [] t.o = "fmt" -> IF c.fmt # "" \/ t.v \notin Formats THEN [c EXCEPT !.err = TRUE] ELSE [c EXCEPT !.fmt = t.v]
         [] t.o = "data" -> IF c.data THEN [c EXCEPT !.err = TRUE] ELSE [c EXCEPT !.data = TRUE]
         [] t.o = "file" -> IF c.data \/ t.v \notin {"ok", "empty"} THEN [c EXCEPT !.err = TRUE] ELSE [c EXCEPT !.data = TRUE]
         [] t.o = "count" -> [c EXCEPT !.count = t.n, !.countSet = TRUE]
         [] t.o = "interval" -> IF t.v # "ok" THEN [c EXCEPT !.err = TRUE]
                                ELSE [c EXCEPT !.ival = t.n, !.count = IF c.countSet THEN c.count ELSE -1]
         [] t.o = "rt" -> IF t.v # "ok" THEN [c EXCEPT !.err = TRUE] ELSE [c EXCEPT !.rt = t.n]
         [] t.o = "delay" -> IF t.v # "ok" THEN [c EXCEPT !.err = TRUE] ELSE [c EXCEPT !.delay = t.n]
         [] t.o = "st" -> IF t.v # "ok" THEN [c EXCEPT !.err = TRUE] ELSE c
         [] t.o \in {"extra", "unknown", "noval"} -> [c EXCEPT !.err = TRUE]
         [] OTHER -> [c EXCEPT !.err = TRUE]

RECURSIVE Fold(_, _, _)
Fold(c, ts, i) == IF i > Len(ts) THEN c ELSE Fold(Step(c, ts[i]), ts, i + 1)
Parse(ts) == Fold(C0, ts, 1)

\* Run: validation after parsing, then the mode by protocol
Mode(c) ==
  CASE c.proto \in {"pull", "sub"} -> "recv"
    [] c.proto \in {"push", "pub"} -> "send"
    [] c.proto \in {"pair", "star", "bus"} -> IF c.data THEN "sendrecv" ELSE "recv"
    [] c.proto \in {"req", "surveyor"} -> "sendrecv"
    [] c.proto \in {"rep", "respondent"} -> IF c.data THEN "reply" ELSE "recv"
    [] OTHER -> "none"
RunRejects(c) ==
  \/ c.err
  \/ c.proto = "none"
  \/ c.naddr = 0
  \/ c.nsub > 0 /\ c.proto # "sub"
  \/ Mode(c) = "send" /\ ~c.data
\* number of messages macat sends on its own initiative: -1 = without end
Sends(c) == IF Mode(c) \in {"send", "sendrecv"} THEN c.count ELSE 0
\* does the run end by itself?  (a receive timeout of 0 means none)
Ends(c) ==
  CASE Mode(c) = "send" -> c.count >= 0
    [] Mode(c) = "sendrecv" -> c.count >= 0 /\ (c.count = 0 \/ c.rt > 0 \/ c.ival >= 0 \/ c.proto \in {"req", "surveyor"})
    [] OTHER -> c.rt > 0

\* --- the same, stated without order: what a command line asks for
Cnt(ts, P(_)) == LET RECURSIVE K(_)
                     K(i) == IF i > Len(ts) THEN 0 ELSE (IF P(ts[i]) THEN 1 ELSE 0) + K(i + 1) IN K(1)
HasTok(ts, P(_)) == \E i \in 1..Len(ts) : P(ts[i])
BadTok(t) == \/ t.o \in {"extra", "unknown", "noval"}
             \/ t.o \in {"bind", "connect", "interval", "rt", "st", "delay"} /\ t.v # "ok"
             \/ t.o = "fmt" /\ t.v \notin Formats
             \/ t.o = "file" /\ t.v \notin {"ok", "empty"}
TheProto(ts) == ts[CHOOSE i \in 1..Len(ts) : ts[i].o = "proto"].v
Rejected(ts) ==
  LET isProto(t) == t.o = "proto"
      isAddr(t) == t.o \in {"bind", "connect"} /\ t.v = "ok"
      isFmt(t) == t.o = "fmt"
      isData(t) == t.o \in {"data", "file"}
      isSub(t) == t.o = "sub" IN
  \/ HasTok(ts, BadTok)                                   \* malformed
  \/ Cnt(ts, isProto) # 1                                 \* missing or conflicting protocol
  \/ Cnt(ts, isAddr) = 0                                  \* nowhere to go
  \/ Cnt(ts, isFmt) > 1                                   \* conflicting formats
  \/ Cnt(ts, isData) > 1                                  \* conflicting data
  \/ HasTok(ts, isSub) /\ TheProto(ts) # "sub"             \* subscription on a non-SUB socket
  \/ TheProto(ts) \in {"push", "pub"} /\ Cnt(ts, isData) = 0   \* nothing to send
\* the number of messages asked for: an explicit count (the last one given) wherever it stands on the
\* command line; without one, an interval means "until stopped", otherwise once
Requested(ts) ==
  LET isCount(t) == t.o = "count"
      isIval(t) == t.o = "interval" IN
  IF HasTok(ts, isCount) THEN ts[CHOOSE i \in 1..Len(ts) : ts[i].o = "count" /\ \A j \in (i + 1)..Len(ts) : ts[j].o # "count"].n
  ELSE IF HasTok(ts, isIval) THEN -1 ELSE 1

\* ------------------------------------------------------------------------
\* the automaton as a state machine (for TLC): read one more token
VARIABLES c, hist
vars == <<c, hist>>
Init == c = C0 /\ hist = <<>>
Read(t) == c' = Step(c, t) /\ hist' = Append(hist, t)

\* the automaton implements the order-free statement
Implements ==
  /\ RunRejects(c) = Rejected(hist)
  /\ ~RunRejects(c) => (Mode(c) \in {"send", "sendrecv"} => Sends(c) = Requested(hist))
=============================================================================
