------------------------------ MODULE RawSock ------------------------------
(***************************************************************************)
(* One engine for the twelve raw socket implementations of mangos           *)
(* (the protocol/xNAME packages), selected by the constant Proto; the cooked *)
(* pair, pair1, push, pull, pub, bus, star are thin wrappers that only add  *)
(* or strip a header - for those too.                                      *)
(*                                                                         *)
(*   send side   "shared": one socket send queue, the attached pipes'      *)
(*                         sender goroutines pull from it (xpair, xpair1:  *)
(*                         the single peer; xreq: any pipe)                 *)
(*               "sched":  socket send queue + scheduler goroutine that     *)
(*                         pairs the head message with the head of the      *)
(*                         ready-pipe queue; a pipe is ready again only     *)
(*                         after its send returned (xpush)                  *)
(*               "bcast":  a queue per pipe; Send offers a clone to every   *)
(*                         pipe (xbus: except the origin named in the       *)
(*                         header) and drops where the queue is full; never *)
(*                         blocks (xpub, xsurveyor, xbus, xstar)            *)
(*               "routed": a queue per pipe; the header names the pipe      *)
(*                         (xrep, xrespondent)                              *)
(*               "none":   xsub, xpull (ErrProtoOp)                         *)
(*   receive     "block":  the pipe's receiver goroutine holds the message  *)
(*                         until the socket receive queue takes it          *)
(*               "dropnew": dropped when the queue is full (xsub)           *)
(*               "discard": everything received is discarded, Recv is       *)
(*                         ErrProtoOp (xpush, xpub)                         *)
(*   xstar additionally forwards every accepted incoming message to all     *)
(*   other pipes before handing a private copy up.                         *)
(*                                                                         *)
(* One action per lock region / channel operation / goroutine hand-off.    *)
(* Serves C02, C06 (PUB side), C08, C05 (raw routing), C10, C18.           *)
(***************************************************************************)
EXTENDS Integers, Sequences, FiniteSets, TLC, Hops

CONSTANTS Proto, Pipe, Thread, NULL, Timed,
          InitOpt,   \* [sendExp, recvExp : Nat, bestEffort, failNoPeers : BOOLEAN, ttl, sq, rq : Nat]
          MsgSet     \* model checking: messages the application sends / peers inject

VARIABLES
  opt, now,
  sclosed, pipes, pclosed,
  sendQ, psendQ, txHold, readyQ,
  recvQ, rxHold,
  call,
  accepted,    \* seq of messages Send accepted (queued or offered)
  handed,      \* seq of <<tag, pipe>>: what sender goroutines took to the transport
  delivered,   \* seq of tags returned by Recv
  arrivedOK    \* seq of <<tag, pipe>> accepted by receivers

cfgVars  == <<opt, now>>
sockVars == <<sclosed, pipes, pclosed>>
sendVars == <<sendQ, psendQ, txHold, readyQ>>
recvVars == <<recvQ, rxHold>>
histVars == <<accepted, handed, delivered, arrivedOK>>
vars == <<cfgVars, sockVars, sendVars, recvVars, call, histVars>>

SendKind ==
  CASE Proto \in {"xpair", "xpair1", "xreq"} -> "shared"
    [] Proto = "xpush" -> "sched"
    [] Proto \in {"xpub", "xsurveyor", "xbus", "xstar"} -> "bcast"
    [] Proto \in {"xrep", "xrespondent"} -> "routed"
    [] OTHER -> "none"
RecvKind ==
  CASE Proto \in {"xpush", "xpub"} -> "discard"
    [] Proto = "xsub" -> "dropnew"
    [] OTHER -> "block"
SinglePeer == Proto \in {"xpair", "xpair1"}

Init ==
  /\ opt = InitOpt /\ now = 0
  /\ sclosed = FALSE /\ pipes = {} /\ pclosed = [p \in Pipe |-> FALSE]
  /\ sendQ = <<>> /\ psendQ = [p \in Pipe |-> <<>>] /\ txHold = [p \in Pipe |-> NULL] /\ readyQ = <<>>
  /\ recvQ = <<>> /\ rxHold = [p \in Pipe |-> NULL]
  /\ call = [t \in Thread |-> NULL]
  /\ accepted = <<>> /\ handed = <<>> /\ delivered = <<>> /\ arrivedOK = <<>>

Due(d) == IF Timed THEN now + d ELSE 0
SeqRemove(s, x) == SelectSeq(s, LAMBDA y : y # x)
Idle(p) == p \in pipes /\ txHold[p] = NULL

-----------------------------------------------------------------------------
(* Send.  m = [tag, ok, to, skip, h]: ok = the header is acceptable to the  *)
(* protocol; to = target pipe (routed; NULL when unknown); skip = origin    *)
(* pipe (xbus forwarding; NULL otherwise); h = hop byte (xpair1, xstar).    *)

SendDue == IF opt.bestEffort THEN -2 ELSE IF opt.sendExp > 0 THEN Due(opt.sendExp) ELSE -1

\* pipes that take a broadcast message now
Takers(m) == {p \in pipes \ {m.skip} : IF opt.sq > 0 THEN Len(psendQ[p]) < opt.sq ELSE (txHold[p] = NULL /\ psendQ[p] = <<>>)}

SendCall(t, m, res) ==
  /\ call[t] = NULL
  /\ IF SendKind = "none" THEN res = "ErrProtoOp" /\ UNCHANGED <<sendVars, call, accepted>>
     ELSE IF Proto = "xpair1" /\ ~m.ok THEN res = "ok" /\ UNCHANGED <<sendVars, call, accepted>>   \* dropped before anything else
     ELSE IF sclosed THEN res = "ErrClosed" /\ UNCHANGED <<sendVars, call, accepted>>
     ELSE IF ~m.ok \/ (SendKind = "routed" /\ (m.to = NULL \/ m.to \notin pipes))
       THEN res = "ok" /\ UNCHANGED <<sendVars, call, accepted>>                                   \* silently dropped
     ELSE IF SendKind = "bcast"
       THEN /\ res = "ok"
            /\ LET T == Takers(m) IN
               /\ psendQ' = [p \in Pipe |-> IF p \in T /\ opt.sq > 0 THEN Append(psendQ[p], m) ELSE psendQ[p]]
               /\ txHold' = [p \in Pipe |-> IF p \in T /\ opt.sq = 0 THEN [m |-> m, st |-> "go"] ELSE txHold[p]]
            /\ accepted' = Append(accepted, m)
            /\ UNCHANGED <<sendQ, readyQ, call>>
     ELSE IF SendKind = "sched" /\ opt.failNoPeers /\ pipes = {}
       THEN res = "ErrNoPeers" /\ UNCHANGED <<sendVars, call, accepted>>
     ELSE /\ res = "wait"
          /\ call' = [call EXCEPT ![t] = [op |-> "send", m |-> m, due |-> SendDue, np |-> FALSE, rz |-> FALSE]]
          /\ UNCHANGED <<sendVars, accepted>>
  /\ UNCHANGED <<cfgVars, sockVars, recvVars, delivered, handed, arrivedOK>>

\* the select of a blocked Send resolves
SendDone(t, res) ==
  /\ call[t] # NULL /\ call[t].op = "send"
  /\ LET m == call[t].m IN
     \/ /\ sclosed /\ SendKind # "routed" /\ res = "ErrClosed" /\ UNCHANGED <<sendVars, accepted>>
     \/ /\ call[t].np /\ res = "ErrNoPeers" /\ UNCHANGED <<sendVars, accepted>>
     \/ /\ call[t].rz /\ res = "ok" /\ UNCHANGED <<sendVars, accepted>>                     \* a queue was resized: dropped ("resize discards")
     \/ /\ call[t].due = -2 /\ res = "ok" /\ UNCHANGED <<sendVars, accepted>>                  \* best effort: dropped
     \/ /\ call[t].due >= 0 /\ (Timed => now >= call[t].due) /\ res = "ErrSendTimeout" /\ UNCHANGED <<sendVars, accepted>>
     \/ /\ SendKind = "routed" /\ pclosed[m.to]
        /\ res = IF Proto = "xrep" THEN "ErrClosed" ELSE "ok"                                   \* xrespondent discards
        /\ UNCHANGED <<sendVars, accepted>>
     \/ /\ SendKind \in {"shared", "sched"} /\ opt.sq > 0 /\ Len(sendQ) < opt.sq /\ res = "ok"
        /\ sendQ' = Append(sendQ, m) /\ accepted' = Append(accepted, m)
        /\ UNCHANGED <<psendQ, txHold, readyQ>>
     \/ \* WriteQLen 0 on a shared queue: rendez-vous with an idle sender goroutine - or with the sender goroutine of a
        \* connection that has been removed and is at its select once more ("lingering", see LingerTake: with no buffer
        \* the one more message it may take comes straight from a waiting Send; its transport send then fails)
        /\ SendKind = "shared" /\ opt.sq = 0 /\ res = "ok"
        /\ \E p \in Pipe : /\ \/ p \in pipes /\ txHold[p] = NULL /\ ~pclosed[p]
                              \/ txHold[p] # NULL /\ txHold[p].st = "linger"
                           /\ txHold' = [txHold EXCEPT ![p] = [m |-> m, st |-> "go"]]
        /\ accepted' = Append(accepted, m)
        /\ UNCHANGED <<sendQ, psendQ, readyQ>>
     \/ /\ SendKind = "routed" /\ ~pclosed[m.to] /\ res = "ok"
        /\ IF opt.sq > 0
             THEN /\ Len(psendQ[m.to]) < opt.sq
                  /\ psendQ' = [psendQ EXCEPT ![m.to] = Append(@, m)] /\ UNCHANGED txHold
             ELSE /\ txHold[m.to] = NULL /\ psendQ[m.to] = <<>>
                  /\ txHold' = [txHold EXCEPT ![m.to] = [m |-> m, st |-> "go"]] /\ UNCHANGED psendQ
        /\ accepted' = Append(accepted, m)
        /\ UNCHANGED <<sendQ, readyQ>>
  /\ call' = [call EXCEPT ![t] = NULL]
  /\ UNCHANGED <<cfgVars, sockVars, recvVars, delivered, handed, arrivedOK>>

-----------------------------------------------------------------------------
(* sender goroutines *)

\* a pipe's sender takes the next message of the queue it serves
SenderTake(p) ==
  /\ Idle(p) /\ ~pclosed[p]
  /\ \/ /\ SendKind = "shared" /\ sendQ # <<>>
        /\ txHold' = [txHold EXCEPT ![p] = [m |-> Head(sendQ), st |-> "go"]]
        /\ sendQ' = Tail(sendQ) /\ UNCHANGED <<psendQ, readyQ>>
     \/ /\ SendKind \in {"bcast", "routed"} /\ psendQ[p] # <<>>
        /\ txHold' = [txHold EXCEPT ![p] = [m |-> Head(psendQ[p]), st |-> "go"]]
        /\ psendQ' = [psendQ EXCEPT ![p] = Tail(@)] /\ UNCHANGED <<sendQ, readyQ>>
  /\ UNCHANGED <<cfgVars, sockVars, recvVars, call, histVars>>

\* xpush scheduler: one message, one ready pipe
Schedule ==
  /\ SendKind = "sched" /\ ~sclosed
  /\ readyQ # <<>> /\ sendQ # <<>>
  /\ LET p == Head(readyQ) IN
     /\ txHold' = [txHold EXCEPT ![p] = [m |-> Head(sendQ), st |-> "go"]]
     /\ readyQ' = Tail(readyQ) /\ sendQ' = Tail(sendQ)
  /\ UNCHANGED <<psendQ, cfgVars, sockVars, recvVars, call, histVars>>

\* the goroutine reaches the transport
XmitStart(p) ==
  /\ txHold[p] # NULL /\ txHold[p].st = "go"
  /\ txHold' = [txHold EXCEPT ![p].st = "tx"]
  /\ handed' = Append(handed, <<txHold[p].m.tag, p>>)
  /\ UNCHANGED <<cfgVars, sockVars, sendQ, psendQ, readyQ, recvVars, call, accepted, delivered, arrivedOK>>

\* the transport call returns
\* (a sender whose transport send succeeded although its connection has been removed meanwhile - the bytes had been
\* taken - goes round its loop once more: "lingering", see LingerTake / LingerExit)
XmitEnd(p, ok) ==
  /\ txHold[p] # NULL /\ txHold[p].st = "tx"
  /\ txHold' = [txHold EXCEPT ![p] = IF SendKind = "sched" /\ ok THEN [m |-> txHold[p].m, st |-> "post"]
                                     ELSE IF ok /\ pclosed[p] /\ SendKind # "sched" THEN [m |-> txHold[p].m, st |-> "linger"]
                                     ELSE NULL]
  /\ UNCHANGED <<cfgVars, sockVars, sendQ, psendQ, readyQ, recvVars, call, histVars>>

\* The sender goroutine of a connection that has been removed, back at its select with both its queue and its close
\* channel ready: it may take one more message (Go picks either case) - the transport send then fails and the message
\* is lost, which the statements allow when a connection fails - or leave.
LingerTake(p) ==
  /\ txHold[p] # NULL /\ txHold[p].st = "linger"
  /\ \/ /\ SendKind = "shared" /\ sendQ # <<>>
        /\ txHold' = [txHold EXCEPT ![p] = [m |-> Head(sendQ), st |-> "go"]]
        /\ sendQ' = Tail(sendQ) /\ UNCHANGED <<psendQ, readyQ>>
     \/ /\ SendKind \in {"bcast", "routed"} /\ psendQ[p] # <<>>
        /\ txHold' = [txHold EXCEPT ![p] = [m |-> Head(psendQ[p]), st |-> "go"]]
        /\ psendQ' = [psendQ EXCEPT ![p] = Tail(@)] /\ UNCHANGED <<sendQ, readyQ>>
  /\ UNCHANGED <<cfgVars, sockVars, recvVars, call, histVars>>
LingerExit(p) ==
  /\ txHold[p] # NULL /\ txHold[p].st = "linger"
  /\ txHold' = [txHold EXCEPT ![p] = NULL]
  /\ UNCHANGED <<cfgVars, sockVars, sendQ, psendQ, readyQ, recvVars, call, histVars>>

\* xpush pipe.send: lock region after a successful send - the pipe is ready again
Requeue(p) ==
  /\ txHold[p] # NULL /\ txHold[p].st = "post"
  /\ txHold' = [txHold EXCEPT ![p] = NULL]
  /\ readyQ' = IF ~sclosed /\ ~pclosed[p] THEN Append(readyQ, p) ELSE readyQ
  /\ UNCHANGED <<cfgVars, sockVars, sendQ, psendQ, recvVars, call, histVars>>

-----------------------------------------------------------------------------
(* receive *)

\* Is the incoming message acceptable to the protocol?  x carries what the header logic looks at.
Acceptable(x) ==
  CASE Proto \in {"xreq", "xsurveyor"} -> ~x.short
    [] Proto = "xpair1" -> ~x.short /\ XPair1Accept(x.h, opt.ttl)
    [] Proto = "xstar" -> ~x.short /\ x.zeros /\ XStarAccept(x.h, opt.ttl)
    [] Proto = "xrep" -> XRepLoop(x.n, x.avail, opt.ttl) # 0
    [] Proto = "xrespondent" -> XRespondentLoop(x.n, x.avail, opt.ttl) # 0
    [] OTHER -> TRUE

\* a peer message taken from the transport by pipe p's receiver
PeerMsg(p, x) ==
  /\ p \in pipes \/ pclosed[p]
  /\ rxHold[p] = NULL
  /\ IF ~Acceptable(x) \/ RecvKind = "discard"
       THEN UNCHANGED <<recvVars, psendQ, txHold, arrivedOK>>
     ELSE IF RecvKind = "dropnew"
       THEN /\ IF Len(recvQ) < opt.rq \/ (opt.rq = 0 /\ recvQ = <<>> /\ \E t \in Thread : call[t] # NULL /\ call[t].op = "recv")
                 THEN recvQ' = Append(recvQ, x.tag) /\ arrivedOK' = Append(arrivedOK, <<x.tag, p>>)
                 ELSE UNCHANGED <<recvQ, arrivedOK>>
            /\ UNCHANGED <<rxHold, psendQ, txHold>>
     ELSE /\ rxHold' = [rxHold EXCEPT ![p] = x.tag]
          /\ arrivedOK' = Append(arrivedOK, <<x.tag, p>>)
          \* xstar: forward a copy to every other pipe first (drop where the queue is full)
          /\ IF Proto = "xstar"
               THEN LET fm == [tag |-> x.tag, ok |-> TRUE, to |-> NULL, skip |-> p, h |-> x.h + 1]   \* hop count + 1
                        T == {q \in pipes \ {p} : IF opt.sq > 0 THEN Len(psendQ[q]) < opt.sq ELSE (txHold[q] = NULL /\ psendQ[q] = <<>>)} IN
                    /\ psendQ' = [q \in Pipe |-> IF q \in T /\ opt.sq > 0 THEN Append(psendQ[q], fm) ELSE psendQ[q]]
                    /\ txHold' = [q \in Pipe |-> IF q \in T /\ opt.sq = 0 THEN [m |-> fm, st |-> "go"] ELSE txHold[q]]
               ELSE UNCHANGED <<psendQ, txHold>>
          /\ UNCHANGED recvQ
  /\ UNCHANGED <<cfgVars, sockVars, sendQ, readyQ, call, accepted, handed, delivered>>

\* the receiver's channel send into the socket receive queue succeeds
Push(p) ==
  /\ rxHold[p] # NULL
  /\ \/ Len(recvQ) < opt.rq
     \/ opt.rq = 0 /\ recvQ = <<>> /\ \E t \in Thread : call[t] # NULL /\ call[t].op = "recv"
  /\ recvQ' = Append(recvQ, rxHold[p])
  /\ rxHold' = [rxHold EXCEPT ![p] = NULL]
  /\ UNCHANGED <<cfgVars, sockVars, sendVars, call, histVars>>

\* the receiver gives up: its pipe was removed (or, xstar, the socket closed)
Abandon(p) ==
  /\ rxHold[p] # NULL
  /\ pclosed[p] \/ (Proto = "xstar" /\ sclosed)
  /\ rxHold' = [rxHold EXCEPT ![p] = NULL]
  /\ UNCHANGED <<cfgVars, sockVars, sendVars, recvQ, call, histVars>>

RecvCall(t, res) ==
  /\ call[t] = NULL
  /\ IF RecvKind = "discard" THEN res = "ErrProtoOp" /\ UNCHANGED call
     ELSE res = "wait" /\ call' = [call EXCEPT ![t] = [op |-> "recv", due |-> IF opt.recvExp > 0 THEN Due(opt.recvExp) ELSE -1]]
  /\ UNCHANGED <<cfgVars, sockVars, sendVars, recvVars, histVars>>

RecvTake(t, tag) ==
  /\ call[t] # NULL /\ call[t].op = "recv"
  /\ recvQ # <<>> /\ tag = Head(recvQ)
  /\ recvQ' = Tail(recvQ)
  /\ delivered' = Append(delivered, tag)
  /\ call' = [call EXCEPT ![t] = NULL]
  /\ UNCHANGED <<cfgVars, sockVars, sendVars, rxHold, accepted, handed, arrivedOK>>

RecvFail(t, res) ==
  /\ call[t] # NULL /\ call[t].op = "recv"
  /\ \/ sclosed /\ res = "ErrClosed"
     \/ call[t].due >= 0 /\ (Timed => now >= call[t].due) /\ res = "ErrRecvTimeout"
  /\ call' = [call EXCEPT ![t] = NULL]
  /\ UNCHANGED <<cfgVars, sockVars, sendVars, recvVars, histVars>>

-----------------------------------------------------------------------------
AddPipe(p, ok) ==
  /\ p \notin pipes /\ ~pclosed[p]
  /\ IF sclosed \/ (SinglePeer /\ pipes # {})
       THEN ok = FALSE /\ UNCHANGED <<pipes, readyQ>>
       ELSE /\ ok = TRUE /\ pipes' = pipes \cup {p}
            /\ readyQ' = IF SendKind = "sched" THEN Append(readyQ, p) ELSE readyQ
  /\ UNCHANGED <<cfgVars, sclosed, pclosed, sendQ, psendQ, txHold, recvVars, call, histVars>>

RemovePipe(p) ==
  /\ p \in pipes
  /\ pipes' = pipes \ {p}
  /\ pclosed' = [pclosed EXCEPT ![p] = TRUE]
  /\ readyQ' = SeqRemove(readyQ, p)
  \* fail-no-peers: the last pipe leaving wakes every blocked Send with ErrNoPeers
  /\ call' = IF SendKind = "sched" /\ opt.failNoPeers /\ pipes' = {}
               THEN [t \in Thread |-> IF call[t] # NULL /\ call[t].op = "send" THEN [call[t] EXCEPT !.np = TRUE] ELSE call[t]]
               ELSE call
  /\ UNCHANGED <<cfgVars, sclosed, sendQ, psendQ, txHold, recvVars, histVars>>

SockClose(res) ==
  /\ IF sclosed THEN res = "ErrClosed" /\ UNCHANGED sclosed ELSE res = "ok" /\ sclosed' = TRUE
  /\ UNCHANGED <<cfgVars, pipes, pclosed, sendVars, recvVars, call, histVars>>

-----------------------------------------------------------------------------
SendReady(t) ==
  /\ call[t] # NULL /\ call[t].op = "send"
  /\ LET m == call[t].m IN
     \/ sclosed /\ SendKind # "routed"
     \/ call[t].np \/ call[t].rz \/ call[t].due = -2
     \/ call[t].due >= 0 /\ now >= call[t].due
     \/ SendKind = "routed" /\ pclosed[m.to]
     \/ SendKind \in {"shared", "sched"} /\ opt.sq > 0 /\ Len(sendQ) < opt.sq
     \/ SendKind = "shared" /\ opt.sq = 0 /\ \E p \in Pipe : (p \in pipes /\ txHold[p] = NULL /\ ~pclosed[p]) \/ (txHold[p] # NULL /\ txHold[p].st = "linger")
     \/ SendKind = "routed" /\ ~pclosed[m.to] /\ (IF opt.sq > 0 THEN Len(psendQ[m.to]) < opt.sq ELSE txHold[m.to] = NULL /\ psendQ[m.to] = <<>>)
RecvReady(t) ==
  /\ call[t] # NULL /\ call[t].op = "recv"
  /\ recvQ # <<>> \/ sclosed \/ (call[t].due >= 0 /\ now >= call[t].due)
\* The receive queue length is changed: a new, empty queue replaces the old one.  What was queued stays behind in the
\* old queue (lost).  A message a receiver goroutine holds because the old queue was full is discarded in XPAIR,
\* XPAIR1, XREQ, XSURVEYOR, XREP and XRESPONDENT ("resize discards" - the receiver goes back to reading) and kept for
\* the new queue in XSTAR.  For XPULL (migrates the old queue while receivers already fill the new one) and XBUS (a
\* receiver holding a message leaves and closes its connection: the recorded finding, which has its own scenario)
\* the change is only described for the case that nothing is queued or held.  Calls that are waiting for a message
\* keep waiting with the deadline they started with.  In XPAIR, XPAIR1 and XREQ the one "size changed" signal serves
\* both queues and a Send that is waiting for room takes it as "resize discards" too: it returns success and its
\* message is dropped.  (As the code has it; the statements say nothing about messages under way when a queue length
\* is changed - modelled, not reported.)
ResizeDropsSend == Proto \in {"xpair", "xpair1", "xreq"}
ResizeDropsHeld == Proto \in {"xpair", "xpair1", "xreq", "xsurveyor", "xrep", "xrespondent"}
SetRQ(n) ==
  /\ n >= 0
  /\ Proto \in {"xpull", "xbus"} => (recvQ = <<>> /\ \A p \in Pipe : rxHold[p] = NULL)
  /\ opt' = [opt EXCEPT !.rq = n]
  /\ recvQ' = <<>>
  /\ rxHold' = IF ResizeDropsHeld THEN [p \in Pipe |-> NULL] ELSE rxHold
  /\ call' = IF ResizeDropsSend
               THEN [t \in Thread |-> IF call[t] # NULL /\ call[t].op = "send" THEN [call[t] EXCEPT !.rz = TRUE] ELSE call[t]]
               ELSE call
  /\ UNCHANGED <<now, sockVars, sendVars, histVars>>

CanInternal ==
  \/ \E t \in Thread : SendReady(t) \/ RecvReady(t)
  \/ \E p \in Pipe :
       \/ Idle(p) /\ ~pclosed[p] /\ (IF SendKind = "shared" THEN sendQ # <<>> ELSE SendKind \in {"bcast", "routed"} /\ psendQ[p] # <<>>)
       \/ txHold[p] # NULL /\ txHold[p].st \in {"go", "post", "linger"}
       \/ rxHold[p] # NULL /\ (Len(recvQ) < opt.rq \/ pclosed[p] \/ (Proto = "xstar" /\ sclosed)
                               \/ (opt.rq = 0 /\ recvQ = <<>> /\ \E t \in Thread : call[t] # NULL /\ call[t].op = "recv"))
  \/ SendKind = "sched" /\ ~sclosed /\ readyQ # <<>> /\ sendQ # <<>>

\* model checking: every message is sent / injected once (tags identify messages)
Used == {accepted[i].tag : i \in 1..Len(accepted)} \cup {arrivedOK[i][1] : i \in 1..Len(arrivedOK)}
          \cup {call[t].m.tag : t \in {u \in Thread : call[u] # NULL /\ call[u].op = "send"}}
Next ==
  \/ \E t \in Thread :
       \/ \E m \in MsgSet, r \in {"ok", "wait", "ErrClosed", "ErrProtoOp", "ErrNoPeers"} : m.tag \notin Used /\ SendCall(t, m, r)
       \/ \E r \in {"ok", "ErrClosed", "ErrNoPeers", "ErrSendTimeout"} : SendDone(t, r)
       \/ \E r \in {"wait", "ErrProtoOp"} : RecvCall(t, r)
       \/ recvQ # <<>> /\ RecvTake(t, Head(recvQ))
       \/ \E r \in {"ErrClosed", "ErrRecvTimeout"} : RecvFail(t, r)
  \/ \E p \in Pipe :
       \/ SenderTake(p) \/ XmitStart(p) \/ (\E ok \in BOOLEAN : XmitEnd(p, ok)) \/ Requeue(p) \/ LingerTake(p) \/ LingerExit(p)
       \/ \E m \in MsgSet : m.tag \notin Used /\ PeerMsg(p, [tag |-> m.tag, short |-> FALSE, zeros |-> TRUE, h |-> 0, n |-> 1, avail |-> 1])
       \/ Push(p) \/ Abandon(p)
       \/ (\E ok \in BOOLEAN : AddPipe(p, ok)) \/ RemovePipe(p)
  \/ Schedule
  \/ \E r \in {"ok", "ErrClosed"} : SockClose(r)
Spec == Init /\ [][Next]_vars

-----------------------------------------------------------------------------
(* Properties *)
Range(s) == {s[i] : i \in 1..Len(s)}
Tags(s) == {s[i].tag : i \in 1..Len(s)}
\* nothing is invented: whatever reaches a transport was accepted by Send (or, xstar, arrived from a peer)
HandedWasAccepted ==
  \A i \in 1..Len(handed) : handed[i][1] \in Tags(accepted) \/ (Proto = "xstar" /\ \E j \in 1..Len(arrivedOK) : arrivedOK[j][1] = handed[i][1])
\* C02: never duplicated - a message goes to at most one pipe (PAIR, PUSH, REQ raw), at most once per pipe (broadcast)
NoDuplicate ==
  \A i, j \in 1..Len(handed) : (i # j /\ handed[i][1] = handed[j][1]) =>
     (SendKind = "bcast" /\ handed[i][2] # handed[j][2])
\* C02: messages sharing a connection keep the sender's order
RECURSIVE IsSubseq(_, _)
IsSubseq(a, b) == IF a = <<>> THEN TRUE ELSE IF b = <<>> THEN FALSE
                  ELSE IF Head(a) = Head(b) THEN IsSubseq(Tail(a), Tail(b)) ELSE IsSubseq(a, Tail(b))
OnPipe(p) == SelectSeq(handed, LAMBDA h : h[2] = p)
AcceptedTags == [i \in 1..Len(accepted) |-> accepted[i].tag]
PerPipeOrder ==
  Proto # "xstar" => \A p \in Pipe : IsSubseq([i \in 1..Len(OnPipe(p)) |-> OnPipe(p)[i][1]], AcceptedTags)
\* C08: BUS never sends a message back to the pipe it came from
NoEcho == \A i \in 1..Len(handed) : \A k \in 1..Len(accepted) :
            (accepted[k].tag = handed[i][1] /\ accepted[k].skip # NULL) => handed[i][2] # accepted[k].skip
\* STAR never forwards a message to the pipe it arrived on
NoEchoStar == Proto = "xstar" => \A i \in 1..Len(handed) : \A j \in 1..Len(arrivedOK) :
            arrivedOK[j][1] = handed[i][1] => arrivedOK[j][2] # handed[i][2]
\* a routed reply only goes to the pipe its header names
RoutedRight == SendKind = "routed" => \A i \in 1..Len(handed) : \A k \in 1..Len(accepted) :
            accepted[k].tag = handed[i][1] => accepted[k].to = handed[i][2]
\* Recv returns arrived messages, in arrival order, none twice
\* (per connection: receivers of different pipes race for the queue)
ArrivedOn(p) == LET a == SelectSeq(arrivedOK, LAMBDA x : x[2] = p) IN [i \in 1..Len(a) |-> a[i][1]]
DeliveredArrived ==
  /\ \A p \in Pipe : IsSubseq(SelectSeq(delivered, LAMBDA tg : \E i \in 1..Len(arrivedOK) : arrivedOK[i] = <<tg, p>>), ArrivedOn(p))
  /\ \A i, j \in 1..Len(delivered) : i # j => delivered[i] # delivered[j]
  /\ \A i \in 1..Len(delivered) : \E j \in 1..Len(arrivedOK) : arrivedOK[j][1] = delivered[i]
\* PAIR has at most one peer
AtMostOnePeer == SinglePeer => Cardinality(pipes) <= 1
\* the scheduler never hands a busy pipe a second message
ReadyNotBusy == \A i \in 1..Len(readyQ) : txHold[readyQ[i]] = NULL /\ readyQ[i] \in pipes
ReadyDistinct == \A i, j \in 1..Len(readyQ) : i # j => readyQ[i] # readyQ[j]
QueuesBounded == /\ Len(sendQ) <= opt.sq /\ \A p \in Pipe : Len(psendQ[p]) <= opt.sq
                 /\ Len(recvQ) <= IF opt.rq = 0 THEN 1 ELSE opt.rq
CloseUnblocks == \A t \in Thread : (call[t] # NULL /\ sclosed /\ ~(call[t].op = "send" /\ SendKind = "routed")) => (SendReady(t) \/ RecvReady(t))

\* C02: Send completes whenever a connected peer is able to take the message, for every accepted
\* queue length.  Checked at quiescence (no internal step enabled): no Send may still be blocked
\* while the queue is empty and a connected pipe is idle (for PUSH: ready).
StuckSend ==
  /\ SendKind \in {"shared", "sched"}
  /\ \E t \in Thread : call[t] # NULL /\ call[t].op = "send"
  /\ sendQ = <<>>
  /\ \E p \in pipes : txHold[p] = NULL /\ ~pclosed[p] /\ (SendKind = "sched" => \E i \in 1..Len(readyQ) : readyQ[i] = p)
NoStuckSend == ~CanInternal => ~StuckSend

\* Corollary the burst driver relies on: when nothing can move, no call is in progress and no transport send
\* is outstanding, every accepted message has left the queues of the connected pipes - so what was handed to
\* the transports is exactly what was accepted: once each (shared / sched / routed), once per pipe (bcast)
NothingHeld == \A p \in Pipe : txHold[p] = NULL
AtRest == ~CanInternal /\ NothingHeld /\ \A t \in Thread : call[t] = NULL
AllHandedAtRest ==
  (AtRest /\ ~sclosed /\ pipes # {}) =>
     /\ SendKind = "shared" => sendQ = <<>>
     /\ (SendKind = "sched" /\ readyQ # <<>>) => sendQ = <<>>      \* (a pipe whose transport send failed is not ready again: it is on its way out)
     /\ SendKind \in {"bcast", "routed"} => \A p \in pipes : psendQ[p] = <<>>

\* C02 liveness (checked under FairSpec on small constants): a blocked Send completes when a
\* connected peer is able to take the message
Fairness ==
  /\ \A p \in Pipe : WF_vars(SenderTake(p)) /\ WF_vars(XmitStart(p)) /\ WF_vars(XmitEnd(p, TRUE)) /\ WF_vars(Requeue(p)) /\ WF_vars(LingerExit(p))
  /\ WF_vars(Schedule)
  /\ \A t \in Thread : WF_vars(\E r \in {"ok", "ErrClosed", "ErrNoPeers", "ErrSendTimeout"} : SendDone(t, r))
FairSpec == Spec /\ Fairness
\* a Send that is waiting returns, or the socket has no usable peer left (the peers take what they are sent: XmitEnd(p, TRUE)
\* is fair; connections coming, going and failing, deadlines and Close are the environment's and are not).  A PUSH
\* connection whose transport send failed is not ready again: it is on its way out (the core removes it).
NoUsablePeer == \A p \in pipes : pclosed[p] \/ (SendKind = "sched" /\ txHold[p] = NULL /\ \A i \in 1..Len(readyQ) : readyQ[i] # p)
SendCompletes == \A t \in Thread : (call[t] # NULL /\ call[t].op = "send") ~> (call[t] = NULL \/ NoUsablePeer)
\* what Send accepted is handed to a connection, or the socket has no usable peer / is closed
AcceptedHandedOn == \A i \in 1..3 :
   (Len(accepted) >= i /\ SendKind \in {"shared", "sched"}) ~> (sclosed \/ NoUsablePeer \/ (Len(accepted) >= i /\ \E j \in 1..Len(handed) : handed[j][1] = accepted[i].tag))
=============================================================================
