------------------------------- MODULE Options -------------------------------
(***************************************************************************)
(* The uniform option contract of mangos (C19) as a state machine per       *)
(* (object, option name):                                                   *)
(*                                                                         *)
(*   - an object either supports an option or it does not.  Unsupported:   *)
(*     SetOption fails with ErrBadOption for EVERY value, and GetOption     *)
(*     fails with ErrBadOption (a read-only option: Get succeeds, Set is    *)
(*     ErrBadOption for every value).                                       *)
(*   - supported: a value of the wrong type or outside the range the        *)
(*     option accepts fails with ErrBadValue and changes nothing; a valid   *)
(*     value is accepted or - where the documentation leaves it open -      *)
(*     refused with ErrBadValue, consistently; an accepted value is what    *)
(*     Get then returns.                                                    *)
(*   - no other outcome exists (in particular no panic).                    *)
(*                                                                         *)
(* What "valid" means is a property of the option NAME (its documented type *)
(* and range, options.go), not of the object: the table below.  Which       *)
(* objects support which option is not tabulated: it is learnt from the     *)
(* first observation and every later observation on the same (object, name) *)
(* must be consistent with it.                                              *)
(***************************************************************************)
EXTENDS Integers, Sequences, TLC

\* value classes the drivers use
Classes == {"dur0", "dur1", "durbig", "durneg", "int0", "int1", "int8", "int255", "int256", "intbig", "intneg",
            "true", "false", "str", "bytes", "nil", "tls", "float"}

\* documented type and range per option name: the classes that are valid values
Durations == {"RECV-DEADLINE", "SEND-DEADLINE", "RETRY-TIME", "SURVEY-TIME", "RECONNECT-TIME", "MAX-RECONNECT-TIME", "KEEPALIVETIME", "LINGER"}
QLens == {"WRITEQ-LEN", "READQ-LEN"}
Bools == {"BEST-EFFORT", "FAIL-NO-PEERS", "DIAL-ASYNCH", "NO-DELAY", "KEEPALIVE", "WEBSOCKET-CHECKORIGIN"}
ValidSet(name) ==
  CASE name \in Durations -> {"dur0", "dur1", "durbig"}
    [] name \in QLens -> {"int0", "int1", "int8", "int255", "int256", "intbig"}
    [] name = "MAX-RCV-SIZE" -> {"int0", "int1", "int8", "int255", "int256", "intbig"}
    [] name = "TTL" -> {"int1", "int8", "int255"}
    [] name \in Bools -> {"true", "false"}
    [] name \in {"SUBSCRIBE", "UNSUBSCRIBE"} -> {"str", "bytes"}
    [] name = "TLS-CONFIG" -> {"tls"}
    [] OTHER -> {}
\* classes whose acceptance the documentation leaves open (either outcome, but never a crash and
\* never ErrBadOption on an object that supports the option)
OpenSet(name) ==
  CASE name \in Durations -> {"durneg"}                 \* a negative duration
    [] name = "TLS-CONFIG" -> {"nil"}
    [] OTHER -> {}
\* where an object refuses a value that is valid for the option in general: REP and RESPONDENT (socket and contexts)
\* want positive send / receive deadlines (they cannot be switched off again); UNSUBSCRIBE of a topic that is not
\* subscribed
Narrowed(o, n, cls) ==
  \/ n \in {"RECV-DEADLINE", "SEND-DEADLINE"} /\ cls = "dur0" /\ o \in {"sock-rep", "ctx-rep", "sock-respondent", "ctx-respondent"}
  \/ n = "UNSUBSCRIBE"
\* names that exist only for reading
ReadOnly == {"RAW", "LOCAL-ADDR", "REMOTE-ADDR", "TLS-STATE", "HTTP-REQUEST", "PEER-PID", "PEER-UID", "PEER-GID", "PEER-ZONE",
             "WEBSOCKET-MUX", "WEBSOCKET-HANDLER"}
Documented == Durations \cup QLens \cup Bools \cup ReadOnly \cup {"MAX-RCV-SIZE", "TTL", "SUBSCRIBE", "UNSUBSCRIBE", "TLS-CONFIG"}

\* Dialers and pipes answer GetOption for options they do not have themselves by asking the endpoint /
\* socket they belong to (documented read-through): on them an option may be readable without being settable.
ReadThrough(o) == \E i \in 1..Len(o) : SubSeq(o, 1, i) \in {"dialer-", "pipe-"}

VARIABLES sup,     \* per (object, name): "?" | "rw" | "no" | "ro" | "r?" (readable, settable not yet known)
          val      \* per (object, name): class of the value last accepted, or "none"

vars == <<sup, val>>

\* SetOption(o, n, class) returned r
Set(o, n, cls, r) ==
  LET k == <<o, n>>
      s == IF k \in DOMAIN sup THEN sup[k] ELSE "?" IN
  /\ r \in {"ok", "ErrBadOption", "ErrBadValue"}                          \* nothing else, never a panic
  /\ n \notin Documented => r = "ErrBadOption"                            \* arbitrary names are unsupported everywhere
  /\ CASE r = "ok" ->
            /\ cls \in ValidSet(n) \cup OpenSet(n)                        \* a wrong-type / out-of-range value is never accepted
            /\ s \in {"?", "rw", "r?"}
            /\ sup' = [x \in DOMAIN sup \cup {k} |-> IF x = k THEN "rw" ELSE sup[x]]
            /\ val' = [x \in DOMAIN val \cup {k} |-> IF x = k THEN cls ELSE val[x]]
       [] r = "ErrBadValue" ->
            \* the option is supported but this value is refused: a value outside the documented type and range - or
            \* one of the listed places where an object narrows the range (Narrowed).  Every other valid value of a
            \* supported option is accepted: in particular a zero duration (= no limit) and a maximum below a minimum.
            /\ cls \notin ValidSet(n) \/ Narrowed(o, n, cls)
            /\ s \in {"?", "rw", "r?"}
            /\ sup' = [x \in DOMAIN sup \cup {k} |-> IF x = k THEN "rw" ELSE sup[x]]
            /\ UNCHANGED val
       [] r = "ErrBadOption" ->
            /\ s \in {"?", "no", "ro", "r?"}                               \* not after it was accepted or refused as a value
            /\ sup' = [x \in DOMAIN sup \cup {k} |-> IF x = k THEN (IF s \in {"ro", "r?"} THEN "ro" ELSE "no") ELSE sup[x]]
            /\ UNCHANGED val

\* GetOption(o, n) returned r; same = the value equals the one last accepted (when one was)
Get(o, n, r, same) ==
  LET k == <<o, n>>
      s == IF k \in DOMAIN sup THEN sup[k] ELSE "?" IN
  /\ r \in {"ok", "ErrBadOption", "ErrBadProperty"}
  /\ n \notin Documented => r # "ok"
  /\ CASE r = "ok" ->
            /\ s \in {"?", "rw", "ro", "no", "r?"}
            \* readable: either a read-write option or a read-only one (then every Set was / will be ErrBadOption)
            /\ (s = "no") => (n \in ReadOnly \/ ReadThrough(o))
            /\ (k \in DOMAIN val /\ val[k] # "none") => same
            /\ sup' = [x \in DOMAIN sup \cup {k} |->
                         IF x = k THEN (IF s \in {"?", "no"} /\ n \in ReadOnly THEN "ro"
                                        ELSE IF s = "no" THEN "ro"
                                        ELSE IF s = "?" THEN (IF ReadThrough(o) THEN "r?" ELSE "rw") ELSE s)
                         ELSE sup[x]]
            /\ UNCHANGED val
       [] OTHER ->
            \* not readable: must not be an option that accepted a value (write-only SUBSCRIBE / UNSUBSCRIBE excepted)
            /\ (s = "rw") => n \in {"SUBSCRIBE", "UNSUBSCRIBE"}
            /\ UNCHANGED vars

Init == sup = <<>> /\ val = <<>>
Next == \E o \in {"o1"}, n \in {"TTL", "READQ-LEN", "nonsense"}, c \in {"int0", "int1", "int256", "str"}, r \in {"ok", "ErrBadOption", "ErrBadValue"} :
           Set(o, n, c, r) \/ Get(o, n, r, TRUE)
Spec == Init /\ [][Next]_vars

\* consistency: what was accepted was valid; unsupported options never hold a value
AcceptedValid == \A k \in DOMAIN val : val[k] = "none" \/ val[k] \in ValidSet(k[2]) \cup OpenSet(k[2])
NoValueIfUnsupported == \A k \in DOMAIN val : k \in DOMAIN sup /\ sup[k] = "rw"
=============================================================================
