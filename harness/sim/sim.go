// Package sim runs one scenario against the real library inside a
// testing/synctest bubble: virtual time, exact quiescence, goroutine census.
package sim

import (
	"fmt"
	"regexp"
	"runtime"
	"strings"
	"sync"
	"syscall"
	"testing"
	"testing/synctest"
	"time"

	"verifharness/rec"
	"verifharness/vt"
)

// S is the scenario context handed to a driver body.
type S struct {
	T       *testing.T
	Rec     *rec.Recorder
	Net     *vt.Net
	wg      sync.WaitGroup
	mu      sync.Mutex
	pending map[string]bool
}

// Result is what happened.
type Result struct {
	Lines  []rec.Ev
	Status string // ok | hang | leak | panic
	Detail string
}

// Run executes body in a fresh bubble. A scenario that does not finish in
// timeout of real time is reported as "hang" with a goroutine dump (the
// bubble is abandoned). Goroutines left blocked at the end are "leak".
func Run(t *testing.T, timeout time.Duration, body func(s *S)) Result {
	var res Result
	done := make(chan struct{})
	var s *S
	var smu sync.Mutex
	go func() {
		defer close(done)
		defer func() {
			if r := recover(); r != nil {
				msg := fmt.Sprint(r)
				if strings.Contains(msg, "blocked goroutines remain") {
					res.Status = "leak"
				} else {
					res.Status = "panic"
					buf := make([]byte, 1<<16)
					n := runtime.Stack(buf, false)
					msg += "\n" + string(buf[:n])
				}
				res.Detail = msg
			}
		}()
		synctest.Test(t, func(t *testing.T) {
			r := rec.New()
			n := vt.NewNet(r)
			defer n.Release()
			smu.Lock()
			s = &S{T: t, Rec: r, Net: n, pending: map[string]bool{}}
			smu.Unlock()
			body(s)
		})
		res.Status = "ok"
	}()
	// A scenario takes milliseconds.  One that is not done after `timeout` of real time is a hang
	// if a library goroutine of this process is parked on a mutex (the bubble can then never become
	// idle); otherwise the machine is just slow and it gets a much longer grace period.
	dump := func() string {
		buf := make([]byte, 4<<20)
		n := runtime.Stack(buf, true)
		return string(buf[:n])
	}
	cpu0 := cpuTime()
	select {
	case <-done:
	case <-time.After(timeout):
		d := FilterStacks(dump())
		if strings.Contains(d, "sync.Mutex.Lock") || strings.Contains(d, "sync.RWMutex") {
			res.Status, res.Detail = "hang", d
			break
		}
		// ... or if this process has been computing all the while (a goroutine going round a loop that never
		// blocks - a select on a closed channel, say - keeps the bubble from ever becoming idle): a starved process
		// has not used a processor for most of the timeout, a spinning one has
		if used := cpuTime() - cpu0; used >= timeout*8/10 {
			res.Status, res.Detail = "hang", fmt.Sprintf("the process used %v of processor time in %v without the scenario finishing: a goroutine is spinning\n%s", used, timeout, d)
			break
		}
		select {
		case <-done:
		case <-time.After(12 * timeout):
			res.Status, res.Detail = "hang", FilterStacks(dump())
		}
	}
	smu.Lock()
	if s != nil {
		res.Lines = s.Rec.Lines()
	}
	smu.Unlock()
	return res
}

// cpuTime is the processor time (user + system) this process has used so far.
func cpuTime() time.Duration {
	var ru syscall.Rusage
	if syscall.Getrusage(syscall.RUSAGE_SELF, &ru) != nil {
		return 0
	}
	return time.Duration(ru.Utime.Nano() + ru.Stime.Nano())
}

// Q waits for quiescence (every goroutine of the bubble durably blocked)
// and records it.
func (s *S) Q() {
	synctest.Wait()
	s.Rec.Emit("q")
}

// Wait waits for quiescence without recording.
func (s *S) Wait() { synctest.Wait() }

// Adv advances virtual time by d, lets everything that became runnable
// finish, and records the new time.
func (s *S) Adv(d time.Duration) {
	time.Sleep(d)
	synctest.Wait()
	s.Rec.Emit("adv")
}

// Call runs fn as API call op on object o by client thread th, in its own
// goroutine; it records the call and, when fn returns, the result.  fn
// returns the extra fields of the ret event.
func (s *S) Call(th, op, o string, args []interface{}, fn func() []interface{}) {
	s.callKind("call", th, op, o, args, fn)
}

// CallC is Call for calls issued at the same moment as others (no quiescence
// in between): the event kind is "callc" - the order of these lines says
// nothing about the order in which the calls take effect.
func (s *S) CallC(th, op, o string, args []interface{}, fn func() []interface{}) {
	s.callKind("callc", th, op, o, args, fn)
}

// PCall is a prepared API call for SerialC.
type PCall struct {
	Op, O string
	Args  []interface{}
	Fn    func() []interface{}
}

// SerialC runs the prepared calls one after the other on client thread th, in
// one goroutine of its own, each recorded as callc / ret by that goroutine
// (so several threads started together really overlap).  start, when not nil,
// is waited for before the first call.
func (s *S) SerialC(th string, calls []PCall, start <-chan struct{}) {
	s.SerialK("callc", th, calls, start)
}

// SerialK is SerialC with the event kind of the call lines given ("call": the calls follow one another in
// one goroutine without quiescence in between, and each starts after the previous one has returned).
func (s *S) SerialK(kind, th string, calls []PCall, start <-chan struct{}) {
	s.mu.Lock()
	s.pending[th] = true
	s.mu.Unlock()
	s.wg.Add(1)
	go func() {
		defer s.wg.Done()
		if start != nil {
			<-start
		}
		for _, c := range calls {
			s.Rec.Emit(kind, append([]interface{}{"th", th, "op", c.Op, "o", c.O}, c.Args...)...)
			out := c.Fn()
			s.Rec.Emit("ret", append([]interface{}{"th", th, "op", c.Op, "o", c.O}, out...)...)
		}
		s.mu.Lock()
		delete(s.pending, th)
		s.mu.Unlock()
	}()
}

func (s *S) callKind(kind, th, op, o string, args []interface{}, fn func() []interface{}) {
	kv := append([]interface{}{"th", th, "op", op, "o", o}, args...)
	s.mu.Lock()
	s.pending[th] = true
	s.mu.Unlock()
	s.Rec.Emit(kind, kv...)
	s.wg.Add(1)
	go func() {
		defer s.wg.Done()
		out := fn()
		s.Rec.Emit("ret", append([]interface{}{"th", th, "op", op, "o", o}, out...)...)
		s.mu.Lock()
		delete(s.pending, th)
		s.mu.Unlock()
	}()
}

// Thread returns the name of a client thread that has no call in progress
// (the lowest numbered one), so that traces use a small fixed set of names.
func (s *S) Thread() string {
	s.mu.Lock()
	defer s.mu.Unlock()
	for i := 1; ; i++ {
		n := fmt.Sprintf("T%d", i)
		if !s.pending[n] {
			return n
		}
	}
}

// Busy reports whether client thread th has a call in progress.
func (s *S) Busy(th string) bool {
	s.mu.Lock()
	defer s.mu.Unlock()
	return s.pending[th]
}

// Pending lists the threads with a call in progress.
func (s *S) Pending() []string {
	s.mu.Lock()
	defer s.mu.Unlock()
	var r []string
	for k := range s.pending {
		r = append(r, k)
	}
	return r
}

var reGo = regexp.MustCompile(`(?m)^goroutine (\d+) \[([^\]]*)\]:\n([^\n]*)`)

// Census lists the goroutines of the current bubble other than the caller,
// as "state @ top function".
func Census() []string {
	buf := make([]byte, 1<<20)
	n := runtime.Stack(buf, true)
	blks := strings.Split(string(buf[:n]), "\n\n")
	// the caller's bubble (goroutines abandoned in an earlier, hung bubble do not count)
	mine := ""
	for _, blk := range blks {
		m := reGo.FindStringSubmatch(blk)
		if m != nil && strings.HasPrefix(m[2], "running") {
			if i := strings.Index(m[2], "synctest bubble"); i >= 0 {
				mine = strings.TrimSpace(m[2][i:])
			}
		}
	}
	var out []string
	for _, blk := range blks {
		m := reGo.FindStringSubmatch(blk)
		if m == nil || mine == "" || !strings.HasSuffix(strings.TrimSpace(m[2]), mine) {
			continue
		}
		if strings.HasPrefix(m[2], "running") || strings.HasPrefix(m[2], "synctest.Run") {
			continue
		}
		fn := firstMangosFrame(blk)
		if strings.Contains(fn, "testingSynctestTest") {
			continue
		}
		out = append(out, m[2][:strings.Index(m[2]+",", ",")]+" @ "+fn)
	}
	return out
}

func firstMangosFrame(blk string) string {
	lines := strings.Split(blk, "\n")
	top := ""
	for i := 1; i < len(lines); i += 2 {
		l := lines[i]
		if top == "" {
			top = l
		}
		if strings.Contains(l, "go.nanomsg.org/mangos") {
			if j := strings.LastIndex(l, "("); j > 0 {
				l = l[:j]
			}
			return strings.TrimPrefix(l, "go.nanomsg.org/mangos/v3/")
		}
	}
	if j := strings.LastIndex(top, "("); j > 0 {
		top = top[:j]
	}
	return top
}

// FilterStacks keeps the goroutines that have a mangos frame.
func FilterStacks(all string) string {
	var keep []string
	for _, blk := range strings.Split(all, "\n\n") {
		if strings.Contains(blk, "go.nanomsg.org/mangos") {
			keep = append(keep, blk)
		}
	}
	return strings.Join(keep, "\n\n")
}

// Stacks returns the stacks of all goroutines.
func Stacks() string {
	buf := make([]byte, 8<<20)
	n := runtime.Stack(buf, true)
	return string(buf[:n])
}
