package harness

import (
	"os"
	"sync/atomic"

	"go.nanomsg.org/mangos/v3"

	"verifharness/rec"
	"verifharness/sim"
)

// Application-side ownership markers for the message ledger (C17).  They are
// emitted only while a ledger is installed (TestMsg); otherwise these are
// plain NewMessage / Free / SendMsg.

var ledgerOn atomic.Bool

func ledgerWanted() bool { return os.Getenv("VERIF_LEDGER") == "1" }

// withLedger routes the library's message ledger into the scenario's recorder.
func withLedger(r *rec.Recorder) func() {
	if !ledgerWanted() {
		// no ledger lines wanted: an empty ledger still makes the library overwrite header and body of every
		// message at its last Free, so that anybody holding on to a released buffer reads garbage
		mangos.VerifSetMsgLedger(func(mangos.VerifMsgEvent) {})
		return func() { mangos.VerifSetMsgLedger(nil) }
	}
	mangos.VerifSetMsgLedger(func(e mangos.VerifMsgEvent) {
		r.Emit("m", "op", e.Op, "s", e.Serial, "ref", int(e.Ref), "len", e.Len, "cap", e.Cap, "hl", e.HLen)
	})
	ledgerOn.Store(true)
	return func() {
		ledgerOn.Store(false)
		mangos.VerifSetMsgLedger(nil)
	}
}

func appNew(s *sim.S, n int) *mangos.Message {
	m := mangos.NewMessage(n)
	if ledgerOn.Load() {
		s.Rec.Emit("a", "op", "new", "s", mangos.VerifMsgSerial(m), "len", len(m.Body), "cap", cap(m.Body), "want", n)
	}
	return m
}

func appGot(s *sim.S, m *mangos.Message) {
	if ledgerOn.Load() {
		s.Rec.Emit("a", "op", "got", "s", mangos.VerifMsgSerial(m))
	}
}

func appFree(s *sim.S, m *mangos.Message) {
	if ledgerOn.Load() {
		s.Rec.Emit("a", "op", "free", "s", mangos.VerifMsgSerial(m))
	}
	m.Free()
}

// appSend hands m to send; on failure the message must still be the caller's, body intact.
// hdrMatters (optional) says that the header is the caller's business too: raw REP / RESPONDENT sockets route by
// it and restore it when a Send fails, so that the message can be sent again.
func appSend(s *sim.S, m *mangos.Message, send func(*mangos.Message) error, hdrMatters ...bool) error {
	if !ledgerOn.Load() {
		withHdr := len(hdrMatters) > 0 && hdrMatters[0]
		sum := func() string {
			if withHdr {
				return digest(m.Header) + digest(m.Body)
			}
			return digest(m.Body)
		}
		before := sum()
		err := send(m)
		if err != nil {
			// a failed Send leaves the message with the caller: the body as it was, and - where the header is the
			// caller's - the header as it was
			if sum() != before {
				s.Rec.Emit("sendfailchanged", "r", err, "hl", len(m.Header), "len", len(m.Body))
			}
			m.Free()
		}
		return err
	}
	ser := mangos.VerifMsgSerial(m)
	before := digest(m.Body)
	s.Rec.Emit("a", "op", "send", "s", ser)
	err := send(m)
	if err == nil {
		s.Rec.Emit("a", "op", "sendok", "s", ser)
		return nil
	}
	s.Rec.Emit("a", "op", "sendfail", "s", ser, "intact", digest(m.Body) == before, "now", mangos.VerifMsgSerial(m))
	appFree(s, m)
	return err
}
