package harness

import (
	"os"
	"sync/atomic"

	"go.nanomsg.org/mangos/v3"

	"verifharness/rec"
	"verifharness/sim"
)

// Application-side ownership markers for the message ledger (C17).  They are
// emitted only while a ledger is installed (TestMsg); otherwise these are
// plain NewMessage / Free / SendMsg.

var ledgerOn atomic.Bool

func ledgerWanted() bool { return os.Getenv("VERIF_LEDGER") == "1" }

// withLedger routes the library's message ledger into the scenario's recorder.
func withLedger(r *rec.Recorder) func() {
	if !ledgerWanted() {
		// no ledger lines wanted: an empty ledger still makes the library overwrite header and body of every
		// message at its last Free, so that anybody holding on to a released buffer reads garbage
		mangos.VerifSetMsgLedger(func(mangos.VerifMsgEvent) {})
		return func() { mangos.VerifSetMsgLedger(nil) }
	}
	mangos.VerifSetMsgLedger(func(e mangos.VerifMsgEvent) {
		r.Emit("m", "op", e.Op, "s", e.Serial, "ref", int(e.Ref), "len", e.Len, "cap", e.Cap, "hl", e.HLen)
	})
	ledgerOn.Store(true)
	return func() {
		ledgerOn.Store(false)
		mangos.VerifSetMsgLedger(nil)
	}
}

func appNew(s *sim.S, n int) *mangos.Message {
	m := mangos.NewMessage(n)
	if ledgerOn.Load() {
		s.Rec.Emit("a", "op", "new", "s", mangos.VerifMsgSerial(m), "len", len(m.Body), "cap", cap(m.Body), "want", n)
	}
	return m
}

func appGot(s *sim.S, m *mangos.Message) {
	if ledgerOn.Load() {
		s.Rec.Emit("a", "op", "got", "s", mangos.VerifMsgSerial(m))
	}
}

func appFree(s *sim.S, m *mangos.Message) {
	if ledgerOn.Load() {
		s.Rec.Emit("a", "op", "free", "s", mangos.VerifMsgSerial(m))
	}
	m.Free()
}

// appSend hands m to send; on failure the message must still be the caller's, body intact.
func appSend(s *sim.S, m *mangos.Message, send func(*mangos.Message) error) error {
	if !ledgerOn.Load() {
		hadHdr := len(m.Header) > 0
		before := digest(m.Header) + digest(m.Body)
		err := send(m)
		if err != nil {
			// a failed Send leaves the message with the caller: the body as it was, and so the header the caller
			// put there (raw sockets; a cooked socket writes its own header and may have begun to)
			now := digest(m.Header) + digest(m.Body)
			if !hadHdr {
				now = digest(nil) + digest(m.Body)
			}
			if now != before {
				s.Rec.Emit("sendfailchanged", "r", err, "hl", len(m.Header), "len", len(m.Body))
			}
			m.Free()
		}
		return err
	}
	ser := mangos.VerifMsgSerial(m)
	before := digest(m.Body)
	s.Rec.Emit("a", "op", "send", "s", ser)
	err := send(m)
	if err == nil {
		s.Rec.Emit("a", "op", "sendok", "s", ser)
		return nil
	}
	s.Rec.Emit("a", "op", "sendfail", "s", ser, "intact", digest(m.Body) == before, "now", mangos.VerifMsgSerial(m))
	appFree(s, m)
	return err
}
