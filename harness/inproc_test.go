package harness

import (
	"encoding/json"
	"fmt"
	"math/rand"
	"os"
	"strings"
	"sync"
	"testing"
	"time"

	"go.nanomsg.org/mangos/v3"
	"go.nanomsg.org/mangos/v3/protocol/pair"
	"go.nanomsg.org/mangos/v3/protocol/rep"
	"go.nanomsg.org/mangos/v3/protocol/req"
	"go.nanomsg.org/mangos/v3/transport"
	"go.nanomsg.org/mangos/v3/transport/inproc"

	"verifharness/rec"
	"verifharness/sim"
)

// ---------------------------------------------------------------------------
// The inproc transport driven through its Transport / TranListener / TranDialer
// interface (no core socket in between) in a bubble: Listen, Accept, Dial and
// Close in scripted and random orders, blocked calls left pending; every made
// connection says who it is so that the pairing is observed.  Validated against
// spec/Inproc.tla (C10, C12, C13).  Names follow the convention fixed in
// TraceInproc.tla (which listener / dialer is on which address, with which
// protocol).

func inprocAddrOf(x string) string {
	switch x {
	case "l3", "d4", "d8", "d12":
		return "a2"
	}
	return "a1"
}

func runInproc(t *testing.T, steps []string, scn int) sim.Result {
	return sim.Run(t, 30*time.Second, func(s *sim.S) {
		mk := func(name string) mangos.Socket {
			var sk mangos.Socket
			switch name {
			case "l2":
				sk, _ = rep.NewSocket()
			case "d3", "d7", "d11":
				sk, _ = req.NewSocket()
			default:
				sk, _ = pair.NewSocket()
			}
			return sk
		}
		var socks []mangos.Socket
		url := func(x string) string { return fmt.Sprintf("inproc://vf-%d-%s", scn, inprocAddrOf(x)) }
		lst := map[string]transport.Listener{}
		getL := func(name string) transport.Listener {
			if l := lst[name]; l != nil {
				return l
			}
			sk := mk(name)
			socks = append(socks, sk)
			l, err := inproc.Transport.NewListener(url(name), sk)
			must(err)
			lst[name] = l
			return l
		}
		var pipes []transport.Pipe
		var pmu sync.Mutex
		keep := func(p transport.Pipe) { pmu.Lock(); pipes = append(pipes, p); pmu.Unlock() }
		nd, nt := 0, 0
		for _, st := range steps {
			var op, arg string
			fmt.Sscanf(st, "%s %s", &op, &arg)
			switch op {
			case "listen":
				l := getL(arg)
				s.Rec.Emit("ilisten", "l", arg, "r", l.Listen())
			case "accept":
				if nt >= 12 {
					continue
				}
				nt++
				th := fmt.Sprintf("t%d", nt)
				l := getL(arg)
				s.Rec.Emit("iacccall", "th", th, "l", arg)
				go func() {
					p, err := l.Accept()
					peer := "none"
					if err == nil {
						keep(p)
						if m, err := p.Recv(); err == nil { // the dialer says who it is
							peer = string(m.Body)
							m.Free()
						}
					}
					s.Rec.Emit("iaccret", "th", th, "r", err, "peer", peer)
				}()
			case "dial":
				// arg: the dialer name to use (its address and protocol follow from the name)
				nd++
				name := arg
				sk := mk(name)
				socks = append(socks, sk)
				d, err := inproc.Transport.NewDialer(url(name), sk)
				must(err)
				s.Rec.Emit("idialcall", "d", name)
				go func() {
					p, err := d.Dial()
					if err == nil {
						keep(p)
						m := mangos.NewMessage(8)
						m.Body = append(m.Body, name...)
						go func() { _ = p.Send(m) }()
					}
					s.Rec.Emit("idialret", "d", name, "r", err)
				}()
			case "close":
				if l := lst[arg]; l != nil {
					s.Rec.Emit("iclose", "l", arg)
					_ = l.Close()
				}
			}
			s.Wait()
			s.Rec.Emit("q")
		}
		// the end: every listener goes away; whoever still waits must come back
		for name, l := range lst {
			s.Rec.Emit("iclose", "l", name)
			_ = l.Close()
			s.Wait()
		}
		s.Wait()
		s.Rec.Emit("q")
		s.Rec.SetSilent(true)
		for _, p := range pipes {
			_ = p.Close()
		}
		for _, sk := range socks {
			_ = sk.Close()
		}
		time.Sleep(time.Second)
		s.Wait()
	})
}

func TestInproc(t *testing.T) {
	out := newOut(t, "inproc")
	defer out.Close()
	rng := rand.New(rand.NewSource(seed() + 9))
	k := 0
	polluted := false // the transport's table is global: after a scenario that left a goroutine in it no other can be trusted
	add := func(steps []string) {
		if polluted || out.Stop() {
			return
		}
		k++
		label := fmt.Sprintf("inproc-%d", k)
		res := runInproc(t, steps, k)
		if res.Status != "ok" {
			polluted = true
		}
		out.Add(label, rec.Ev{"label": label}, fmt.Sprint(steps), res)
	}
	if f := os.Getenv("VERIF_SCN_FILE"); f != "" {
		// scenarios TLC generated from spec/mc/MC_InprocScn.tla
		data, err := os.ReadFile(f)
		if err != nil {
			panic(err)
		}
		var all [][]string
		for _, ln := range strings.Split(string(data), "\n") {
			if strings.TrimSpace(ln) == "" {
				continue
			}
			var x struct {
				Steps []string `json:"steps"`
			}
			if err := json.Unmarshal([]byte(ln), &x); err != nil {
				panic(err)
			}
			all = append(all, x.Steps)
		}
		rng.Shuffle(len(all), func(i, j int) { all[i], all[j] = all[j], all[i] })
		if n := count(300, 1000000); n < len(all) {
			all = all[:n]
		}
		for _, st := range all {
			if out.Stop() {
				break
			}
			add(st)
		}
		return
	}
	add([]string{"dial d1", "listen l1", "accept l1", "dial d2", "dial d5", "accept l1", "accept l1", "close l1"})
	add([]string{"listen l1", "listen l4", "close l4", "accept l1", "dial d1", "close l1", "listen l4", "accept l4", "dial d2"}) // address in use, freed, taken over
	add([]string{"listen l1", "dial d1", "dial d2", "close l1"})                                                                 // dialers waiting when the listener goes
	add([]string{"listen l1", "accept l1", "accept l1", "close l1", "accept l1", "listen l1"})                                   // waiting accepts fail; a closed listener stays closed
	add([]string{"listen l2", "dial d1", "dial d3", "accept l2", "listen l3", "dial d4", "accept l3"})                           // protocol mismatch; two addresses
	add([]string{"accept l1", "listen l1", "accept l1", "dial d1"})                                                              // accept before listen
	n := count(60, 800)
	for i := 0; i < n; i++ {
		var steps []string
		used := map[string]bool{}
		m := 4 + rng.Intn(12)
		for j := 0; j < m; j++ {
			switch rng.Intn(9) {
			case 0, 1:
				steps = append(steps, "listen "+[]string{"l1", "l2", "l3", "l4"}[rng.Intn(4)])
			case 2, 3, 4:
				steps = append(steps, "accept "+[]string{"l1", "l2", "l3", "l4"}[rng.Intn(4)])
			case 5, 6, 7:
				d := fmt.Sprintf("d%d", 1+rng.Intn(12))
				if !used[d] {
					used[d] = true
					steps = append(steps, "dial "+d)
				}
			default:
				steps = append(steps, "close "+[]string{"l1", "l2", "l3", "l4"}[rng.Intn(4)])
			}
		}
		add(steps)
	}
}
