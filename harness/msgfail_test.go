package harness

import (
	"testing"
	"time"

	"go.nanomsg.org/mangos/v3"
	"go.nanomsg.org/mangos/v3/protocol"
	"go.nanomsg.org/mangos/v3/protocol/rep"
	"go.nanomsg.org/mangos/v3/protocol/req"
	"go.nanomsg.org/mangos/v3/protocol/respondent"
	"go.nanomsg.org/mangos/v3/protocol/sub"
	"go.nanomsg.org/mangos/v3/protocol/surveyor"

	"verifharness/sim"
)

// Sends that fail, with a message the application shares (it holds two references: it took a second one to send the
// message twice), on every pattern, under the ledger (C17: "Send ... on failure leaves the message, body intact, with
// the caller"; Msg.tla AppSendFail: when Send returns an error the reference that went with the call is the caller's
// again - the library has released nothing and holds nothing).  The failures: no peer within the send deadline,
// fail-no-peers, a reply without a request, a closed context, a closed socket.
func msgFailScenarios(t *testing.T, add func(string, sim.Result)) {
	type mkSock struct {
		name string
		mk   func() protocol.Protocol
	}
	var socks []mkSock
	for _, p := range rawProtos {
		socks = append(socks, mkSock{p.name, p.mk})
	}
	socks = append(socks, mkSock{"req", req.NewProtocol}, mkSock{"rep", rep.NewProtocol}, mkSock{"surveyor", surveyor.NewProtocol},
		mkSock{"respondent", respondent.NewProtocol}, mkSock{"sub", sub.NewProtocol})
	for _, sp := range socks {
		sp := sp
		res := sim.Run(t, 20*time.Second, func(s *sim.S) {
			defer withLedger(s.Rec)()
			sk := protocol.MakeSocket(sp.mk())
			_ = sk.SetOption(mangos.OptionSendDeadline, time.Millisecond)
			_ = sk.SetOption(mangos.OptionRetryTime, time.Duration(0))
			twice := func(fn func(*mangos.Message) error, hdr []byte) {
				m := appNew(s, 16)
				m.Header = append(m.Header, hdr...)
				m.Body = append(m.Body, "shared-"+sp.name...)
				m.Clone()
				for k := 0; k < 2; k++ {
					_ = appSend(s, m, fn)
					s.Wait()
				}
				time.Sleep(10 * time.Millisecond)
				s.Wait()
			}
			hdrs := [][]byte{nil, {0, 0, 0, 0}, {0x80, 0, 0, 1}, {0, 0, 0, 9, 0x80, 0, 0, 1}}
			for _, h := range hdrs {
				twice(sk.SendMsg, h)
			}
			_ = sk.SetOption(mangos.OptionFailNoPeers, true)
			twice(sk.SendMsg, nil)
			if c, err := sk.OpenContext(); err == nil {
				_ = c.SetOption(mangos.OptionSendDeadline, time.Millisecond)
				twice(c.SendMsg, nil)
				_ = c.Close()
				twice(c.SendMsg, nil)
			}
			_ = sk.Close()
			for _, h := range hdrs {
				twice(sk.SendMsg, h)
			}
			time.Sleep(time.Second)
		})
		add("sendfail-"+sp.name, res)
	}
}
