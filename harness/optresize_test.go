package harness

import (
	"fmt"
	"math/rand"
	"testing"
	"time"

	"go.nanomsg.org/mangos/v3"
	"go.nanomsg.org/mangos/v3/protocol"

	"verifharness/hx"
	"verifharness/rec"
	"verifharness/sim"
	"verifharness/vt"
)

// TestOptResize (C19): changing a queue length never disconnects a peer - also when the pipe's receiver
// is holding a message because the receive queue is full, and when senders are queued.
func TestOptResize(t *testing.T) {
	out := newOut(t, "optresize")
	defer out.Close()
	for _, p := range rawProtos {
		for _, opt := range []string{mangos.OptionReadQLen, mangos.OptionWriteQLen} {
			p, opt := p, opt
			var supported bool
			res := sim.Run(t, 10*time.Second, func(s *sim.S) {
				sock := protocol.MakeSocket(&hx.RecProto{Protocol: p.mk(), Rec: s.Rec, Early: true})
				detached := 0
				hx.Hook(sock, s.Rec, func(ev, name string, pp mangos.Pipe) {
					if ev == "detached" {
						detached++
					}
				})
				if err := sock.SetOption(opt, 1); err != nil {
					return // this pattern has no such queue
				}
				supported = true
				_ = sock.SetOption(mangos.OptionSendDeadline, time.Millisecond)
				_ = sock.SetOption(mangos.OptionRecvDeadline, time.Millisecond)
				c := &rawScn{s: s, cfg: rawCfg{P: p, TTL: 8, SQ: 1, RQ: 1}, sock: sock, ids: hx.NewIDMap(), rng: rand.New(rand.NewSource(1)), pipes: map[string]*vt.Pipe{}}
				l, err := sock.NewListener(s.Net.Addr("l1"), nil)
				if err != nil {
					panic(err)
				}
				if err = l.Listen(); err != nil {
					panic(err)
				}
				p1 := s.Net.NewPipe("p1")
				p1.SetQuiet(true)
				s.Net.Listener("l1").Offer(p1)
				s.Wait()
				detached = 0
				// fill the receive side: more peer messages than the queue holds (the receiver ends up holding one)
				for i := 0; i < 4; i++ {
					p1.Inject(c.mkInject("ok"))
				}
				// and the send side
				for i := 0; i < 3; i++ {
					hdr, body, _, _, _, _ := c.mkSend("ok")
					m := mangos.NewMessage(len(body))
					m.Header = append(m.Header, hdr...)
					m.Body = append(m.Body, body...)
					if err := sock.SendMsg(m); err != nil {
						m.Free()
					}
				}
				s.Wait()
				for _, n := range []int{4, 0, 2, 1} {
					if err := sock.SetOption(opt, n); err != nil {
						panic(err)
					}
					s.Wait()
				}
				time.Sleep(10 * time.Millisecond)
				s.Wait()
				// still attached and working?
				alive := !p1.IsClosed()
				s.Rec.Emit("oresize", "proto", p.name, "name", opt, "detached", detached > 0, "alive", alive)
				_ = sock.Close()
				time.Sleep(time.Second)
				s.Wait()
			})
			if !supported {
				continue
			}
			var keep []rec.Ev
			for _, e := range res.Lines {
				if e["k"] == "oresize" {
					keep = append(keep, e)
				}
			}
			res.Lines = keep
			out.Add(fmt.Sprintf("resize-%s-%s", p.name, opt), rec.Ev{"label": p.name + " " + opt}, p.name+" "+opt, res)
		}
	}
}
