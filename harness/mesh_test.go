package harness

import (
	"encoding/json"
	"fmt"
	"math/rand"
	"os"
	"regexp"
	"strconv"
	"strings"
	"sync"
	"testing"
	"time"

	"go.nanomsg.org/mangos/v3"
	"go.nanomsg.org/mangos/v3/protocol/bus"
	"go.nanomsg.org/mangos/v3/protocol/star"
	"go.nanomsg.org/mangos/v3/protocol/xbus"

	"verifharness/rec"
	"verifharness/sim"
	"verifharness/vt"
)

// ---------------------------------------------------------------------------
// BUS / STAR topologies as a whole (C08): every member is a real cooked socket
// with a sending and a receiving application goroutine, hubs are raw BUS
// sockets with a loop-back mangos.Device; connections are linked virtual pipes
// in one bubble.  Recorded: every application Send / Recv (tagged payloads
// origin.seq) and every transport send on every connection (payload, hop
// byte).  Validated against spec/Mesh.tla.

type meshCfg struct {
	bridge bool // hubs are application-level bridges (two raw sockets, clone and send on both) instead of loop-back devices
	kind   string
	n      int
	edges  [][2]int
	hubs   []int
	ttl    []int
	nmsgs  int
}

var meshPipeRe = regexp.MustCompile(`^e(\d+)_(\d+)$`)

func runMesh(t *testing.T, c meshCfg) sim.Result {
	res := sim.Run(t, 60*time.Second, func(s *sim.S) {
		isStar := c.kind == "star"
		s.Net.Decode = func(dir string, b []byte) []interface{} {
			if isStar && len(b) >= 4 {
				return []interface{}{"p", string(b[4:]), "h", int(b[3]), "h0", int(b[0]) | int(b[1]) | int(b[2])}
			}
			return []interface{}{"p", string(b), "h", 0, "h0", 0}
		}
		hub := map[int]bool{}
		for _, h := range c.hubs {
			hub[h] = true
		}
		var both [][2]int
		for _, e := range c.edges {
			both = append(both, e, [2]int{e[1], e[0]})
		}
		hubs := c.hubs
		if hubs == nil {
			hubs = []int{}
		}
		s.Rec.Emit("mcfg", "kind", c.kind, "n", c.n, "edges", both, "ttl", c.ttl, "hubs", hubs)
		s.Rec.SetSilent(true)
		socks := make([]mangos.Socket, c.n+1)
		socks2 := make([]mangos.Socket, c.n+1) // second raw socket of a bridge
		for a := 1; a <= c.n; a++ {
			var err error
			switch {
			case hub[a]:
				socks[a], err = xbus.NewSocket()
			case isStar:
				socks[a], err = star.NewSocket()
			default:
				socks[a], err = bus.NewSocket()
			}
			must(err)
			if isStar {
				must(socks[a].SetOption(mangos.OptionTTL, c.ttl[a-1]))
			}
			_ = socks[a].SetOption(mangos.OptionRecvDeadline, 200*time.Millisecond)
			must(socks[a].Listen(s.Net.Addr(fmt.Sprintf("n%d", a))))
			if hub[a] && !c.bridge {
				must(mangos.Device(socks[a], socks[a]))
			}
			if hub[a] && c.bridge {
				socks2[a], err = xbus.NewSocket()
				must(err)
				_ = socks2[a].SetOption(mangos.OptionRecvDeadline, 200*time.Millisecond)
				must(socks2[a].Listen(s.Net.Addr(fmt.Sprintf("n%db", a))))
			}
		}
		side := map[int]int{} // bridges put their neighbours alternately on the two buses
		lname := func(a int) string {
			if hub[a] && c.bridge {
				side[a]++
				if side[a]%2 == 0 {
					return fmt.Sprintf("n%db", a)
				}
			}
			return fmt.Sprintf("n%d", a)
		}
		for _, e := range c.edges {
			pa := s.Net.NewPipe(fmt.Sprintf("e%d_%d", e[0], e[1]))
			pb := s.Net.NewPipe(fmt.Sprintf("e%d_%d", e[1], e[0]))
			vt.Link(pa, pb, 64)
			s.Net.Listener(lname(e[0])).Offer(pa)
			s.Net.Listener(lname(e[1])).Offer(pb)
		}
		s.Wait()
		s.Rec.SetSilent(false)
		var mu sync.Mutex
		stop := false
		stopped := func() bool { mu.Lock(); defer mu.Unlock(); return stop }
		var rwg, swg sync.WaitGroup
		for a := 1; a <= c.n; a++ {
			if hub[a] && c.bridge {
				// the bridge application: what arrives on one bus is re-sent, as the same (shared) message,
				// first on the other bus, then on the bus it came from
				for _, pr := range [][2]mangos.Socket{{socks[a], socks2[a]}, {socks2[a], socks[a]}} {
					from, other := pr[0], pr[1]
					rwg.Add(1)
					go func() {
						defer rwg.Done()
						for !stopped() {
							m, err := from.RecvMsg()
							if err != nil {
								continue
							}
							m.Clone()
							if err := other.SendMsg(m); err != nil {
								m.Free()
							}
							if err := from.SendMsg(m); err != nil {
								m.Free()
							}
						}
					}()
				}
			}
			if hub[a] {
				continue
			}
			a := a
			rwg.Add(1)
			go func() {
				defer rwg.Done()
				for !stopped() {
					if b, err := socks[a].Recv(); err == nil {
						s.Rec.Emit("mrecv", "a", a, "p", string(b))
					}
				}
			}()
			swg.Add(1)
			go func() {
				defer swg.Done()
				for k := 1; k <= c.nmsgs; k++ {
					p := fmt.Sprintf("%d.%d", a, k)
					s.Rec.Emit("msend", "a", a, "p", p)
					if err := socks[a].Send([]byte(p)); err != nil {
						s.Rec.Emit("msenderr", "a", a, "r", err)
					}
				}
			}()
		}
		swg.Wait()
		s.Wait()
		s.Rec.Emit("q")
		time.Sleep(time.Second)
		s.Wait()
		s.Rec.Emit("final")
		mu.Lock()
		stop = true
		mu.Unlock()
		s.Rec.SetSilent(true)
		for a := 1; a <= c.n; a++ {
			_ = socks[a].Close()
			if socks2[a] != nil {
				_ = socks2[a].Close()
			}
		}
		rwg.Wait()
		time.Sleep(2 * time.Second)
		s.Wait()
	})
	var keep []rec.Ev
	for _, e := range res.Lines {
		switch e["k"] {
		case "mcfg", "msend", "mrecv", "q", "final", "msenderr":
			keep = append(keep, e)
		case "xs":
			m := meshPipeRe.FindStringSubmatch(fmt.Sprint(e["o"]))
			if m == nil {
				continue
			}
			a, _ := strconv.Atoi(m[1])
			b, _ := strconv.Atoi(m[2])
			h := e["h"]
			if e["h0"] != 0 {
				h = -1 // the three leading header bytes must be zero
			}
			keep = append(keep, rec.Ev{"k": "xs", "i": e["i"], "t": e["t"], "a": a, "b": b, "p": e["p"], "h": h})
		}
	}
	res.Lines = keep
	return res
}

// meshFromTLC turns a configuration printed by MC_MeshScn.tla into a driver configuration
func meshFromTLC(steps []string) meshCfg {
	var c meshCfg
	ints := func(f []string) []int {
		var v []int
		for _, x := range f {
			n, err := strconv.Atoi(x)
			if err != nil {
				panic(fmt.Sprint("bad mesh scenario ", steps))
			}
			v = append(v, n)
		}
		return v
	}
	for _, st := range steps {
		f := strings.Fields(st)
		switch f[0] {
		case "kind":
			c.kind = f[1]
		case "n":
			c.n = ints(f[1:])[0]
		case "edge":
			v := ints(f[1:])
			c.edges = append(c.edges, [2]int{v[0], v[1]})
		case "ttl":
			c.ttl = ints(f[1:])
		case "hubs":
			c.hubs = ints(f[1:])
		case "bridge":
			c.bridge = true
		case "device":
		default:
			panic(fmt.Sprint("bad mesh scenario ", steps))
		}
	}
	if c.n < 2 || len(c.ttl) != c.n || len(c.edges) == 0 {
		panic(fmt.Sprint("bad mesh scenario ", steps))
	}
	return c
}

func TestMesh(t *testing.T) {
	out := newOut(t, "mesh")
	defer out.Close()
	rng := rand.New(rand.NewSource(seed() + 17))
	n := 0
	add := func(c meshCfg) {
		n++
		label := fmt.Sprintf("mesh-%s-%d-e%v-h%v-br%v-ttl%v", c.kind, n, c.edges, c.hubs, c.bridge, c.ttl)
		out.Add(label, rec.Ev{"label": label}, label, runMesh(t, c))
	}
	eights := func(n int) []int {
		v := make([]int, n)
		for i := range v {
			v[i] = 8
		}
		return v
	}
	line := func(n int) [][2]int {
		var e [][2]int
		for i := 1; i < n; i++ {
			e = append(e, [2]int{i, i + 1})
		}
		return e
	}
	hubAnd := func(n int) [][2]int { // node 1 in the middle
		var e [][2]int
		for i := 2; i <= n; i++ {
			e = append(e, [2]int{1, i})
		}
		return e
	}
	full := func(n int) [][2]int {
		var e [][2]int
		for i := 1; i <= n; i++ {
			for j := i + 1; j <= n; j++ {
				e = append(e, [2]int{i, j})
			}
		}
		return e
	}
	randTree := func(n int) [][2]int {
		var e [][2]int
		for i := 2; i <= n; i++ {
			e = append(e, [2]int{1 + rng.Intn(i-1), i})
		}
		return e
	}
	if f := os.Getenv("VERIF_SCN_FILE"); f != "" {
		// configurations TLC enumerated from spec/mc/MC_MeshScn.tla
		data, err := os.ReadFile(f)
		if err != nil {
			panic(err)
		}
		var all []meshCfg
		for _, ln := range strings.Split(string(data), "\n") {
			if strings.TrimSpace(ln) == "" {
				continue
			}
			var x struct {
				Steps []string `json:"steps"`
			}
			if err := json.Unmarshal([]byte(ln), &x); err != nil {
				panic(err)
			}
			all = append(all, meshFromTLC(x.Steps))
		}
		rng.Shuffle(len(all), func(i, j int) { all[i], all[j] = all[j], all[i] })
		if n := count(120, 1000000); n < len(all) {
			all = all[:n]
		}
		for _, c := range all {
			if out.Stop() {
				break
			}
			c.nmsgs = 1 + rng.Intn(2)
			add(c)
		}
		return
	}
	reps := count(1, 6)
	for r := 0; r < reps; r++ {
		// BUS: full meshes, chains, hubs
		for k := 2; k <= 5; k++ {
			add(meshCfg{kind: "bus", n: k, edges: full(k), ttl: eights(k), nmsgs: 1 + rng.Intn(3)})
			add(meshCfg{kind: "bus", n: k, edges: line(k), ttl: eights(k), nmsgs: 1 + rng.Intn(3)})
			if k >= 3 {
				add(meshCfg{kind: "bus", n: k, edges: hubAnd(k), hubs: []int{1}, ttl: eights(k), nmsgs: 1 + rng.Intn(3)})
				add(meshCfg{kind: "bus", n: k + 1, edges: hubAnd(k + 1), hubs: []int{1}, bridge: true, ttl: eights(k + 1), nmsgs: 1 + rng.Intn(3)})
			}
		}
		// two hubs in a row with members on both
		add(meshCfg{kind: "bus", n: 6, edges: [][2]int{{1, 2}, {1, 3}, {1, 4}, {2, 5}, {2, 6}}, hubs: []int{1, 2}, ttl: eights(6), nmsgs: 2})
		// STAR: stars, chains, random trees, with TTLs around the distances
		for k := 2; k <= 5; k++ {
			add(meshCfg{kind: "star", n: k, edges: hubAnd(k), ttl: eights(k), nmsgs: 1 + rng.Intn(3)})
			add(meshCfg{kind: "star", n: k, edges: line(k), ttl: eights(k), nmsgs: 1 + rng.Intn(3)})
			tt := make([]int, k)
			for i := range tt {
				tt[i] = 1 + rng.Intn(k)
			}
			add(meshCfg{kind: "star", n: k, edges: line(k), ttl: tt, nmsgs: 1 + rng.Intn(2)})
			tt2 := make([]int, k+1)
			for i := range tt2 {
				tt2[i] = 1 + rng.Intn(4)
			}
			add(meshCfg{kind: "star", n: k + 1, edges: randTree(k + 1), ttl: tt2, nmsgs: 1 + rng.Intn(2)})
		}
	}
}
