// Package hx holds helpers shared by the conformance drivers: the recording
// protocol wrapper, the scripted pipe event hook and name lookup for pipes.
package hx

import (
	"sync"

	"go.nanomsg.org/mangos/v3"
	"go.nanomsg.org/mangos/v3/protocol"

	"verifharness/rec"
)

// PipeName returns the virtual transport name of a pipe ("" if unknown).
func PipeName(p interface{}) string {
	g, ok := p.(interface {
		GetOption(string) (interface{}, error)
	})
	if !ok {
		return ""
	}
	v, err := g.GetOption("vt-name")
	if err != nil {
		return ""
	}
	s, _ := v.(string)
	return s
}

// RecProto wraps a protocol and records what the core tells it.
type RecProto struct {
	protocol.Protocol
	Rec *rec.Recorder
	// Refuse, when set, is consulted before the inner protocol: true
	// refuses the pipe with ErrProtoState without telling the inner one.
	Refuse func(name string) bool
	// InAdd, when set, runs after the inner AddPipe accepted the pipe and
	// before AddPipe returns to the core (still inside pipe.lock).
	InAdd func(name string)
	// Early records the arrival before calling the wrapped protocol (and the verdict after it).
	Early bool
	mu    sync.Mutex
	// Ctxs are the protocol level contexts opened through the socket, in order.
	Ctxs []protocol.Context
}

// OpenContext records the protocol context the core is about to wrap.
func (r *RecProto) OpenContext() (protocol.Context, error) {
	c, err := r.Protocol.OpenContext()
	if err == nil {
		r.mu.Lock()
		r.Ctxs = append(r.Ctxs, c)
		r.mu.Unlock()
	}
	return c, err
}

func (r *RecProto) AddPipe(p protocol.Pipe) error {
	name := PipeName(p)
	if r.Refuse != nil && r.Refuse(name) {
		r.Rec.Emit("padd", "p", name, "r", "refuse", "id", int(p.ID()))
		return protocol.ErrProtoState
	}
	if r.Early {
		// The protocol's AddPipe may start goroutines that reach the transport
		// before it returns: the arrival is recorded first, the verdict after.
		r.Rec.Emit("padd", "p", name, "r", "?", "id", int(p.ID()))
		err := r.Protocol.AddPipe(p)
		r.Rec.Emit("paddres", "p", name, "r", err)
		return err
	}
	err := r.Protocol.AddPipe(p)
	if err != nil {
		r.Rec.Emit("padd", "p", name, "r", "refuse", "id", int(p.ID()))
		return err
	}
	r.Rec.Emit("padd", "p", name, "r", "ok", "id", int(p.ID()))
	if r.InAdd != nil {
		r.InAdd(name)
	}
	return nil
}

func (r *RecProto) RemovePipe(p protocol.Pipe) {
	r.Rec.Emit("prem", "p", PipeName(p), "id", int(p.ID()))
	r.Protocol.RemovePipe(p)
}

// Stub is a minimal protocol: admits every pipe and drains it.
type Stub struct {
	mu     sync.Mutex
	closed bool
}

func (s *Stub) Info() protocol.Info {
	return protocol.Info{Self: 0x7770, Peer: 0x7770, SelfName: "stub", PeerName: "stub"}
}
func (s *Stub) AddPipe(p protocol.Pipe) error {
	s.mu.Lock()
	defer s.mu.Unlock()
	if s.closed {
		return protocol.ErrClosed
	}
	go func() {
		for {
			m := p.RecvMsg()
			if m == nil {
				return
			}
			m.Free()
		}
	}()
	return nil
}
func (s *Stub) RemovePipe(protocol.Pipe)               {}
func (s *Stub) Close() error                           { s.mu.Lock(); s.closed = true; s.mu.Unlock(); return nil }
func (s *Stub) SendMsg(*protocol.Message) error        { return protocol.ErrProtoOp }
func (s *Stub) RecvMsg() (*protocol.Message, error)    { return nil, protocol.ErrProtoOp }
func (s *Stub) GetOption(string) (interface{}, error)  { return nil, protocol.ErrBadOption }
func (s *Stub) SetOption(string, interface{}) error    { return protocol.ErrBadOption }
func (s *Stub) OpenContext() (protocol.Context, error) { return nil, protocol.ErrProtoOp }

// Hook installs a recording pipe event hook on sock.  script(ev, name, p)
// runs inside the callback after the event was recorded.
func Hook(sock mangos.Socket, r *rec.Recorder, script func(ev string, name string, p mangos.Pipe)) {
	sock.SetPipeEventHook(func(ev mangos.PipeEvent, p mangos.Pipe) {
		name := PipeName(p)
		evs := [...]string{"attaching", "attached", "detached"}[ev]
		id := p.ID()
		ep := ""
		if p.Dialer() != nil {
			ep = "d"
		}
		if p.Listener() != nil {
			ep += "l"
		}
		r.Emit("hook", "ev", evs, "p", name, "id", int(id), "inuse", protocol.VerifIDInUse(id),
			"idok", id != 0 && id < 0x80000000, "ep", ep, "addr", p.Address())
		if script != nil {
			script(evs, name, p)
		}
		r.Emit("hookret", "ev", evs, "p", name)
	})
}

// IDMap is a concurrency-safe pipe id <-> name table (pipe event hooks run on several goroutines).
type IDMap struct {
	mu   sync.Mutex
	name map[uint32]string
	id   map[string]uint32
}

// NewIDMap returns an empty table.
func NewIDMap() *IDMap { return &IDMap{name: map[uint32]string{}, id: map[string]uint32{}} }

// Set records that pipe id is called name.
func (m *IDMap) Set(id uint32, name string) {
	m.mu.Lock()
	m.name[id] = name
	m.id[name] = id
	m.mu.Unlock()
}

// Name returns the name of id ("" if unknown).
func (m *IDMap) Name(id uint32) string { m.mu.Lock(); defer m.mu.Unlock(); return m.name[id] }

// Has reports whether id is known.
func (m *IDMap) Has(id uint32) bool { m.mu.Lock(); defer m.mu.Unlock(); _, ok := m.name[id]; return ok }

// ID returns the id of name and whether it is known.
func (m *IDMap) ID(name string) (uint32, bool) {
	m.mu.Lock()
	defer m.mu.Unlock()
	v, ok := m.id[name]
	return v, ok
}

// BaseIDs remembers the pipe ids in use before a scenario starts (leftovers of hung scenarios).
func BaseIDs() map[uint32]bool {
	b := map[uint32]bool{}
	for _, id := range protocol.VerifIDsInUse() {
		b[id] = true
	}
	return b
}

// Final records what is still reserved after everything was closed and every timer ran out:
// pipe ids in use (beyond base) and pipes still listed by the socket.
func Final(r *rec.Recorder, sock mangos.Socket, base map[uint32]bool) {
	ids := 0
	for _, id := range protocol.VerifIDsInUse() {
		if !base[id] {
			ids++
		}
	}
	r.Emit("final", "ids", ids, "listed", len(protocol.VerifSocketPipes(sock)))
}
