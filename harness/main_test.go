// Package harness holds the conformance drivers.  Each TestXxx drives the
// real library (built from /repo's working tree with -tags verif) through
// many scenarios and writes the recorded traces as NDJSON under $VERIF_OUT;
// /verif/run.py then has TLC validate them against the TLA+ specifications.
package harness

import (
	"encoding/json"
	"math/rand"
	"os"
	"strconv"
	"sync"
	"testing"

	"verifharness/rec"
	"verifharness/sim"
)

func seed() int64 {
	if v, err := strconv.ParseInt(os.Getenv("VERIF_SEED"), 10, 64); err == nil {
		return v
	}
	return 1
}

func thorough() bool { return os.Getenv("VERIF_TIER") == "thorough" }

// count picks the number of generated scenarios for the tier.
func count(quick, thor int) int {
	if v, err := strconv.Atoi(os.Getenv("VERIF_N")); err == nil && v > 0 {
		return v
	}
	if thorough() {
		return thor
	}
	return quick
}

type outStatus struct {
	Label  string `json:"label"`
	Status string `json:"status"`
	Detail string `json:"detail,omitempty"`
	Desc   string `json:"desc"`
	Events int    `json:"events"`
}

// out collects the traces of one driver.
type out struct {
	t    *testing.T
	name string
	dir  string
	sink *rec.Sink
	mu   sync.Mutex
	st   []outStatus
	bad  int
}

func newOut(t *testing.T, name string) *out {
	dir := os.Getenv("VERIF_OUT")
	if dir == "" {
		dir = t.TempDir()
	}
	s, err := rec.NewSink(dir, name)
	if err != nil {
		t.Fatal(err)
	}
	return &out{t: t, name: name, dir: dir, sink: s}
}

// Add stores one scenario's trace and status.
func (o *out) Add(label string, cfg rec.Ev, desc string, res sim.Result) {
	lines := append(res.Lines, rec.Ev{"k": "end", "i": len(res.Lines) + 1, "t": 0, "status": res.Status})
	o.sink.Add(label, cfg, lines)
	o.mu.Lock()
	o.st = append(o.st, outStatus{Label: label, Status: res.Status, Detail: res.Detail, Desc: desc, Events: len(res.Lines)})
	if res.Status == "hang" || res.Status == "panic" {
		o.bad++
	}
	o.mu.Unlock()
	o.flushStatus()
}

// Stop reports that enough scenarios hung (each costs the real-time
// watchdog period) for the driver to give up on the rest.
func (o *out) Stop() bool {
	o.mu.Lock()
	defer o.mu.Unlock()
	return o.bad >= 3
}

func (o *out) flushStatus() {
	o.mu.Lock()
	defer o.mu.Unlock()
	b, _ := json.MarshalIndent(o.st, "", " ")
	_ = os.WriteFile(o.dir+"/"+o.name+".status.json", b, 0o644)
}

func (o *out) Close() {
	o.flushStatus()
	_ = o.sink.Close()
}

// closeMix turns a scenario into a Close-at-this-point scenario (C10): the socket is closed after a
// random prefix (with whatever calls are pending at that moment), then every kind of call is issued
// again - each must fail with a closed error (or the designated alternative) rather than block.
func closeMix(steps []string, rng *rand.Rand, follow []string) []string {
	if os.Getenv("VERIF_MIX") != "close" {
		return steps
	}
	cut := 0
	if len(steps) > 0 {
		cut = rng.Intn(len(steps) + 1)
	}
	out := append([]string{}, steps[:cut]...)
	// every other time a connection attempt is in progress when the socket is closed and completes afterwards
	// ("whatever was in progress at the time"): the closed protocol refuses what arrives (drivers that have no dialer
	// of this kind ignore the two steps)
	if rng.Intn(2) == 0 {
		at := rng.Intn(len(out) + 1)
		out = append(out[:at], append([]string{"predial"}, out[at:]...)...)
		out = append(out, "sclose", "ansconn")
	} else {
		out = append(out, "sclose")
	}
	out = append(out, follow...)
	return out
}
