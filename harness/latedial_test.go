package harness

import (
	"time"

	"go.nanomsg.org/mangos/v3"

	"verifharness/sim"
	"verifharness/vt"
)

// lateDial: an asynchronous dialer of the socket under test whose connection attempt stays in progress until the
// scenario answers it ("predial" ... "ansconn").  What arrives then is decided by the protocol in the state it is in by
// then: a protocol that has been closed meanwhile refuses the connection, so that nothing of a closed socket remains
// (C10); an open one takes it like any other connection.
type lateDial struct {
	d        mangos.Dialer
	answered int
}

func (ld *lateDial) predial(s *sim.S, sock mangos.Socket) {
	if ld.d != nil {
		return
	}
	d, err := sock.NewDialer(s.Net.Addr("d1"), map[string]interface{}{mangos.OptionDialAsynch: true,
		mangos.OptionReconnectTime: 5000 * time.Second, mangos.OptionMaxReconnectTime: time.Duration(0)})
	if err != nil {
		return // (the socket of this scenario is closed already: no dialer, no attempt)
	}
	ld.d = d
	_ = d.Dial()
}

func (ld *lateDial) pending(s *sim.S) bool {
	td := s.Net.Dialer("d1")
	return td != nil && td.Dials > ld.answered
}

func (ld *lateDial) answer(s *sim.S, p *vt.Pipe) {
	ld.answered++
	s.Net.Dialer("d1").Answer(p, nil)
}

// finish ends an attempt that is still in progress when the scenario is over (the socket has been closed).
func (ld *lateDial) finish(s *sim.S) {
	if ld.pending(s) {
		ld.answered++
		s.Net.Dialer("d1").Answer(nil, mangos.ErrClosed)
	}
}
