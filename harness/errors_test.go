package harness

import (
	"crypto/tls"
	"fmt"
	"net"
	"os"
	"sync"
	"testing"
	"time"

	"go.nanomsg.org/mangos/v3"
	"go.nanomsg.org/mangos/v3/protocol/pair"
	"go.nanomsg.org/mangos/v3/protocol/rep"
	"go.nanomsg.org/mangos/v3/protocol/req"
	mtest "go.nanomsg.org/mangos/v3/test"

	"verifharness/rec"
	"verifharness/sim"
)

// ---------------------------------------------------------------------------
// Error outcomes followed by further calls on the same object (C12, dynamic
// part, real transports): whatever an API call returned, the next call on the
// same socket / dialer / listener completes; a failed Listen or Dial can be
// corrected and retried; rejecting or losing a connection at any stage does
// not stop a listener from accepting or a dialer from redialling.  Every
// call runs under a watchdog; "hung" is what the static model predicts for a
// lock left held.

type errScn struct {
	r *rec.Recorder
}

// call runs fn under a watchdog and records result and whether it hung.
func (e *errScn) call(obj, op string, want []string, fn func() error) bool {
	done := make(chan error, 1)
	go func() { done <- fn() }()
	select {
	case err := <-done:
		e.r.Emit("ecall", "obj", obj, "op", op, "r", err, "hung", false, "want", want)
		return true
	case <-time.After(3 * time.Second):
		e.r.Emit("ecall", "obj", obj, "op", op, "r", "hung", "hung", true, "want", want)
		return false
	}
}

func TestErrorsReal(t *testing.T) {
	out := newOut(t, "errors")
	defer out.Close()
	ok := []string{"ok"}
	run := func(label string, body func(e *errScn)) {
		r := rec.New()
		status, detail := "ok", ""
		func() {
			defer func() {
				if x := recover(); x != nil {
					status, detail = "panic", fmt.Sprint(x)
				}
			}()
			body(&errScn{r})
		}()
		out.Add("errors-"+label, rec.Ev{"label": label}, label, sim.Result{Lines: r.Lines(), Status: status, Detail: detail})
	}

	// --- TLS listener and dialer without / with incomplete configuration, then corrected
	run("tls-listener", func(e *errScn) {
		s, _ := pair.NewSocket()
		defer s.Close()
		l, err := s.NewListener("tls+tcp://127.0.0.1:0", nil)
		if err != nil {
			panic(err)
		}
		e.call("l", "listen-noconfig", []string{"ErrTLSNoConfig"}, l.Listen)
		e.call("l", "getopt", []string{"ok", "ErrBadOption", "ErrBadProperty"}, func() error { _, err := l.GetOption(mangos.OptionMaxRecvSize); return err })
		e.call("l", "setopt-empty", []string{"ok"}, func() error { return l.SetOption(mangos.OptionTLSConfig, &tls.Config{}) })
		e.call("l", "listen-nocert", []string{"ErrTLSNoCert"}, l.Listen)
		cfg, _ := mtest.GetTLSConfig(true)
		e.call("l", "setopt-good", ok, func() error { return l.SetOption(mangos.OptionTLSConfig, cfg) })
		e.call("l", "listen-fixed", ok, l.Listen)
		e.call("l", "listen-again", []string{"ErrAddrInUse"}, l.Listen)
		e.call("l", "close", ok, l.Close)
		e.call("l", "close-again", []string{"ErrClosed"}, l.Close)
		e.call("l", "listen-closed", []string{"ErrClosed"}, l.Listen)
	})
	run("tls-dialer", func(e *errScn) {
		s, _ := pair.NewSocket()
		defer s.Close()
		d, err := s.NewDialer("tls+tcp://127.0.0.1:9", nil)
		if err != nil {
			panic(err)
		}
		e.call("d", "dial-noconfig", []string{"ErrTLSNoConfig", "ErrConnRefused", "Err:"}, d.Dial)
		ccfg, _ := mtest.GetTLSConfig(false)
		e.call("d", "setopt-good", ok, func() error { return d.SetOption(mangos.OptionTLSConfig, ccfg) })
		e.call("d", "getopt", []string{"ok"}, func() error { _, err := d.GetOption(mangos.OptionTLSConfig); return err })
		e.call("d", "dial-refused", []string{"ErrConnRefused", "Err:"}, d.Dial)
		e.call("d", "close", ok, d.Close)
	})
	// --- address in use, then the address is released and the same listener retries
	for _, tr := range realTrans() {
		tr := tr
		if tr.name == "inproc" || tr.name == "ipc" || tr.name == "tcp" {
			run("inuse-"+tr.name, func(e *errScn) {
				a, _ := pair.NewSocket()
				b, _ := pair.NewSocket()
				defer b.Close()
				la, err := a.NewListener(tr.addr(3000), nil)
				if err != nil {
					panic(err)
				}
				e.call("la", "listen", ok, la.Listen)
				lb, err := b.NewListener(la.Address(), nil)
				if err != nil {
					panic(err)
				}
				e.call("lb", "listen-inuse", []string{"ErrAddrInUse", "Err:"}, lb.Listen)
				e.call("lb", "getopt", []string{"ok", "ErrBadOption", "ErrBadProperty"}, func() error { _, err := lb.GetOption(mangos.OptionMaxRecvSize); return err })
				e.call("a", "close", ok, a.Close)
				time.Sleep(50 * time.Millisecond)
				e.call("lb", "listen-retry", ok, lb.Listen)
				// and it serves
				c, _ := pair.NewSocket()
				defer c.Close()
				_ = c.SetOption(mangos.OptionSendDeadline, 2*time.Second)
				_ = b.SetOption(mangos.OptionRecvDeadline, 2*time.Second)
				e.call("c", "dial", ok, func() error { return c.Dial(lb.Address()) })
				e.call("c", "send", ok, func() error { return c.Send([]byte("hi")) })
				e.call("b", "recv", ok, func() error { _, err := b.Recv(); return err })
			})
		}
	}
	// --- synchronous dial refused, then the listener appears and the same dialer retries
	for _, tn := range []string{"tcp", "ipc", "inproc"} {
		tn := tn
		run("dialretry-"+tn, func(e *errScn) {
			var addr string
			switch tn {
			case "tcp":
				nl, err := net.Listen("tcp", "127.0.0.1:0")
				if err != nil {
					panic(err)
				}
				addr = "tcp://" + nl.Addr().String()
				nl.Close()
			case "ipc":
				addr = fmt.Sprintf("ipc://%s/verif-e-%d.sock", os.TempDir(), os.Getpid())
			default:
				addr = fmt.Sprintf("inproc://verif-e-%d", os.Getpid())
			}
			c, _ := req.NewSocket()
			defer c.Close()
			_ = c.SetOption(mangos.OptionSendDeadline, 200*time.Millisecond)
			_ = c.SetOption(mangos.OptionRecvDeadline, 200*time.Millisecond)
			d, err := c.NewDialer(addr, nil)
			if err != nil {
				panic(err)
			}
			e.call("d", "dial-refused", []string{"ErrConnRefused", "Err:"}, d.Dial)
			e.call("c", "send-nopeer", []string{"ErrSendTimeout"}, func() error { return c.Send([]byte("q")) })
			e.call("c", "recv-nostate", []string{"ErrProtoState"}, func() error { _, err := c.Recv(); return err })
			s, _ := rep.NewSocket()
			defer s.Close()
			e.call("s", "listen", ok, func() error { return s.Listen(addr) })
			e.call("d", "dial-retry", ok, d.Dial)
			e.call("d", "dial-again", []string{"ErrAddrInUse"}, d.Dial)
			_ = c.SetOption(mangos.OptionSendDeadline, 2*time.Second)
			_ = c.SetOption(mangos.OptionRecvDeadline, 2*time.Second)
			_ = s.SetOption(mangos.OptionRecvDeadline, 2*time.Second)
			e.call("c", "send", ok, func() error { return c.Send([]byte("q")) })
			e.call("s", "recv", ok, func() error { _, err := s.Recv(); return err })
			e.call("s", "send", ok, func() error { return s.Send([]byte("a")) })
			e.call("c", "recv", ok, func() error { _, err := c.Recv(); return err })
			e.call("c", "recv-timeout", []string{"ErrProtoState"}, func() error { _, err := c.Recv(); return err })
		})
	}
	// --- connections lost or refused during the handshake do not stop the listener / the dialer
	for _, tn := range []string{"tcp", "ipc"} {
		tn := tn
		var tr realTran
		for _, x := range realTrans() {
			if x.name == tn {
				tr = x
			}
		}
		run("hsloss-listener-"+tn, func(e *errScn) {
			s, _ := rep.NewSocket()
			defer s.Close()
			_ = s.SetOption(mangos.OptionRecvDeadline, 2*time.Second)
			l, err := s.NewListener(tr.addr(3100), nil)
			if err != nil {
				panic(err)
			}
			e.call("l", "listen", ok, l.Listen)
			for _, how := range []string{"fin", "rst", "mismatch", "garbage"} {
				c, err := dialRaw(l.Address(), tn)
				if err != nil {
					panic(err)
				}
				_, _ = readN(c, 8, 2*time.Second)
				switch how {
				case "fin": // clean shutdown before sending a header
					if cw, ok := c.(interface{ CloseWrite() error }); ok {
						_ = cw.CloseWrite()
					}
					time.Sleep(30 * time.Millisecond)
				case "mismatch":
					_, _ = c.Write(goodHdr(0x10))
				case "garbage":
					_, _ = c.Write([]byte("GET / HTTP/1.0\r\n\r\n"))
				}
				c.Close()
				time.Sleep(30 * time.Millisecond)
				// a well-behaved client must still be served
				q, _ := req.NewSocket()
				_ = q.SetOption(mangos.OptionSendDeadline, 2*time.Second)
				e.call("q-"+how, "dial", ok, func() error { return q.Dial(l.Address()) })
				e.call("q-"+how, "send", ok, func() error { return q.Send([]byte(how)) })
				e.call("s", "recv-after-"+how, ok, func() error { _, err := s.Recv(); return err })
				q.Close()
			}
		})
		run("hsloss-dialer-"+tn, func(e *errScn) {
			var nl net.Listener
			var err error
			var addr string
			if tn == "tcp" {
				nl, err = net.Listen("tcp", "127.0.0.1:0")
				if err == nil {
					addr = "tcp://" + nl.Addr().String()
				}
			} else {
				p := fmt.Sprintf("%s/verif-h-%d.sock", os.TempDir(), os.Getpid())
				os.Remove(p)
				nl, err = net.Listen("unix", p)
				addr = "ipc://" + p
			}
			if err != nil {
				panic(err)
			}
			defer nl.Close()
			q, _ := req.NewSocket()
			defer q.Close()
			_ = q.SetOption(mangos.OptionReconnectTime, 20*time.Millisecond)
			_ = q.SetOption(mangos.OptionDialAsynch, true)
			e.call("q", "dial", ok, func() error { return q.Dial(addr) })
			// the server reads the header and goes away, three different ways; the dialer must come back each time
			for i, how := range []string{"fin", "mismatch", "close"} {
				_ = i
				accepted := make(chan net.Conn, 1)
				go func() { c, _ := nl.Accept(); accepted <- c }()
				select {
				case c := <-accepted:
					if c == nil {
						e.r.Emit("ecall", "obj", "q", "op", "redial-"+how, "r", "accept failed", "hung", false, "want", ok)
						continue
					}
					_, _ = readN(c, 8, 2*time.Second)
					if how == "mismatch" {
						_, _ = c.Write(goodHdr(0x10))
					}
					if how == "fin" {
						if cw, ok := c.(interface{ CloseWrite() error }); ok {
							_ = cw.CloseWrite()
						}
						time.Sleep(20 * time.Millisecond)
					}
					c.Close()
					e.r.Emit("ecall", "obj", "q", "op", "redial-"+how, "r", "ok", "hung", false, "want", ok)
				case <-time.After(3 * time.Second):
					e.r.Emit("ecall", "obj", "q", "op", "redial-"+how, "r", "no attempt", "hung", true, "want", ok)
				}
			}
		})
	}
	// --- a dial in progress to a server that accepted the connection and says nothing (no SP header): every other
	// call on the dialer and on the socket still completes, Close included
	for _, tn := range []string{"tcp", "ipc", "tls+tcp", "ws"} {
		run("silent-server-"+tn, func(e *errScn) {
			var nl net.Listener
			var err error
			var addr string
			if tn == "ipc" {
				p := fmt.Sprintf("%s/verif-s-%d.sock", os.TempDir(), os.Getpid())
				os.Remove(p)
				nl, err = net.Listen("unix", p)
				addr = "ipc://" + p
			} else {
				nl, err = net.Listen("tcp", "127.0.0.1:0")
				if err == nil {
					addr = tn + "://" + nl.Addr().String()
					if tn == "ws" {
						addr += "/x"
					}
				}
			}
			if err != nil {
				panic(err)
			}
			defer nl.Close()
			accepted := make(chan net.Conn, 4)
			go func() {
				for {
					c, err := nl.Accept()
					if err != nil {
						return
					}
					accepted <- c
				}
			}()
			q, _ := req.NewSocket()
			defer q.Close()
			_ = q.SetOption(mangos.OptionDialAsynch, true)
			_ = q.SetOption(mangos.OptionReconnectTime, 50*time.Millisecond)
			opts := map[string]interface{}{}
			if tn == "tls+tcp" {
				opts[mangos.OptionTLSConfig] = &tls.Config{InsecureSkipVerify: true}
			}
			d, err := q.NewDialer(addr, opts)
			if err != nil {
				panic(err)
			}
			e.call("d", "dial", ok, d.Dial)
			select {
			case c := <-accepted:
				defer c.Close()
			case <-time.After(3 * time.Second):
				e.r.Emit("ecall", "obj", "d", "op", "connect", "r", "no attempt", "hung", true, "want", ok)
				return
			}
			time.Sleep(50 * time.Millisecond) // the dialer is now waiting for the server's part of the handshake
			any := []string{"ok", "ErrBadOption", "ErrBadProperty", "ErrBadValue"}
			e.call("d", "getopt-during-handshake", any, func() error { _, err := d.GetOption(mangos.OptionMaxRecvSize); return err })
			e.call("d", "setopt-during-handshake", any, func() error { return d.SetOption(mangos.OptionMaxRecvSize, 4096) })
			e.call("q", "setopt-during-handshake", any, func() error { return q.SetOption(mangos.OptionMaxRecvSize, 8192) })
			e.call("q", "getopt-during-handshake", any, func() error { _, err := q.GetOption(mangos.OptionMaxRecvSize); return err })
			e.call("d", "close-during-handshake", ok, d.Close)
			e.call("q", "close-during-handshake", ok, q.Close)
		})
	}
	// --- a connection lost while the dialer's own call is still inside the pipe event hook (the hook closes the
	// pipe in Attaching, or the peer drops it during Attached, and the hook takes longer than the reconnect time):
	// the dialer still comes back
	for _, how := range []string{"attaching", "attached"} {
		run("hook-dwell-"+how, func(e *errScn) {
			srv, _ := rep.NewSocket()
			defer srv.Close()
			var smu sync.Mutex
			var spipes []mangos.Pipe
			srv.SetPipeEventHook(func(ev mangos.PipeEvent, p mangos.Pipe) {
				if ev == mangos.PipeEventAttached {
					smu.Lock()
					spipes = append(spipes, p)
					smu.Unlock()
				}
			})
			l, err := srv.NewListener("tcp://127.0.0.1:0", nil)
			if err != nil {
				panic(err)
			}
			e.call("l", "listen", ok, l.Listen)
			q, _ := req.NewSocket()
			defer q.Close()
			_ = q.SetOption(mangos.OptionReconnectTime, 10*time.Millisecond)
			_ = q.SetOption(mangos.OptionMaxReconnectTime, 20*time.Millisecond)
			_ = q.SetOption(mangos.OptionDialAsynch, true)
			var mu sync.Mutex
			first := true
			later := 0 // connections Attached after the one the hook dwelt on
			q.SetPipeEventHook(func(ev mangos.PipeEvent, p mangos.Pipe) {
				mu.Lock()
				mine := first && ((how == "attaching" && ev == mangos.PipeEventAttaching) || (how == "attached" && ev == mangos.PipeEventAttached))
				if mine {
					first = false
				} else if ev == mangos.PipeEventAttached {
					later++
				}
				mu.Unlock()
				if !mine {
					return
				}
				if how == "attaching" {
					_ = p.Close()
				} else {
					for w := 0; w < 100; w++ { // the peer drops the connection
						smu.Lock()
						n := len(spipes)
						for _, sp := range spipes {
							_ = sp.Close()
						}
						smu.Unlock()
						if n > 0 {
							break
						}
						time.Sleep(5 * time.Millisecond)
					}
				}
				time.Sleep(200 * time.Millisecond) // several reconnect intervals
			})
			e.call("q", "dial", ok, func() error { return q.Dial(l.Address()) })
			back := false
			for w := 0; w < 400 && !back; w++ {
				mu.Lock()
				back = later > 0
				mu.Unlock()
				if !back {
					time.Sleep(10 * time.Millisecond)
				}
			}
			if back {
				e.r.Emit("ecall", "obj", "q", "op", "redial-after-hook-dwell-"+how, "r", "ok", "hung", false, "want", ok)
			} else {
				e.r.Emit("ecall", "obj", "q", "op", "redial-after-hook-dwell-"+how, "r", "no connection in 4 s", "hung", true, "want", ok)
			}
		})
	}
}
