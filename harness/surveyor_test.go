package harness

import (
	"encoding/binary"
	"encoding/json"
	"fmt"
	"math/rand"
	"os"
	"sort"
	"strings"
	"testing"
	"time"

	"go.nanomsg.org/mangos/v3"
	"go.nanomsg.org/mangos/v3/protocol"
	"go.nanomsg.org/mangos/v3/protocol/surveyor"

	"verifharness/hx"
	"verifharness/rec"
	"verifharness/sim"
	"verifharness/vt"
)

// ---------------------------------------------------------------------------
// SURVEYOR driver (C07; parts of C10, C18).  The harness plays the
// respondents at transport level: it sees every survey broadcast per
// connection and injects current / stale / foreign / malformed responses at
// chosen moments relative to survey start and expiry (exact virtual time).

type svCtxOpt struct {
	SurvExp time.Duration
	RecvExp time.Duration
	QLen    int
}

type svCfg struct {
	Opts  []svCtxOpt
	SQ    int
	Steps []string
}

type svScn struct {
	ld    lateDial
	s     *sim.S
	cfg   svCfg
	proto protocol.Protocol
	sock  mangos.Socket
	ctxs  []mangos.Context
	pctxs []protocol.Context
	pipes map[string]*vt.Pipe
	ids   *hx.IDMap
	npipe int
	base  uint32
	el    time.Duration // virtual time elapsed (absolute "advto" steps of TLC-generated scenarios)
	hist  [][]uint32
	nsv   int
	nrsp  int
	last  []byte
}

func (c *svScn) abs(real uint32) int {
	return int((real&0x7fffffff - c.base&0x7fffffff) & 0x7fffffff)
}

func (c *svScn) decode(dir string, b []byte) []interface{} {
	if len(b) < 4 {
		return []interface{}{"short", true}
	}
	w := binary.BigEndian.Uint32(b)
	tag := string(b[4:])
	if len(tag) > 12 {
		tag = tag[:12]
	}
	return []interface{}{"short", false, "id", c.abs(w), "hi", w&0x80000000 != 0, "tag", tag}
}

func (c *svScn) cname(i int) string { return fmt.Sprintf("c%d", i) }

func (c *svScn) snap() {
	sn := surveyor.VerifSnapshot(c.proto, c.pctxs)
	svs := [][]interface{}{}
	for _, v := range sn.Surveys {
		svs = append(svs, []interface{}{c.abs(v.ID), c.cname(v.Ctx), v.Queued, v.Cap})
	}
	kv := []interface{}{"closed", sn.Closed, "next", c.abs(sn.NextID), "surveys", svs}
	for i, id := range sn.Cur {
		cur := 0
		if id != 0 {
			cur = c.abs(id)
			h := c.hist[i]
			if len(h) == 0 || h[len(h)-1] != id {
				c.hist[i] = append(h, id)
			}
		}
		kv = append(kv, c.cname(i), map[string]interface{}{"cur": cur, "closed": sn.Closeds[i]})
	}
	sq := map[string]interface{}{}
	for id, n := range sn.SendQ {
		sq[c.ids.Name(id)] = n
	}
	kv = append(kv, "sendq", sq)
	c.s.Rec.Emit("snap", kv...)
}

func (c *svScn) step(st string) {
	s := c.s
	f := strings.Fields(st)
	arg := func(i int) string {
		if len(f) > i {
			return f[i]
		}
		return ""
	}
	ci := func(a string) int {
		var i int
		fmt.Sscanf(a, "c%d", &i)
		if i >= len(c.pctxs) {
			i = 0
		}
		return i
	}
	switch f[0] {
	case "conn", "conngated":
		c.npipe++
		p := s.Net.NewPipe(fmt.Sprintf("p%d", c.npipe))
		if f[0] == "conngated" {
			p.SetMode(vt.Gated)
		}
		c.pipes[p.Name] = p
		s.Net.Listener("l1").Offer(p)
	case "predial":
		c.ld.predial(s, c.sock)
	case "ansconn":
		if c.ld.pending(s) {
			c.npipe++
			p := s.Net.NewPipe(fmt.Sprintf("p%d", c.npipe))
			c.pipes[p.Name] = p
			c.ld.answer(s, p)
		}
	case "drop":
		if p := c.pipes[arg(1)]; p != nil && !p.IsClosed() {
			s.Rec.Emit("drop", "p", p.Name)
			p.Drop()
		}
	case "release":
		if p := c.pipes[arg(1)]; p != nil && !p.IsClosed() && p.Blocked() {
			p.Release()
		}
	case "survey":
		i := ci(arg(1))
		fn := c.sock.SendMsg
		if i > 0 {
			fn = c.ctxs[i].SendMsg
		}
		c.nsv++
		tag := fmt.Sprintf("s%d", c.nsv)
		s.Call(s.Thread(), "survey", c.cname(i), []interface{}{"tag", tag}, func() []interface{} {
			m := appNew(s, 16)
			m.Body = append(m.Body, tag...)
			err := appSend(s, m, fn)
			return []interface{}{"r", err}
		})
	case "surveyshared":
		// the application sends one message twice (it took a second reference for that): each Send takes one
		// reference and nothing else - the message is still the application's, unchanged, for the second Send
		i := ci(arg(1))
		fn := c.sock.SendMsg
		if i > 0 {
			fn = c.ctxs[i].SendMsg
		}
		c.nsv++
		tag := fmt.Sprintf("s%d", c.nsv)
		m := appNew(s, 16)
		m.Body = append(m.Body, tag...)
		m.Clone()
		for k := 0; k < 2; k++ {
			s.Call(s.Thread(), "survey", c.cname(i), []interface{}{"tag", tag}, func() []interface{} {
				return []interface{}{"r", appSend(s, m, fn)}
			})
			s.Q()
			c.snap()
		}
		return
	case "recv":
		i := ci(arg(1))
		fn := c.sock.RecvMsg
		if i > 0 {
			fn = c.ctxs[i].RecvMsg
		}
		s.Call(s.Thread(), "recv", c.cname(i), nil, func() []interface{} {
			m, err := fn()
			if err != nil {
				return []interface{}{"r", err}
			}
			appGot(s, m)
			tag := string(m.Body)
			hl := len(m.Header)
			appFree(s, m)
			return []interface{}{"r", "ok", "tag", tag, "hl", hl}
		})
	case "resp":
		// resp <pipe> <kind> <ctx>
		p := c.pipes[arg(1)]
		if p == nil || p.IsClosed() {
			break
		}
		h := c.hist[ci(arg(3))]
		var id uint32
		switch arg(2) {
		case "cur", "cure", "nohi", "short", "unissued":
			if len(h) > 0 {
				id = h[len(h)-1]
			} else {
				id = (c.base + 1) | 0x80000000
			}
		case "prev":
			if len(h) >= 2 {
				id = h[len(h)-2]
			} else {
				id = c.base | 0x80000000
			}
		}
		switch arg(2) {
		case "nohi":
			id &= 0x7fffffff
		case "unissued":
			id += 7
		}
		c.nrsp++
		var b []byte
		if arg(2) == "dup" {
			if c.last == nil {
				break
			}
			b = c.last
		} else {
			b = binary.BigEndian.AppendUint32(nil, id)
			if arg(2) != "cure" { // "cure": a response with an empty payload is a response
				b = append(b, []byte(fmt.Sprintf("r%d", c.nrsp))...)
			}
			if arg(2) == "short" {
				b = b[:1+c.nrsp%3]
			}
		}
		c.last = b
		p.Inject(b)
	case "adv":
		d, _ := time.ParseDuration(arg(1))
		s.Adv(d)
		c.el += d
		c.snap()
		return
	case "advto":
		// advto <seconds>: absolute virtual time (TLC-generated scenarios name the expiry / deadline they run into)
		var sec int
		fmt.Sscanf(arg(1), "%d", &sec)
		if d := time.Duration(sec)*time.Second - c.el; d > 0 {
			s.Adv(d)
			c.el += d
			c.snap()
			return
		}
	case "respid":
		// respid <pipe> <n> hi|lo: a response carrying the n-th survey id this socket issues, with or without the
		// request bit (TLC-generated scenarios)
		p := c.pipes[arg(1)]
		if p == nil || p.IsClosed() {
			break
		}
		var n uint32
		fmt.Sscanf(arg(2), "%d", &n)
		id := (c.base&0x7fffffff + n) & 0x7fffffff
		if arg(3) == "hi" {
			id |= 0x80000000
		}
		c.nrsp++
		b := binary.BigEndian.AppendUint32(nil, id)
		b = append(b, []byte(fmt.Sprintf("r%d", c.nrsp))...)
		c.last = b
		p.Inject(b)
	case "cclose":
		i := ci(arg(1))
		if i > 0 {
			cx := c.ctxs[i]
			s.Call(s.Thread(), "cclose", c.cname(i), nil, func() []interface{} { return []interface{}{"r", cx.Close()} })
		}
	case "sclose":
		sock := c.sock
		s.Call(s.Thread(), "sclose", "s", nil, func() []interface{} { return []interface{}{"r", sock.Close()} })
	}
	s.Q()
	c.snap()
}

func runSurveyor(t *testing.T, cfg svCfg) sim.Result {
	return sim.Run(t, 10*time.Second, func(s *sim.S) {
		defer withLedger(s.Rec)()
		baseIDs := hx.BaseIDs()
		c := &svScn{s: s, cfg: cfg, pipes: map[string]*vt.Pipe{}, ids: hx.NewIDMap()}
		s.Net.Decode = c.decode
		c.proto = surveyor.NewProtocol()
		rp := &hx.RecProto{Protocol: c.proto, Rec: s.Rec, Early: true}
		c.sock = protocol.MakeSocket(rp)
		hx.Hook(c.sock, s.Rec, func(ev, name string, p mangos.Pipe) { c.ids.Set(p.ID(), name) })
		c.base = surveyor.VerifSnapshot(c.proto, nil).NextID
		must := func(err error) {
			if err != nil {
				panic(err)
			}
		}
		must(c.sock.SetOption(mangos.OptionWriteQLen, cfg.SQ))
		set := func(f func(string, interface{}) error, o svCtxOpt) {
			must(f(mangos.OptionSurveyTime, o.SurvExp))
			must(f(mangos.OptionRecvDeadline, o.RecvExp))
			must(f(mangos.OptionReadQLen, o.QLen))
		}
		n := len(cfg.Opts)
		c.ctxs = make([]mangos.Context, n)
		c.pctxs = make([]protocol.Context, n)
		c.hist = make([][]uint32, n)
		for i := 1; i < n; i++ {
			mc, err := c.sock.OpenContext()
			must(err)
			c.ctxs[i] = mc
			c.pctxs[i] = rp.Ctxs[len(rp.Ctxs)-1]
			set(mc.SetOption, cfg.Opts[i])
		}
		set(c.sock.SetOption, cfg.Opts[0])
		l, err := c.sock.NewListener(s.Net.Addr("l1"), nil)
		must(err)
		must(l.Listen())
		s.Q()
		c.snap()
		for _, st := range cfg.Steps {
			c.step(st)
		}
		c.step("sclose")
		c.ld.finish(s)
		for _, p := range c.pipes {
			if p.Blocked() {
				p.Release()
			}
		}
		c.step("adv 600s")
		s.Wait()
		g := sim.Census()
		sort.Strings(g)
		s.Rec.Emit("census", "n", len(g), "g", fmt.Sprint(g))
		hx.Final(s.Rec, c.sock, baseIDs)
	})
}

func svCfgEv(c svCfg) rec.Ev {
	e := rec.Ev{"nctx": len(c.Opts), "sq": c.SQ}
	for i, o := range c.Opts {
		e[fmt.Sprintf("c%d", i)] = map[string]interface{}{"survExp": int64(o.SurvExp / time.Microsecond),
			"recvExp": int64(o.RecvExp / time.Microsecond), "qlen": o.QLen}
	}
	return e
}

func svScripted() []svCfg {
	sec := time.Second
	d := svCtxOpt{SurvExp: sec, QLen: 4}
	return []svCfg{
		// a connection attempt that completes after the socket was closed is refused by the closed protocol (nothing of the
		// closed socket remains); one that completes while the socket is open is a connection like any other
		{Opts: []svCtxOpt{d}, SQ: 2, Steps: []string{"predial", "sclose", "ansconn", "adv 1s"}},
		{Opts: []svCtxOpt{d}, SQ: 2, Steps: []string{"conn", "predial", "ansconn", "survey c0", "resp p2 cur c0", "recv c0", "sclose"}},
		// one message sent as two surveys (the application holds two references): both go out unchanged
		{Opts: []svCtxOpt{{SurvExp: time.Second, QLen: 4}, {SurvExp: time.Second, QLen: 4}}, SQ: 2, Steps: []string{"conn", "conn", "surveyshared c0", "resp p1 cur c0", "recv c0", "surveyshared c1", "resp p2 cur c1", "recv c1"}},
		// two respondents answer; stale, foreign and malformed responses; expiry at exactly 1 s
		{Opts: []svCtxOpt{d, d}, SQ: 2, Steps: []string{"conn", "conn", "recv c0", "survey c0", "resp p1 cur c0", "resp p2 cur c0", "recv c0", "recv c0", "resp p1 nohi c0", "resp p2 short c0", "resp p1 unissued c0", "survey c1", "resp p1 cur c1", "resp p2 cur c0", "recv c1", "recv c0", "recv c0", "adv 999.999ms", "adv 1us", "recv c0", "resp p1 cur c0", "recv c0"}},
		// responses with an empty payload
		{Opts: []svCtxOpt{d}, SQ: 2, Steps: []string{"conn", "conn", "survey c0", "resp p1 cure c0", "resp p2 cure c0", "recv c0", "recv c0", "recv c0", "adv 2s"}},
		// a new survey abandons the previous one; its late responses are discarded
		{Opts: []svCtxOpt{d}, SQ: 2, Steps: []string{"conn", "survey c0", "recv c0", "survey c0", "resp p1 prev c0", "recv c0", "resp p1 cur c0", "recv c0", "adv 2s", "recv c0"}},
		// slow respondent: pipe queue full drops the survey for that pipe only
		{Opts: []svCtxOpt{d}, SQ: 1, Steps: []string{"conngated", "conn", "survey c0", "survey c0", "survey c0", "release p1", "release p1", "resp p2 cur c0", "recv c0"}},
		// receive deadline shorter than the survey; survey time zero means no limit
		{Opts: []svCtxOpt{{SurvExp: 5 * sec, RecvExp: 2 * sec, QLen: 1}, {SurvExp: 0, QLen: 2}}, SQ: 2, Steps: []string{"conn", "survey c0", "recv c0", "adv 1.999999s", "adv 1us", "survey c1", "adv 100s", "resp p1 cur c1", "recv c1", "resp p1 cur c0", "resp p1 dup c0", "recv c0", "recv c0"}},
		// close with receivers waiting
		{Opts: []svCtxOpt{d, d}, SQ: 2, Steps: []string{"conn", "survey c0", "survey c1", "recv c0", "recv c1", "cclose c1", "recv c1", "survey c1"}},
	}
}

func svRandom(rng *rand.Rand) svCfg {
	sec := time.Second
	n := 1 + rng.Intn(3)
	c := svCfg{SQ: rng.Intn(3)}
	for i := 0; i < n; i++ {
		o := svCtxOpt{SurvExp: []time.Duration{sec, sec, 3 * sec, 0}[rng.Intn(4)], QLen: []int{0, 1, 2, 128}[rng.Intn(4)]}
		if rng.Intn(4) == 0 {
			o.RecvExp = 2 * sec
		}
		c.Opts = append(c.Opts, o)
	}
	np := 0
	steps := 8 + rng.Intn(26)
	kinds := []string{"cur", "cur", "cur", "cur", "cure", "prev", "nohi", "short", "unissued", "dup"}
	for i := 0; i < steps; i++ {
		opts := []string{"survey", "survey", "recv", "recv", "recv", "adv", "adv"}
		if np < 3 {
			opts = append(opts, "conn", "conn", "conngated")
		}
		if np > 0 {
			opts = append(opts, "resp", "resp", "resp", "resp", "resp", "drop", "release")
		}
		if n > 1 && rng.Intn(12) == 0 {
			opts = append(opts, "cclose")
		}
		o := opts[rng.Intn(len(opts))]
		cx := fmt.Sprintf("c%d", rng.Intn(n))
		switch o {
		case "conn", "conngated":
			np++
		case "survey", "recv":
			o += " " + cx
		case "cclose":
			o += fmt.Sprintf(" c%d", 1+rng.Intn(n-1))
		case "adv":
			o += " " + []string{"1us", "999.999ms", "1s", "1.999999s", "2s", "3s", "500ms"}[rng.Intn(7)]
		case "resp":
			o += fmt.Sprintf(" p%d %s %s", 1+rng.Intn(np), kinds[rng.Intn(len(kinds))], cx)
		case "drop", "release":
			o += fmt.Sprintf(" p%d", 1+rng.Intn(np))
		}
		c.Steps = append(c.Steps, o)
	}
	return c
}

func svDeadline() []svCfg {
	var out []svCfg
	us := time.Microsecond
	for _, d := range []time.Duration{1 * us, time.Millisecond, time.Second, 300 * time.Second} {
		just := (d - us).String()
		// receive deadline shorter than, equal to and longer than the survey time
		for _, sv := range []time.Duration{0, d, 2 * d, d / 2} {
			if sv%us != 0 {
				continue // below the trace's time resolution
			}
			out = append(out, svCfg{Opts: []svCtxOpt{{SurvExp: sv, RecvExp: d, QLen: 2}}, SQ: 1, Steps: []string{
				"conn", "survey c0", "recv c0", "adv " + just, "adv 1us", "recv c0", "resp p1 cur c0", "recv c0", "adv " + d.String(), "recv c0"}})
		}
	}
	return out
}

// svFromTLC loads the scenarios TLC generated from spec/mc/MC_SurvScn.tla and picks a seeded sample.
func svFromTLC(path string, rng *rand.Rand, n int) []svCfg {
	sec := time.Second
	a := svCfg{Opts: []svCtxOpt{{SurvExp: 3 * sec, QLen: 1}, {SurvExp: 3 * sec, RecvExp: 2 * sec, QLen: 2}}, SQ: 1}
	mixes := map[string]svCfg{"a": a, "a5": a,
		"b": {Opts: []svCtxOpt{{SurvExp: 0, QLen: 2}, {SurvExp: 4 * sec, QLen: 0}}, SQ: 0}}
	data, err := os.ReadFile(path)
	if err != nil {
		panic(err)
	}
	var all []svCfg
	for _, ln := range strings.Split(string(data), "\n") {
		if strings.TrimSpace(ln) == "" {
			continue
		}
		var x struct {
			Opt   string   `json:"opt"`
			Steps []string `json:"steps"`
		}
		if err := json.Unmarshal([]byte(ln), &x); err != nil {
			panic(err)
		}
		c, ok := mixes[x.Opt]
		if !ok {
			panic("unknown option mix " + x.Opt)
		}
		c.Steps = x.Steps
		all = append(all, c)
	}
	rng.Shuffle(len(all), func(i, j int) { all[i], all[j] = all[j], all[i] })
	if n < len(all) {
		all = all[:n]
	}
	return all
}

func TestSurveyor(t *testing.T) {
	out := newOut(t, "surveyor")
	defer out.Close()
	rng := rand.New(rand.NewSource(seed()))
	if f := os.Getenv("VERIF_SCN_FILE"); f != "" {
		for i, cfg := range svFromTLC(f, rng, count(400, 1000000)) {
			if out.Stop() {
				break
			}
			res := runSurveyor(t, cfg)
			out.Add(fmt.Sprintf("surveyorscn-%d", i), svCfgEv(cfg), fmt.Sprint(cfg), res)
		}
		return
	}
	cfgs := svScripted()
	if os.Getenv("VERIF_MIX") == "deadline" {
		cfgs = svDeadline()
	}
	for i := 0; i < count(100, 1500); i++ {
		cfgs = append(cfgs, svRandom(rng))
	}
	for i, cfg := range cfgs {
		if out.Stop() {
			break
		}
		cfg.Steps = closeMix(cfg.Steps, rng, []string{"recv c0", "survey c0", "recv c1", "survey c1", "conn", "cclose c1", "adv 1s", "recv c0", "sclose"})
		res := runSurveyor(t, cfg)
		out.Add(fmt.Sprintf("surveyor-%d", i), svCfgEv(cfg), fmt.Sprint(cfg), res)
	}
}
