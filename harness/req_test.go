package harness

import (
	"crypto/sha256"
	"encoding/binary"
	"encoding/hex"
	"encoding/json"
	"fmt"
	"math/rand"
	"os"
	"runtime"
	"sort"
	"strings"
	"testing"
	"time"

	"go.nanomsg.org/mangos/v3"
	"go.nanomsg.org/mangos/v3/protocol"
	"go.nanomsg.org/mangos/v3/protocol/req"

	"verifharness/hx"
	"verifharness/rec"
	"verifharness/sim"
	"verifharness/vt"
)

// ---------------------------------------------------------------------------
// REQ driver (C03, C04; REQ parts of C10, C18).  The harness plays the REP
// peers at transport-message level on the virtual transport: it sees header
// and body of every transmission and crafts replies (current / previous /
// foreign / unissued ids, ids without the request bit, short bodies,
// duplicates, on any connection).  Traces are validated against spec/Req.tla.

type reqCtxOpt struct {
	Retry       time.Duration
	SendExp     time.Duration
	RecvExp     time.Duration
	BestEffort  bool
	FailNoPeers bool
}

type reqCfg struct {
	Opts    []reqCtxOpt // index 0 = the socket's default context
	Steps   []string
	Inherit bool // every context has the socket's options and gets them by inheritance: they are set on the socket only, before the contexts are opened
}

type reqScn struct {
	ld    lateDial
	s     *sim.S
	cfg   reqCfg
	proto protocol.Protocol
	sock  mangos.Socket
	l     mangos.Listener
	ctxs  []mangos.Context   // nil for index 0
	pctxs []protocol.Context // same, protocol level (for the snapshot)
	pipes map[string]*vt.Pipe
	ids   *hx.IDMap
	npipe int
	base  uint32
	hist  [][]uint32 // per context: request ids seen (real)
	thr   int
	nmsg  int
	nrep  int
	last  []byte // last injected reply
	lastP string
	used  map[int]bool // contexts a step has referred to
	rp    *hx.RecProto
	el    time.Duration // virtual time elapsed (for the absolute "advto" steps of TLC-generated scenarios)
}

func digest(b []byte) string {
	h := sha256.Sum256(b)
	return hex.EncodeToString(h[:6])
}

func (c *reqScn) abs(real uint32) int {
	return int((real&0x7fffffff - c.base&0x7fffffff) & 0x7fffffff)
}

// decode adds the protocol fields of a transmitted / received message.
func (c *reqScn) decode(dir string, b []byte) []interface{} {
	if len(b) < 4 {
		return []interface{}{"short", true, "d", digest(b)}
	}
	w := binary.BigEndian.Uint32(b)
	tag := string(b[4:])
	if i := strings.IndexByte(tag, '|'); i >= 0 {
		tag = tag[:i]
	}
	return []interface{}{"short", false, "id", c.abs(w), "hi", w&0x80000000 != 0, "tag", tag, "d", digest(b)}
}

func (c *reqScn) thread() string { return c.s.Thread() }

func (c *reqScn) cname(i int) string { return fmt.Sprintf("c%d", i) }

func (c *reqScn) snap() {
	sn := req.VerifSnapshot(c.proto, c.pctxs)
	ids := [][]interface{}{}
	for i, id := range sn.IDs {
		ids = append(ids, []interface{}{c.abs(id), c.cname(sn.IDCtx[i])})
	}
	sort.Slice(ids, func(i, j int) bool { return ids[i][0].(int) < ids[j][0].(int) })
	sq, rq, ps := []string{}, []string{}, []string{}
	for _, i := range sn.SendQ {
		sq = append(sq, c.cname(i))
	}
	for _, id := range sn.ReadyQ {
		rq = append(rq, c.ids.Name(id))
	}
	for _, id := range sn.Pipes {
		ps = append(ps, c.ids.Name(id))
	}
	sort.Strings(ps)
	kv := []interface{}{"closed", sn.Closed, "next", c.abs(sn.NextID), "ids", ids,
		"sendq", sq, "readyq", rq, "pipes", ps}
	for i, x := range sn.Ctxs {
		rid := 0
		if x.ReqID != 0 {
			rid = c.abs(x.ReqID)
			h := c.hist[i]
			if len(h) == 0 || h[len(h)-1] != x.ReqID {
				c.hist[i] = append(h, x.ReqID)
			}
		}
		lp := "-"
		if x.LastPipe != 0 {
			lp = c.ids.Name(x.LastPipe)
		}
		kv = append(kv, c.cname(i), map[string]interface{}{"rid": rid, "req": x.HasReq, "snd": x.HasSend,
			"rep": x.HasRep, "queued": x.Queued, "rw": x.RecvWait, "closed": x.Closed, "lp": lp})
	}
	c.s.Rec.Emit("snap", kv...)
}

func (c *reqScn) sendOn(i int) func(*mangos.Message) error {
	if i == 0 {
		return c.sock.SendMsg
	}
	return c.ctxs[i].SendMsg
}
func (c *reqScn) recvOn(i int) func() (*mangos.Message, error) {
	if i == 0 {
		return c.sock.RecvMsg
	}
	return c.ctxs[i].RecvMsg
}

func (c *reqScn) step(st string) {
	s := c.s
	f := strings.Fields(st)
	op := f[0]
	arg := func(i int) string {
		if len(f) > i {
			return f[i]
		}
		return ""
	}
	ci := func(a string) int {
		var i int
		fmt.Sscanf(a, "c%d", &i)
		if i >= len(c.pctxs) {
			i = 0
		}
		if c.used == nil {
			c.used = map[int]bool{}
		}
		if op != "reopen" {
			c.used[i] = true
		}
		return i
	}
	switch op {
	case "reopen":
		// reopen cN: the context is opened now (while whatever is going on on the socket is going on) instead of
		// before the scenario started - done only while nothing has used cN yet, so that the context it replaces was
		// never seen; a context is born idle, whatever state the socket's own context is in
		i := ci(arg(1))
		if i == 0 || c.used[i] {
			break
		}
		mc, err := c.sock.OpenContext()
		if err != nil {
			break
		}
		c.ctxs[i] = mc
		c.pctxs[i] = c.rp.Ctxs[len(c.rp.Ctxs)-1]
		if !c.cfg.Inherit {
			setCtxOpts(mc.SetOption, c.cfg.Opts[i])
		}
	case "conn", "conngated":
		c.npipe++
		p := s.Net.NewPipe(fmt.Sprintf("p%d", c.npipe))
		if op == "conngated" {
			p.SetMode(vt.Gated)
		}
		c.pipes[p.Name] = p
		s.Rec.Emit("mkpipe", "p", p.Name, "gated", op == "conngated")
		s.Net.Listener("l1").Offer(p)
	case "predial":
		c.ld.predial(s, c.sock)
	case "ansconn":
		if c.ld.pending(s) {
			c.npipe++
			p := s.Net.NewPipe(fmt.Sprintf("p%d", c.npipe))
			c.pipes[p.Name] = p
			s.Rec.Emit("mkpipe", "p", p.Name, "gated", false)
			c.ld.answer(s, p)
		}
	case "drop":
		if p := c.pipes[arg(1)]; p != nil && !p.IsClosed() {
			s.Rec.Emit("drop", "p", p.Name)
			p.Drop()
		}
	case "release":
		if p := c.pipes[arg(1)]; p != nil && !p.IsClosed() && p.Blocked() {
			p.Release()
		}
	case "failsend":
		if p := c.pipes[arg(1)]; p != nil && !p.IsClosed() && p.Blocked() {
			s.Rec.Emit("drop", "p", p.Name)
			p.Drop()
		}
	case "send":
		i := ci(arg(1))
		c.nmsg++
		tag := fmt.Sprintf("m%d", c.nmsg)
		body := []byte(tag + "|" + strings.Repeat("x", c.nmsg%7*11))
		fn := c.sendOn(i)
		s.Call(c.thread(), "send", c.cname(i), []interface{}{"tag", tag}, func() []interface{} {
			m := appNew(s, len(body))
			m.Body = append(m.Body, body...)
			err := appSend(s, m, fn)
			return []interface{}{"r", err}
		})
	case "send2":
		// two Sends on one context straight after one another, the second before the goroutines the first one
		// started have run (one processor): the second abandons the first whatever stage that has reached
		i := ci(arg(1))
		fn := c.sendOn(i)
		var calls []sim.PCall
		for k := 0; k < 2; k++ {
			c.nmsg++
			tag := fmt.Sprintf("m%d", c.nmsg)
			body := []byte(tag + "|" + strings.Repeat("x", c.nmsg%7*11))
			calls = append(calls, sim.PCall{Op: "send", O: c.cname(i), Args: []interface{}{"tag", tag}, Fn: func() []interface{} {
				m := appNew(s, len(body))
				m.Body = append(m.Body, body...)
				err := appSend(s, m, fn)
				return []interface{}{"r", err}
			}})
		}
		s.Wait()
		old := runtime.GOMAXPROCS(1)
		s.SerialK("call", c.thread(), calls, nil)
		s.Wait()
		runtime.GOMAXPROCS(old)
	case "sendb":
		// the byte-slice API: Send copies - the buffer stays the caller's, who fills it with something else as soon as
		// Send has returned; what is retransmitted later is still the request as it was sent
		i := ci(arg(1))
		c.nmsg++
		tag := fmt.Sprintf("m%d", c.nmsg)
		buf := []byte(tag + "|" + strings.Repeat("x", c.nmsg%7*11))
		var fn func([]byte) error = c.sock.Send
		if i > 0 {
			fn = c.ctxs[i].Send
		}
		s.Call(c.thread(), "send", c.cname(i), []interface{}{"tag", tag}, func() []interface{} {
			err := fn(buf)
			for k := range buf {
				buf[k] = 'Z'
			}
			return []interface{}{"r", err}
		})
	case "recv":
		i := ci(arg(1))
		fn := c.recvOn(i)
		s.Call(c.thread(), "recv", c.cname(i), nil, func() []interface{} {
			m, err := fn()
			if err != nil {
				return []interface{}{"r", err}
			}
			appGot(s, m)
			tag := string(m.Body)
			hl := len(m.Header)
			appFree(s, m)
			return []interface{}{"r", "ok", "tag", tag, "hl", hl}
		})
	case "reply":
		// reply <pipe> <kind> <ctx>
		p := c.pipes[arg(1)]
		if p == nil || p.IsClosed() {
			break
		}
		i := ci(arg(3))
		h := c.hist[i]
		var id uint32
		switch arg(2) {
		case "cur", "cure", "nohi", "short", "unissued":
			if len(h) == 0 {
				id = c.base + 1 | 0x80000000
			} else {
				id = h[len(h)-1]
			}
		case "prev":
			if len(h) >= 2 {
				id = h[len(h)-2]
			} else {
				id = c.base | 0x80000000
			}
		}
		switch arg(2) {
		case "nohi":
			id &= 0x7fffffff
		case "unissued":
			id += 9
		}
		c.nrep++
		var b []byte
		if arg(2) == "dup" {
			if c.last == nil {
				break
			}
			b = c.last
		} else {
			b = make([]byte, 4)
			binary.BigEndian.PutUint32(b, id)
			if arg(2) != "cure" { // "cure": the current id and nothing else - an answer with an empty payload is an answer
				b = append(b, []byte(fmt.Sprintf("r%d", c.nrep))...)
			}
			if arg(2) == "short" {
				b = b[:1+c.nrep%3]
			}
		}
		c.last = b
		p.Inject(b)
	case "adv":
		d, _ := time.ParseDuration(arg(1))
		s.Adv(d)
		c.el += d
		c.snap()
		return
	case "advto":
		// advto <seconds>: absolute virtual time (TLC-generated scenarios name the due time of the timer they fire)
		var sec int
		fmt.Sscanf(arg(1), "%d", &sec)
		if d := time.Duration(sec)*time.Second - c.el; d > 0 {
			s.Adv(d)
			c.el += d
			c.snap()
			return
		}
	case "replyid":
		// replyid <pipe> <n> hi|lo: a reply carrying the n-th id this socket issues (issued already or not), with or
		// without the request bit (TLC-generated scenarios)
		p := c.pipes[arg(1)]
		if p == nil || p.IsClosed() {
			break
		}
		var n uint32
		fmt.Sscanf(arg(2), "%d", &n)
		id := (c.base&0x7fffffff + n) & 0x7fffffff
		if arg(3) == "hi" {
			id |= 0x80000000
		}
		c.nrep++
		b := make([]byte, 4)
		binary.BigEndian.PutUint32(b, id)
		b = append(b, []byte(fmt.Sprintf("r%d", c.nrep))...)
		c.last = b
		p.Inject(b)
	case "cclose":
		i := ci(arg(1))
		if i > 0 {
			cx := c.ctxs[i]
			s.Call(c.thread(), "cclose", c.cname(i), nil, func() []interface{} { return []interface{}{"r", cx.Close()} })
		}
	case "sclose":
		sock := c.sock
		s.Call(c.thread(), "sclose", "s", nil, func() []interface{} { return []interface{}{"r", sock.Close()} })
	}
	s.Q()
	c.snap()
}

func setCtxOpts(set func(string, interface{}) error, o reqCtxOpt) {
	must := func(err error) {
		if err != nil {
			panic(err)
		}
	}
	must(set(mangos.OptionRetryTime, o.Retry))
	must(set(mangos.OptionSendDeadline, o.SendExp))
	must(set(mangos.OptionRecvDeadline, o.RecvExp))
	must(set(mangos.OptionBestEffort, o.BestEffort))
	must(set(mangos.OptionFailNoPeers, o.FailNoPeers))
}

func runReq(t *testing.T, cfg reqCfg) sim.Result {
	return sim.Run(t, 10*time.Second, func(s *sim.S) {
		defer withLedger(s.Rec)()
		baseIDs := hx.BaseIDs()
		c := &reqScn{s: s, cfg: cfg, pipes: map[string]*vt.Pipe{}, ids: hx.NewIDMap()}
		s.Net.Decode = c.decode
		c.proto = req.NewProtocol()
		rp := &hx.RecProto{Protocol: c.proto, Rec: s.Rec, Early: true}
		c.sock = protocol.MakeSocket(rp)
		c.rp = rp
		hx.Hook(c.sock, s.Rec, func(ev, name string, p mangos.Pipe) { c.ids.Set(p.ID(), name) })
		c.base = req.VerifSnapshot(c.proto, nil).NextID
		// contexts inherit from the socket at OpenContext time: set the
		// socket's (default context's) options last
		c.ctxs = make([]mangos.Context, len(cfg.Opts))
		c.pctxs = make([]protocol.Context, len(cfg.Opts))
		c.hist = make([][]uint32, len(cfg.Opts))
		if cfg.Inherit {
			setCtxOpts(c.sock.SetOption, cfg.Opts[0])
		}
		for i := 1; i < len(cfg.Opts); i++ {
			mc, err := c.sock.OpenContext()
			if err != nil {
				panic(err)
			}
			c.ctxs[i] = mc
			c.pctxs[i] = rp.Ctxs[len(rp.Ctxs)-1]
			if !cfg.Inherit {
				setCtxOpts(c.ctxs[i].SetOption, cfg.Opts[i])
			}
		}
		if !cfg.Inherit {
			setCtxOpts(c.sock.SetOption, cfg.Opts[0])
		}
		var err error
		if c.l, err = c.sock.NewListener(s.Net.Addr("l1"), nil); err != nil {
			panic(err)
		}
		if err = c.l.Listen(); err != nil {
			panic(err)
		}
		s.Q()
		c.snap()
		for _, st := range cfg.Steps {
			c.step(st)
		}
		c.step("sclose")
		c.ld.finish(s)
		for _, p := range c.pipes {
			if p.Blocked() {
				p.Release()
			}
		}
		c.step("adv 600s")
		s.Wait()
		g := sim.Census()
		sort.Strings(g)
		s.Rec.Emit("census", "n", len(g), "g", fmt.Sprint(g))
		hx.Final(s.Rec, c.sock, baseIDs)
	})
}

func reqCfgEv(c reqCfg) rec.Ev {
	e := rec.Ev{"nctx": len(c.Opts)}
	for i, o := range c.Opts {
		e[fmt.Sprintf("c%d", i)] = map[string]interface{}{
			"retry": int64(o.Retry / time.Microsecond), "sendExp": int64(o.SendExp / time.Microsecond),
			"recvExp": int64(o.RecvExp / time.Microsecond), "bestEffort": o.BestEffort, "failNoPeers": o.FailNoPeers}
	}
	return e
}

func reqScripted() []reqCfg {
	sec := time.Second
	d := reqCtxOpt{Retry: 5 * sec}
	return []reqCfg{
		// a connection attempt that completes after the socket was closed is refused by the closed protocol (nothing of the
		// closed socket remains); one that completes while the socket is open is a connection like any other
		{Opts: []reqCtxOpt{d}, Steps: []string{"predial", "sclose", "ansconn", "adv 1s"}},
		{Opts: []reqCtxOpt{d}, Steps: []string{"predial", "send c0", "ansconn", "recv c0", "reply p1 cur c0", "predial", "sclose", "ansconn"}},
		// plain request / reply, then retry on a silent peer, then loss of the carrying pipe
		{Opts: []reqCtxOpt{d}, Steps: []string{"conn", "send c0", "recv c0", "reply p1 cur c0", "send c0", "recv c0", "adv 5s", "adv 4.999999s", "adv 1us", "conn", "drop p1", "reply p2 cur c0"}},
		// stale, foreign, malformed and duplicate replies
		{Opts: []reqCtxOpt{d, d}, Steps: []string{"conn", "conn", "send c0", "send c1", "recv c0", "recv c1", "reply p1 prev c0", "reply p2 nohi c0", "reply p1 short c0", "reply p2 unissued c1", "reply p2 cur c1", "reply p1 dup c1", "reply p1 cur c0", "reply p2 dup c0", "recv c0"}},
		// a new Send abandons the previous request while its Recv is pending
		{Opts: []reqCtxOpt{d}, Steps: []string{"conn", "send c0", "recv c0", "send c0", "reply p1 prev c0", "recv c0", "reply p1 cur c0", "recv c0"}},
		// the retry timer of a request that was re-sent because its pipe went away is left behind: when it fires after
		// that request was answered it must not touch the request that is current by then (no early re-send)
		{Opts: []reqCtxOpt{d}, Steps: []string{"conn", "conn", "send c0", "recv c0", "adv 1s", "drop p1", "reply p2 cur c0", "adv 1s", "send c0", "recv c0", "adv 2.999999s", "adv 1us", "adv 1.999999s", "adv 1us", "reply p2 cur c0"}},
		{Opts: []reqCtxOpt{d}, Steps: []string{"conn", "conn", "send c0", "recv c0", "adv 2s", "drop p2", "drop p1", "conn", "reply p3 cur c0", "send c0", "adv 3s", "adv 1.999999s", "adv 1us", "recv c0", "reply p3 cur c0"}},
		// an answer whose payload is empty completes the request like any other
		{Opts: []reqCtxOpt{d, d}, Steps: []string{"conn", "send c0", "recv c0", "reply p1 cure c0", "send c1", "reply p1 cure c1", "recv c1", "adv 6s", "send c0", "reply p1 cur c0", "recv c0"}},
		// retries disabled: loss cancels
		{Opts: []reqCtxOpt{{Retry: 0}}, Steps: []string{"conn", "conn", "send c0", "recv c0", "drop p1", "drop p2", "conn", "adv 100s", "recv c0"}},
		// slow peer: transmission not taken; retry goes to the other pipe; cancel; late release
		{Opts: []reqCtxOpt{d}, Steps: []string{"conngated", "send c0", "recv c0", "conn", "adv 5s", "reply p2 cur c0", "release p1", "adv 10s"}},
		// deadlines
		{Opts: []reqCtxOpt{{Retry: 5 * sec, SendExp: 2 * sec, RecvExp: 3 * sec}}, Steps: []string{"send c0", "adv 1.999999s", "adv 1us", "conn", "send c0", "recv c0", "adv 2.999999s", "adv 1us", "recv c0", "adv 10s"}},
		// best effort and fail-no-peers
		{Opts: []reqCtxOpt{{Retry: 5 * sec, BestEffort: true}, {Retry: 5 * sec, FailNoPeers: true}}, Steps: []string{"send c0", "send c1", "recv c1", "conn", "recv c0", "send c1", "recv c1", "drop p1", "send c1", "adv 6s"}},
		// a best-effort request that never found a connection and is given up by the receive deadline leaves nothing
		// behind: the next Recv has no request to wait for (protocol-state error, not a wait), also once a peer is there
		{Opts: []reqCtxOpt{{Retry: 5 * sec, BestEffort: true, RecvExp: 3 * sec}}, Steps: []string{"send c0", "recv c0", "adv 2.999999s", "adv 1us", "recv c0", "adv 4s", "conn", "recv c0", "adv 4s", "send c0", "recv c0", "reply p1 cur c0"}},
		{Opts: []reqCtxOpt{{Retry: 5 * sec, BestEffort: true, RecvExp: 3 * sec}}, Steps: []string{"conngated", "send c0", "send c0", "recv c0", "adv 3s", "recv c0", "release p1", "recv c0", "adv 10s"}},
		// contexts that inherit the socket's retry time, deadlines and modes behave like the socket's own context:
		// retry on a silent peer, re-send when the connection goes, receive deadline
		{Inherit: true, Opts: []reqCtxOpt{{Retry: 5 * sec, RecvExp: 30 * sec}, {Retry: 5 * sec, RecvExp: 30 * sec}}, Steps: []string{"conn", "send c1", "recv c1", "adv 4.999999s", "adv 1us", "conn", "drop p1", "reply p2 cur c1", "send c1", "recv c1", "adv 29.999999s", "adv 1us", "recv c1"}},
		{Inherit: true, Opts: []reqCtxOpt{{Retry: 0, FailNoPeers: true}, {Retry: 0, FailNoPeers: true}}, Steps: []string{"send c1", "conn", "send c1", "recv c1", "drop p1", "recv c1", "adv 10s"}},
		// a Send that is waiting for a connection while a Recv on the same context runs into its deadline: the request
		// is given up, and the Send comes back too - it does not wait for ever for a dispatch that cannot come any more
		{Opts: []reqCtxOpt{{Retry: 5 * sec, RecvExp: 3 * sec}}, Steps: []string{"send c0", "recv c0", "adv 2.999999s", "adv 1us", "conn", "send c0", "recv c0", "reply p1 cur c0"}},
		// requests sent through the byte-slice API from buffers the caller reuses at once: retransmissions (retry time,
		// connection lost) carry the bytes that were sent
		{Opts: []reqCtxOpt{d, d}, Steps: []string{"conngated", "sendb c0", "sendb c1", "recv c0", "recv c1", "release p1", "release p1", "adv 5s", "release p1", "release p1", "conn", "drop p1", "reply p2 cur c0", "reply p2 cur c1"}},
		// a second Send straight after the first, before anything the first one started has run: the first request is
		// abandoned at whatever stage it is - its answer is not delivered as the answer to the second
		{Opts: []reqCtxOpt{d, d}, Steps: []string{"conn", "send2 c0", "recv c0", "replyid p1 1 hi", "replyid p1 2 hi", "send2 c1", "recv c1", "replyid p1 3 hi", "replyid p1 4 hi"}},
		{Opts: []reqCtxOpt{d}, Steps: []string{"conngated", "send2 c0", "release p1", "release p1", "recv c0", "replyid p1 1 hi", "replyid p1 2 hi"}},
		// a context opened while the socket's own context has a request outstanding (answer parked / Recv waiting)
		// starts idle: it has nothing to receive, and what it does leaves the socket's request alone
		{Opts: []reqCtxOpt{d, d}, Steps: []string{"conn", "send c0", "reply p1 cur c0", "reopen c1", "recv c1", "recv c0", "send c1", "recv c1", "reply p1 cur c1"}},
		{Opts: []reqCtxOpt{d, d}, Steps: []string{"conn", "send c0", "recv c0", "reopen c1", "recv c1", "send c1", "recv c1", "reply p1 cur c1", "reply p1 cur c0"}},
		{Inherit: true, Opts: []reqCtxOpt{{Retry: 5 * sec, RecvExp: 30 * sec}, {Retry: 5 * sec, RecvExp: 30 * sec}}, Steps: []string{"conngated", "send c0", "reopen c1", "send c1", "release p1", "recv c1", "release p1", "reply p1 cur c1", "reply p1 cur c0", "recv c0"}},
		// context close with a pending receive; socket close with pending calls
		{Opts: []reqCtxOpt{d, d}, Steps: []string{"conn", "send c1", "recv c1", "cclose c1", "send c1", "send c0", "recv c0"}},
	}
}

func reqRandom(rng *rand.Rand) reqCfg {
	sec := time.Second
	retries := []time.Duration{5 * sec, 5 * sec, 60 * sec, 0, 700 * time.Millisecond}
	nctx := 1 + rng.Intn(3)
	var c reqCfg
	for i := 0; i < nctx; i++ {
		o := reqCtxOpt{Retry: retries[rng.Intn(len(retries))]}
		if rng.Intn(4) == 0 {
			o.SendExp = 2 * sec
		}
		if rng.Intn(4) == 0 {
			o.RecvExp = 3 * sec
		}
		o.BestEffort = rng.Intn(5) == 0
		o.FailNoPeers = rng.Intn(5) == 0
		c.Opts = append(c.Opts, o)
	}
	if rng.Intn(4) == 0 {
		for i := range c.Opts {
			c.Opts[i] = c.Opts[0]
		}
		c.Inherit = true
	}
	np := 0
	n := 6 + rng.Intn(22)
	advs := []string{"1us", "699.999ms", "700ms", "1.999999s", "2s", "3s", "4.999999s", "5s", "5.000001s", "10s", "60s", "59.999999s"}
	kinds := []string{"cur", "cur", "cur", "cure", "prev", "nohi", "short", "unissued", "dup"}
	for i := 0; i < n; i++ {
		opts := []string{"send", "send", "send", "recv", "recv", "recv", "adv", "adv", "conn"}
		if np < 4 {
			opts = append(opts, "conn", "conngated")
		}
		if np > 0 {
			opts = append(opts, "reply", "reply", "reply", "reply", "drop", "release", "release", "failsend")
		}
		if nctx > 1 && rng.Intn(12) == 0 {
			opts = append(opts, "cclose")
		}
		if rng.Intn(50) == 0 {
			opts = append(opts, "sclose")
		}
		o := opts[rng.Intn(len(opts))]
		cx := fmt.Sprintf("c%d", rng.Intn(nctx))
		switch o {
		case "conn", "conngated":
			np++
		case "send", "recv":
			if o == "send" && rng.Intn(4) == 0 {
				o = "sendb"
			}
			o += " " + cx
		case "cclose":
			o += fmt.Sprintf(" c%d", 1+rng.Intn(nctx-1))
		case "adv":
			o += " " + advs[rng.Intn(len(advs))]
		case "reply":
			o += fmt.Sprintf(" p%d %s %s", 1+rng.Intn(np), kinds[rng.Intn(len(kinds))], cx)
		case "drop", "release", "failsend":
			o += fmt.Sprintf(" p%d", 1+rng.Intn(np))
		}
		c.Steps = append(c.Steps, o)
	}
	// (decided by a generator of their own, so that the scenarios of a seed are the ones they were before these
	// steps existed, plus the variation)
	r2 := rand.New(rand.NewSource(int64(len(fmt.Sprint(c.Steps)))*7919 + int64(n)))
	if r2.Intn(3) == 0 {
		for k, o := range c.Steps {
			if strings.HasPrefix(o, "send c") && r2.Intn(2) == 0 {
				c.Steps[k] = "send2" + o[4:]
				break
			}
		}
	}
	if nctx > 1 && r2.Intn(3) == 0 {
		k := r2.Intn(len(c.Steps) + 1)
		c.Steps = append(c.Steps[:k], append([]string{fmt.Sprintf("reopen c%d", 1+r2.Intn(nctx-1))}, c.Steps[k:]...)...)
	}
	return c
}

// fault enumeration over a base scenario: one fault injected at every prefix position
func reqFaultEnum() []reqCfg {
	sec := time.Second
	base := []string{"conn", "conn", "send c0", "recv c0", "adv 1s"}
	tail := []string{"adv 4s", "adv 1us", "conn", "reply p1 cur c0", "reply p2 cur c0", "reply p3 cur c0", "adv 5s", "recv c0", "adv 60s"}
	faults := []string{"drop p1", "drop p2", "conn", "conngated", "adv 5s", "adv 4.999999s", "send c0", "cclose c1", "send c1",
		"reply p1 prev c0", "reply p2 nohi c0", "sclose"}
	var out []reqCfg
	for _, retry := range []time.Duration{5 * sec, 0} {
		for i := 0; i <= len(base); i++ {
			for _, f := range faults {
				var st []string
				st = append(st, base[:i]...)
				st = append(st, f)
				st = append(st, base[i:]...)
				st = append(st, tail...)
				out = append(out, reqCfg{Opts: []reqCtxOpt{{Retry: retry}, {Retry: 5 * sec}}, Steps: st})
			}
		}
	}
	return out
}

func reqDeadline() []reqCfg {
	var out []reqCfg
	us := time.Microsecond
	for _, d := range []time.Duration{1 * us, time.Millisecond, time.Second, 300 * time.Second} {
		just := (d - us).String()
		o := reqCtxOpt{Retry: 0, SendExp: d, RecvExp: d}
		out = append(out,
			// no peer: Send blocks until exactly its deadline; with a peer it completes at once and the (unstopped) timer must not hurt
			reqCfg{Opts: []reqCtxOpt{o, o}, Steps: []string{"send c0", "adv " + just, "adv 1us", "conn", "send c1", "recv c1", "adv " + just, "adv 1us", "send c0", "reply p1 cur c0", "adv " + d.String(), "recv c0"}},
			// Recv blocks until exactly its deadline; a reply in time is delivered
			reqCfg{Opts: []reqCtxOpt{{Retry: 0, RecvExp: d}}, Steps: []string{"conn", "send c0", "recv c0", "adv " + just, "reply p1 cur c0", "adv 1us", "send c0", "recv c0", "adv " + just, "adv 1us", "recv c0"}},
		)
	}
	out = append(out,
		reqCfg{Opts: []reqCtxOpt{{Retry: time.Second, BestEffort: true}}, Steps: []string{"send c0", "send c0", "conngated", "send c0", "send c0", "adv 1s", "release p1", "recv c0", "reply p1 cur c0"}},
		reqCfg{Opts: []reqCtxOpt{{Retry: time.Second, FailNoPeers: true}, {Retry: time.Second}}, Steps: []string{"send c0", "recv c0", "conn", "send c0", "recv c0", "send c1", "recv c1", "drop p1", "send c0", "conn", "send c0", "recv c0", "drop p2"}},
		// contexts that get fail-no-peers, best effort and the deadlines by inheritance from the socket
		reqCfg{Inherit: true, Opts: []reqCtxOpt{{Retry: time.Second, FailNoPeers: true, RecvExp: 2 * time.Second}, {Retry: time.Second, FailNoPeers: true, RecvExp: 2 * time.Second}},
			Steps: []string{"send c1", "recv c1", "conn", "send c1", "recv c1", "drop p1", "send c1", "conn", "send c1", "recv c1", "adv 1.999999s", "adv 1us", "recv c1"}},
		reqCfg{Inherit: true, Opts: []reqCtxOpt{{Retry: time.Second, BestEffort: true, SendExp: 3 * time.Second}, {Retry: time.Second, BestEffort: true, SendExp: 3 * time.Second}},
			Steps: []string{"send c1", "send c1", "conngated", "send c1", "send c1", "adv 1s", "release p1", "recv c1", "reply p1 cur c1"}},
	)
	return out
}

// reqFromTLC loads the scenarios TLC generated from spec/mc/MC_ReqScn.tla (one JSON object per line: the name of the
// option mix of the model and the step strings) and picks a seeded sample of them.
func reqFromTLC(path string, rng *rand.Rand, n int) []reqCfg {
	sec := time.Second
	mixes := map[string][]reqCtxOpt{
		"retry": {{Retry: 5 * sec}, {Retry: 0}},
		"deadl": {{Retry: 5 * sec, SendExp: 2 * sec}, {Retry: 5 * sec, RecvExp: 3 * sec}},
		"be":    {{Retry: 5 * sec, BestEffort: true}, {Retry: 0, RecvExp: 3 * sec, FailNoPeers: true}},
	}
	data, err := os.ReadFile(path)
	if err != nil {
		panic(err)
	}
	var all []reqCfg
	for _, ln := range strings.Split(string(data), "\n") {
		if strings.TrimSpace(ln) == "" {
			continue
		}
		var x struct {
			Opt   string   `json:"opt"`
			Steps []string `json:"steps"`
		}
		if err := json.Unmarshal([]byte(ln), &x); err != nil {
			panic(err)
		}
		o, ok := mixes[x.Opt]
		if !ok {
			panic("unknown option mix " + x.Opt)
		}
		all = append(all, reqCfg{Opts: o, Steps: x.Steps})
	}
	rng.Shuffle(len(all), func(i, j int) { all[i], all[j] = all[j], all[i] })
	if n < len(all) {
		all = all[:n]
	}
	return all
}

func TestReq(t *testing.T) {
	out := newOut(t, "req")
	defer out.Close()
	rng := rand.New(rand.NewSource(seed()))
	if f := os.Getenv("VERIF_SCN_FILE"); f != "" {
		for i, cfg := range reqFromTLC(f, rng, count(400, 1000000)) {
			if out.Stop() {
				break
			}
			res := runReq(t, cfg)
			out.Add(fmt.Sprintf("reqscn-%d", i), reqCfgEv(cfg), fmt.Sprint(cfg), res)
		}
		return
	}
	cfgs := reqScripted()
	if os.Getenv("VERIF_MIX") == "deadline" {
		cfgs = reqDeadline()
	}
	if os.Getenv("VERIF_REQ_MIX") == "faults" {
		fe := reqFaultEnum()
		if !thorough() {
			rng.Shuffle(len(fe), func(i, j int) { fe[i], fe[j] = fe[j], fe[i] })
			fe = fe[:40]
		}
		cfgs = append(cfgs, fe...)
	}
	for i := 0; i < count(80, 1200); i++ {
		cfgs = append(cfgs, reqRandom(rng))
	}
	for i, cfg := range cfgs {
		if out.Stop() {
			break
		}
		cfg.Steps = closeMix(cfg.Steps, rng, []string{"send c0", "recv c0", "send c1", "recv c1", "conn", "cclose c1", "adv 1s", "recv c0", "send c0", "sclose"})
		res := runReq(t, cfg)
		out.Add(fmt.Sprintf("req-%d", i), reqCfgEv(cfg), fmt.Sprint(cfg), res)
	}
}
