package harness

import (
	"crypto/tls"
	"fmt"
	"net/http"
	"net/http/httptest"
	"os"
	"os/exec"
	"reflect"
	"runtime"
	"strings"
	"syscall"
	"testing"
	"time"

	"go.nanomsg.org/mangos/v3"
	"go.nanomsg.org/mangos/v3/protocol"
	"go.nanomsg.org/mangos/v3/protocol/pair"
	"go.nanomsg.org/mangos/v3/protocol/rep"
	"go.nanomsg.org/mangos/v3/protocol/req"
	"go.nanomsg.org/mangos/v3/protocol/respondent"
	"go.nanomsg.org/mangos/v3/protocol/sub"
	"go.nanomsg.org/mangos/v3/protocol/surveyor"
	"go.nanomsg.org/mangos/v3/transport/ws"

	"verifharness/rec"
	"verifharness/sim"
)

// ---------------------------------------------------------------------------
// Option contract driver (C19): every object (sockets of every pattern,
// contexts, dialers and listeners of every transport, pipes) x every option
// name (documented, transport specific, arbitrary) x every value class
// (right type in range incl. boundaries, out of range, wrong type, nil),
// before and after connecting; inheritance by new dialers / listeners /
// contexts; unsupported operations; queue resizing with traffic in flight.
// Validated against spec/Options.tla.

var optNames = []string{mangos.OptionRaw, mangos.OptionRecvDeadline, mangos.OptionSendDeadline, mangos.OptionRetryTime,
	mangos.OptionSubscribe, mangos.OptionUnsubscribe, mangos.OptionSurveyTime, mangos.OptionTLSConfig, mangos.OptionWriteQLen,
	mangos.OptionReadQLen, mangos.OptionKeepAlive, mangos.OptionKeepAliveTime, mangos.OptionNoDelay, mangos.OptionLinger,
	mangos.OptionTTL, mangos.OptionMaxRecvSize, mangos.OptionReconnectTime, mangos.OptionMaxReconnectTime, mangos.OptionBestEffort,
	mangos.OptionLocalAddr, mangos.OptionRemoteAddr, mangos.OptionTLSConnState, mangos.OptionHTTPRequest, mangos.OptionDialAsynch,
	mangos.OptionPeerPID, mangos.OptionPeerUID, mangos.OptionPeerGID, mangos.OptionPeerZone, mangos.OptionFailNoPeers,
	ws.OptionWebSocketMux, ws.OptionWebSocketHandler, ws.OptionWebSocketCheckOrigin, "nonsense", ""}

type optVal struct {
	cls string
	v   interface{}
}

func optVals() []optVal {
	cfg := &tls.Config{}
	return []optVal{{"dur1", time.Millisecond}, {"dur0", time.Duration(0)}, {"durbig", 24 * time.Hour}, {"durneg", -time.Second},
		{"int8", 8}, {"int1", 1}, {"int0", 0}, {"int255", 255}, {"int256", 256}, {"intbig", 4096}, {"intneg", -1},
		{"true", true}, {"false", false}, {"str", "ab"}, {"bytes", []byte("ab")}, {"nil", nil}, {"tls", cfg}, {"float", 1.5}}
}

type optObj interface {
	GetOption(string) (interface{}, error)
}
type optSetter interface {
	SetOption(string, interface{}) error
}

func sameVal(a, b interface{}) bool {
	if as, ok := a.(string); ok {
		if bb, ok := b.([]byte); ok {
			return as == string(bb)
		}
	}
	return reflect.DeepEqual(a, b)
}

// exercise one object
func optObject(r *rec.Recorder, name string, o optObj) { optObjectNames(r, name, o, optNames, true) }

// exercise one object on the given option names; NO-DELAY is examined in traces of its own (see TestOptions)
func optObjectNames(r *rec.Recorder, name string, o optObj, names []string, skipNoDelay bool) {
	for _, n := range names {
		if skipNoDelay && n == mangos.OptionNoDelay {
			continue
		}
		var last interface{}
		haveLast := false
		get := func() {
			func() {
				defer func() {
					if x := recover(); x != nil {
						r.Emit("oget", "obj", name, "name", n, "r", "panic", "same", false)
					}
				}()
				v, err := o.GetOption(n)
				same := true
				if err == nil && haveLast {
					same = sameVal(v, last)
				}
				r.Emit("oget", "obj", name, "name", n, "r", err, "same", same)
			}()
		}
		get()
		if s, ok := o.(optSetter); ok {
			for _, ov := range optVals() {
				func() {
					defer func() {
						if x := recover(); x != nil {
							r.Emit("oset", "obj", name, "name", n, "cls", ov.cls, "r", "panic")
						}
					}()
					err := s.SetOption(n, ov.v)
					r.Emit("oset", "obj", name, "name", n, "cls", ov.cls, "r", err)
					if err == nil && n != mangos.OptionSubscribe && n != mangos.OptionUnsubscribe {
						last, haveLast = ov.v, true
						get()
					}
				}()
			}
		}
	}
	r.Emit("oend", "obj", name)
}

var cookedCtx = []struct {
	name string
	mk   func() (mangos.Socket, error)
	inh  map[string]interface{}
}{
	{"req", req.NewSocket, map[string]interface{}{mangos.OptionRetryTime: 7 * time.Second, mangos.OptionRecvDeadline: 3 * time.Second,
		mangos.OptionSendDeadline: 2 * time.Second, mangos.OptionBestEffort: true, mangos.OptionFailNoPeers: true}},
	{"rep", rep.NewSocket, nil},
	{"sub", sub.NewSocket, map[string]interface{}{mangos.OptionReadQLen: 5, mangos.OptionRecvDeadline: 3 * time.Second}},
	{"surveyor", surveyor.NewSocket, map[string]interface{}{mangos.OptionSurveyTime: 4 * time.Second, mangos.OptionRecvDeadline: 3 * time.Second, mangos.OptionReadQLen: 5}},
	{"respondent", respondent.NewSocket, map[string]interface{}{mangos.OptionBestEffort: true, mangos.OptionRecvDeadline: 3 * time.Second, mangos.OptionSendDeadline: 2 * time.Second}},
}

func TestOptions(t *testing.T) {
	out := newOut(t, "opts")
	defer out.Close()
	only := os.Getenv("VERIF_OPTS_ONLY") // substring of the object-group labels to run (a property that is about one pattern)
	run := func(label string, body func(r *rec.Recorder)) {
		if only != "" && !strings.Contains(label, only) {
			return
		}
		r := rec.New()
		status, detail := "ok", ""
		func() {
			defer func() {
				if x := recover(); x != nil {
					status, detail = "panic", fmt.Sprint(x)
				}
			}()
			body(r)
		}()
		out.Add("opts-"+label, rec.Ev{"label": label}, label, sim.Result{Lines: r.Lines(), Status: status, Detail: detail})
	}
	// every valid duration / length on a FRESH socket and a fresh dialer each: acceptance must not depend on what
	// the object was given before (zero = no limit is accepted whatever the other options are)
	freshNames := []string{mangos.OptionRecvDeadline, mangos.OptionSendDeadline, mangos.OptionRetryTime, mangos.OptionSurveyTime,
		mangos.OptionReconnectTime, mangos.OptionMaxReconnectTime, mangos.OptionWriteQLen, mangos.OptionReadQLen, mangos.OptionMaxRecvSize, mangos.OptionTTL}
	for _, p := range rawProtos {
		p := p
		run("fresh-"+p.name, func(r *rec.Recorder) {
			for _, n := range freshNames {
				for _, ov := range optVals() {
					if !strings.HasPrefix(ov.cls, "dur") && !strings.HasPrefix(ov.cls, "int") {
						continue
					}
					func() {
						s := protocol.MakeSocket(p.mk())
						defer s.Close()
						defer func() {
							if x := recover(); x != nil {
								r.Emit("oset", "obj", "sock-"+p.name, "name", n, "cls", ov.cls, "r", "panic")
							}
						}()
						r.Emit("oset", "obj", "sock-"+p.name, "name", n, "cls", ov.cls, "r", s.SetOption(n, ov.v))
						if n == mangos.OptionReconnectTime || n == mangos.OptionMaxReconnectTime || n == mangos.OptionMaxRecvSize {
							if d, err := s.NewDialer(fmt.Sprintf("inproc://fresh-%d", os.Getpid()), nil); err == nil {
								r.Emit("oset", "obj", "dialer-inproc", "name", n, "cls", ov.cls, "r", d.SetOption(n, ov.v))
							}
						}
					}()
				}
			}
		})
	}
	// sockets of every pattern
	for _, p := range rawProtos {
		p := p
		run("sock-"+p.name, func(r *rec.Recorder) {
			s := protocol.MakeSocket(p.mk())
			defer s.Close()
			optObject(r, "sock-"+p.name, s)
			// unsupported operations: designated error, no side effect
			if p.eng == "xpub" || p.eng == "xpush" {
				_, err := s.RecvMsg()
				r.Emit("oop", "proto", p.name, "op", "recv", "r", err, "want", "ErrProtoOp")
			}
			if p.eng == "xsub" || p.eng == "xpull" {
				err := s.Send([]byte("x"))
				r.Emit("oop", "proto", p.name, "op", "send", "r", err, "want", "ErrProtoOp")
			}
			_, err := s.OpenContext()
			r.Emit("oop", "proto", p.name, "op", "openctx", "r", err, "want", "ErrProtoOp")
			if p.cooked {
				// a cooked socket cannot be a device; looped onto itself an asymmetric pattern is also a mismatch
				want := "ErrNotRaw"
				if info := s.Info(); info.Self != info.Peer {
					want = "ErrBadProto"
				}
				r.Emit("oop", "proto", p.name, "op", "device", "r", mangos.Device(s, s), "want", want)
			}
			// still usable
			_, gerr := s.GetOption(mangos.OptionRaw)
			r.Emit("oop", "proto", p.name, "op", "getraw", "r", gerr, "want", "ok")
		})
	}
	// cooked sockets with contexts, the contexts themselves, and what a new context inherits
	for _, cc := range cookedCtx {
		cc := cc
		run("ctx-"+cc.name, func(r *rec.Recorder) {
			s, err := cc.mk()
			if err != nil {
				panic(err)
			}
			defer s.Close()
			optObject(r, "sock-"+cc.name, s)
			c, err := s.OpenContext()
			if err != nil {
				panic(err)
			}
			optObject(r, "ctx-"+cc.name, c)
			for n, v := range cc.inh {
				if err := s.SetOption(n, v); err != nil {
					panic(fmt.Sprint(cc.name, n, err))
				}
			}
			c2, err := s.OpenContext()
			if err != nil {
				panic(err)
			}
			for n, v := range cc.inh {
				got, err := c2.GetOption(n)
				r.Emit("oinh", "kind", "ctx", "proto", cc.name, "name", n, "r", err, "same", err == nil && sameVal(got, v))
			}
			_ = c2.Close()
			_ = c.Close()
			r.Emit("oop", "proto", cc.name, "op", "device", "r", mangos.Device(s, s), "want", "ErrBadProto")
		})
	}
	// Device on mismatched / missing sockets
	run("device", func(r *rec.Recorder) {
		a := protocol.MakeSocket(rawProtos[0].mk()) // xpair
		var x mangos.Socket
		for _, p := range rawProtos {
			if p.name == "xreq" {
				x = protocol.MakeSocket(p.mk())
			}
		}
		defer a.Close()
		defer x.Close()
		r.Emit("oop", "proto", "xpair+xreq", "op", "device", "r", mangos.Device(a, x), "want", "ErrBadProto")
		r.Emit("oop", "proto", "nil", "op", "device", "r", mangos.Device(nil, nil), "want", "ErrClosed")
		// a raw socket with a cooked one, in both orders and for two patterns: refused, and nothing started - no
		// forwarder is left draining the raw socket behind the application's back
		fwd := func() int {
			time.Sleep(30 * time.Millisecond)
			buf := make([]byte, 4<<20)
			buf = buf[:runtime.Stack(buf, true)]
			return strings.Count(string(buf), "go.nanomsg.org/mangos/v3.forwarder(")
		}
		base := fwd()
		rawOf := func(name string) mangos.Socket {
			for _, p := range rawProtos {
				if p.name == name {
					return protocol.MakeSocket(p.mk())
				}
			}
			panic(name)
		}
		cookedOf := func(name string) mangos.Socket {
			var sk mangos.Socket
			switch name {
			case "req":
				sk, _ = req.NewSocket()
			case "rep":
				sk, _ = rep.NewSocket()
			default:
				sk = rawOf(name)
			}
			return sk
		}
		for _, pr := range [][2]string{{"xpair", "pair"}, {"xrep", "req"}, {"xreq", "rep"}} {
			raw, cooked := rawOf(pr[0]), cookedOf(pr[1])
			r.Emit("oop", "proto", pr[0]+"+"+pr[1], "op", "device", "r", mangos.Device(raw, cooked), "want", "ErrNotRaw")
			r.Emit("oopside", "proto", pr[0]+"+"+pr[1], "started", fwd()-base)
			r.Emit("oop", "proto", pr[1]+"+"+pr[0], "op", "device", "r", mangos.Device(cooked, raw), "want", "ErrNotRaw")
			r.Emit("oopside", "proto", pr[1]+"+"+pr[0], "started", fwd()-base)
			_ = raw.Close()
			_ = cooked.Close()
		}
	})
	// ipc peer credentials of a peer that is another process, running under another group id (needs root)
	if os.Getuid() == 0 {
		run("ep-ipc-cred", func(r *rec.Recorder) {
			bin := macatBin(t)
			a, _ := pair.NewSocket()
			defer a.Close()
			pipes := make(chan mangos.Pipe, 4)
			a.SetPipeEventHook(func(ev mangos.PipeEvent, p mangos.Pipe) {
				if ev == mangos.PipeEventAttached {
					pipes <- p
				}
			})
			path := fmt.Sprintf("%s/verif-cred-%d.sock", os.TempDir(), os.Getpid())
			defer os.Remove(path)
			if err := a.Listen("ipc://" + path); err != nil {
				panic(err)
			}
			_ = os.Chmod(path, 0o777)
			cmd := exec.Command(bin, "--pair", "--connect", "ipc://"+path, "--recv-timeout", "3")
			cmd.SysProcAttr = &syscall.SysProcAttr{Credential: &syscall.Credential{Uid: 0, Gid: 4242}}
			if err := cmd.Start(); err != nil {
				panic(err)
			}
			defer func() { _ = cmd.Process.Kill(); _, _ = cmd.Process.Wait() }()
			select {
			case p := <-pipes:
				pid, e1 := p.GetOption(mangos.OptionPeerPID)
				uid, e2 := p.GetOption(mangos.OptionPeerUID)
				gid, e3 := p.GetOption(mangos.OptionPeerGID)
				r.Emit("opipecred", "pid", e1 == nil && pid == cmd.Process.Pid, "uid", e2 == nil && uid == 0, "gid", e3 == nil && gid == 4242)
			case <-time.After(5 * time.Second):
				r.Emit("opipecred", "pid", false, "uid", false, "gid", false)
			}
		})
	}
	// dialers, listeners and pipes of every transport; inheritance from the socket
	for ti, tr := range realTrans() {
		tr := tr
		ti := ti
		run("ep-"+tr.name, func(r *rec.Recorder) {
			a, _ := pair.NewSocket()
			b, _ := pair.NewSocket()
			defer a.Close()
			defer b.Close()
			inh := map[string]interface{}{mangos.OptionReconnectTime: 70 * time.Millisecond, mangos.OptionMaxReconnectTime: 900 * time.Millisecond,
				mangos.OptionDialAsynch: true, mangos.OptionMaxRecvSize: 12345}
			for n, v := range inh {
				if err := b.SetOption(n, v); err != nil {
					panic(err)
				}
				_ = a.SetOption(n, v)
			}
			var lo, do map[string]interface{}
			if tr.opts != nil {
				lo, do = tr.opts(true), tr.opts(false)
			}
			addr := tr.addr(4000 + ti)
			l, err := a.NewListener(addr, lo)
			if err != nil {
				panic(err)
			}
			got, gerr := l.GetOption(mangos.OptionMaxRecvSize)
			r.Emit("oinh", "kind", "listener", "proto", tr.name, "name", mangos.OptionMaxRecvSize, "r", gerr, "same", gerr == nil && sameVal(got, 12345))
			optObject(r, "listener-"+tr.name, l)
			// a fresh listener for the connected part (the first one had every option value thrown at it)
			l2, err := a.NewListener(tr.addr(4100+ti), lo)
			if err != nil {
				panic(err)
			}
			if err = l2.Listen(); err != nil {
				panic(err)
			}
			d, err := b.NewDialer(l2.Address(), do)
			if err != nil {
				panic(err)
			}
			for n, v := range inh {
				got, gerr := d.GetOption(n)
				r.Emit("oinh", "kind", "dialer", "proto", tr.name, "name", n, "r", gerr, "same", gerr == nil && sameVal(got, v))
			}
			pipes := make(chan mangos.Pipe, 4)
			b.SetPipeEventHook(func(ev mangos.PipeEvent, p mangos.Pipe) {
				if ev == mangos.PipeEventAttached {
					pipes <- p
				}
			})
			lpipes := make(chan mangos.Pipe, 4)
			a.SetPipeEventHook(func(ev mangos.PipeEvent, p mangos.Pipe) {
				if ev == mangos.PipeEventAttached {
					lpipes <- p
				}
			})
			_ = d.SetOption(mangos.OptionDialAsynch, false)
			if err = d.Dial(); err != nil {
				panic(fmt.Sprint("dial ", tr.name, err))
			}
			var pb mangos.Pipe
			defer func() {
				// the accepting side's pipe: it belongs to the listener, reports the address the listener is actually bound
				// to (port 0 was asked for), and its two ends are the dialing side's two ends the other way round
				select {
				case pa := <-lpipes:
					la, e1 := pa.GetOption(mangos.OptionLocalAddr)
					ra, e2 := pa.GetOption(mangos.OptionRemoteAddr)
					r.Emit("opipe", "tran", tr.name, "local", e1 == nil && la != nil, "remote", e2 == nil && ra != nil,
						"dialer", pa.Dialer() == nil, "listener", pa.Listener() == l2, "addr", pa.Address() == l2.Address() && pa.Address() == l2.Address(),
						"idok", pa.ID() != 0 && pa.ID() < 0x80000000)
					if tr.name == "tls+tcp" || tr.name == "wss" {
						// ... on the accepting side too, and it is the same negotiated connection the dialing side reports
						v, e3 := pa.GetOption(mangos.OptionTLSConnState)
						cs, _ := v.(tls.ConnectionState)
						r.Emit("opipetls", "tran", tr.name, "side", "listener", "ok", e3 == nil, "complete", cs.HandshakeComplete, "ver", int(cs.Version), "cs", int(cs.CipherSuite))
						if pb != nil {
							vb, _ := pb.GetOption(mangos.OptionTLSConnState)
							cb, _ := vb.(tls.ConnectionState)
							r.Emit("opipetlsx", "tran", tr.name, "same", cs.Version == cb.Version && cs.CipherSuite == cb.CipherSuite)
						}
					}
					if tr.name == "ipc" {
						// peer credentials on the accepting side: the dialing process is this one
						pid, e4 := pa.GetOption(mangos.OptionPeerPID)
						r.Emit("opipepid", "ok", e4 == nil && pid == os.Getpid())
					}
					if pb != nil && (tr.name == "tcp" || tr.name == "tls+tcp" || tr.name == "ws" || tr.name == "wss") {
						lb, _ := pb.GetOption(mangos.OptionLocalAddr)
						rb, _ := pb.GetOption(mangos.OptionRemoteAddr)
						port := l2.Address()[strings.LastIndex(l2.Address(), ":")+1:]
						if i := strings.Index(port, "/"); i >= 0 {
							port = port[:i]
						}
						r.Emit("opipex", "tran", tr.name, "ok", fmt.Sprint(la) == fmt.Sprint(rb) && fmt.Sprint(ra) == fmt.Sprint(lb) &&
							strings.HasSuffix(fmt.Sprint(la), ":"+port) && !strings.HasSuffix(l2.Address(), ":0"),
							"la", fmt.Sprint(la), "ra", fmt.Sprint(ra), "lb", fmt.Sprint(lb), "rb", fmt.Sprint(rb), "bound", l2.Address())
					}
				case <-time.After(3 * time.Second):
					r.Emit("opipe", "tran", tr.name, "local", false, "remote", false, "dialer", false, "listener", false, "addr", false, "idok", false)
				}
			}()
			select {
			case p := <-pipes:
				pb = p
				optObject(r, "pipe-"+tr.name, p)
				// read-only facts about the connection
				la, e1 := p.GetOption(mangos.OptionLocalAddr)
				ra, e2 := p.GetOption(mangos.OptionRemoteAddr)
				r.Emit("opipe", "tran", tr.name, "local", e1 == nil && la != nil, "remote", e2 == nil && ra != nil,
					"dialer", p.Dialer() == d, "listener", p.Listener() == nil, "addr", p.Address() == d.Address(), "idok", p.ID() != 0 && p.ID() < 0x80000000)
				if tr.name == "tls+tcp" || tr.name == "wss" {
					// the TLS state of the pipe describes the connection it is: negotiated (the handshake is over by the
					// time the pipe is attached), with the protocol version and cipher suite in use
					v, e3 := p.GetOption(mangos.OptionTLSConnState)
					cs, _ := v.(tls.ConnectionState)
					r.Emit("opipetls", "tran", tr.name, "side", "dialer", "ok", e3 == nil, "complete", cs.HandshakeComplete, "ver", int(cs.Version), "cs", int(cs.CipherSuite))
				}
				if tr.name == "ipc" {
					pid, e4 := p.GetOption(mangos.OptionPeerPID)
					r.Emit("opipepid", "ok", e4 == nil && pid == os.Getpid())
				}
			case <-time.After(3 * time.Second):
				r.Emit("opipe", "tran", tr.name, "local", false, "remote", false, "dialer", false, "listener", false, "addr", false, "idok", false)
			}
			// options after connecting
			optObject(r, "dialer-"+tr.name, d)
			optObject(r, "listener2-"+tr.name, l2)
		})
		if tr.name == "ws" {
			// a ws:// listener whose handler the application mounts on its own HTTPS server, dialled with wss://: the
			// connection is a TLS connection, and the pipes on both sides say so
			run("ep-ws-hosted-tls", func(r *rec.Recorder) {
				a, _ := pair.NewSocket()
				defer a.Close()
				b, _ := pair.NewSocket()
				defer b.Close()
				l, err := a.NewListener(tr.addr(4400+ti), nil)
				if err != nil {
					panic(err)
				}
				h, err := l.GetOption(ws.OptionWebSocketHandler)
				if err != nil {
					panic(err)
				}
				srv := httptest.NewTLSServer(h.(http.Handler))
				defer srv.Close()
				if err = l.Listen(); err != nil {
					panic(err)
				}
				got := make(chan [2]interface{}, 4)
				hook := func(side string) mangos.PipeEventHook {
					return func(ev mangos.PipeEvent, p mangos.Pipe) {
						if ev == mangos.PipeEventAttached {
							got <- [2]interface{}{side, p}
						}
					}
				}
				a.SetPipeEventHook(hook("listener"))
				b.SetPipeEventHook(hook("dialer"))
				d, err := b.NewDialer("wss"+strings.TrimPrefix(srv.URL, "https")+"/sp", map[string]interface{}{mangos.OptionTLSConfig: &tls.Config{InsecureSkipVerify: true}})
				if err != nil {
					panic(err)
				}
				if err = d.Dial(); err != nil {
					panic(fmt.Sprint("dial hosted wss: ", err))
				}
				for i := 0; i < 2; i++ {
					select {
					case x := <-got:
						v, e3 := x[1].(mangos.Pipe).GetOption(mangos.OptionTLSConnState)
						cs, _ := v.(tls.ConnectionState)
						r.Emit("opipetls", "tran", "wss-hosted", "side", x[0], "ok", e3 == nil, "complete", cs.HandshakeComplete, "ver", int(cs.Version), "cs", int(cs.CipherSuite))
					case <-time.After(3 * time.Second):
						r.Emit("opipetls", "tran", "wss-hosted", "side", "?", "ok", false, "complete", false, "ver", 0, "cs", 0)
					}
				}
			})
		}
		// the legacy NO-DELAY option, on its own so that what is known about it does not hide anything else
		run("nodelay-"+tr.name, func(r *rec.Recorder) {
			a, _ := pair.NewSocket()
			defer a.Close()
			var lo map[string]interface{}
			if tr.opts != nil {
				lo = tr.opts(true)
			}
			l, err := a.NewListener(tr.addr(4200+ti), lo)
			if err != nil {
				panic(err)
			}
			d, err := a.NewDialer(tr.addr(4300+ti), lo)
			if err != nil {
				panic(err)
			}
			optObjectNames(r, "listener-"+tr.name, l, []string{mangos.OptionNoDelay}, false)
			optObjectNames(r, "dialer-"+tr.name, d, []string{mangos.OptionNoDelay}, false)
		})
	}
}
