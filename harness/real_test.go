package harness

import (
	"crypto/tls"
	"encoding/binary"
	"fmt"
	mangosws "go.nanomsg.org/mangos/v3/transport/ws"
	"io"
	"math/rand"
	"net"
	"net/http"
	"os"
	"strings"
	"sync"
	"testing"
	"time"

	"github.com/gorilla/websocket"

	"go.nanomsg.org/mangos/v3"
	"go.nanomsg.org/mangos/v3/protocol/bus"
	"go.nanomsg.org/mangos/v3/protocol/pair"
	"go.nanomsg.org/mangos/v3/protocol/pub"
	"go.nanomsg.org/mangos/v3/protocol/pull"
	"go.nanomsg.org/mangos/v3/protocol/push"
	"go.nanomsg.org/mangos/v3/protocol/rep"
	"go.nanomsg.org/mangos/v3/protocol/req"
	"go.nanomsg.org/mangos/v3/protocol/respondent"
	"go.nanomsg.org/mangos/v3/protocol/star"
	"go.nanomsg.org/mangos/v3/protocol/sub"
	"go.nanomsg.org/mangos/v3/protocol/surveyor"
	"go.nanomsg.org/mangos/v3/protocol/xbus"
	"go.nanomsg.org/mangos/v3/protocol/xpair"
	"go.nanomsg.org/mangos/v3/protocol/xpub"
	"go.nanomsg.org/mangos/v3/protocol/xpull"
	"go.nanomsg.org/mangos/v3/protocol/xpush"
	"go.nanomsg.org/mangos/v3/protocol/xrep"
	"go.nanomsg.org/mangos/v3/protocol/xreq"
	"go.nanomsg.org/mangos/v3/protocol/xrespondent"
	"go.nanomsg.org/mangos/v3/protocol/xstar"
	"go.nanomsg.org/mangos/v3/protocol/xsub"
	"go.nanomsg.org/mangos/v3/protocol/xsurveyor"
	mtest "go.nanomsg.org/mangos/v3/test"
	_ "go.nanomsg.org/mangos/v3/transport/all"

	"verifharness/rec"
	"verifharness/sim"
)

// ---------------------------------------------------------------------------
// Real transports (outside the bubble, wall clock): tcp, ipc, tls+tcp, ws,
// wss, inproc.  Only safety is validated here and every wait is generous.

type realTran struct {
	name string
	addr func(i int) string
	opts func(server bool) map[string]interface{}
}

func tlsOpts(server bool) map[string]interface{} {
	cfg, err := mtest.GetTLSConfig(server)
	if err != nil {
		panic(err)
	}
	return map[string]interface{}{mangos.OptionTLSConfig: cfg}
}

func realTrans() []realTran {
	dir := os.TempDir()
	return []realTran{
		{"inproc", func(i int) string { return fmt.Sprintf("inproc://verif-%d-%d", os.Getpid(), i) }, nil},
		{"tcp", func(i int) string { return "tcp://127.0.0.1:0" }, nil},
		{"ipc", func(i int) string { return fmt.Sprintf("ipc://%s/verif-%d-%d.sock", dir, os.Getpid(), i) }, nil},
		{"tls+tcp", func(i int) string { return "tls+tcp://127.0.0.1:0" }, tlsOpts},
		{"ws", func(i int) string { return "ws://127.0.0.1:0/sp" }, nil},
		{"wss", func(i int) string { return "wss://127.0.0.1:0/sp" }, tlsOpts},
	}
}

// position dependent payload: shifted, merged or truncated data changes the digest
func payload(n int, salt int) []byte {
	b := make([]byte, n)
	x := uint32(salt*2654435761 + 12345)
	for i := range b {
		x = x*1664525 + 1013904223
		b[i] = byte(x>>24) ^ byte(i)
	}
	return b
}

type linkPat struct {
	name   string
	mkA    func() (mangos.Socket, error)
	mkB    func() (mangos.Socket, error)
	hdr    int    // bytes of protocol header on the wire (counts towards the receive limit)
	rawHdr []byte // header a raw sender must supply
	echo   bool   // B answers every message with the same payload (request/reply style)
	prepB  func(b mangos.Socket)
}

func linkPats() []linkPat {
	subAll := func(b mangos.Socket) { _ = b.SetOption(mangos.OptionSubscribe, []byte{}) }
	return []linkPat{
		{name: "pair", mkA: pair.NewSocket, mkB: pair.NewSocket},
		{name: "xpair", mkA: xpair.NewSocket, mkB: xpair.NewSocket},
		{name: "pushpull", mkA: push.NewSocket, mkB: pull.NewSocket},
		{name: "xpushxpull", mkA: xpush.NewSocket, mkB: xpull.NewSocket},
		{name: "pubsub", mkA: pub.NewSocket, mkB: sub.NewSocket, prepB: subAll},
		{name: "xpubxsub", mkA: xpub.NewSocket, mkB: xsub.NewSocket},
		{name: "bus", mkA: bus.NewSocket, mkB: bus.NewSocket},
		{name: "xbus", mkA: xbus.NewSocket, mkB: xbus.NewSocket},
		{name: "star", mkA: star.NewSocket, mkB: star.NewSocket, hdr: 4},
		{name: "xstar", mkA: xstar.NewSocket, mkB: xstar.NewSocket, hdr: 4, rawHdr: []byte{0, 0, 0, 0}},
		{name: "reqrep", mkA: req.NewSocket, mkB: rep.NewSocket, hdr: 4, echo: true},
		{name: "xreqxrep", mkA: xreq.NewSocket, mkB: xrep.NewSocket, hdr: 4, rawHdr: []byte{0x80, 0, 0, 9}, echo: true},
		{name: "survey", mkA: surveyor.NewSocket, mkB: respondent.NewSocket, hdr: 4, echo: true},
		{name: "xsurvey", mkA: xsurveyor.NewSocket, mkB: xrespondent.NewSocket, hdr: 4, rawHdr: []byte{0x80, 0, 0, 9}, echo: true},
	}
}

func linkSizes(rng *rand.Rand, limit int, hdr int) []int {
	var s []int
	add := func(n int) {
		if n >= 0 && n+hdr <= limit {
			s = append(s, n)
		}
	}
	for _, c := range []int{0, 1, 2, 3, 4, 5} {
		add(c)
	}
	for _, c := range []int{64, 128, 256, 512, 1024, 4096, 8192, 65536} {
		for d := -2; d <= 2; d++ {
			add(c + d)
			add(c - hdr + d)
		}
	}
	add(limit - hdr)
	add(limit - hdr - 1)
	n := 6
	if thorough() {
		n = 60
		for i := 0; i <= 2100; i += 7 {
			add(i)
		}
	}
	for i := 0; i < n; i++ {
		add(rng.Intn(3000))
		add(rng.Intn(limit))
	}
	rng.Shuffle(len(s), func(i, j int) { s[i], s[j] = s[j], s[i] })
	return s
}

func connectPair(tr realTran, i int, a, b mangos.Socket) error {
	var lo, do map[string]interface{}
	if tr.opts != nil {
		lo, do = tr.opts(true), tr.opts(false)
	}
	l, err := a.NewListener(tr.addr(i), lo)
	if err != nil {
		return err
	}
	if err = l.Listen(); err != nil {
		return err
	}
	d, err := b.NewDialer(l.Address(), do)
	if err != nil {
		return err
	}
	return d.Dial()
}

type heldSlice struct {
	b []byte
	d string
}

// TestLinkReal: C01 - byte-identical, whole, in order over every transport and pattern.
func TestLinkReal(t *testing.T) {
	out := newOut(t, "link")
	defer out.Close()
	rng := rand.New(rand.NewSource(seed()))
	k := 0
	// an installed (empty) ledger makes the library overwrite every body buffer at its last Free:
	// anybody still reading a released message sees garbage instead of plausible data
	// The ledger also keeps the count of references of every message the library or the driver allocates
	// (Msg.tla RefPositive on the real transports, ws and inproc included, which have their own message handling):
	// a release or a Clone of a message that is not live is reported in the scenario's trace (`lmsgbad`), which
	// TraceLink cannot explain.
	var badMu sync.Mutex
	var bad []string
	mangos.VerifSetMsgLedger(func(e mangos.VerifMsgEvent) {
		if (e.Op == "free" || e.Op == "clone") && e.Ref <= 0 {
			badMu.Lock()
			if len(bad) < 8 {
				bad = append(bad, fmt.Sprintf("%s of a message that is not live (serial %d, count %d, len %d)", e.Op, e.Serial, e.Ref, e.Len))
			}
			badMu.Unlock()
		}
	})
	defer mangos.VerifSetMsgLedger(nil)
	for ti, tr := range realTrans() {
		for pi, lp := range linkPats() {
			if f := os.Getenv("VERIF_LINK_PATS"); f != "" && !strings.Contains(","+f+",", ","+lp.name+",") {
				continue
			}
			if !thorough() && (ti+pi)%2 == 1 && tr.name != "tcp" && tr.name != "inproc" {
				continue // quick tier: every transport with half of the patterns, tcp and inproc with all
			}
			k++
			r := rec.New()
			status, detail := "ok", ""
			func() {
				defer func() {
					if x := recover(); x != nil {
						status, detail = "panic", fmt.Sprint(x)
					}
				}()
				limit := 1 << 20
				if k%3 == 0 {
					limit = 1000 + k
				}
				a, err := lp.mkA()
				if err != nil {
					panic(err)
				}
				b, err := lp.mkB()
				if err != nil {
					panic(err)
				}
				defer a.Close()
				defer b.Close()
				for _, s := range []mangos.Socket{a, b} {
					_ = s.SetOption(mangos.OptionMaxRecvSize, limit)
					_ = s.SetOption(mangos.OptionRecvDeadline, 5*time.Second)
					_ = s.SetOption(mangos.OptionSendDeadline, 5*time.Second)
					_ = s.SetOption(mangos.OptionSurveyTime, 5*time.Second)
					_ = s.SetOption(mangos.OptionRetryTime, time.Duration(0))
				}
				if lp.prepB != nil {
					lp.prepB(b)
				}
				if err := connectPair(tr, k, a, b); err != nil {
					panic(fmt.Sprint("connect: ", err))
				}
				time.Sleep(30 * time.Millisecond) // let both sides attach (pub/bus/star send is best effort)
				// PUB/SUB: the subscriber reads through a SUB context of its own (message and byte-slice API alike)
				rxMsg, rxB := b.RecvMsg, b.Recv
				if lp.name == "pubsub" {
					cb, err := b.OpenContext()
					if err != nil {
						panic(err)
					}
					_ = cb.SetOption(mangos.OptionSubscribe, []byte{})
					_ = cb.SetOption(mangos.OptionRecvDeadline, 5*time.Second)
					rxMsg, rxB = cb.RecvMsg, cb.Recv
				}
				r.Emit("link", "tran", tr.name, "pat", lp.name, "limit", limit)
				var held []heldSlice
				defer func() {
					// slices handed out by Recv, looked at again after all the later traffic
					for _, h := range held {
						r.Emit("lhold", "len", len(h.b), "d0", h.d, "d", digest(h.b))
					}
				}()
				// several messages under way at once, all sent through the byte-slice API from ONE buffer that the caller
				// fills again as soon as Send has returned (Send copies: the buffer stays the caller's), the receiver
				// reading only afterwards.  Lengths on both sides of the largest pool class.
				if lp.name == "pair" || lp.name == "pushpull" || lp.name == "xpair" || lp.name == "xpushxpull" {
					buf := make([]byte, 100000)
					var sizes []int
					for _, n := range []int{100000, 65536, 65535, 70000, 65537, 3, 99999, 65536} {
						if n+lp.hdr <= limit {
							sizes = append(sizes, n)
						}
					}
					if len(sizes) == 0 {
						sizes = []int{limit - lp.hdr, 7, limit - lp.hdr - 1, 0, limit - lp.hdr}
					}
					for bi, n := range sizes {
						copy(buf, payload(n, 5000+bi+k*1000))
						r.Emit("lsend", "dir", "ab", "len", n, "d", digest(buf[:n]))
						if err := a.Send(buf[:n]); err != nil {
							r.Emit("lerr", "dir", "ab", "op", "send", "r", err)
							return
						}
					}
					for i := range buf {
						buf[i] = 0xEE
					}
					for range sizes {
						gb, err := b.Recv()
						if err != nil {
							r.Emit("lerr", "dir", "ab", "op", "recv", "r", err)
							return
						}
						r.Emit("lrecv", "dir", "ab", "len", len(gb), "d", digest(gb))
					}
				}
				// the patterns with contexts, through the byte-slice API of a context on each side: what a context's Recv
				// returns is the application's to keep, like the socket's
				if lp.name == "reqrep" || lp.name == "survey" {
					ca, err1 := a.OpenContext()
					cb, err2 := b.OpenContext()
					if err1 != nil || err2 != nil {
						panic(fmt.Sprint("OpenContext: ", err1, err2))
					}
					for _, c := range []mangos.Context{ca, cb} {
						_ = c.SetOption(mangos.OptionRecvDeadline, 5*time.Second)
						_ = c.SetOption(mangos.OptionSendDeadline, 5*time.Second)
					}
					_ = ca.SetOption(mangos.OptionSurveyTime, 5*time.Second)
					for ci, n := range []int{0, 1, 40, 63, 64, 200, 1000} {
						if n+lp.hdr > limit {
							continue
						}
						body := payload(n, 7000+ci+k*1000)
						r.Emit("lsend", "dir", "ab", "len", n, "d", digest(body))
						if err := ca.Send(body); err != nil {
							r.Emit("lerr", "dir", "ab", "op", "send", "r", err)
							return
						}
						for i := range body { // Send copied: the buffer is the caller's again at once
							body[i] = 0xEE
						}
						gb, err := cb.Recv()
						if err != nil {
							r.Emit("lerr", "dir", "ab", "op", "recv", "r", err)
							return
						}
						r.Emit("lrecv", "dir", "ab", "len", len(gb), "d", digest(gb))
						held = append(held, heldSlice{gb, digest(gb)})
						back := payload(n, 7100+ci+k*1000)
						r.Emit("lsend", "dir", "ba", "len", n, "d", digest(back))
						if err := cb.Send(back); err != nil {
							r.Emit("lerr", "dir", "ba", "op", "send", "r", err)
							return
						}
						for i := range back {
							back[i] = 0xEE
						}
						rb, err := ca.Recv()
						if err != nil {
							r.Emit("lerr", "dir", "ba", "op", "recv", "r", err)
							return
						}
						r.Emit("lrecv", "dir", "ba", "len", len(rb), "d", digest(rb))
						held = append(held, heldSlice{rb, digest(rb)})
					}
					_ = ca.Close()
					_ = cb.Close()
				}
				for si, n := range linkSizes(rng, limit, lp.hdr) {
					body := payload(n, si+k*1000)
					// the size hint is only a hint: messages grown past it must arrive intact too
					hint := []int{n, 0, n / 2, n + 1}[si%4]
					m := mangos.NewMessage(hint)
					m.Body = append(m.Body, body...)
					m.Header = append(m.Header, lp.rawHdr...)
					r.Emit("lsend", "dir", "ab", "len", n, "d", digest(body))
					if !lp.echo && lp.rawHdr == nil && si%2 == 1 {
						// the byte-slice API: what Recv returns is the application's to keep
						m.Free()
						if err := a.Send(body); err != nil {
							r.Emit("lerr", "dir", "ab", "op", "send", "r", err)
							return
						}
						gb, err := rxB()
						if err != nil {
							r.Emit("lerr", "dir", "ab", "op", "recv", "r", err)
							return
						}
						r.Emit("lrecv", "dir", "ab", "len", len(gb), "d", digest(gb))
						held = append(held, heldSlice{gb, digest(gb)})
						continue
					}
					if err := a.SendMsg(m); err != nil {
						r.Emit("lerr", "dir", "ab", "op", "send", "r", err)
						return
					}
					got, err := rxMsg()
					if err != nil {
						r.Emit("lerr", "dir", "ab", "op", "recv", "r", err)
						return
					}
					r.Emit("lrecv", "dir", "ab", "len", len(got.Body), "d", digest(got.Body))
					if lp.echo {
						// answer with the same object (raw: routing header kept), payload reversed in size class
						back := payload(n, si+k*1000+7)
						got.Body = append(got.Body[:0], back...)
						r.Emit("lsend", "dir", "ba", "len", n, "d", digest(back))
						if err := b.SendMsg(got); err != nil {
							r.Emit("lerr", "dir", "ba", "op", "send", "r", err)
							return
						}
						rp, err := a.RecvMsg()
						if err != nil {
							r.Emit("lerr", "dir", "ba", "op", "recv", "r", err)
							return
						}
						r.Emit("lrecv", "dir", "ba", "len", len(rp.Body), "d", digest(rp.Body))
						rp.Free()
					} else {
						got.Free()
					}
				}
			}()
			time.Sleep(5 * time.Millisecond) // the closed sockets' goroutines release what they still hold
			badMu.Lock()
			for _, w := range bad {
				r.Emit("lmsgbad", "what", w)
			}
			bad = nil
			badMu.Unlock()
			out.Add(fmt.Sprintf("link-%s-%s", tr.name, lp.name), rec.Ev{"tran": tr.name, "pat": lp.name},
				tr.name+" "+lp.name, sim.Result{Lines: r.Lines(), Status: status, Detail: detail})
		}
	}
	// transport writes that fail under back-pressure (every transport with a network underneath)
	if f := os.Getenv("VERIF_LINK_PATS"); f == "" || strings.Contains(","+f+",", ",pubsub,") {
		for ti, tr := range realTrans() {
			if tr.name == "inproc" {
				continue
			}
			r := rec.New()
			status, detail := "ok", ""
			func() {
				defer func() {
					if x := recover(); x != nil {
						status, detail = "panic", fmt.Sprint(x)
					}
				}()
				linkWriteFail(tr, ti, r, func(w string) { r.Emit("lmsgbad", "what", w) })
			}()
			time.Sleep(20 * time.Millisecond)
			badMu.Lock()
			for _, w := range bad {
				r.Emit("lmsgbad", "what", w)
			}
			bad = nil
			badMu.Unlock()
			out.Add(fmt.Sprintf("link-%s-wfail", tr.name), rec.Ev{"tran": tr.name, "pat": "pub-wfail"},
				tr.name+" pub-wfail", sim.Result{Lines: r.Lines(), Status: status, Detail: detail})
		}
	}
}

// linkWriteFail: a publisher whose transport writes fail under back-pressure (C17 on the real transports: "never releases
// a message twice, never touches one after releasing it").  Two raw subscribers connect and do not read; the publisher
// sends until its per-connection senders are blocked in the transport write; one subscriber's connection is then cut
// (reset), so that the write in progress fails; the application allocates and fills messages of the same size; the other
// subscriber finally reads everything that was queued for it.  The ledger must see no release of a message that is not
// live, and every publication the slow subscriber gets must be one of those published, intact.
func linkWriteFail(tr realTran, k int, r *rec.Recorder, note func(string)) {
	a, err := pub.NewSocket()
	if err != nil {
		panic(err)
	}
	defer a.Close()
	_ = a.SetOption(mangos.OptionWriteQLen, 64)
	var lo map[string]interface{}
	if tr.opts != nil {
		lo = tr.opts(true)
	}
	l, err := a.NewListener(tr.addr(9000+k), lo)
	if err != nil {
		panic(err)
	}
	if err = l.Listen(); err != nil {
		panic(err)
	}
	r.Emit("link", "tran", tr.name, "pat", "pub-wfail", "limit", 0)
	isWS := tr.name == "ws" || tr.name == "wss"
	type sub struct {
		c  net.Conn
		ws *websocket.Conn
	}
	connect := func() sub {
		if isWS {
			d := websocket.Dialer{HandshakeTimeout: 3 * time.Second, Subprotocols: []string{"pub.sp.nanomsg.org"}}
			if tr.name == "wss" {
				d.TLSClientConfig, _ = mtest.GetTLSConfig(false)
			}
			c, _, err := d.Dial(l.Address(), nil)
			if err != nil {
				panic(fmt.Sprint("ws dial: ", err))
			}
			return sub{ws: c}
		}
		c, err := dialRaw(l.Address(), tr.name)
		if err != nil {
			panic(err)
		}
		_, _ = readN(c, 8, 6*time.Second)
		_, _ = c.Write(goodHdr(0x21))
		return sub{c: c}
	}
	slow, cut := connect(), connect()
	time.Sleep(100 * time.Millisecond)
	const size = 60000
	sent := map[string]bool{}
	for i := 0; i < 150; i++ {
		b := payload(size, 20000+i+k*1000)
		sent[digest(b)] = true
		if err := a.Send(b); err != nil {
			panic(err)
		}
	}
	time.Sleep(300 * time.Millisecond)
	// cut one subscriber: reset where the transport allows, so that the write in progress fails
	under := cut.c
	if cut.ws != nil {
		under = cut.ws.UnderlyingConn()
	}
	if tc, ok := under.(*tls.Conn); ok {
		under = tc.NetConn()
	}
	if tcp, ok := under.(*net.TCPConn); ok {
		_ = tcp.SetLinger(0)
	}
	_ = under.Close()
	time.Sleep(200 * time.Millisecond)
	// the application goes on allocating: a buffer released too early is handed out again and overwritten
	var later []*mangos.Message
	for i := 0; i < 16; i++ {
		m := mangos.NewMessage(size)
		m.Body = append(m.Body, payload(size, 30000+i)...)
		later = append(later, m)
	}
	// the slow subscriber reads what was queued for it
	got := 0
	for {
		var b []byte
		if slow.ws != nil {
			_ = slow.ws.SetReadDeadline(time.Now().Add(1500 * time.Millisecond))
			_, data, err := slow.ws.ReadMessage()
			if err != nil {
				break
			}
			b = data
		} else {
			n := 8
			if tr.name == "ipc" {
				n = 9
			}
			h, err := readN(slow.c, n, 1500*time.Millisecond)
			if err != nil || len(h) < n {
				break
			}
			sz := int(binary.BigEndian.Uint64(h[n-8:]))
			if sz != size {
				note(fmt.Sprintf("slow subscriber over %s: frame %d announces %d bytes, every publication has %d", tr.name, got+1, sz, size))
				break
			}
			b, err = readN(slow.c, sz, 3*time.Second)
			if err != nil || len(b) < sz {
				break
			}
		}
		got++
		if !sent[digest(b)] {
			note(fmt.Sprintf("slow subscriber over %s: publication %d (%d bytes) is none of the messages published", tr.name, got, len(b)))
			break
		}
	}
	if got == 0 {
		note(fmt.Sprintf("slow subscriber over %s received nothing", tr.name))
	}
	for _, m := range later {
		m.Free()
	}
	if slow.ws != nil {
		_ = slow.ws.Close()
	} else {
		_ = slow.c.Close()
	}
}

// ---------------------------------------------------------------------------
// raw peers against real listeners and dialers (C15, C16)

type rawConn struct {
	c   net.Conn
	ipc bool
}

func dialRaw(addr string, tr string) (net.Conn, error) {
	switch tr {
	case "tcp":
		return net.DialTimeout("tcp", strings.TrimPrefix(addr, "tcp://"), 2*time.Second)
	case "ipc":
		return net.DialTimeout("unix", strings.TrimPrefix(addr, "ipc://"), 2*time.Second)
	case "tls+tcp":
		cfg, _ := mtest.GetTLSConfig(false)
		d := &net.Dialer{Timeout: 2 * time.Second}
		return tls.DialWithDialer(d, "tcp", strings.TrimPrefix(addr, "tls+tcp://"), cfg)
	}
	return nil, fmt.Errorf("no raw dial for %s", tr)
}

func readN(c net.Conn, n int, d time.Duration) ([]byte, error) {
	_ = c.SetReadDeadline(time.Now().Add(d))
	b := make([]byte, n)
	k, err := io.ReadFull(c, b)
	return b[:k], err
}

// connection is closed by the other side within d
func closedWithin(c net.Conn, d time.Duration) bool {
	_ = c.SetReadDeadline(time.Now().Add(d))
	_, err := io.Copy(io.Discard, c)
	if ne, ok := err.(net.Error); ok && ne.Timeout() {
		return false
	}
	return true
}

func TestWireReal(t *testing.T) {
	out := newOut(t, "wirereal")
	defer out.Close()
	rng := rand.New(rand.NewSource(seed()))
	idx := 0
	for _, tr := range realTrans() {
		if tr.name != "tcp" && tr.name != "ipc" && tr.name != "tls+tcp" {
			continue
		}
		ipc := tr.name == "ipc"
		// --- mangos listens, raw peers connect
		for _, pn := range []uint16{0x10, 0x31, 0x51} { // PAIR, REP, PULL listening
			idx++
			r := rec.New()
			status, detail := "ok", ""
			func() {
				defer func() {
					if x := recover(); x != nil {
						status, detail = "panic", fmt.Sprint(x)
					}
				}()
				var s mangos.Socket
				switch pn {
				case 0x10:
					s, _ = xpair.NewSocket()
				case 0x31:
					s, _ = xrep.NewSocket()
				case 0x51:
					s, _ = xpull.NewSocket()
				}
				defer s.Close()
				limit := 64
				_ = s.SetOption(mangos.OptionMaxRecvSize, limit)
				_ = s.SetOption(mangos.OptionRecvDeadline, 10*time.Second)
				var lo map[string]interface{}
				if tr.opts != nil {
					lo = tr.opts(true)
				}
				l, err := s.NewListener(tr.addr(1000+idx), lo)
				if err != nil {
					panic(err)
				}
				if err = l.Listen(); err != nil {
					panic(err)
				}
				// C16: the limit is lowered after Listen; connections made afterwards must obey it
				limit = 40
				_ = s.SetOption(mangos.OptionMaxRecvSize, limit)
				self := pn
				peer := peerOf(pn)
				// tls+tcp: a peer that opens the TCP connection and never starts the TLS negotiation stays connected all
				// along; nobody else is held up by it (C16: a peer that never completes its handshake ...)
				if tr.name == "tls+tcp" {
					if sc, err := net.DialTimeout("tcp", strings.TrimPrefix(l.Address(), "tls+tcp://"), 2*time.Second); err == nil {
						defer sc.Close()
					}
				}
				// hostile / broken handshakes first, each followed later by a well-behaved peer
				bad := [][]byte{goodHdr(peer)[:3], {0, 'S', 'P', 1, byte(peer >> 8), byte(peer), 0, 0}, goodHdr(0x99), {1, 2, 3, 4, 5, 6, 7, 8}, {0, 'S', 'P', 0, byte(peer >> 8), byte(peer), 0, 7}}
				var stall net.Conn
				for bi, h := range bad {
					c, err := dialRaw(l.Address(), tr.name)
					if err != nil {
						panic(err)
					}
					o, _ := readN(c, 8, 6*time.Second)
					r.Emit("hsout", "b", bytesArr(o), "self", int(self), "rerr", "ok")
					_, _ = c.Write(h)
					if bi == 0 {
						stall = c // never completes its handshake; kept open
						continue
					}
					r.Emit("hsreal", "sent", bytesArr(h), "peer", int(peer), "closed", closedWithin(c, 6*time.Second))
					c.Close()
				}
				// a well-behaved peer: not delayed by the stalled one
				c, err := dialRaw(l.Address(), tr.name)
				if err != nil {
					panic(err)
				}
				defer c.Close()
				o, _ := readN(c, 8, 6*time.Second)
				r.Emit("hsout", "b", bytesArr(o), "self", int(self), "rerr", "ok")
				_, _ = c.Write(goodHdr(peer))
				// frames: in-limit ones are delivered, exactly-at-limit too
				body := func(n int) []byte {
					b := payload(n, n)
					if pn == 0x31 && n >= 4 {
						b[0] |= 0x80 // a REQ id terminates the backtrace
					}
					return b
				}
				for _, n := range []int{4, 17, limit} {
					b := body(n)
					_, _ = c.Write(frame(ipc, b)[:5])
					time.Sleep(5 * time.Millisecond) // a segment boundary inside the length field
					_, _ = c.Write(frame(ipc, b)[5:])
					m, err := s.RecvMsg()
					if err != nil {
						r.Emit("rrecv", "n", n, "r", err, "len", -1, "d", "")
						continue
					}
					all := append(append([]byte{}, m.Header...), m.Body...)
					if pn == 0x31 {
						all = all[4:] // XREP prepends the pipe id
					}
					r.Emit("rrecv", "n", n, "r", "ok", "len", len(all), "d", digest(all), "want", digest(b))
					m.Free()
				}
				// oversize: only the length field is sent; the connection must be dropped at once
				pre := []byte{}
				if ipc {
					pre = []byte{1}
				}
				big := append(pre, 0, 0, 0, 0, 0, 0, 0, byte(limit+1))
				_, _ = c.Write(big)
				r.Emit("oversize", "announced", limit+1, "limit", limit, "closed", closedWithin(c, 6*time.Second))
				// the socket still works: another peer gets through
				c2, err := dialRaw(l.Address(), tr.name)
				if err != nil {
					panic(err)
				}
				defer c2.Close()
				_, _ = readN(c2, 8, 6*time.Second)
				_, _ = c2.Write(goodHdr(peer))
				b := body(9)
				_, _ = c2.Write(frame(ipc, b))
				m, err := s.RecvMsg()
				okc := err == nil
				if okc {
					m.Free()
				}
				r.Emit("control", "ok", okc)
				if stall != nil {
					stall.Close()
				}
				_ = rng
			}()
			out.Add(fmt.Sprintf("wirereal-l-%s-%x", tr.name, pn), rec.Ev{"kind": "real", "ipc": ipc, "self": int(pn), "maxrx": 40, "stream": []int{}, "closes": false},
				fmt.Sprint("listen ", tr.name, pn), sim.Result{Lines: r.Lines(), Status: status, Detail: detail})
		}
		// --- mangos dials a raw listener
		if tr.name == "tls+tcp" {
			continue
		}
		for _, pn := range []uint16{0x30, 0x50, 0x70} { // REQ, PUSH, BUS dialing
			idx++
			r := rec.New()
			status, detail := "ok", ""
			func() {
				defer func() {
					if x := recover(); x != nil {
						status, detail = "panic", fmt.Sprint(x)
					}
				}()
				var nl net.Listener
				var err error
				var addr string
				if tr.name == "tcp" {
					nl, err = net.Listen("tcp", "127.0.0.1:0")
					if err == nil {
						addr = "tcp://" + nl.Addr().String()
					}
				} else {
					p := fmt.Sprintf("%s/verif-d-%d-%d.sock", os.TempDir(), os.Getpid(), idx)
					os.Remove(p)
					nl, err = net.Listen("unix", p)
					addr = "ipc://" + p
				}
				if err != nil {
					panic(err)
				}
				defer nl.Close()
				var s mangos.Socket
				switch pn {
				case 0x30:
					s, _ = xreq.NewSocket()
				case 0x50:
					s, _ = xpush.NewSocket()
				case 0x70:
					s, _ = xbus.NewSocket()
				}
				defer s.Close()
				_ = s.SetOption(mangos.OptionSendDeadline, 3*time.Second)
				_ = s.SetOption(mangos.OptionReconnectTime, 20*time.Millisecond)
				_ = s.SetOption(mangos.OptionDialAsynch, true)
				if err := s.Dial(addr); err != nil {
					panic(err)
				}
				peer := peerOf(pn)
				// first connection: a wrong header; mangos must drop it and redial
				c, err := nl.Accept()
				if err != nil {
					panic(err)
				}
				o, _ := readN(c, 8, 6*time.Second)
				r.Emit("hsout", "b", bytesArr(o), "self", int(pn), "rerr", "ok")
				_, _ = c.Write(goodHdr(0x99))
				r.Emit("hsreal", "sent", bytesArr(goodHdr(0x99)), "peer", int(peer), "closed", closedWithin(c, 6*time.Second))
				c.Close()
				c, err = nl.Accept()
				if err != nil {
					panic(err)
				}
				defer c.Close()
				o, _ = readN(c, 8, 6*time.Second)
				r.Emit("hsout", "b", bytesArr(o), "self", int(pn), "rerr", "ok")
				_, _ = c.Write(goodHdr(peer))
				time.Sleep(50 * time.Millisecond)
				for _, n := range []int{0, 5, 300} {
					hdr := []byte{}
					if pn == 0x30 {
						hdr = []byte{0x80, 0, 0, byte(n)}
					}
					body := payload(n, n)
					m := mangos.NewMessage(n)
					m.Header = append(m.Header, hdr...)
					m.Body = append(m.Body, body...)
					if err := s.SendMsg(m); err != nil {
						r.Emit("wsent", "hdr", bytesArr(hdr), "body", bytesArr(body), "raw", []int{}, "r", err)
						continue
					}
					want := 8 + len(hdr) + n
					if ipc {
						want++
					}
					raw, _ := readN(c, want, 3*time.Second)
					r.Emit("wsent", "hdr", bytesArr(hdr), "body", bytesArr(body), "raw", bytesArr(raw), "r", "ok")
				}
			}()
			out.Add(fmt.Sprintf("wirereal-d-%s-%x", tr.name, pn), rec.Ev{"kind": "real", "ipc": ipc, "self": int(pn), "maxrx": 0, "stream": []int{}, "closes": false},
				fmt.Sprint("dial ", tr.name, pn), sim.Result{Lines: r.Lines(), Status: status, Detail: detail})
		}
	}
	// --- WebSocket mapping against an independent implementation (gorilla/websocket)
	for wi, wss := range []bool{false, true, false, false} {
		idx++
		wi := wi
		r := rec.New()
		status, detail := "ok", ""
		func() {
			defer func() {
				if x := recover(); x != nil {
					status, detail = "panic", fmt.Sprint(x)
				}
			}()
			s, _ := pair.NewSocket()
			defer s.Close()
			_ = s.SetOption(mangos.OptionRecvDeadline, 10*time.Second)
			scheme, ws := "ws", "ws"
			var lo map[string]interface{}
			if wss {
				scheme, ws = "wss", "wss"
				lo = tlsOpts(true)
			}
			l, err := s.NewListener(scheme+"://127.0.0.1:0/sp", lo)
			if err != nil {
				panic(err)
			}
			// the mapping is the same whatever the listener's own options are
			switch wi {
			case 2:
				_ = l.SetOption(mangosws.OptionWebSocketCheckOrigin, false)
			case 3:
				_ = l.SetOption(mangosws.OptionWebSocketCheckOrigin, true)
				_ = l.SetOption(mangos.OptionMaxRecvSize, 100000)
			}
			if err = l.Listen(); err != nil {
				panic(err)
			}
			url := strings.Replace(l.Address(), scheme+"://", ws+"://", 1)
			d := websocket.Dialer{HandshakeTimeout: 2 * time.Second}
			if wss {
				d.TLSClientConfig, _ = mtest.GetTLSConfig(false)
			}
			// wrong subprotocol is refused
			d.Subprotocols = []string{"rep.sp.nanomsg.org"}
			_, _, err = d.Dial(url, nil)
			r.Emit("wsdial", "sub", "rep.sp.nanomsg.org", "self", "pair", "accepted", err == nil)
			d.Subprotocols = nil
			_, _, err = d.Dial(url, nil)
			r.Emit("wsdial", "sub", "", "self", "pair", "accepted", err == nil)
			d.Subprotocols = []string{"pair.sp.nanomsg.org"}
			c, resp, err := d.Dial(url, nil)
			r.Emit("wsdial", "sub", "pair.sp.nanomsg.org", "self", "pair", "accepted", err == nil)
			if err != nil {
				return
			}
			defer c.Close()
			r.Emit("wsneg", "proto", resp.Header.Get("Sec-Websocket-Protocol"))
			time.Sleep(30 * time.Millisecond)
			for _, n := range []int{0, 3, 200, 70000} {
				b := payload(n, n)
				_ = c.WriteMessage(websocket.BinaryMessage, b)
				m, err := s.RecvMsg()
				if err != nil {
					r.Emit("rrecv", "n", n, "r", err, "len", -1, "d", "")
					continue
				}
				r.Emit("rrecv", "n", n, "r", "ok", "len", len(m.Body), "d", digest(m.Body), "want", digest(b))
				m.Free()
				m2 := mangos.NewMessage(n)
				m2.Body = append(m2.Body, b...)
				_ = s.SendMsg(m2)
				_ = c.SetReadDeadline(time.Now().Add(3 * time.Second))
				mt, data, err := c.ReadMessage()
				r.Emit("wsframe", "binary", mt == websocket.BinaryMessage, "len", len(data), "d", digest(data), "want", digest(b), "r", err)
			}
		}()
		out.Add(fmt.Sprintf("wirereal-ws-%v-%d", wss, wi), rec.Ev{"kind": "ws", "ipc": false, "self": 16, "maxrx": 0, "stream": []int{}, "closes": false},
			fmt.Sprint("ws ", wss), sim.Result{Lines: r.Lines(), Status: status, Detail: detail})
	}
	// mangos as WebSocket client against a gorilla server: the offered subprotocol
	{
		r := rec.New()
		status, detail := "ok", ""
		func() {
			defer func() {
				if x := recover(); x != nil {
					status, detail = "panic", fmt.Sprint(x)
				}
			}()
			offered := make(chan []string, 4)
			frames := make(chan []byte, 16)
			push := make(chan []byte, 4)
			defer close(push)
			closedByPeer := make(chan struct{}, 4)
			up := websocket.Upgrader{Subprotocols: []string{"rep.sp.nanomsg.org"}, CheckOrigin: func(*http.Request) bool { return true }}
			nl, err := net.Listen("tcp", "127.0.0.1:0")
			if err != nil {
				panic(err)
			}
			defer nl.Close()
			srv := &http.Server{Handler: http.HandlerFunc(func(w http.ResponseWriter, q *http.Request) {
				offered <- websocket.Subprotocols(q)
				c, err := up.Upgrade(w, q, nil)
				if err != nil {
					return
				}
				defer c.Close()
				go func() {
					for b := range push {
						_ = c.WriteMessage(websocket.BinaryMessage, b)
					}
				}()
				for {
					mt, data, err := c.ReadMessage()
					if err != nil {
						closedByPeer <- struct{}{}
						return
					}
					if mt == websocket.BinaryMessage {
						frames <- data
					} else {
						frames <- nil
					}
				}
			})}
			go srv.Serve(nl)
			defer srv.Close()
			s, _ := xreq.NewSocket()
			defer s.Close()
			_ = s.SetOption(mangos.OptionSendDeadline, 3*time.Second)
			const wsLimit = 64
			_ = s.SetOption(mangos.OptionMaxRecvSize, wsLimit) // the dialing side has a receive limit too
			if err := s.Dial("ws://" + nl.Addr().String() + "/sp"); err != nil {
				panic(err)
			}
			select {
			case o := <-offered:
				r.Emit("wsoffer", "subs", strings.Join(o, ","), "peer", "rep")
			case <-time.After(3 * time.Second):
				r.Emit("wsoffer", "subs", "<none>", "peer", "rep")
			}
			// every header length x body length (incl. none of either): one binary frame, header then body
			for hi, hdr := range [][]byte{{0x80, 0, 0, 1}, {0, 0, 0, 7, 0x80, 0, 0, 2}} {
				for _, n := range []int{4, 0, 300, 1} {
					body := payload(n, n+hi)
					m := mangos.NewMessage(8)
					m.Header = append(m.Header, hdr...)
					m.Body = append(m.Body, body...)
					_ = s.SendMsg(m)
					select {
					case f := <-frames:
						want := append(append([]byte{}, hdr...), body...)
						r.Emit("wsframe", "binary", f != nil, "len", len(f), "d", digest(f), "want", digest(want), "r", "ok")
					case <-time.After(3 * time.Second):
						r.Emit("wsframe", "binary", false, "len", -1, "d", "", "want", "x", "r", "timeout")
					}
				}
			}
			// the receive limit on the dialing side: a frame of exactly the limit is delivered, one byte more is not and
			// the connection is dropped
			_ = s.SetOption(mangos.OptionRecvDeadline, 6*time.Second)
			exact := append([]byte{0x80, 0, 0, 9}, payload(wsLimit-4, 91)...)
			push <- exact
			if m, err := s.RecvMsg(); err != nil {
				r.Emit("rrecv", "n", wsLimit, "r", err, "len", -1, "d", "", "want", digest(exact))
			} else {
				all := append(append([]byte{}, m.Header...), m.Body...)
				r.Emit("rrecv", "n", wsLimit, "r", "ok", "len", len(all), "d", digest(all), "want", digest(exact))
				m.Free()
			}
			push <- append([]byte{0x80, 0, 0, 10}, payload(wsLimit-3, 92)...)
			dropped := false
			select {
			case <-closedByPeer:
				dropped = true
			case <-time.After(6 * time.Second):
			}
			_ = s.SetOption(mangos.OptionRecvDeadline, 300*time.Millisecond)
			m, err := s.RecvMsg()
			if err == nil {
				m.Free()
			}
			r.Emit("oversize", "announced", wsLimit+1, "limit", wsLimit, "closed", dropped && err != nil)
		}()
		out.Add("wirereal-wsclient", rec.Ev{"kind": "ws", "ipc": false, "self": 48, "maxrx": 0, "stream": []int{}, "closes": false},
			"ws client", sim.Result{Lines: r.Lines(), Status: status, Detail: detail})
	}
	_ = binary.BigEndian
}
