package harness

import (
	"fmt"
	"net"
	"os"
	"strings"
	"testing"
	"time"

	"go.nanomsg.org/mangos/v3"
	"go.nanomsg.org/mangos/v3/protocol/bus"
	"go.nanomsg.org/mangos/v3/protocol/pair"
	"go.nanomsg.org/mangos/v3/protocol/pair1"
	"go.nanomsg.org/mangos/v3/protocol/pub"
	"go.nanomsg.org/mangos/v3/protocol/pull"
	"go.nanomsg.org/mangos/v3/protocol/push"
	"go.nanomsg.org/mangos/v3/protocol/rep"
	"go.nanomsg.org/mangos/v3/protocol/req"
	"go.nanomsg.org/mangos/v3/protocol/respondent"
	"go.nanomsg.org/mangos/v3/protocol/star"
	"go.nanomsg.org/mangos/v3/protocol/sub"
	"go.nanomsg.org/mangos/v3/protocol/surveyor"
	"go.nanomsg.org/mangos/v3/protocol/xbus"
	"go.nanomsg.org/mangos/v3/protocol/xpair"
	"go.nanomsg.org/mangos/v3/protocol/xpair1"
	"go.nanomsg.org/mangos/v3/protocol/xpub"
	"go.nanomsg.org/mangos/v3/protocol/xpull"
	"go.nanomsg.org/mangos/v3/protocol/xpush"
	"go.nanomsg.org/mangos/v3/protocol/xrep"
	"go.nanomsg.org/mangos/v3/protocol/xreq"
	"go.nanomsg.org/mangos/v3/protocol/xrespondent"
	"go.nanomsg.org/mangos/v3/protocol/xstar"
	"go.nanomsg.org/mangos/v3/protocol/xsub"
	"go.nanomsg.org/mangos/v3/protocol/xsurveyor"

	"verifharness/rec"
	"verifharness/sim"
)

// ---------------------------------------------------------------------------
// C15 "for every protocol number": each of the twelve patterns, cooked and raw,
// on a real stream transport against a raw peer that knows the SP protocol
// numbers from its own table (the same table is in spec/Wire.tla, SPNumber /
// SPPeer, which is what the trace is validated against - nothing here is taken
// from the library's constants).  Listening and dialing side: mangos writes
// the header of its own number first; a peer presenting the partner's number is
// attached; a peer presenting another valid SP number is dropped.

type spProto struct {
	name string
	mk   func() (mangos.Socket, error)
	raw  bool
}

var spNumber = map[string]uint16{"pair": 16, "pair1": 17, "pub": 32, "sub": 33, "req": 48, "rep": 49, "push": 80, "pull": 81,
	"surveyor": 98, "respondent": 99, "bus": 112, "star": 1600}
var spPartner = map[string]string{"pair": "pair", "pair1": "pair1", "pub": "sub", "sub": "pub", "req": "rep", "rep": "req",
	"push": "pull", "pull": "push", "surveyor": "respondent", "respondent": "surveyor", "bus": "bus", "star": "star"}

func spProtos12() []spProto {
	return []spProto{
		{"pair", pair.NewSocket, false}, {"pair", xpair.NewSocket, true},
		{"pair1", pair1.NewSocket, false}, {"pair1", xpair1.NewSocket, true},
		{"pub", pub.NewSocket, false}, {"pub", xpub.NewSocket, true},
		{"sub", sub.NewSocket, false}, {"sub", xsub.NewSocket, true},
		{"req", req.NewSocket, false}, {"req", xreq.NewSocket, true},
		{"rep", rep.NewSocket, false}, {"rep", xrep.NewSocket, true},
		{"push", push.NewSocket, false}, {"push", xpush.NewSocket, true},
		{"pull", pull.NewSocket, false}, {"pull", xpull.NewSocket, true},
		{"surveyor", surveyor.NewSocket, false}, {"surveyor", xsurveyor.NewSocket, true},
		{"respondent", respondent.NewSocket, false}, {"respondent", xrespondent.NewSocket, true},
		{"bus", bus.NewSocket, false}, {"bus", xbus.NewSocket, true},
		{"star", star.NewSocket, false}, {"star", xstar.NewSocket, true},
	}
}

func TestWireNames(t *testing.T) {
	out := newOut(t, "wirenames")
	defer out.Close()
	for _, tn := range []string{"tcp", "ipc"} {
		var tr realTran
		for _, x := range realTrans() {
			if x.name == tn {
				tr = x
			}
		}
		for pi, sp := range spProtos12() {
			r := rec.New()
			status, detail := "ok", ""
			func() {
				defer func() {
					if x := recover(); x != nil {
						status, detail = "panic", fmt.Sprint(x)
					}
				}()
				partner := spNumber[spPartner[sp.name]]
				// a valid SP number that is not this socket's partner
				wrong := spNumber[sp.name]
				if wrong == partner {
					wrong = spNumber["pull"]
				}
				// --- mangos listens
				s, err := sp.mk()
				if err != nil {
					panic(err)
				}
				attached := make(chan struct{}, 16)
				s.SetPipeEventHook(func(ev mangos.PipeEvent, p mangos.Pipe) {
					if ev == mangos.PipeEventAttached {
						attached <- struct{}{}
					}
				})
				l, err := s.NewListener(tr.addr(2600+pi), nil)
				if err != nil {
					panic(err)
				}
				if err = l.Listen(); err != nil {
					panic(err)
				}
				c, err := dialRaw(l.Address(), tn)
				if err != nil {
					panic(err)
				}
				b, _ := readN(c, 8, 6*time.Second)
				_, _ = c.Write(goodHdr(partner))
				ok := false
				select {
				case <-attached:
					ok = true
				case <-time.After(6 * time.Second):
				}
				c2, err := dialRaw(l.Address(), tn)
				if err != nil {
					panic(err)
				}
				_, _ = readN(c2, 8, 6*time.Second)
				_, _ = c2.Write(goodHdr(wrong))
				wclosed := closedWithin(c2, 6*time.Second)
				extra := false
				select {
				case <-attached:
					extra = true
				default:
				}
				r.Emit("hsname", "side", "listen", "name", sp.name, "raw", sp.raw, "b", bytesArr(b), "sent", bytesArr(goodHdr(partner)),
					"accepted", ok, "wrong", bytesArr(goodHdr(wrong)), "wrongclosed", wclosed, "wrongattached", extra)
				_ = c.Close()
				_ = c2.Close()
				_ = s.Close()
				// --- mangos dials
				var nl net.Listener
				addr := ""
				if tn == "tcp" {
					nl, err = net.Listen("tcp", "127.0.0.1:0")
					if err == nil {
						addr = "tcp://" + nl.Addr().String()
					}
				} else {
					path := fmt.Sprintf("%s/verif-names-%d-%d.sock", os.TempDir(), os.Getpid(), pi)
					_ = os.Remove(path)
					nl, err = net.Listen("unix", path)
					addr = "ipc://" + path
					defer os.Remove(path)
				}
				if err != nil {
					panic(err)
				}
				defer nl.Close()
				for round, present := range []uint16{partner, wrong} {
					s, err := sp.mk()
					if err != nil {
						panic(err)
					}
					att := make(chan struct{}, 16)
					s.SetPipeEventHook(func(ev mangos.PipeEvent, p mangos.Pipe) {
						if ev == mangos.PipeEventAttached {
							att <- struct{}{}
						}
					})
					_ = s.SetOption(mangos.OptionDialAsynch, true)
					_ = s.SetOption(mangos.OptionReconnectTime, 10*time.Second) // one attempt is looked at
					if err = s.Dial(addr); err != nil {
						panic(err)
					}
					if tl, isTCP := nl.(*net.TCPListener); isTCP {
						_ = tl.SetDeadline(time.Now().Add(3 * time.Second))
					} else if ul, isUnix := nl.(*net.UnixListener); isUnix {
						_ = ul.SetDeadline(time.Now().Add(3 * time.Second))
					}
					pc, err := nl.Accept()
					if err != nil {
						panic(err)
					}
					b, _ := readN(pc, 8, 6*time.Second)
					_, _ = pc.Write(goodHdr(present))
					got, wclosed := false, false
					if round == 0 {
						select {
						case <-att:
							got = true
						case <-time.After(6 * time.Second):
						}
					} else {
						wclosed = closedWithin(pc, 6*time.Second) // (returns as soon as mangos hangs up)
						select {
						case <-att:
							got = true
						case <-time.After(20 * time.Millisecond):
						}
					}
					if round == 0 {
						r.Emit("hsname", "side", "dial", "name", sp.name, "raw", sp.raw, "b", bytesArr(b), "sent", bytesArr(goodHdr(present)),
							"accepted", got, "wrong", bytesArr(goodHdr(wrong)), "wrongclosed", true, "wrongattached", false)
					} else {
						r.Emit("hsname", "side", "dialwrong", "name", sp.name, "raw", sp.raw, "b", bytesArr(b), "sent", bytesArr(goodHdr(partner)),
							"accepted", true, "wrong", bytesArr(goodHdr(present)), "wrongclosed", wclosed, "wrongattached", got)
					}
					_ = pc.Close()
					_ = s.Close()
				}
			}()
			kind := "cooked"
			if sp.raw {
				kind = "raw"
			}
			out.Add(fmt.Sprintf("wirenames-%s-%s-%s", tn, sp.name, kind), rec.Ev{"kind": "names", "ipc": tn == "ipc", "self": 0, "maxrx": 0, "stream": []int{}, "closes": false},
				strings.Join([]string{tn, sp.name, kind}, " "), sim.Result{Lines: r.Lines(), Status: status, Detail: detail})
		}
	}
}
