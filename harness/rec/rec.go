// Package rec is the trace recorder of the conformance harness: one mutex,
// one sequence number, NDJSON lines.  Events are only ever emitted at
// boundaries the harness owns (API call sites, virtual transport entry
// points, pipe event hook, protocol wrapper, message ledger).
package rec

import (
	"bufio"
	"encoding/hex"
	"encoding/json"
	"fmt"
	"os"
	"sort"
	"strings"
	"sync"
	"time"

	"go.nanomsg.org/mangos/v3"
)

// Ev is one trace line.  Field "k" (kind) is always present; all other
// fields are kind specific.  Values are strings, ints or bools only (the TLA+
// side never sees floats).
type Ev map[string]interface{}

// Recorder collects the events of one scenario (one "trace").
type Recorder struct {
	mu    sync.Mutex
	seq   int
	t0    time.Time
	lines []Ev
	// Silent, when set, suppresses recording (used while tearing down).
	Silent bool
}

// New returns a recorder whose time origin is now (inside a synctest bubble
// that is the bubble's virtual epoch).
func New() *Recorder {
	return &Recorder{t0: time.Now()}
}

// SetSilent switches recording off or on (safe while library goroutines emit).
func (r *Recorder) SetSilent(b bool) { r.mu.Lock(); r.Silent = b; r.mu.Unlock() }

// Now returns microseconds since the recorder was created.
func (r *Recorder) Now() int64 { return int64(time.Since(r.t0) / time.Microsecond) }

// Emit appends one event. kv are alternating key, value.
func (r *Recorder) Emit(kind string, kv ...interface{}) {
	r.mu.Lock()
	defer r.mu.Unlock()
	if r.Silent {
		return
	}
	r.seq++
	e := Ev{"i": r.seq, "t": r.Now(), "k": kind}
	for i := 0; i+1 < len(kv); i += 2 {
		e[kv[i].(string)] = norm(kv[i+1])
	}
	r.lines = append(r.lines, e)
}

func norm(v interface{}) interface{} {
	switch x := v.(type) {
	case []byte:
		return hex.EncodeToString(x)
	case time.Duration:
		return int64(x / time.Microsecond)
	case error:
		if x == nil {
			return "ok"
		}
		return ErrName(x)
	case nil:
		return "ok"
	}
	return v
}

// ErrName maps a mangos error to a stable short name.
func ErrName(err error) string {
	if err == nil {
		return "ok"
	}
	for _, e := range errTable {
		if err == e.e {
			return e.n
		}
	}
	return "Err:" + strings.ReplaceAll(err.Error(), " ", "_")
}

var errTable = []struct {
	e error
	n string
}{
	{mangos.ErrBadAddr, "ErrBadAddr"}, {mangos.ErrBadHeader, "ErrBadHeader"},
	{mangos.ErrBadVersion, "ErrBadVersion"}, {mangos.ErrTooShort, "ErrTooShort"},
	{mangos.ErrTooLong, "ErrTooLong"}, {mangos.ErrClosed, "ErrClosed"},
	{mangos.ErrConnRefused, "ErrConnRefused"}, {mangos.ErrSendTimeout, "ErrSendTimeout"},
	{mangos.ErrRecvTimeout, "ErrRecvTimeout"}, {mangos.ErrProtoState, "ErrProtoState"},
	{mangos.ErrProtoOp, "ErrProtoOp"}, {mangos.ErrBadTran, "ErrBadTran"},
	{mangos.ErrBadProto, "ErrBadProto"}, {mangos.ErrBadOption, "ErrBadOption"},
	{mangos.ErrBadValue, "ErrBadValue"}, {mangos.ErrGarbled, "ErrGarbled"},
	{mangos.ErrAddrInUse, "ErrAddrInUse"}, {mangos.ErrBadProperty, "ErrBadProperty"},
	{mangos.ErrTLSNoConfig, "ErrTLSNoConfig"}, {mangos.ErrTLSNoCert, "ErrTLSNoCert"},
	{mangos.ErrNotRaw, "ErrNotRaw"}, {mangos.ErrCanceled, "ErrCanceled"},
	{mangos.ErrNoContext, "ErrNoContext"}, {mangos.ErrNoPeers, "ErrNoPeers"},
}

// Lines returns a copy of the recorded events.
func (r *Recorder) Lines() []Ev {
	r.mu.Lock()
	defer r.mu.Unlock()
	return append([]Ev(nil), r.lines...)
}

// Len is the number of events so far.
func (r *Recorder) Len() int {
	r.mu.Lock()
	defer r.mu.Unlock()
	return len(r.lines)
}

// Sink writes many traces into one NDJSON file, separated by reset lines so
// that one TLC run validates a whole batch.
type Sink struct {
	mu     sync.Mutex
	f      *os.File
	w      *bufio.Writer
	Traces int
	Events int
	index  *bufio.Writer
	fi     *os.File
}

// NewSink creates dir/name.ndjson (and dir/name.index listing the line at
// which each trace starts and its label).
func NewSink(dir, name string) (*Sink, error) {
	if err := os.MkdirAll(dir, 0o755); err != nil {
		return nil, err
	}
	f, err := os.Create(dir + "/" + name + ".ndjson")
	if err != nil {
		return nil, err
	}
	fi, err := os.Create(dir + "/" + name + ".index")
	if err != nil {
		return nil, err
	}
	return &Sink{f: f, w: bufio.NewWriterSize(f, 1<<20), fi: fi, index: bufio.NewWriter(fi)}, nil
}

// Add appends one trace. cfg is merged into the leading reset line (it
// carries the per-trace configuration the trace spec needs).
func (s *Sink) Add(label string, cfg Ev, lines []Ev) {
	s.mu.Lock()
	defer s.mu.Unlock()
	s.Traces++
	hdr := Ev{"k": "reset", "i": 0, "t": 0, "label": label}
	for k, v := range cfg {
		hdr[k] = norm(v)
	}
	fmt.Fprintf(s.index, "%d\t%s\n", s.Events+1, label)
	s.write(hdr)
	for _, e := range lines {
		s.write(e)
	}
}

func (s *Sink) write(e Ev) {
	// deterministic key order
	keys := make([]string, 0, len(e))
	for k := range e {
		keys = append(keys, k)
	}
	sort.Strings(keys)
	var b strings.Builder
	b.WriteByte('{')
	for i, k := range keys {
		if i > 0 {
			b.WriteByte(',')
		}
		kb, _ := json.Marshal(k)
		vb, err := json.Marshal(e[k])
		if err != nil {
			vb, _ = json.Marshal(fmt.Sprint(e[k]))
		}
		b.Write(kb)
		b.WriteByte(':')
		b.Write(vb)
	}
	b.WriteString("}\n")
	s.w.WriteString(b.String())
	s.Events++
}

// Close flushes the files.
func (s *Sink) Close() error {
	s.mu.Lock()
	defer s.mu.Unlock()
	s.w.Flush()
	s.index.Flush()
	s.fi.Close()
	return s.f.Close()
}
