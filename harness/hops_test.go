package harness

import (
	"encoding/binary"
	"fmt"
	"testing"
	"time"

	"go.nanomsg.org/mangos/v3"
	"go.nanomsg.org/mangos/v3/protocol/pair1"
	"go.nanomsg.org/mangos/v3/protocol/rep"
	"go.nanomsg.org/mangos/v3/protocol/respondent"
	"go.nanomsg.org/mangos/v3/protocol/star"
	"go.nanomsg.org/mangos/v3/protocol/xpair1"
	"go.nanomsg.org/mangos/v3/protocol/xrep"
	"go.nanomsg.org/mangos/v3/protocol/xrespondent"
	"go.nanomsg.org/mangos/v3/protocol/xstar"

	"verifharness/rec"
	"verifharness/sim"
)

// ---------------------------------------------------------------------------
// Hop limit driver (C09 part a): for every receiver, every TTL and every
// hop count a raw peer on the virtual transport injects one message and the
// harness observes whether the socket delivers it.  The recorded
// {proto, ttl, n, avail | h, delivered, hdr} lines are validated by TLC
// against the transcribed loops of spec/Hops.tla (whose equivalence with
// "k <= TTL" TLC checks separately).

type hopProto struct {
	name string
	mk   func() (mangos.Socket, error)
	raw  bool
	kind string // "bt" backtrace words, "hop" hop byte
}

var hopProtos = []hopProto{
	{"rep", rep.NewSocket, false, "bt"},
	{"xrep", xrep.NewSocket, true, "bt"},
	{"respondent", respondent.NewSocket, false, "bt"},
	{"xrespondent", xrespondent.NewSocket, true, "bt"},
	{"pair1", pair1.NewSocket, false, "hop"},
	{"xpair1", xpair1.NewSocket, true, "hop"},
	{"star", star.NewSocket, false, "hop"},
	{"xstar", xstar.NewSocket, true, "hop"},
}

func hopTTLs() []int {
	if thorough() {
		t := make([]int, 0, 255)
		for i := 1; i <= 255; i++ {
			t = append(t, i)
		}
		return t
	}
	return []int{1, 2, 3, 8, 9, 100, 254, 255}
}

// backtrace body: n = position of the terminating word (0 = none), avail = complete words present
func btBody(n, avail int) []byte {
	var b []byte
	for i := 1; i <= avail; i++ {
		w := uint32(0x00010000 + i)
		if i == n {
			w = 0x80000000 | uint32(i)
		}
		b = binary.BigEndian.AppendUint32(b, w)
	}
	return append(b, 'x', 'y') // trailing bytes that are not a word
}

func runHops(t *testing.T, hp hopProto, ttls []int) sim.Result {
	return sim.Run(t, 120*time.Second, func(s *sim.S) {
		sock, err := hp.mk()
		if err != nil {
			panic(err)
		}
		def, _ := sock.GetOption(mangos.OptionTTL)
		s.Rec.Emit("ttlopt", "proto", hp.name, "default", def,
			"set0", sock.SetOption(mangos.OptionTTL, 0), "set256", sock.SetOption(mangos.OptionTTL, 256),
			"setneg", sock.SetOption(mangos.OptionTTL, -1), "set1", sock.SetOption(mangos.OptionTTL, 1),
			"set255", sock.SetOption(mangos.OptionTTL, 255), "setstr", sock.SetOption(mangos.OptionTTL, "8"))
		_ = sock.SetOption(mangos.OptionRecvDeadline, time.Millisecond)
		if err = sock.Listen(s.Net.Addr("l1")); err != nil {
			panic(err)
		}
		p := s.Net.NewPipe("p1")
		p.SetQuiet(true)
		s.Net.Listener("l1").Offer(p)
		s.Wait()
		try := func(body []byte) (bool, int, int) {
			p.Inject(body)
			s.Wait()
			m, err := sock.RecvMsg()
			if err != nil {
				return false, 0, 0
			}
			hl, last := len(m.Header), 0
			if hl > 0 {
				last = int(m.Header[hl-1])
			}
			m.Free()
			return true, hl, last
		}
		for _, ttl := range ttls {
			if err := sock.SetOption(mangos.OptionTTL, ttl); err != nil {
				// every value the grids use is in 1..255: a refusal is for the specification to judge, not a driver fault
				s.Rec.Emit("httl", "proto", hp.name, "ttl", ttl, "r", err)
				continue
			}
			if hp.kind == "bt" {
				for n := 0; n <= ttl+2; n++ {
					for _, avail := range []int{0, n - 1, n, ttl + 3} {
						if avail < 0 {
							continue
						}
						d, hl, _ := try(btBody(n, avail))
						s.Rec.Emit("hop", "proto", hp.name, "ttl", ttl, "n", n, "avail", avail, "delivered", d, "hl", hl)
					}
				}
			} else {
				hs := []int{}
				for h := 0; h <= ttl+2 && h <= 300; h++ {
					hs = append(hs, h)
				}
				// the largest counts a peer can put into the hop byte, whatever the limit (a count that wraps round when it
				// is incremented must not come out as a small one)
				for _, h := range []int{253, 254, 255} {
					if h > ttl+2 {
						hs = append(hs, h)
					}
				}
				for _, h := range hs {
					body := binary.BigEndian.AppendUint32(nil, uint32(h))
					body = append(body, 'z')
					d, hl, last := try(body)
					s.Rec.Emit("hopb", "proto", hp.name, "ttl", ttl, "h", h, "delivered", d, "hl", hl, "hout", last)
				}
				// malformed hop words: non-zero leading bytes, short body
				for _, body := range [][]byte{{1, 0, 0, 0, 'z'}, {0, 1, 0, 0, 'z'}, {0, 0, 1, 0, 'z'}, {0, 0, 0}, {}} {
					d, hl, _ := try(body)
					s.Rec.Emit("hopg", "proto", hp.name, "ttl", ttl, "b0", len(body) > 0 && body[0] != 0,
						"b1", len(body) > 1 && body[1] != 0, "b2", len(body) > 2 && body[2] != 0, "short", len(body) < 4,
						"delivered", d, "hl", hl)
				}
			}
		}
		_ = sock.Close()
		time.Sleep(time.Second)
		s.Wait()
	})
}

func TestHops(t *testing.T) {
	out := newOut(t, "hops")
	defer out.Close()
	for _, hp := range hopProtos {
		res := runHops(t, hp, hopTTLs())
		out.Add("hops-"+hp.name, rec.Ev{"proto": hp.name}, fmt.Sprint(hp.name), res)
	}
}
