// Package vt is the virtual transport of the conformance harness.  It
// implements the public mangos Transport / TranDialer / TranListener /
// TranPipe interfaces.  The harness decides the outcome and the moment of
// every Dial, Accept and Listen, of every transport Send completion and Recv
// delivery, and can close or fail any pipe at any point.  Every call the
// library makes on it is a recorded event.
package vt

import (
	"fmt"
	"strings"
	"sync"

	"go.nanomsg.org/mangos/v3"
	"go.nanomsg.org/mangos/v3/transport"

	"verifharness/rec"
)

// Net is one isolated virtual network (one per scenario).
type Net struct {
	ID  string
	Rec *rec.Recorder

	mu        sync.Mutex
	listeners map[string]*Listener
	dialers   map[string]*Dialer
	npipe     int
	// Decode, when set, adds protocol specific fields to xs / rv events.
	Decode func(dir string, b []byte) []interface{}
	// ListenErr, when set for an address, makes Listen fail once with it.
	ListenErr map[string]error
}

var (
	regMu sync.Mutex
	nets  = map[string]*Net{}
	nnet  int
)

type tran struct{}

func (tran) Scheme() string { return "vt" }

func init() { transport.RegisterTransport(tran{}) }

// NewNet creates and registers a network.
func NewNet(r *rec.Recorder) *Net {
	regMu.Lock()
	defer regMu.Unlock()
	nnet++
	n := &Net{ID: fmt.Sprintf("n%d", nnet), Rec: r,
		listeners: map[string]*Listener{}, dialers: map[string]*Dialer{},
		ListenErr: map[string]error{}}
	nets[n.ID] = n
	return n
}

// Release forgets the network.
func (n *Net) Release() {
	regMu.Lock()
	delete(nets, n.ID)
	regMu.Unlock()
}

// Addr builds the address of endpoint name on this network.
func (n *Net) Addr(name string) string { return "vt://" + n.ID + "/" + name }

func lookup(url string) (*Net, string, error) {
	if !strings.HasPrefix(url, "vt://") {
		return nil, "", mangos.ErrBadTran
	}
	rest := url[len("vt://"):]
	i := strings.Index(rest, "/")
	if i <= 0 || i == len(rest)-1 {
		return nil, "", mangos.ErrBadAddr
	}
	regMu.Lock()
	n := nets[rest[:i]]
	regMu.Unlock()
	if n == nil {
		return nil, "", mangos.ErrBadAddr
	}
	return n, rest[i+1:], nil
}

func (tran) NewDialer(url string, sock mangos.Socket) (mangos.TranDialer, error) {
	n, name, err := lookup(url)
	if err != nil {
		return nil, err
	}
	d := &Dialer{Name: name, net: n, out: make(chan dialRes, 64), opts: map[string]interface{}{}}
	n.mu.Lock()
	n.dialers[name] = d
	n.mu.Unlock()
	return d, nil
}

func (tran) NewListener(url string, sock mangos.Socket) (mangos.TranListener, error) {
	n, name, err := lookup(url)
	if err != nil {
		return nil, err
	}
	l := &Listener{Name: name, net: n, url: url, acc: make(chan *Pipe, 64), closed: make(chan struct{}), opts: map[string]interface{}{}}
	n.mu.Lock()
	n.listeners[name] = l
	n.mu.Unlock()
	return l, nil
}

// Dialer returns the transport dialer created for endpoint name.
func (n *Net) Dialer(name string) *Dialer {
	n.mu.Lock()
	defer n.mu.Unlock()
	return n.dialers[name]
}

// Listener returns the transport listener created for endpoint name.
func (n *Net) Listener(name string) *Listener {
	n.mu.Lock()
	defer n.mu.Unlock()
	return n.listeners[name]
}

// ---------------------------------------------------------------- dialer

type dialRes struct {
	p   *Pipe
	err error
}

// Dialer is the transport side of a mangos dialer.
type Dialer struct {
	Name string
	net  *Net
	out  chan dialRes
	mu   sync.Mutex
	opts map[string]interface{}
	// Dials counts Dial calls.
	Dials int
}

// Dial is called by the library.  It records the attempt and then waits
// for the harness to answer it.
func (d *Dialer) Dial() (mangos.TranPipe, error) {
	d.mu.Lock()
	d.Dials++
	k := d.Dials
	d.mu.Unlock()
	d.net.Rec.Emit("dial", "o", d.Name, "n", k)
	r := <-d.out
	if r.err != nil {
		d.net.Rec.Emit("dialres", "o", d.Name, "r", r.err)
		return nil, r.err
	}
	r.p.setOwner(d.Name)
	d.net.Rec.Emit("dialres", "o", d.Name, "r", "ok", "p", r.p.Name)
	return r.p, nil
}

// Answer queues the outcome of the next (or the pending) Dial call.
func (d *Dialer) Answer(p *Pipe, err error) { d.out <- dialRes{p, err} }

func (d *Dialer) SetOption(name string, v interface{}) error {
	d.mu.Lock()
	defer d.mu.Unlock()
	switch name {
	case mangos.OptionMaxRecvSize:
		if _, ok := v.(int); !ok {
			return mangos.ErrBadValue
		}
		d.opts[name] = v
		return nil
	}
	return mangos.ErrBadOption
}

func (d *Dialer) GetOption(name string) (interface{}, error) {
	d.mu.Lock()
	defer d.mu.Unlock()
	if v, ok := d.opts[name]; ok {
		return v, nil
	}
	return nil, mangos.ErrBadOption
}

// -------------------------------------------------------------- listener

// Listener is the transport side of a mangos listener.
type Listener struct {
	Name      string
	net       *Net
	url       string
	acc       chan *Pipe
	closed    chan struct{}
	closeOnce sync.Once
	mu        sync.Mutex
	listening bool
	opts      map[string]interface{}
}

func (l *Listener) Listen() error {
	l.net.mu.Lock()
	err := l.net.ListenErr[l.Name]
	delete(l.net.ListenErr, l.Name)
	l.net.mu.Unlock()
	select {
	case <-l.closed:
		err = mangos.ErrClosed
	default:
	}
	l.net.Rec.Emit("listen", "o", l.Name, "r", err)
	if err != nil {
		return err
	}
	l.mu.Lock()
	l.listening = true
	l.mu.Unlock()
	return nil
}

func (l *Listener) Accept() (mangos.TranPipe, error) {
	l.mu.Lock()
	ok := l.listening
	l.mu.Unlock()
	if !ok {
		return nil, mangos.ErrClosed
	}
	select {
	case <-l.closed:
		return nil, mangos.ErrClosed
	default:
	}
	select {
	case p := <-l.acc:
		p.setOwner(l.Name)
		l.net.Rec.Emit("accept", "o", l.Name, "p", p.Name)
		return p, nil
	case <-l.closed:
		return nil, mangos.ErrClosed
	}
}

// Offer hands a new inbound connection to the listener.
func (l *Listener) Offer(p *Pipe) { l.acc <- p }

func (l *Listener) Close() error {
	l.closeOnce.Do(func() {
		close(l.closed)
		l.net.Rec.Emit("lclose", "o", l.Name)
	})
	return nil
}

func (l *Listener) Address() string { return l.url }

func (l *Listener) SetOption(name string, v interface{}) error {
	l.mu.Lock()
	defer l.mu.Unlock()
	switch name {
	case mangos.OptionMaxRecvSize:
		if _, ok := v.(int); !ok {
			return mangos.ErrBadValue
		}
		l.opts[name] = v
		return nil
	}
	return mangos.ErrBadOption
}

func (l *Listener) GetOption(name string) (interface{}, error) {
	l.mu.Lock()
	defer l.mu.Unlock()
	if v, ok := l.opts[name]; ok {
		return v, nil
	}
	return nil, mangos.ErrBadOption
}

// ------------------------------------------------------------------ pipe

// SendMode says how a library Send on the pipe completes.
type SendMode int

const (
	// Auto: Send completes at once.
	Auto SendMode = iota
	// Gated: Send blocks until the harness calls Release / Fail.
	Gated
)

// Pipe is the library facing end of a virtual connection.
type Pipe struct {
	Name string
	net  *Net

	in         chan []byte
	closed     chan struct{}
	closeOnce  sync.Once
	gate       chan error
	recvFailed chan struct{}
	rfOnce     sync.Once

	mu      sync.Mutex
	mode    SendMode
	peer    *Pipe
	owner   string
	sent    [][]byte
	nsend   int
	opts    map[string]interface{}
	byLib   bool
	blocked bool
	quiet   bool
	linger  bool
}

// NewPipe creates a pipe. It is not connected to anything until it is
// offered to a listener or given as a dial result.
func (n *Net) NewPipe(name string) *Pipe {
	n.mu.Lock()
	n.npipe++
	if name == "" {
		name = fmt.Sprintf("p%d", n.npipe)
	}
	n.mu.Unlock()
	return &Pipe{Name: name, net: n, in: make(chan []byte, 4096), closed: make(chan struct{}),
		gate: make(chan error), recvFailed: make(chan struct{}), opts: map[string]interface{}{"vt-name": name}}
}

func (p *Pipe) setOwner(o string) { p.mu.Lock(); p.owner = o; p.mu.Unlock() }

// SetMode selects how sends complete.
func (p *Pipe) SetMode(m SendMode) { p.mu.Lock(); p.mode = m; p.mu.Unlock() }

// SetLinger makes a gated Send that is in flight when the connection is closed complete all the same once it is
// released (bytes the kernel had already taken: the write returns success although the connection is going away).
func (p *Pipe) SetLinger(b bool) { p.mu.Lock(); p.linger = b; p.mu.Unlock() }

// SetQuiet suppresses xs/xd/rv events for this pipe (bulk transfer tests).
func (p *Pipe) SetQuiet(q bool) { p.mu.Lock(); p.quiet = q; p.mu.Unlock() }

// SetOpt sets a pipe option reported through GetOption.
func (p *Pipe) SetOpt(name string, v interface{}) { p.mu.Lock(); p.opts[name] = v; p.mu.Unlock() }

// Link joins two pipes back to back: what the library sends on one is what
// it receives on the other.  The link holds up to depth messages in flight.
func Link(a, b *Pipe, depth int) {
	a.in = make(chan []byte, depth)
	b.in = make(chan []byte, depth)
	a.peer, b.peer = b, a
}

func (p *Pipe) extra(dir string, b []byte) []interface{} {
	if p.net.Decode != nil {
		return p.net.Decode(dir, b)
	}
	return nil
}

// Send is called by the library (a sender goroutine).
func (p *Pipe) Send(m *mangos.Message) error {
	b := make([]byte, 0, len(m.Header)+len(m.Body))
	b = append(b, m.Header...)
	b = append(b, m.Body...)
	p.mu.Lock()
	p.nsend++
	k := p.nsend
	mode := p.mode
	peer := p.peer
	quiet := p.quiet
	linger := p.linger
	p.mu.Unlock()
	if !quiet {
		kv := append([]interface{}{"o", p.Name, "n", k, "hl", len(m.Header), "len", len(b)}, p.extra("xs", b)...)
		p.net.Rec.Emit("xs", kv...)
	}
	fail := func(err error) error {
		if !quiet {
			p.net.Rec.Emit("xf", "o", p.Name, "n", k, "r", err)
		}
		return err
	}
	select {
	case <-p.closed:
		return fail(mangos.ErrClosed)
	default:
	}
	if mode == Gated {
		p.mu.Lock()
		p.blocked = true
		p.mu.Unlock()
		defer func() { p.mu.Lock(); p.blocked = false; p.mu.Unlock() }()
		closedQ := (<-chan struct{})(p.closed)
		if linger {
			closedQ = nil
		}
		select {
		case err := <-p.gate:
			if err != nil {
				return fail(err)
			}
		case <-closedQ:
			return fail(mangos.ErrClosed)
		}
		if linger && peer == nil {
			// the write had been taken before the connection went away
			p.mu.Lock()
			p.sent = append(p.sent, b)
			p.mu.Unlock()
			if !quiet {
				p.net.Rec.Emit("xd", "o", p.Name, "n", k)
			}
			m.Free()
			return nil
		}
	}
	if peer != nil {
		select {
		case peer.in <- b:
		case <-p.closed:
			return fail(mangos.ErrClosed)
		case <-peer.closed:
			return fail(mangos.ErrClosed)
		}
	} else {
		p.mu.Lock()
		p.sent = append(p.sent, b)
		p.mu.Unlock()
	}
	if !quiet {
		p.net.Rec.Emit("xd", "o", p.Name, "n", k)
	}
	m.Free()
	return nil
}

// Release lets one gated Send complete; Fail makes it return err.
func (p *Pipe) Release()       { p.gate <- nil }
func (p *Pipe) Fail(err error) { p.gate <- err }

// Recv is called by the library (a receiver goroutine).
func (p *Pipe) Recv() (*mangos.Message, error) {
	select {
	case <-p.closed:
		p.rfOnce.Do(func() { close(p.recvFailed) })
		return nil, mangos.ErrClosed
	default:
	}
	select {
	case b := <-p.in:
		m := mangos.NewMessage(len(b))
		m.Body = append(m.Body, b...)
		p.mu.Lock()
		quiet := p.quiet
		p.mu.Unlock()
		if !quiet {
			kv := append([]interface{}{"o", p.Name, "len", len(b)}, p.extra("rv", b)...)
			p.net.Rec.Emit("rv", kv...)
		}
		return m, nil
	case <-p.closed:
		p.rfOnce.Do(func() { close(p.recvFailed) })
		return nil, mangos.ErrClosed
	}
}

// Inject queues a message from the peer.
func (p *Pipe) Inject(b []byte) {
	p.in <- append([]byte(nil), b...)
}

// Pending is the number of injected messages the library has not taken.
func (p *Pipe) Pending() int { return len(p.in) }

// Close is called by the library.
func (p *Pipe) Close() error {
	first := false
	p.closeOnce.Do(func() {
		first = true
		p.mu.Lock()
		p.byLib = true
		p.mu.Unlock()
		close(p.closed)
		p.net.Rec.Emit("pclose", "o", p.Name)
	})
	// outside the Once: both ends of a link may be closed at the same moment
	if first && p.peer != nil {
		p.peer.dropFromPeer()
	}
	return nil
}

func (p *Pipe) dropFromPeer() {
	p.closeOnce.Do(func() {
		close(p.closed)
		p.net.Rec.Emit("pdrop", "o", p.Name)
	})
}

// Drop closes the connection from the peer's side.
func (p *Pipe) Drop() {
	first := false
	p.closeOnce.Do(func() {
		first = true
		close(p.closed)
	})
	if first && p.peer != nil {
		p.peer.dropFromPeer()
	}
}

// IsClosed reports whether the pipe was closed (by either side).
func (p *Pipe) IsClosed() bool {
	select {
	case <-p.closed:
		return true
	default:
		return false
	}
}

// ClosedByLib reports whether the library closed the pipe.
func (p *Pipe) ClosedByLib() bool { p.mu.Lock(); defer p.mu.Unlock(); return p.byLib }

// Sent returns the messages the library transmitted on an unlinked pipe.
func (p *Pipe) Sent() [][]byte {
	p.mu.Lock()
	defer p.mu.Unlock()
	return append([][]byte(nil), p.sent...)
}

// Owner is the endpoint (dialer or listener name) that produced the pipe.
func (p *Pipe) Owner() string { p.mu.Lock(); defer p.mu.Unlock(); return p.owner }

func (p *Pipe) GetOption(name string) (interface{}, error) {
	p.mu.Lock()
	defer p.mu.Unlock()
	if v, ok := p.opts[name]; ok {
		return v, nil
	}
	return nil, mangos.ErrBadOption
}

// WaitRecvFailed blocks until a library Recv on the pipe has returned an
// error (used to order a peer drop before the end of proto.AddPipe).
func (p *Pipe) WaitRecvFailed() { <-p.recvFailed }

// Blocked reports whether a gated Send is waiting for Release / Fail.
func (p *Pipe) Blocked() bool { p.mu.Lock(); defer p.mu.Unlock(); return p.blocked }
