module verifharness

go 1.26.8

require go.nanomsg.org/mangos/v3 v3.4.2

replace go.nanomsg.org/mangos/v3 => /repo
