module verifharness

go 1.26.8

require (
	github.com/gorilla/websocket v1.5.3
	go.nanomsg.org/mangos/v3 v3.4.2
)

require github.com/gdamore/optopia v0.2.0 // indirect

replace go.nanomsg.org/mangos/v3 => /repo
