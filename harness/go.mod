module verifharness

go 1.26.8

require (
	github.com/gorilla/websocket v1.5.3
	go.nanomsg.org/mangos/v3 v3.4.2
)

replace go.nanomsg.org/mangos/v3 => /repo
