package harness

import (
	"bytes"
	"fmt"
	"io"
	"math/rand"
	"net"
	"os"
	"runtime"
	"sync"
	"sync/atomic"
	"testing"
	"time"

	"go.nanomsg.org/mangos/v3"
	"go.nanomsg.org/mangos/v3/protocol/pair"
	"go.nanomsg.org/mangos/v3/transport"
	"go.nanomsg.org/mangos/v3/transport/inproc"

	"verifharness/rec"
	"verifharness/sim"
)

// ---------------------------------------------------------------------------
// Message ownership driver (C17): the pattern drivers are re-run with the
// message ledger installed (hooks in message.go, build tag verif); only the
// ledger entries ("m": new / clone / free with serial, reference count before
// the operation, buffer geometry) and the application's ownership markers
// ("a": new / got / free / send / sendok / sendfail) are kept and validated
// against spec/Msg.tla.  Released buffers are poisoned by the hook, and the
// drivers scribble over every message the application owns, so a shared or
// recycled buffer also shows up as a content mismatch in the other checks.

func ledgerOnly(res sim.Result) sim.Result {
	var keep []rec.Ev
	for _, e := range res.Lines {
		if k := e["k"]; k == "m" || k == "a" {
			keep = append(keep, e)
		}
	}
	res.Lines = keep
	return res
}

func TestMsg(t *testing.T) {
	os.Setenv("VERIF_LEDGER", "1")
	defer os.Unsetenv("VERIF_LEDGER")
	out := newOut(t, "msg")
	defer out.Close()
	rng := rand.New(rand.NewSource(seed()))
	n := count(12, 150)
	k := 0
	add := func(label string, res sim.Result) {
		k++
		out.Add(fmt.Sprintf("msg-%s-%d", label, k), rec.Ev{"src": label}, label, ledgerOnly(res))
	}
	// failing Sends of a shared message on every pattern
	msgFailScenarios(t, add)
	// fan-out and retained-message patterns first
	for _, p := range rawProtos {
		switch p.eng {
		case "xpub", "xbus", "xstar", "xsurveyor", "xpair", "xpush", "xrep":
		default:
			continue
		}
		for _, c := range rawScripted(p) {
			res, _ := runRaw(t, c, int64(k))
			add("raw-"+p.name, res)
		}
		for i := 0; i < n/2; i++ {
			res, _ := runRaw(t, rawRandom(p, rng), int64(k))
			add("raw-"+p.name, res)
		}
	}
	for _, c := range reqScripted() {
		add("req", runReq(t, c))
	}
	for _, c := range subScripted() {
		add("sub", runSub(t, c))
	}
	for _, c := range svScripted() {
		add("surveyor", runSurveyor(t, c))
	}
	for _, kind := range []string{"rep", "respondent"} {
		for _, c := range rlScripted(kind) {
			add(kind, runRepLike(t, c, int64(k)))
		}
	}
	// the stream transports' own ownership rule: Send frees on success only
	for _, ipc := range []bool{false, true} {
		for _, failAt := range []int{-1, 0, 1} {
			ipc, failAt := ipc, failAt
			res := sim.Run(t, 10*time.Second, func(s *sim.S) {
				defer withLedger(s.Rec)()
				c1, c2 := net.Pipe()
				tp := mkPipe(c1, ipc, 0x10)
				hs := transport.NewConnHandshaker()
				hs.Start(tp)
				go func() {
					io.ReadFull(c2, make([]byte, 8))
					c2.Write(goodHdr(0x10))
					if failAt == 0 {
						c2.Close()
						return
					}
					buf := make([]byte, 11)
					io.ReadFull(c2, buf) // part of the first frame
					if failAt == 1 {
						c2.Close()
						return
					}
					io.Copy(io.Discard, c2)
				}()
				pp, err := hs.Wait()
				if err != nil {
					return
				}
				s.Wait()
				for i := 0; i < 3; i++ {
					m := appNew(s, 40)
					m.Header = append(m.Header, 1, 2, 3, 4)
					m.Body = append(m.Body, payload(40, i)...)
					_ = appSend(s, m, pp.Send)
				}
				_ = pp.Close()
				c2.Close()
				hs.Close()
			})
			add("conn", res)
		}
	}
	// inproc's ownership rule: Send hands a copy across; the caller's message is the caller's again when Send fails
	// (the far end closed while the Send was waiting, or this end was closed), and is released by inproc on success
	for variant := 0; variant < 3; variant++ {
		variant := variant
		res := sim.Run(t, 10*time.Second, func(s *sim.S) {
			defer withLedger(s.Rec)()
			a, _ := pair.NewSocket()
			b, _ := pair.NewSocket()
			defer a.Close()
			defer b.Close()
			url := fmt.Sprintf("inproc://msgown-%d-%d", os.Getpid(), variant)
			l, err := inproc.Transport.NewListener(url, a)
			must(err)
			must(l.Listen())
			var srv transport.Pipe
			go func() { srv, _ = l.Accept() }()
			d, err := inproc.Transport.NewDialer(url, b)
			must(err)
			s.Wait()
			cli, err := d.Dial()
			must(err)
			s.Wait()
			if srv == nil {
				panic("inproc accept did not complete")
			}
			// one message goes through (the receiver owns what it gets)
			done := make(chan struct{})
			go func() {
				if m, err := srv.Recv(); err == nil {
					appGot(s, m)
					appFree(s, m)
				}
				close(done)
			}()
			m1 := appNew(s, 8)
			m1.Body = append(m1.Body, "through"...)
			_ = appSend(s, m1, cli.Send)
			<-done
			// a Send that is waiting (nobody receives) when a pipe goes away
			m2 := appNew(s, 8)
			m2.Body = append(m2.Body, "stranded"...)
			fin := make(chan struct{})
			go func() { _ = appSend(s, m2, cli.Send); close(fin) }()
			s.Wait()
			switch variant {
			case 0:
				_ = srv.Close() // the far end closes
			case 1:
				_ = cli.Close() // this end closes
			case 2:
				_ = srv.Close()
				_ = cli.Close()
			}
			<-fin
			// and a Send on a pipe that is already closed
			m3 := appNew(s, 8)
			m3.Body = append(m3.Body, "late"...)
			_ = appSend(s, m3, cli.Send)
			_ = l.Close()
			_ = srv.Close()
			_ = cli.Close()
		})
		add("inproc", res)
	}
	for i := 0; i < n; i++ {
		add("req", runReq(t, reqRandom(rng)))
		add("sub", runSub(t, subRandom(rng)))
		add("surveyor", runSurveyor(t, svRandom(rng)))
		add("rep", runRepLike(t, rlRandom("rep", rng), int64(k)))
	}
	_ = time.Second
}

// TestMsgPool: a new message of any size starts empty with enough capacity (C17 / C01):
// every requested size around each pool class (thorough: every size up to 66000).
func TestMsgPool(t *testing.T) {
	out := newOut(t, "msgpool")
	defer out.Close()
	r := rec.New()
	try := func(sz int) {
		m := mangos.NewMessage(sz)
		r.Emit("pool", "sz", sz, "len", len(m.Body), "cap", cap(m.Body), "hl", len(m.Header))
		// use it fully, dirty it, give it back: the next user of the class must still start empty
		m.Body = append(m.Body, payload(sz, sz)...)
		m.Header = append(m.Header, 9, 9, 9, 9)
		m.Free()
	}
	if thorough() {
		for sz := 0; sz <= 66000; sz++ {
			try(sz)
		}
	} else {
		for _, c := range []int{0, 64, 128, 256, 512, 1024, 4096, 8192, 65536} {
			for d := -3; d <= 3; d++ {
				if c+d >= 0 {
					try(c + d)
					try(c + d)
				}
			}
		}
	}
	try(1 << 20)
	// MakeUnique of a shared message, with the other holder's part forced in at the moment the copy starts (the Dup
	// gate): it releases its reference, allocates a message of the same class and writes all over it.  Whatever the
	// library still reads of the original has to be protected by the library's own reference (Msg.tla: no read of a
	// released message); the copy carries the original bytes.
	for _, sz := range []int{0, 1, 63, 64, 200, 1000, 5000, 60000, 70000} {
		for rep := 0; rep < 8; rep++ {
			m := mangos.NewMessage(sz)
			want := payload(sz, sz+rep)
			m.Body = append(m.Body, want...)
			m.Header = append(m.Header, 1, 2, 3, 4)
			m.Clone() // the other holder's reference
			var other *mangos.Message
			fired := 0
			mangos.VerifSetDupGate(func(src *mangos.Message) {
				if src != m || fired > 0 {
					return
				}
				fired++
				m.Free() // the other holder lets go
				other = mangos.NewMessage(sz)
				for len(other.Body) < cap(other.Body) {
					other.Body = append(other.Body, 0xEE)
				}
				other.Header = append(other.Header, 0xEE, 0xEE, 0xEE, 0xEE, 0xEE, 0xEE, 0xEE, 0xEE)
			})
			u := m.MakeUnique()
			mangos.VerifSetDupGate(nil)
			intact := bytes.Equal(u.Body, want) && bytes.Equal(u.Header, []byte{1, 2, 3, 4})
			r.Emit("mu", "sz", sz, "gate", fired, "intact", intact, "alias", u == other)
			u.Free()
			if other != nil && other != u {
				other.Free()
			}
		}
	}
	// two holders of a shared message release it at the same moment (spin barrier), then each allocates: the message
	// went back to the pool once, so the two allocations are different messages
	{
		rounds := count(150000, 1500000)
		aliased := 0
		var ready, gen atomic.Int32
		type res struct{ m *mangos.Message }
		ch := make(chan res, 2)
		var mu sync.Mutex
		var cur *mangos.Message
		worker := func() {
			last := int32(0)
			for {
				for gen.Load() == last {
					runtime.Gosched()
				}
				last = gen.Load()
				if last < 0 {
					return
				}
				mu.Lock()
				m := cur
				mu.Unlock()
				ready.Add(1)
				for ready.Load() < 2 {
				}
				m.Free()
				n := mangos.NewMessage(32)
				n.Body = append(n.Body, byte(last))
				ch <- res{n}
			}
		}
		go worker()
		go worker()
		for i := 1; i <= rounds; i++ {
			m := mangos.NewMessage(32)
			m.Clone()
			mu.Lock()
			cur = m
			mu.Unlock()
			ready.Store(0)
			gen.Store(int32(i))
			a, b := <-ch, <-ch
			if a.m == b.m {
				aliased++
			}
			a.m.Free()
			if b.m != a.m {
				b.m.Free()
			}
		}
		gen.Store(-1)
		r.Emit("poolrace", "rounds", rounds, "aliased", aliased)
	}
	out.Add("msgpool", rec.Ev{"src": "pool"}, "pool", sim.Result{Lines: r.Lines(), Status: "ok"})
}
