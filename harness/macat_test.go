package harness

import (
	"bytes"
	"fmt"
	"math/rand"
	"os"
	"os/exec"
	"path/filepath"
	"strconv"
	"strings"
	"sync"
	"syscall"
	"testing"
	"time"

	"go.nanomsg.org/mangos/v3"
	"go.nanomsg.org/mangos/v3/macat"
	"go.nanomsg.org/mangos/v3/protocol/bus"
	"go.nanomsg.org/mangos/v3/protocol/pair"
	"go.nanomsg.org/mangos/v3/protocol/pub"
	"go.nanomsg.org/mangos/v3/protocol/pull"
	"go.nanomsg.org/mangos/v3/protocol/push"
	"go.nanomsg.org/mangos/v3/protocol/rep"
	"go.nanomsg.org/mangos/v3/protocol/req"
	"go.nanomsg.org/mangos/v3/protocol/respondent"
	"go.nanomsg.org/mangos/v3/protocol/star"
	"go.nanomsg.org/mangos/v3/protocol/sub"
	"go.nanomsg.org/mangos/v3/protocol/surveyor"
	_ "go.nanomsg.org/mangos/v3/transport/ipc"
	_ "go.nanomsg.org/mangos/v3/transport/tcp"

	"verifharness/rec"
	"verifharness/sim"
)

// ---------------------------------------------------------------------------
// macat driver (C20).  The macat binary is built from /repo and run as a child
// process against harness sockets on ipc:// (and loopback tcp) addresses; what
// crossed the sockets, the process's stdout and its exit status are recorded
// and validated against spec/Macat.tla.  Nothing here knows what the outcome
// should be: the scenarios only choose inputs.

var (
	macatOnce sync.Once
	macatPath string
	macatErr  error
)

func macatBin(t *testing.T) string {
	macatOnce.Do(func() {
		dir := os.Getenv("VERIF_OUT")
		if dir == "" {
			dir, _ = os.MkdirTemp("", "macatbin")
		}
		_ = os.MkdirAll(dir, 0o755)
		macatPath = filepath.Join(dir, "macat.bin")
		cmd := exec.Command("go1.26.8", "build", "-o", macatPath, "go.nanomsg.org/mangos/v3/macat/macat")
		cmd.Env = append(os.Environ(), "GOFLAGS=-mod=mod", "GOPROXY=off", "GOSUMDB=off", "GOTOOLCHAIN=local")
		if b, err := cmd.CombinedOutput(); err != nil {
			macatErr = fmt.Errorf("building macat: %v\n%s", err, b)
		}
	})
	if macatErr != nil {
		t.Fatal(macatErr)
	}
	return macatPath
}

type mtok struct {
	O string `json:"o"`
	V string `json:"v"`
	N int    `json:"n"`
}

var macatPeer = map[string]func() (mangos.Socket, error){
	"push": pull.NewSocket, "pull": push.NewSocket, "pub": sub.NewSocket, "sub": pub.NewSocket,
	"req": rep.NewSocket, "rep": req.NewSocket, "surveyor": respondent.NewSocket, "respondent": surveyor.NewSocket,
	"bus": bus.NewSocket, "pair": pair.NewSocket, "star": star.NewSocket,
}

// one macat invocation
type macatRun struct {
	toks      []mtok
	data      []byte   // what --data / --file carry (nil: none)
	feed      [][]byte // what the peer sends to macat (printing scenarios)
	capT      time.Duration
	killAt    int      // kill once the peer has seen this many messages from macat (0: never)
	variant   int      // spelling variant of the options
	reqs      int      // request / survey rounds the peer drives when macat replies
	await     bool     // the peer waits for the answer to each request before the next (macat was given data)
	extraArgs []string // appended verbatim (duration spellings)
	sentinel  bool     // feed ends with the sentinel: wait for it on stdout, then stop macat
}

type macatObs struct {
	code    int // exit status; -1: still running when stopped
	got     [][]byte
	stdout  []byte
	stderr  string
	nreq    int
	elapsed time.Duration
	firstAt []time.Duration // arrival times of macat's messages since spawn
	connAt  time.Duration
	args    []string
}

var macatSentinel = []byte("~END~")

func ints(b []byte) []int {
	r := make([]int, len(b))
	for i, x := range b {
		r[i] = int(x)
	}
	return r
}

// realize the abstract tokens as a command line
func (r *macatRun) argv(dir string, id int) (args []string, bindAddrs, dialAddrs []string, cleanup func()) {
	v := r.variant
	na := 0
	for _, t := range r.toks {
		switch t.O {
		case "proto":
			args = append(args, "--"+t.V)
		case "bind", "connect":
			if t.V != "ok" {
				args = append(args, "--"+t.O, "nowhere")
				continue
			}
			na++
			path := fmt.Sprintf("%s/m%d_%d", dir, id, na)
			addr := "ipc://" + path
			if t.O == "bind" {
				bindAddrs = append(bindAddrs, addr)
				switch v % 3 {
				case 0:
					args = append(args, "--bind", addr)
				case 1:
					args = append(args, "-X", path)
				default:
					args = append(args, "--bind-ipc="+path)
				}
			} else {
				dialAddrs = append(dialAddrs, addr)
				switch v % 3 {
				case 0:
					args = append(args, "--connect", addr)
				case 1:
					args = append(args, "-x", path)
				default:
					args = append(args, "--connect-ipc", path)
				}
			}
		case "sub":
			args = append(args, "--subscribe", t.V)
		case "fmt":
			switch {
			case t.V == "raw" && v%2 == 0:
				args = append(args, "--raw")
			case t.V == "ascii" && v%2 == 0:
				args = append(args, "-A")
			case t.V == "ascii" && v%4 == 1:
				args = append(args, "--ascii")
			case t.V == "quoted" && v%2 == 0:
				args = append(args, "-Q")
			case t.V == "quoted" && v%4 == 1:
				args = append(args, "--quoted")
			case t.V == "msgpack" && v%2 == 0:
				args = append(args, "--msgpack")
			case v%4 == 3:
				args = append(args, "--format", t.V)
			default:
				args = append(args, "--format="+t.V)
			}
		case "data":
			val := string(r.data)
			if t.V == "empty" {
				val = "" // an empty payload is a payload
			}
			if v%2 == 0 {
				args = append(args, "--data", val)
			} else {
				args = append(args, "-D", val)
			}
		case "file":
			p := fmt.Sprintf("%s/f%d", dir, id)
			switch t.V {
			case "ok":
				_ = os.WriteFile(p, r.data, 0o644)
			case "empty":
				p += ".empty"
				_ = os.WriteFile(p, nil, 0o644) // an empty file is a payload too
			default:
				p += ".absent"
			}
			if v%2 == 0 {
				args = append(args, "--file", p)
			} else {
				args = append(args, "-F", p)
			}
		case "count":
			if v%2 == 0 {
				args = append(args, "--count", strconv.Itoa(t.N))
			} else {
				args = append(args, "--count="+strconv.Itoa(t.N))
			}
		case "interval", "rt", "st", "delay":
			long := map[string]string{"interval": "--send-interval", "rt": "--recv-timeout", "st": "--send-timeout", "delay": "--send-delay"}[t.O]
			val := fmt.Sprintf("%dms", t.N)
			if t.V != "ok" {
				val = "soon"
			}
			switch {
			case t.O == "interval" && v%2 == 1:
				args = append(args, "-i", val)
			case t.O == "delay" && v%2 == 1:
				args = append(args, "-d"+val)
			case v%3 == 2:
				args = append(args, long+"="+val)
			default:
				args = append(args, long, val)
			}
		case "extra":
			args = append(args, "stray")
		case "unknown":
			args = append(args, "--bogus")
		case "noval":
			args = append(args, "--count")
		}
	}
	args = append(args, r.extraArgs...)
	return args, bindAddrs, dialAddrs, func() {}
}

func (r *macatRun) proto() string {
	p := ""
	for _, t := range r.toks {
		if t.O == "proto" {
			if p != "" {
				return "" // conflicting: no peer
			}
			p = t.V
		}
	}
	return p
}

// run macat once and observe
func (r *macatRun) run(t *testing.T, bin, dir string, id int) macatObs {
	var o macatObs
	args, binds, dials, _ := r.argv(dir, id)
	o.args = args
	var peer mangos.Socket
	if mk := macatPeer[r.proto()]; mk != nil {
		peer, _ = mk()
	}
	var mu sync.Mutex
	attached := make(chan struct{}, 8)
	if peer != nil {
		defer peer.Close()
		_ = peer.SetOption(mangos.OptionRecvDeadline, 50*time.Millisecond)
		if r.proto() == "rep" {
			// a REQ peer: a receive timeout would cancel the request; Close ends the wait instead
			_ = peer.SetOption(mangos.OptionRecvDeadline, time.Duration(0))
		}
		_ = peer.SetOption(mangos.OptionSendDeadline, 2*time.Second)
		_ = peer.SetOption(mangos.OptionReadQLen, 256)
		_ = peer.SetOption(mangos.OptionWriteQLen, 256)
		_ = peer.SetOption(mangos.OptionSubscribe, []byte{})
		_ = peer.SetOption(mangos.OptionSurveyTime, 30*time.Second)
		_ = peer.SetOption(mangos.OptionRetryTime, time.Duration(0))
		peer.SetPipeEventHook(func(ev mangos.PipeEvent, p mangos.Pipe) {
			if ev == mangos.PipeEventAttached {
				select {
				case attached <- struct{}{}:
				default:
				}
			}
		})
		for _, a := range dials { // macat connects here
			if err := peer.Listen(a); err != nil {
				t.Logf("peer listen %s: %v", a, err)
			}
		}
	}
	cmd := exec.Command(bin, args...)
	var so, se lockedBuf
	cmd.Stdout, cmd.Stderr = &so, &se
	cmd.Dir = dir
	t0 := time.Now()
	if err := cmd.Start(); err != nil {
		t.Fatalf("start macat: %v", err)
	}
	exited := make(chan struct{})
	go func() { _ = cmd.Wait(); close(exited) }()
	done := func() bool {
		select {
		case <-exited:
			return true
		default:
			return false
		}
	}
	stop := make(chan struct{})
	var wg sync.WaitGroup
	if peer != nil {
		// connect to what macat binds
		for _, a := range binds {
			a := a
			wg.Add(1)
			go func() {
				defer wg.Done()
				for !done() {
					select {
					case <-stop:
						return
					default:
					}
					if err := peer.Dial(a); err == nil {
						return
					}
					time.Sleep(5 * time.Millisecond)
				}
			}()
		}
		wg.Add(1)
		go func() {
			defer wg.Done()
			// wait for the connection (or the end of the run)
			select {
			case <-attached:
				mu.Lock()
				o.connAt = time.Since(t0)
				mu.Unlock()
			case <-stop:
				return
			}
			note := func(b []byte) {
				mu.Lock()
				o.got = append(o.got, append([]byte{}, b...))
				o.firstAt = append(o.firstAt, time.Since(t0))
				mu.Unlock()
			}
			stopped := func() bool {
				select {
				case <-stop:
					return true
				default:
					return false
				}
			}
			switch r.proto() {
			case "push", "pub", "bus", "pair", "star":
				// macat may send; we may feed
				for _, m := range r.feed {
					if err := peer.Send(m); err != nil {
						t.Logf("feed: %v", err)
					}
				}
				for !stopped() {
					if m, err := peer.Recv(); err == nil {
						note(m)
					}
				}
			case "pull", "sub":
				for _, m := range r.feed {
					if err := peer.Send(m); err != nil {
						t.Logf("feed: %v", err)
					}
				}
			case "req", "surveyor":
				// macat asks, we answer: with the next feed message, or "R"
				k := 0
				for !stopped() {
					m, err := peer.Recv()
					if err != nil {
						continue
					}
					note(m)
					ans := []byte("R")
					if k < len(r.feed) {
						ans = r.feed[k]
					}
					k++
					_ = peer.Send(ans)
				}
			case "rep", "respondent":
				// we ask, macat answers (when it has data) and prints what we asked
				n := r.reqs
				if len(r.feed) > 0 {
					n = len(r.feed)
				}
				for i := 0; i < n && !stopped(); i++ {
					q := []byte(fmt.Sprintf("q%d", i))
					if i < len(r.feed) {
						q = r.feed[i]
					}
					if err := peer.Send(q); err != nil {
						continue
					}
					mu.Lock()
					o.nreq++
					mu.Unlock()
					// the answer to this request / survey (no time limit of our own: a slow machine is not a lost reply)
					for r.await && !stopped() {
						if m, err := peer.Recv(); err == nil {
							note(m)
							break
						}
					}
				}
			}
		}()
	}
	// wait for the end of the run
	deadline := time.After(r.capT)
	tick := time.NewTicker(5 * time.Millisecond)
	defer tick.Stop()
	running := true
	for running {
		select {
		case <-exited:
			running = false
		case <-deadline:
			running = false
		case <-tick.C:
			if r.killAt > 0 {
				mu.Lock()
				n := len(o.got)
				mu.Unlock()
				if n >= r.killAt {
					running = false
				}
			}
			if r.sentinel && bytes.Contains(so.Bytes(), macatSentinel) {
				time.Sleep(150 * time.Millisecond) // anything printed after the last record?
				running = false
			}
		}
	}
	o.elapsed = time.Since(t0)
	if done() {
		o.code = cmd.ProcessState.ExitCode()
		// what was still on its way
		time.Sleep(150 * time.Millisecond)
	} else {
		o.code = -1
		_ = cmd.Process.Signal(syscall.SIGKILL)
		<-exited
	}
	close(stop)
	if peer != nil {
		_ = peer.Close()
	}
	wg.Wait()
	o.stdout = so.Bytes()
	o.stderr = se.String()
	return o
}

type lockedBuf struct {
	mu sync.Mutex
	b  bytes.Buffer
}

func (l *lockedBuf) Write(p []byte) (int, error) {
	l.mu.Lock()
	defer l.mu.Unlock()
	return l.b.Write(p)
}
func (l *lockedBuf) Bytes() []byte {
	l.mu.Lock()
	defer l.mu.Unlock()
	return append([]byte{}, l.b.Bytes()...)
}
func (l *lockedBuf) String() string { return string(l.Bytes()) }

func tk(o, v string, n int) mtok { return mtok{o, v, n} }

// run the scenarios on a pool of workers; each becomes one trace
func macatPool(t *testing.T, out *out, runs []macatScn) {
	bin := macatBin(t)
	dir, err := os.MkdirTemp("", "mc")
	if err != nil {
		t.Fatal(err)
	}
	defer os.RemoveAll(dir)
	workers := 12
	ch := make(chan int)
	var wg sync.WaitGroup
	for w := 0; w < workers; w++ {
		wg.Add(1)
		go func() {
			defer wg.Done()
			for i := range ch {
				s := runs[i]
				r := rec.New()
				o := s.run.run(t, bin, dir, i)
				s.emit(r, &s.run, &o)
				out.Add(s.label, rec.Ev{"label": s.label}, s.label+" "+strings.Join(o.args, " "), sim.Result{Lines: r.Lines(), Status: "ok"})
			}
		}()
	}
	for i := range runs {
		ch <- i
	}
	close(ch)
	wg.Wait()
}

type macatScn struct {
	label string
	run   macatRun
	emit  func(r *rec.Recorder, run *macatRun, o *macatObs)
}

func emitRun(r *rec.Recorder, run *macatRun, o *macatObs) {
	firstEmpty := false
	for _, t := range run.toks {
		if t.O == "data" || t.O == "file" {
			firstEmpty = t.V == "empty"
			break
		}
	}
	alleq, allempty := true, true
	for _, g := range o.got {
		if !bytes.Equal(g, run.data) {
			alleq = false
		}
		if len(g) != 0 {
			allempty = false
		}
	}
	// the peer got connected too late for the count to mean anything: macat binds and the peer's connection was not
	// attached well within the send delay (or never), or there is no delay at all on a bound socket
	late := false
	for _, t := range run.toks {
		if t.O == "bind" && t.V == "ok" {
			late = o.connAt == 0 || o.connAt > 250*time.Millisecond
		}
	}
	r.Emit("mrun", "toks", run.toks, "code", o.code, "nsent", len(o.got), "alleq", alleq, "allempty", allempty, "nreq", o.nreq,
		"outlen", len(o.stdout), "datalen", len(run.data), "ms", int(o.elapsed/time.Millisecond), "killat", run.killAt, "dataempty", firstEmpty,
		"late", late, "connms", int(o.connAt/time.Millisecond))
}

// --- command lines -------------------------------------------------------------

// TestMacatArgs: the option automaton - which command lines are refused, how many messages a run sends,
// with which bytes, and whether it ends.
func TestMacatArgs(t *testing.T) {
	out := newOut(t, "macatargs")
	defer out.Close()
	rng := rand.New(rand.NewSource(seed()))
	var runs []macatScn
	add := func(label string, toks []mtok, capT time.Duration) {
		// a macat that binds and has something to send starts sending 20 ms after it was started, whoever is connected
		// by then; a send delay gives the harness peer time to connect on a busy machine
		if label != "seq" && label != "fault" && hasData(toks) {
			for _, t := range toks {
				if t.O == "bind" && t.V == "ok" {
					toks = append(append([]mtok{}, toks...), tk("delay", "ok", 400))
					break
				}
			}
		}
		data := []byte(fmt.Sprintf("d%x", rng.Intn(1<<20)))
		runs = append(runs, macatScn{label: fmt.Sprintf("args-%d-%s", len(runs), label),
			run:  macatRun{toks: toks, data: data, capT: capT, killAt: 6, variant: rng.Intn(12), reqs: 2, await: hasData(toks)},
			emit: emitRun})
	}
	long, short := 25*time.Second, 1200*time.Millisecond
	senders := []string{"push", "pub", "req", "surveyor", "pair", "bus", "star"}
	lossy := map[string]bool{"pub": true, "bus": true, "star": true, "surveyor": true}
	addrFor := func(p string) mtok {
		if lossy[p] || rng.Intn(2) == 0 {
			return tk("connect", "ok", 0)
		}
		return tk("bind", "ok", 0)
	}
	rt := tk("rt", "ok", 250)
	// 1. every order of {proto, addr, data, count n, interval} (+ a receive timeout so that the run can end)
	perms := func(ts []mtok) [][]mtok {
		var res [][]mtok
		var rec func(k int)
		a := append([]mtok{}, ts...)
		rec = func(k int) {
			if k == len(a) {
				res = append(res, append([]mtok{}, a...))
				return
			}
			for i := k; i < len(a); i++ {
				a[k], a[i] = a[i], a[k]
				rec(k + 1)
				a[k], a[i] = a[i], a[k]
			}
		}
		rec(0)
		return res
	}
	for _, p := range senders {
		for _, n := range []int{0, 1, 2, 3} {
			base := []mtok{tk("proto", p, 0), addrFor(p), tk("data", "", 0), tk("count", "", n), tk("interval", "ok", 30)}
			ps := perms(base)
			pick := len(ps)
			if !thorough() {
				pick = 6
			}
			rng.Shuffle(len(ps), func(i, j int) { ps[i], ps[j] = ps[j], ps[i] })
			for _, q := range ps[:pick] {
				add("perm", append(q, rt), long)
			}
			// the same without an interval
			add("cnt", []mtok{tk("proto", p, 0), addrFor(p), tk("count", "", n), tk("data", "", 0), rt}, long)
			add("cnt", []mtok{tk("count", "", n), tk("file", "ok", 0), tk("proto", p, 0), addrFor(p), rt}, long)
		}
		// no count: once; with an interval: until stopped
		add("once", []mtok{tk("proto", p, 0), addrFor(p), tk("data", "", 0), rt}, long)
		add("forever", []mtok{tk("proto", p, 0), addrFor(p), tk("data", "", 0), tk("interval", "ok", 20), rt}, long)
		add("forever", []mtok{tk("interval", "ok", 20), tk("proto", p, 0), tk("file", "ok", 0), addrFor(p), rt}, long)
	}
	// 1b. an interval without a receive timeout: the wait for an answer is bounded by the interval itself, so every
	// message is sent although the peer never answers (PAIR / BUS / STAR peers of the harness do not)
	for _, p := range []string{"pair", "bus", "star"} {
		add("ival-nort", []mtok{tk("proto", p, 0), tk("connect", "ok", 0), tk("data", "", 0), tk("count", "", 3), tk("interval", "ok", 40)}, long)
		add("ival-longrt", []mtok{tk("proto", p, 0), tk("connect", "ok", 0), tk("data", "", 0), tk("count", "", 3), tk("interval", "ok", 40), tk("rt", "ok", 20000)}, long)
	}
	// 1c. an empty payload is a payload: sent as an empty message, and a second payload conflicts with it
	add("empty", []mtok{tk("proto", "push", 0), tk("connect", "ok", 0), tk("data", "empty", 0), tk("count", "", 2)}, long)
	add("empty", []mtok{tk("proto", "push", 0), tk("connect", "ok", 0), tk("file", "empty", 0)}, long)
	add("empty2", []mtok{tk("proto", "push", 0), tk("connect", "ok", 0), tk("data", "empty", 0), tk("file", "ok", 0)}, long)
	add("empty2", []mtok{tk("proto", "push", 0), tk("file", "empty", 0), tk("connect", "ok", 0), tk("data", "", 0)}, long)
	add("empty2", []mtok{tk("data", "empty", 0), tk("proto", "push", 0), tk("data", "", 0), tk("connect", "ok", 0)}, long)
	for _, p := range []string{"pair", "bus", "star", "req", "surveyor", "pub"} {
		add("empty", []mtok{tk("proto", p, 0), tk("connect", "ok", 0), tk("data", "empty", 0), rt}, long)
		add("empty", []mtok{tk("file", "empty", 0), tk("proto", p, 0), tk("connect", "ok", 0), tk("count", "", 2), tk("interval", "ok", 30), rt}, long)
	}
	// 1d. the format may be given once: a second format option is a conflict whichever the first one was
	for _, f1 := range []string{"no", "raw", "ascii", "quoted", "msgpack"} {
		for _, f2 := range []string{"no", "ascii"} {
			add("fmt2", []mtok{tk("proto", "pull", 0), tk("connect", "ok", 0), tk("fmt", f1, 0), tk("fmt", f2, 0), rt}, short)
		}
	}
	// 2. receivers and repliers
	for _, p := range []string{"pull", "sub", "pair", "bus", "star", "rep", "respondent"} {
		add("recv", []mtok{tk("proto", p, 0), addrFor(p), rt}, long)
		add("recv-count", []mtok{tk("proto", p, 0), tk("count", "", 2), addrFor(p), rt}, long)
		add("recv-forever", []mtok{tk("proto", p, 0), addrFor(p)}, short)
		add("recv-rt0", []mtok{tk("proto", p, 0), addrFor(p), tk("rt", "ok", 0)}, short)
	}
	for _, p := range []string{"rep", "respondent"} {
		add("reply", []mtok{tk("proto", p, 0), addrFor(p), tk("data", "", 0), rt}, long)
		add("reply", []mtok{tk("file", "ok", 0), tk("count", "", 1), tk("proto", p, 0), addrFor(p), rt}, long)
		add("reply-forever", []mtok{tk("proto", p, 0), addrFor(p), tk("data", "", 0)}, short+time.Second)
		// an empty payload is a payload: every request is answered, with an empty message
		add("reply-empty", []mtok{tk("proto", p, 0), addrFor(p), tk("data", "empty", 0), rt}, long)
		add("reply-empty", []mtok{tk("file", "empty", 0), tk("proto", p, 0), addrFor(p), rt}, long)
	}
	// 3. refusals: every token sequence of the alphabet up to a length, and single faults injected into good lines
	alpha := []mtok{tk("proto", "push", 0), tk("proto", "pull", 0), tk("proto", "req", 0), tk("proto", "sub", 0), tk("bind", "ok", 0),
		tk("connect", "bad", 0), tk("bind", "bad", 0), tk("sub", "x", 0), tk("fmt", "ascii", 0), tk("fmt", "no", 0), tk("fmt", "bogus", 0), tk("data", "", 0),
		tk("file", "ok", 0), tk("file", "missing", 0), tk("count", "", 1), tk("interval", "bad", 0), tk("rt", "bad", 0), tk("st", "bad", 0),
		tk("delay", "bad", 0), tk("extra", "", 0), tk("unknown", "", 0), rt}
	var seqs [][]mtok
	for _, a := range alpha {
		seqs = append(seqs, []mtok{a})
		for _, b := range alpha {
			seqs = append(seqs, []mtok{a, b})
		}
	}
	if !thorough() {
		rng.Shuffle(len(seqs), func(i, j int) { seqs[i], seqs[j] = seqs[j], seqs[i] })
		seqs = seqs[:count(60, 0)]
	}
	for _, s := range seqs {
		add("seq", s, short)
	}
	good := func() []mtok {
		p := []string{"push", "pull", "req", "sub", "pair", "rep"}[rng.Intn(6)]
		ts := []mtok{tk("proto", p, 0), addrFor(p), rt}
		if p == "push" || p == "req" || rng.Intn(2) == 0 {
			ts = append(ts, tk("data", "", 0))
		}
		if rng.Intn(2) == 0 {
			ts = append(ts, tk("fmt", []string{"no", "raw", "ascii", "quoted", "msgpack"}[rng.Intn(5)], 0))
		}
		if p == "sub" && rng.Intn(2) == 0 {
			ts = append(ts, tk("sub", "x", 0))
		}
		rng.Shuffle(len(ts), func(i, j int) { ts[i], ts[j] = ts[j], ts[i] })
		return ts
	}
	faults := []mtok{tk("proto", "pull", 0), tk("proto", "push", 0), tk("connect", "bad", 0), tk("sub", "y", 0), tk("fmt", "raw", 0),
		tk("fmt", "bogus", 0), tk("data", "", 0), tk("file", "ok", 0), tk("file", "missing", 0), tk("interval", "bad", 0),
		tk("rt", "bad", 0), tk("st", "bad", 0), tk("delay", "bad", 0), tk("extra", "", 0), tk("unknown", "", 0), tk("noval", "", 0),
		tk("st", "ok", 500), tk("delay", "ok", 30)}
	for i := 0; i < count(60, 600); i++ {
		g := good()
		f := faults[rng.Intn(len(faults))]
		if f.O == "noval" {
			g = append(g, f)
		} else {
			k := rng.Intn(len(g) + 1)
			g = append(g[:k], append([]mtok{f}, g[k:]...)...)
		}
		add("fault", g, long)
	}
	macatPool(t, out, runs)
}

func hasData(ts []mtok) bool {
	for _, t := range ts {
		if t.O == "data" || (t.O == "file" && (t.V == "ok" || t.V == "empty")) {
			return true
		}
	}
	return false
}

// --- formats -------------------------------------------------------------------

// random message bodies that between them contain every byte value and the bytes the formats treat specially
func macatBodies(rng *rand.Rand, n int, sizes []int) [][]byte {
	var res [][]byte
	special := []byte{0, 9, 10, 13, 27, 31, 32, 34, 39, 46, 48, 92, 110, 114, 120, 126, 127, 128, 160, 161, 173, 196, 197, 198, 255}
	next := rng.Intn(256)
	for i := 0; i < n; i++ {
		ln := rng.Intn(12)
		if i < len(sizes) {
			ln = sizes[i]
		}
		b := make([]byte, ln)
		for j := range b {
			switch rng.Intn(4) {
			case 0:
				b[j] = special[rng.Intn(len(special))]
			case 1:
				b[j] = byte(next) // walks through all 256 values
				next = (next + 1) % 256
			case 2:
				b[j] = byte(32 + rng.Intn(95))
			default:
				b[j] = byte(rng.Intn(256))
			}
		}
		res = append(res, b)
	}
	return res
}

var macatFormats = []string{"raw", "ascii", "quoted", "msgpack", "no"}

// receiving configurations: the macat protocol and whether macat needs data to get something to print
var macatReceivers = []struct {
	proto string
	data  bool
}{{"pull", false}, {"sub", false}, {"pair", false}, {"bus", false}, {"star", false}, {"rep", false}, {"respondent", false},
	{"rep", true}, {"respondent", true}, {"req", true}, {"surveyor", true}, {"pair", true}}

func TestMacatFormat(t *testing.T) {
	out := newOut(t, "macatfmt")
	defer out.Close()
	rng := rand.New(rand.NewSource(seed() + 77))
	var runs []macatScn
	rounds := count(1, 6)
	for round := 0; round < rounds; round++ {
		for _, rc := range macatReceivers {
			for _, f := range macatFormats {
				rc, f := rc, f
				var sizes []int
				if round%2 == 0 {
					sizes = []int{0, 1, 255, 256, 257}
					rng.Shuffle(len(sizes), func(i, j int) { sizes[i], sizes[j] = sizes[j], sizes[i] })
				}
				feed := macatBodies(rng, 10, sizes)
				toks := []mtok{tk("proto", rc.proto, 0)}
				sub := ""
				if rc.proto == "sub" && rng.Intn(2) == 0 {
					sub = string([]byte{byte(65 + rng.Intn(3))})
					toks = append(toks, tk("sub", sub, 0), tk("sub", "~", 0))
					for i := range feed {
						if rng.Intn(2) == 0 {
							feed[i] = append([]byte(sub), feed[i]...)
						}
					}
				}
				feed = append(feed, macatSentinel)
				if rng.Intn(2) == 0 || rc.proto == "surveyor" {
					toks = append(toks, tk("connect", "ok", 0))
				} else {
					toks = append(toks, tk("bind", "ok", 0))
				}
				toks = append(toks, tk("fmt", f, 0))
				run := macatRun{toks: toks, feed: feed, capT: 25 * time.Second, variant: rng.Intn(12), sentinel: f != "no", await: rc.data}
				if rc.data {
					run.data = []byte("D")
					run.toks = append(run.toks, tk("data", "", 0))
					if rc.proto == "req" || rc.proto == "surveyor" {
						// one question per answer we want printed; the run ends by itself after the last
						run.toks = append(run.toks, tk("count", "", len(feed)), tk("rt", "ok", 2000))
						run.sentinel = false
						if rc.proto == "surveyor" {
							run.feed = run.feed[len(run.feed)-3:] // each survey lasts a second
							run.toks[len(run.toks)-2] = tk("count", "", 3)
						}
					}
				}
				if f == "no" && run.sentinel == false && !(rc.proto == "req" || rc.proto == "surveyor") {
					run.capT = 1500 * time.Millisecond
				}
				rng.Shuffle(len(run.toks), func(i, j int) { run.toks[i], run.toks[j] = run.toks[j], run.toks[i] })
				label := fmt.Sprintf("fmt-%s-%s-%d", rc.proto, f, len(runs))
				runs = append(runs, macatScn{label: label, run: run, emit: func(r *rec.Recorder, run *macatRun, o *macatObs) {
					ins := [][]int{}
					for _, m := range run.feed {
						if sub != "" && !bytes.HasPrefix(m, []byte(sub)) && !bytes.HasPrefix(m, []byte("~")) {
							continue // not subscribed to
						}
						ins = append(ins, ints(m))
					}
					r.Emit("mfmt", "fmt", f, "ins", ins, "out", ints(o.stdout), "code", o.code, "proto", rc.proto)
				}})
			}
		}
	}
	// long messages around the msgpack size classes, decoded here
	for _, f := range []string{"raw", "ascii", "quoted", "msgpack"} {
		f := f
		for _, pr := range []string{"pull", "sub", "pair"} {
			sizes := []int{65535, 65536, 65537, 3, 70000 + rng.Intn(1000)}
			feed := macatBodies(rng, len(sizes), sizes)
			feed = append(feed, macatSentinel)
			toks := []mtok{tk("proto", pr, 0), tk("connect", "ok", 0), tk("fmt", f, 0)}
			run := macatRun{toks: toks, feed: feed, capT: 40 * time.Second, variant: rng.Intn(12), sentinel: true}
			runs = append(runs, macatScn{label: fmt.Sprintf("big-%s-%s", pr, f), run: run, emit: func(r *rec.Recorder, run *macatRun, o *macatObs) {
				macatDecodeBig(r, f, run.feed, o.stdout)
			}})
			if !thorough() {
				break
			}
		}
	}
	macatPool(t, out, runs)
}

// independent decoders for the long-message runs
func macatDecodeBig(r *rec.Recorder, f string, feed [][]byte, out []byte) {
	rest := out
	for _, m := range feed {
		var got []byte
		var hdr []byte
		ok := true
		switch f {
		case "raw":
			if len(rest) < len(m) {
				ok = false
			} else {
				got, rest = rest[:len(m)], rest[len(m):]
			}
		case "ascii", "quoted":
			k := bytes.IndexByte(rest, '\n')
			if k < 0 {
				ok = false
				break
			}
			line := rest[:k]
			rest = rest[k+1:]
			if f == "ascii" {
				// lossy: 7-bit printable bytes are kept, printable Latin-1 (0xa1..0xff but 0xad) kept or dotted, all else dotted
				ok = len(line) == len(m)
				for i := 0; ok && i < len(m); i++ {
					c := m[i]
					switch {
					case c >= 32 && c <= 126:
						ok = line[i] == c
					case c >= 161 && c != 173:
						ok = line[i] == c || line[i] == '.'
					default:
						ok = line[i] == '.'
					}
				}
				got = m
			} else {
				got, ok = macatUnquote(line)
			}
		case "msgpack":
			if len(rest) == 0 {
				ok = false
				break
			}
			hl, n := 0, 0
			switch rest[0] {
			case 0xc4:
				hl = 2
			case 0xc5:
				hl = 3
			case 0xc6:
				hl = 5
			}
			if hl == 0 || len(rest) < hl {
				ok = false
				break
			}
			hdr = rest[:hl]
			for _, c := range hdr[1:] {
				n = n<<8 | int(c)
			}
			if len(rest) < hl+n {
				ok = false
				got = nil
				rest = nil
				break
			}
			got, rest = rest[hl:hl+n], rest[hl+n:]
		}
		r.Emit("mbig", "fmt", f, "len", len(m), "hdr", ints(hdr), "eq", ok && bytes.Equal(got, m))
	}
	r.Emit("mbig", "fmt", f, "len", 0, "hdr", []int{196, 0}, "eq", len(rest) == 0) // nothing after the last record
}

func macatUnquote(s []byte) ([]byte, bool) {
	var res []byte
	for i := 0; i < len(s); i++ {
		c := s[i]
		if c != '\\' {
			if c < 32 || c == 127 || c == '"' {
				return nil, false
			}
			res = append(res, c)
			continue
		}
		if i+1 >= len(s) {
			return nil, false
		}
		i++
		switch s[i] {
		case 'n':
			res = append(res, '\n')
		case 'r':
			res = append(res, '\r')
		case '\\':
			res = append(res, '\\')
		case '"':
			res = append(res, '"')
		case 'x':
			if i+2 >= len(s) {
				return nil, false
			}
			v, err := strconv.ParseUint(string(s[i+1:i+3]), 16, 8)
			if err != nil {
				return nil, false
			}
			res = append(res, byte(v))
			i += 2
		default:
			return nil, false
		}
	}
	return res, true
}

// --- durations -----------------------------------------------------------------

func TestMacatDur(t *testing.T) {
	out := newOut(t, "macatdur")
	defer out.Close()
	rng := rand.New(rand.NewSource(seed() + 5))
	// 1. the parser itself, in process
	r := rec.New()
	try := func(text, kind string, n int, unit string) {
		var d macat.Duration
		err := d.UnmarshalText([]byte(text))
		res := "ok"
		if err != nil {
			res = "err"
		}
		ns := time.Duration(d)
		r.Emit("mdur", "text", text, "kind", kind, "n", n, "unit", unit, "r", res, "ms", int(ns/time.Millisecond), "exact", ns%time.Millisecond == 0)
	}
	ns := []int{0, 1, 2, 5, 7, 10, 59, 60, 61, 100, 255, 1000, 3600, 86400, 100000}
	for i := 0; i < count(20, 300); i++ {
		ns = append(ns, rng.Intn(2000000))
	}
	for _, n := range ns {
		try(strconv.Itoa(n), "int", n, "")
		try("+"+strconv.Itoa(n), "int", n, "")
		try("-"+strconv.Itoa(n), "int", -n, "")
		try("00"+strconv.Itoa(n), "int", n, "")
		for _, u := range []string{"ms", "s", "m", "h"} {
			if u == "h" && n > 500 || u == "m" && n > 30000 {
				continue
			}
			try(strconv.Itoa(n)+u, "go", n, u)
			try("-"+strconv.Itoa(n)+u, "go", -n, u)
			if n < 100000 && u != "ms" {
				try(fmt.Sprintf("%d.%d%s", n/10, n%10, u), "frac", n, u)
			}
		}
	}
	for _, bad := range []string{"", " ", "abc", "1x", "s", "1 s", " 1", "1 ", "1e3", "0x10", "1_000", "1,5", "1.5", "--1", "1s1", "ms", "+", "-", "١"} {
		try(bad, "bad", 0, "")
	}
	out.Add("dur-parse", rec.Ev{"label": "dur-parse"}, "Duration.UnmarshalText", sim.Result{Lines: r.Lines(), Status: "ok"})

	// 2. through the binary, on the real clock: a wait of N (seconds) is never shorter than N seconds
	type tm struct {
		opt, text, kind string
		n               int
		unit            string
	}
	cases := []tm{{"rt", "1", "int", 1, ""}, {"rt", "1s", "go", 1, "s"}, {"rt", "1000ms", "go", 1000, "ms"}, {"rt", "0.5s", "frac", 5, "s"},
		{"rt", "300ms", "go", 300, "ms"}, {"delay", "1", "int", 1, ""}, {"delay", "700ms", "go", 700, "ms"}, {"interval", "1", "int", 1, ""},
		{"interval", "400ms", "go", 400, "ms"}}
	if thorough() {
		cases = append(cases, tm{"rt", "2", "int", 2, ""}, tm{"delay", "2", "int", 2, ""}, tm{"rt", "+1", "int", 1, ""}, tm{"rt", "01", "int", 1, ""},
			tm{"interval", "1.5s", "frac", 15, "s"}, tm{"rt", "0.1m", "frac", 1, "m"})
	}
	var runs []macatScn
	for _, c := range cases {
		c := c
		var run macatRun
		switch c.opt {
		case "rt": // a receiver with nothing to receive ends after the timeout
			run = macatRun{toks: []mtok{tk("proto", "pull", 0), tk("connect", "ok", 0)}}
		case "delay": // the first message is not sent before the delay
			run = macatRun{toks: []mtok{tk("proto", "push", 0), tk("connect", "ok", 0), tk("data", "", 0)}, data: []byte("x")}
		case "interval": // messages are at least the interval apart
			run = macatRun{toks: []mtok{tk("proto", "push", 0), tk("connect", "ok", 0), tk("data", "", 0), tk("count", "", 3)}, data: []byte("x")}
		}
		run.capT = 40 * time.Second
		extra := map[string]string{"rt": "--recv-timeout", "delay": "--send-delay", "interval": "--send-interval"}[c.opt]
		runs = append(runs, macatScn{label: "time-" + c.opt + "-" + c.text, run: run, emit: func(r *rec.Recorder, run *macatRun, o *macatObs) {
			ms := int(o.elapsed / time.Millisecond)
			switch c.opt {
			case "delay":
				ms = -1
				if len(o.firstAt) > 0 {
					ms = int(o.firstAt[0] / time.Millisecond)
				}
			case "interval":
				// the run sends 3 messages: it lasts at least two intervals
				ms = int(o.elapsed/time.Millisecond) / 2
			}
			r.Emit("mtime", "opt", c.opt, "text", c.text, "kind", c.kind, "n", c.n, "unit", c.unit, "ms", ms, "code", o.code, "nsent", len(o.got))
		}})
		runs[len(runs)-1].run.extraArgs = []string{extra, c.text}
	}
	macatPool(t, out, runs)
}
