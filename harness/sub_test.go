package harness

import (
	"encoding/json"
	"fmt"
	"math/rand"
	"os"
	"sort"
	"strings"
	"testing"
	"time"

	"go.nanomsg.org/mangos/v3"
	"go.nanomsg.org/mangos/v3/protocol"
	"go.nanomsg.org/mangos/v3/protocol/sub"

	"verifharness/hx"
	"verifharness/rec"
	"verifharness/sim"
	"verifharness/vt"
)

// ---------------------------------------------------------------------------
// SUB driver (C06 subscriber side; parts of C10, C18, C17).  Publishers are
// harness pipes; topics and bodies are arbitrary byte strings (empty, equal,
// prefixes of each other, non-UTF8).  TLC recomputes the matching on the
// logged bytes (spec/Sub.tla is the reference matcher).

type subCfg struct {
	NCtx    int
	QLen    []int
	RecvExp []time.Duration
	Steps   []string
}

type subScn struct {
	ld    lateDial
	el    time.Duration // virtual time elapsed (absolute "advto" steps of TLC-generated scenarios)
	s     *sim.S
	cfg   subCfg
	proto protocol.Protocol
	sock  mangos.Socket
	ctxs  []mangos.Context
	pctxs []protocol.Context
	pipes map[string]*vt.Pipe
	npipe int
}

func bytesArr(b []byte) []int {
	a := make([]int, len(b))
	for i, x := range b {
		a[i] = int(x)
	}
	return a
}

func subDecode(dir string, b []byte) []interface{} { return []interface{}{"b", bytesArr(b)} }

// the string alphabet: few letters so that prefixes collide, plus non-ASCII
var subAlpha = []byte{'a', 'b', 0xff, 0x00}

func subStr(rng *rand.Rand, maxLen int) []byte {
	n := rng.Intn(maxLen + 1)
	b := make([]byte, n)
	for i := range b {
		b[i] = subAlpha[rng.Intn(len(subAlpha))]
	}
	return b
}

func parseHex(s string) []byte {
	if s == "-" {
		return []byte{}
	}
	var b []byte
	for i := 0; i+1 < len(s); i += 2 {
		var x int
		fmt.Sscanf(s[i:i+2], "%02x", &x)
		b = append(b, byte(x))
	}
	return b
}
func toHex(b []byte) string {
	if len(b) == 0 {
		return "-"
	}
	return fmt.Sprintf("%x", b)
}

func (c *subScn) cname(i int) string { return fmt.Sprintf("c%d", i) }

func (c *subScn) snap() {
	closed, cs := sub.VerifSnapshot(c.proto, c.pctxs)
	kv := []interface{}{"closed", closed}
	for i, x := range cs {
		subs := [][]int{}
		for _, t := range x.Subs {
			subs = append(subs, bytesArr(t))
		}
		kv = append(kv, c.cname(i), map[string]interface{}{"closed": x.Closed, "qlen": x.QLen, "queued": x.Queued, "subs": subs})
	}
	c.s.Rec.Emit("snap", kv...)
}

func (c *subScn) setopt(i int) func(string, interface{}) error {
	if i == 0 {
		return c.sock.SetOption
	}
	return c.ctxs[i].SetOption
}

func (c *subScn) step(st string) {
	s := c.s
	f := strings.Fields(st)
	arg := func(i int) string {
		if len(f) > i {
			return f[i]
		}
		return ""
	}
	ci := func(a string) int {
		var i int
		fmt.Sscanf(a, "c%d", &i)
		if i >= c.cfg.NCtx {
			i = 0
		}
		return i
	}
	switch f[0] {
	case "conn":
		c.npipe++
		p := s.Net.NewPipe(fmt.Sprintf("p%d", c.npipe))
		c.pipes[p.Name] = p
		s.Net.Listener("l1").Offer(p)
	case "predial":
		c.ld.predial(s, c.sock)
	case "ansconn":
		if c.ld.pending(s) {
			c.npipe++
			p := s.Net.NewPipe(fmt.Sprintf("p%d", c.npipe))
			c.pipes[p.Name] = p
			c.ld.answer(s, p)
		}
	case "drop":
		if p := c.pipes[arg(1)]; p != nil && !p.IsClosed() {
			s.Rec.Emit("drop", "p", p.Name)
			p.Drop()
		}
	case "pub":
		if p := c.pipes[arg(1)]; p != nil && !p.IsClosed() {
			p.Inject(parseHex(arg(2)))
		}
	case "sub", "unsub":
		i := ci(arg(1))
		topic := parseHex(arg(2))
		name := mangos.OptionSubscribe
		if f[0] == "unsub" {
			name = mangos.OptionUnsubscribe
		}
		set := c.setopt(i)
		asString := len(topic)%2 == 1 // both value types are accepted
		s.Call(s.Thread(), f[0], c.cname(i), []interface{}{"topic", bytesArr(topic)}, func() []interface{} {
			var v interface{} = topic
			if asString {
				v = string(topic)
			}
			err := set(name, v)
			// the caller's buffer stays the caller's: scribbling over it must not matter
			for k := range topic {
				topic[k] = 'Z'
			}
			return []interface{}{"r", err}
		})
	case "qlen":
		i := ci(arg(1))
		var n int
		fmt.Sscanf(arg(2), "%d", &n)
		set := c.setopt(i)
		s.Call(s.Thread(), "qlen", c.cname(i), []interface{}{"n", n}, func() []interface{} {
			return []interface{}{"r", set(mangos.OptionReadQLen, n)}
		})
	case "recv":
		i := ci(arg(1))
		fn := c.sock.RecvMsg
		if i > 0 {
			fn = c.ctxs[i].RecvMsg
		}
		s.Call(s.Thread(), "recv", c.cname(i), nil, func() []interface{} {
			m, err := fn()
			if err != nil {
				return []interface{}{"r", err}
			}
			appGot(s, m)
			b := bytesArr(m.Body)
			hl := len(m.Header)
			// the message is the application's now: modify it in place
			for k := range m.Body {
				m.Body[k] ^= 0x55
			}
			appFree(s, m)
			return []interface{}{"r", "ok", "b", b, "hl", hl}
		})
	case "adv":
		d, _ := time.ParseDuration(arg(1))
		s.Adv(d)
		c.el += d
		c.snap()
		return
	case "advto":
		// advto <seconds>: absolute virtual time (TLC-generated scenarios name the deadline they run into)
		var sec int
		fmt.Sscanf(arg(1), "%d", &sec)
		if d := time.Duration(sec)*time.Second - c.el; d > 0 {
			s.Adv(d)
			c.el += d
			c.snap()
			return
		}
	case "cclose":
		i := ci(arg(1))
		if i > 0 {
			cx := c.ctxs[i]
			s.Call(s.Thread(), "cclose", c.cname(i), nil, func() []interface{} { return []interface{}{"r", cx.Close()} })
		}
	case "sclose":
		sock := c.sock
		s.Call(s.Thread(), "sclose", "s", nil, func() []interface{} { return []interface{}{"r", sock.Close()} })
	}
	s.Q()
	c.snap()
}

func runSub(t *testing.T, cfg subCfg) sim.Result {
	return sim.Run(t, 10*time.Second, func(s *sim.S) {
		defer withLedger(s.Rec)()
		baseIDs := hx.BaseIDs()
		c := &subScn{s: s, cfg: cfg, pipes: map[string]*vt.Pipe{}}
		s.Net.Decode = subDecode
		c.proto = sub.NewProtocol()
		rp := &hx.RecProto{Protocol: c.proto, Rec: s.Rec, Early: true}
		c.sock = protocol.MakeSocket(rp)
		hx.Hook(c.sock, s.Rec, nil)
		must := func(err error) {
			if err != nil {
				panic(err)
			}
		}
		c.ctxs = make([]mangos.Context, cfg.NCtx)
		c.pctxs = make([]protocol.Context, cfg.NCtx)
		// the socket's values first: a context that wants the same values is left to inherit them (C19)
		must(c.sock.SetOption(mangos.OptionReadQLen, cfg.QLen[0]))
		must(c.sock.SetOption(mangos.OptionRecvDeadline, cfg.RecvExp[0]))
		for i := 1; i < cfg.NCtx; i++ {
			mc, err := c.sock.OpenContext()
			must(err)
			c.ctxs[i] = mc
			c.pctxs[i] = rp.Ctxs[len(rp.Ctxs)-1]
			if cfg.QLen[i] != cfg.QLen[0] {
				must(mc.SetOption(mangos.OptionReadQLen, cfg.QLen[i]))
			}
			if cfg.RecvExp[i] != cfg.RecvExp[0] {
				must(mc.SetOption(mangos.OptionRecvDeadline, cfg.RecvExp[i]))
			}
		}
		l, err := c.sock.NewListener(s.Net.Addr("l1"), nil)
		must(err)
		must(l.Listen())
		s.Q()
		c.snap()
		for _, st := range cfg.Steps {
			c.step(st)
		}
		c.step("sclose")
		c.ld.finish(s)
		c.step("adv 600s")
		s.Wait()
		g := sim.Census()
		sort.Strings(g)
		s.Rec.Emit("census", "n", len(g), "g", fmt.Sprint(g))
		hx.Final(s.Rec, c.sock, baseIDs)
	})
}

func subCfgEv(c subCfg) rec.Ev {
	e := rec.Ev{"nctx": c.NCtx}
	for i := 0; i < c.NCtx; i++ {
		e[fmt.Sprintf("c%d", i)] = map[string]interface{}{"qlen": c.QLen[i], "recvExp": int64(c.RecvExp[i] / time.Microsecond)}
	}
	return e
}

func subScripted() []subCfg {
	sec := time.Second
	z := []time.Duration{0, 0, 0}
	return []subCfg{
		// a connection attempt that completes after the socket was closed is refused by the closed protocol (nothing of the
		// closed socket remains); one that completes while the socket is open is a connection like any other
		{NCtx: 2, QLen: []int{4, 4}, RecvExp: []time.Duration{0, 0}, Steps: []string{"predial", "sclose", "ansconn", "adv 1s"}},
		{NCtx: 2, QLen: []int{4, 4}, RecvExp: []time.Duration{0, 0}, Steps: []string{"conn", "predial", "sub c0 -", "ansconn", "pub p2 6162", "recv c0", "pub p1 61", "recv c0", "sclose"}},
		// empty topic matches everything; no subscription matches nothing; prefix semantics
		{NCtx: 3, QLen: []int{4, 4, 4}, RecvExp: z, Steps: []string{"conn", "sub c0 -", "sub c1 6162", "pub p1 61", "pub p1 6162", "pub p1 616263", "pub p1 -", "pub p1 62", "recv c0", "recv c0", "recv c1", "recv c1", "recv c2", "recv c1", "pub p1 6162ff", "recv c0", "recv c0", "recv c0"}},
		// overlapping subscriptions and unsubscribe pruning
		{NCtx: 1, QLen: []int{8}, RecvExp: z, Steps: []string{"conn", "sub c0 61", "sub c0 6162", "sub c0 61", "pub p1 6131", "pub p1 616232", "pub p1 6133", "pub p1 616234", "pub p1 62", "unsub c0 6162", "unsub c0 6162", "unsub c0 61", "pub p1 6135", "recv c0", "sub c0 616234", "pub p1 616234", "recv c0", "recv c0"}},
		// overflow drops the oldest; two publishers keep their own order
		{NCtx: 2, QLen: []int{2, 3}, RecvExp: []time.Duration{sec, 0}, Steps: []string{"conn", "conn", "sub c0 61", "sub c1 -", "pub p1 6101", "pub p2 6102", "pub p1 6103", "pub p2 6204", "recv c0", "recv c0", "recv c0", "adv 999.999ms", "adv 1us", "recv c1", "recv c1", "recv c1", "recv c1"}},
		// ReadQLen 0 is accepted: the queue is a rendez-vous; a negative length is refused
		{NCtx: 2, QLen: []int{2, 2}, RecvExp: z, Steps: []string{"conn", "sub c0 -", "sub c1 -", "qlen c0 0", "pub p1 61", "recv c1", "recv c0", "pub p1 62", "recv c1", "qlen c1 -1", "qlen c0 3", "pub p1 63", "recv c0", "recv c1"}},
		// resize, context close with a receiver waiting, publisher loss
		{NCtx: 2, QLen: []int{2, 2}, RecvExp: z, Steps: []string{"conn", "sub c0 -", "sub c1 -", "pub p1 61", "qlen c0 5", "pub p1 62", "recv c0", "recv c1", "recv c1", "recv c1", "cclose c1", "drop p1", "conn", "pub p2 63", "recv c0", "recv c0"}},
	}
}

func subRandom(rng *rand.Rand) subCfg {
	sec := time.Second
	n := 1 + rng.Intn(3)
	c := subCfg{NCtx: n}
	inherit := rng.Intn(2) == 0 // the contexts take the socket's queue length as it is when they are opened
	for i := 0; i < n; i++ {
		if len(c.QLen) > 0 && inherit {
			c.QLen = append(c.QLen, c.QLen[0])
		} else {
			c.QLen = append(c.QLen, []int{1, 2, 3, 128}[rng.Intn(4)])
		}
		var d time.Duration
		if rng.Intn(4) == 0 {
			d = 2 * sec
		}
		c.RecvExp = append(c.RecvExp, d)
	}
	np := 0
	steps := 10 + rng.Intn(30)
	var known [][]byte
	for i := 0; i < steps; i++ {
		opts := []string{"sub", "sub", "unsub", "recv", "recv", "recv", "adv"}
		if np < 3 {
			opts = append(opts, "conn", "conn")
		}
		if np > 0 {
			opts = append(opts, "pub", "pub", "pub", "pub", "pub", "pub", "drop")
		}
		if rng.Intn(15) == 0 {
			opts = append(opts, "qlen")
		}
		if n > 1 && rng.Intn(15) == 0 {
			opts = append(opts, "cclose")
		}
		o := opts[rng.Intn(len(opts))]
		cx := fmt.Sprintf("c%d", rng.Intn(n))
		switch o {
		case "conn":
			np++
		case "sub":
			t := subStr(rng, 3)
			known = append(known, t)
			o += " " + cx + " " + toHex(t)
		case "unsub":
			t := subStr(rng, 2)
			if len(known) > 0 && rng.Intn(3) > 0 {
				t = known[rng.Intn(len(known))]
			}
			o += " " + cx + " " + toHex(t)
		case "pub":
			b := subStr(rng, 4)
			if len(known) > 0 && rng.Intn(2) == 0 {
				b = append(append([]byte{}, known[rng.Intn(len(known))]...), subStr(rng, 2)...)
			}
			b = append(b, byte(i)) // make bodies distinguishable
			o += fmt.Sprintf(" p%d %s", 1+rng.Intn(np), toHex(b))
		case "recv", "cclose":
			if o == "cclose" {
				cx = fmt.Sprintf("c%d", 1+rng.Intn(n-1))
			}
			o += " " + cx
		case "qlen":
			o += fmt.Sprintf(" %s %d", cx, []int{1, 2, 5}[rng.Intn(3)])
		case "adv":
			o += " " + []string{"1us", "1.999999s", "2s", "5s"}[rng.Intn(4)]
		case "drop":
			o += fmt.Sprintf(" p%d", 1+rng.Intn(np))
		}
		c.Steps = append(c.Steps, o)
	}
	return c
}

func subDeadline() []subCfg {
	var out []subCfg
	us := time.Microsecond
	for _, d := range []time.Duration{1 * us, time.Millisecond, time.Second, 300 * time.Second} {
		just := (d - us).String()
		out = append(out, subCfg{NCtx: 2, QLen: []int{2, 2}, RecvExp: []time.Duration{d, 0}, Steps: []string{
			"conn", "sub c0 61", "sub c1 61", "recv c0", "recv c1", "adv " + just, "adv 1us", "pub p1 6101", "recv c0", "recv c0", "adv " + just, "pub p1 6102", "adv 1us", "recv c0", "adv " + d.String()}})
		// the deadline of a Recv that is waiting is not pushed back by a queue length change or an Unsubscribe
		if d >= time.Second {
			half := (d / 2).String()
			rest := (d - d/2 - us).String()
			out = append(out, subCfg{NCtx: 2, QLen: []int{2, 2}, RecvExp: []time.Duration{d, d}, Steps: []string{
				"conn", "sub c0 61", "sub c0 62", "sub c1 61", "recv c0", "recv c1", "adv " + half, "qlen c0 3", "unsub c1 61", "unsub c0 62", "adv " + rest, "adv 1us", "adv " + d.String()}})
		}
	}
	return out
}

// subFromTLC loads the scenarios TLC generated from spec/mc/MC_SubScn.tla and picks a seeded sample.
func subFromTLC(path string, rng *rand.Rand, n int) []subCfg {
	sec := time.Second
	mixes := map[string]subCfg{
		"q5": {NCtx: 2, QLen: []int{1, 2}, RecvExp: []time.Duration{0, 2 * sec}},
		"z":  {NCtx: 2, QLen: []int{0, 1}, RecvExp: []time.Duration{0, 2 * sec}},
	}
	data, err := os.ReadFile(path)
	if err != nil {
		panic(err)
	}
	var all []subCfg
	for _, ln := range strings.Split(string(data), "\n") {
		if strings.TrimSpace(ln) == "" {
			continue
		}
		var x struct {
			Opt   string   `json:"opt"`
			Steps []string `json:"steps"`
		}
		if err := json.Unmarshal([]byte(ln), &x); err != nil {
			panic(err)
		}
		c, ok := mixes[x.Opt]
		if !ok {
			panic("unknown option mix " + x.Opt)
		}
		c.Steps = x.Steps
		all = append(all, c)
	}
	rng.Shuffle(len(all), func(i, j int) { all[i], all[j] = all[j], all[i] })
	if n < len(all) {
		all = all[:n]
	}
	return all
}

func TestSub(t *testing.T) {
	out := newOut(t, "sub")
	defer out.Close()
	rng := rand.New(rand.NewSource(seed()))
	if f := os.Getenv("VERIF_SCN_FILE"); f != "" {
		for i, cfg := range subFromTLC(f, rng, count(400, 1000000)) {
			if out.Stop() {
				break
			}
			res := runSub(t, cfg)
			out.Add(fmt.Sprintf("subscn-%d", i), subCfgEv(cfg), fmt.Sprint(cfg), res)
		}
		return
	}
	cfgs := subScripted()
	if os.Getenv("VERIF_MIX") == "deadline" {
		cfgs = subDeadline()
	}
	for i := 0; i < count(100, 1500); i++ {
		cfgs = append(cfgs, subRandom(rng))
	}
	for i, cfg := range cfgs {
		if out.Stop() {
			break
		}
		cfg.Steps = closeMix(cfg.Steps, rng, []string{"recv c0", "recv c1", "sub c0 61", "unsub c0 61", "conn", "cclose c1", "adv 1s", "recv c0", "sclose"})
		res := runSub(t, cfg)
		out.Add(fmt.Sprintf("sub-%d", i), subCfgEv(cfg), fmt.Sprint(cfg), res)
	}
}
