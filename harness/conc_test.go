package harness

import (
	"fmt"
	"math/rand"
	"os"
	"sync"
	"sync/atomic"
	"testing"
	"time"

	"go.nanomsg.org/mangos/v3"
	"go.nanomsg.org/mangos/v3/protocol/bus"
	"go.nanomsg.org/mangos/v3/protocol/pair"
	"go.nanomsg.org/mangos/v3/protocol/pub"
	"go.nanomsg.org/mangos/v3/protocol/pull"
	"go.nanomsg.org/mangos/v3/protocol/push"
	"go.nanomsg.org/mangos/v3/protocol/rep"
	"go.nanomsg.org/mangos/v3/protocol/req"
	"go.nanomsg.org/mangos/v3/protocol/respondent"
	"go.nanomsg.org/mangos/v3/protocol/star"
	"go.nanomsg.org/mangos/v3/protocol/sub"
	"go.nanomsg.org/mangos/v3/protocol/surveyor"
	"go.nanomsg.org/mangos/v3/protocol/xbus"
	"go.nanomsg.org/mangos/v3/protocol/xrep"
	"go.nanomsg.org/mangos/v3/protocol/xreq"
	"go.nanomsg.org/mangos/v3/protocol/xstar"

	"verifharness/rec"
	"verifharness/sim"
)

// ---------------------------------------------------------------------------
// Concurrent use (C11): every pattern hammered from several goroutines at
// once - Send, Recv, option get / set (incl. TTL, queue lengths,
// subscriptions), context open / use / close, extra Dial / Listen, pipe
// close from the event hook, and finally socket Close while all of that is
// still running.  The binary is built with -race by the C11 check; a watchdog
// turns a deadlock into a report; the results of every call are tallied and
// validated against the sequential contract's allowed results
// (spec/trace/TraceConc.tla).

type concPat struct {
	name string
	mkA  func() (mangos.Socket, error)
	mkB  func() (mangos.Socket, error)
}

var concPats = []concPat{
	{"pair", pair.NewSocket, pair.NewSocket},
	{"reqrep", req.NewSocket, rep.NewSocket},
	{"xreqxrep", xreq.NewSocket, xrep.NewSocket},
	{"pubsub", pub.NewSocket, sub.NewSocket},
	{"pushpull", push.NewSocket, pull.NewSocket},
	{"survey", surveyor.NewSocket, respondent.NewSocket},
	{"bus", bus.NewSocket, bus.NewSocket},
	{"xbus", xbus.NewSocket, xbus.NewSocket},
	{"star", star.NewSocket, star.NewSocket},
	{"xstar", xstar.NewSocket, xstar.NewSocket},
}

type tally struct {
	mu sync.Mutex
	m  map[string]int
}

func (t *tally) add(op string, err error) {
	k := op + " " + rec.ErrName(err)
	t.mu.Lock()
	t.m[k]++
	t.mu.Unlock()
}

func hammer(s mangos.Socket, name string, iters int, seed int64, t *tally, stop *atomic.Bool, wg *sync.WaitGroup) {
	go1 := func(f func(rng *rand.Rand)) {
		wg.Add(1)
		s := seed
		seed++
		go func() {
			defer wg.Done()
			f(rand.New(rand.NewSource(s)))
		}()
	}
	// senders and receivers
	for k := 0; k < 2; k++ {
		go1(func(rng *rand.Rand) {
			for i := 0; i < iters && !stop.Load(); i++ {
				m := mangos.NewMessage(8)
				m.Body = append(m.Body, byte(i), 1, 2, 3)
				if rng.Intn(4) == 0 {
					m.Header = append(m.Header, 0, 0, 0, 0)
				}
				err := s.SendMsg(m)
				if err != nil {
					m.Free()
				}
				t.add(name+".send", err)
			}
		})
		go1(func(rng *rand.Rand) {
			for i := 0; i < iters && !stop.Load(); i++ {
				m, err := s.RecvMsg()
				if err == nil {
					m.Free()
				}
				t.add(name+".recv", err)
			}
		})
	}
	// options
	go1(func(rng *rand.Rand) {
		for i := 0; i < iters && !stop.Load(); i++ {
			var err error
			switch rng.Intn(10) {
			case 0:
				err = s.SetOption(mangos.OptionTTL, 1+rng.Intn(8))
			case 1:
				err = s.SetOption(mangos.OptionReadQLen, 1+rng.Intn(4))
			case 2:
				err = s.SetOption(mangos.OptionWriteQLen, 1+rng.Intn(4))
			case 3:
				err = s.SetOption(mangos.OptionRecvDeadline, time.Duration(1+rng.Intn(3))*time.Millisecond)
			case 4:
				err = s.SetOption(mangos.OptionSendDeadline, time.Duration(1+rng.Intn(3))*time.Millisecond)
			case 5:
				err = s.SetOption(mangos.OptionBestEffort, rng.Intn(2) == 0)
			case 6:
				err = s.SetOption(mangos.OptionSubscribe, []byte{byte(rng.Intn(3))})
			case 7:
				err = s.SetOption(mangos.OptionUnsubscribe, []byte{byte(rng.Intn(3))})
			case 9:
				err = s.SetOption(mangos.OptionMaxRecvSize, 4096*(1+rng.Intn(4)))
			case 8:
				_, err = s.GetOption([]string{mangos.OptionTTL, mangos.OptionReadQLen, mangos.OptionRaw, mangos.OptionMaxRecvSize, "nonsense"}[rng.Intn(5)])
			}
			t.add(name+".opt", err)
		}
	})
	// contexts
	go1(func(rng *rand.Rand) {
		for i := 0; i < iters/4 && !stop.Load(); i++ {
			c, err := s.OpenContext()
			t.add(name+".openctx", err)
			if err != nil {
				continue
			}
			_ = c.SetOption(mangos.OptionRecvDeadline, time.Millisecond)
			_ = c.SetOption(mangos.OptionSendDeadline, time.Millisecond)
			m := mangos.NewMessage(4)
			m.Body = append(m.Body, 9, 9)
			if err := c.SendMsg(m); err != nil {
				m.Free()
				t.add(name+".ctxsend", err)
			} else {
				t.add(name+".ctxsend", nil)
			}
			r, err := c.RecvMsg()
			if err == nil {
				r.Free()
			}
			t.add(name+".ctxrecv", err)
			t.add(name+".ctxclose", c.Close())
		}
	})
}

func TestConcurrent(t *testing.T) {
	out := newOut(t, "conc")
	defer out.Close()
	iters := count(400, 20000)
	// one object, the same call from several goroutines at the same moment: Listen on one listener, Dial on one
	// dialer - the sequential contract lets exactly one of them start the endpoint (Core.tla ListenCall / DialCall:
	// the others find it active)
	{
		r := rec.New()
		status, detail := "ok", ""
		func() {
			defer func() {
				if x := recover(); x != nil {
					status, detail = "panic", fmt.Sprint(x)
				}
			}()
			srv, _ := pair.NewSocket()
			defer srv.Close()
			sl, err := srv.NewListener("tcp://127.0.0.1:0", nil)
			if err != nil {
				panic(err)
			}
			if err = sl.Listen(); err != nil {
				panic(err)
			}
			rounds := 300 // (not scaled by VERIF_N: the race job runs this driver with a small N)
			if thorough() {
				rounds = 2500
			}
			for _, what := range []string{"listen", "dial"} {
				worst, calls := 0, 0
				other := map[string]int{}
				for i := 0; i < rounds; i++ {
					s, _ := pair.NewSocket()
					_ = s.SetOption(mangos.OptionDialAsynch, true)
					var fn func() error
					if what == "listen" {
						l, err := s.NewListener("tcp://127.0.0.1:0", nil)
						if err != nil {
							panic(err)
						}
						fn = l.Listen
					} else {
						d, err := s.NewDialer(sl.Address(), nil)
						if err != nil {
							panic(err)
						}
						fn = d.Dial
					}
					const K = 4
					var wg sync.WaitGroup
					var ready atomic.Int32
					res := make([]error, K)
					for g := 0; g < K; g++ {
						wg.Add(1)
						go func() {
							defer wg.Done()
							ready.Add(1)
							for ready.Load() < K {
							}
							res[g] = fn()
						}()
					}
					wg.Wait()
					ok := 0
					for _, e := range res {
						calls++
						switch e {
						case nil:
							ok++
						case mangos.ErrAddrInUse:
						default:
							other[fmt.Sprint(e)]++
						}
					}
					if ok > worst {
						worst = ok
					}
					_ = s.Close()
				}
				r.Emit("cone", "op", what, "rounds", rounds, "calls", calls, "mostok", worst, "other", len(other), "others", fmt.Sprint(other))
			}
		}()
		out.Add("conc-one-object", rec.Ev{"pat": "pair", "tran": "tcp"}, "same call on one endpoint", sim.Result{Lines: r.Lines(), Status: status, Detail: detail})
	}
	// contexts closed from several goroutines at the same moment as their socket (the ordinary shutdown of a server with
	// one worker per context): every Close returns nil or ErrClosed, nothing crashes, nothing races
	{
		r := rec.New()
		status, detail := "ok", ""
		func() {
			defer func() {
				if x := recover(); x != nil {
					status, detail = "panic", fmt.Sprint(x)
				}
			}()
			rounds, nctx := 12, 200
			if thorough() {
				rounds = 100
			}
			for _, mk := range []struct {
				name string
				f    func() (mangos.Socket, error)
			}{{"req", req.NewSocket}, {"rep", rep.NewSocket}, {"surveyor", surveyor.NewSocket}, {"respondent", respondent.NewSocket}, {"sub", sub.NewSocket}} {
				bad := map[string]int{}
				calls := 0
				for i := 0; i < rounds; i++ {
					s, err := mk.f()
					if err != nil {
						panic(err)
					}
					var ctxs []mangos.Context
					for k := 0; k < nctx; k++ {
						c, err := s.OpenContext()
						if err != nil {
							panic(err)
						}
						ctxs = append(ctxs, c)
					}
					const K = 4
					var wg sync.WaitGroup
					var ready atomic.Int32
					var mu sync.Mutex
					note := func(e error) {
						mu.Lock()
						calls++
						if e != nil && e != mangos.ErrClosed {
							bad[fmt.Sprint(e)]++
						}
						mu.Unlock()
					}
					for g := 0; g < K; g++ {
						wg.Add(1)
						go func() {
							defer wg.Done()
							ready.Add(1)
							for ready.Load() < K {
							}
							if g == 0 {
								note(s.Close())
								return
							}
							for k := g - 1; k < nctx; k += K - 1 {
								note(ctxs[k].Close())
							}
						}()
					}
					wg.Wait()
				}
				r.Emit("cctx", "pat", mk.name, "rounds", rounds, "calls", calls, "other", len(bad), "others", fmt.Sprint(bad))
			}
		}()
		out.Add("conc-close-contexts", rec.Ev{"pat": "contexts", "tran": "none"}, "contexts and their socket closed at once", sim.Result{Lines: r.Lines(), Status: status, Detail: detail})
	}
	for pi, cp := range concPats {
		for ti, tran := range []string{"inproc", "tcp", "tls+tcp", "ipc", "ws"} {
			if ti >= 1 && (pi+ti)%3 != 0 && !(thorough() && ti == 1) {
				continue // every pattern over inproc; the network transports share the patterns among them
			}
			r := rec.New()
			status, detail := "ok", ""
			func() {
				defer func() {
					if x := recover(); x != nil {
						status, detail = "panic", fmt.Sprint(x)
					}
				}()
				a, err := cp.mkA()
				if err != nil {
					panic(err)
				}
				b, err := cp.mkB()
				if err != nil {
					panic(err)
				}
				for _, s := range []mangos.Socket{a, b} {
					_ = s.SetOption(mangos.OptionRecvDeadline, 2*time.Millisecond)
					_ = s.SetOption(mangos.OptionSendDeadline, 2*time.Millisecond)
					_ = s.SetOption(mangos.OptionSurveyTime, 2*time.Millisecond)
					_ = s.SetOption(mangos.OptionRetryTime, 3*time.Millisecond)
					_ = s.SetOption(mangos.OptionReconnectTime, time.Millisecond)
					_ = s.SetOption(mangos.OptionMaxReconnectTime, 5*time.Millisecond)
				}
				addr := fmt.Sprintf("inproc://conc-%d-%d-%d", os.Getpid(), pi, ti)
				var lo, do map[string]interface{}
				switch tran {
				case "tcp":
					addr = "tcp://127.0.0.1:0"
				case "tls+tcp":
					addr = "tls+tcp://127.0.0.1:0"
					lo, do = tlsOpts(true), tlsOpts(false)
				case "ipc":
					addr = fmt.Sprintf("ipc://%s/conc-%d-%d-%d.sock", os.TempDir(), os.Getpid(), pi, ti)
				case "ws":
					addr = "ws://127.0.0.1:0/conc"
				}
				l, err := a.NewListener(addr, lo)
				if err != nil {
					panic(err)
				}
				if err = l.Listen(); err != nil {
					panic(err)
				}
				// the hook closes a pipe now and then (reconnect churn)
				var nhook atomic.Int64
				for _, s := range []mangos.Socket{a, b} {
					s.SetPipeEventHook(func(ev mangos.PipeEvent, p mangos.Pipe) {
						if ev == mangos.PipeEventAttached && nhook.Add(1)%5 == 0 {
							go p.Close()
						}
						_, _ = p.GetOption(mangos.OptionRemoteAddr)
						_ = p.Address()
					})
				}
				_ = b.SetOption(mangos.OptionDialAsynch, true)
				bd, err := b.NewDialer(l.Address(), do)
				if err != nil {
					panic(err)
				}
				if err = bd.Dial(); err != nil {
					panic(err)
				}
				tl := &tally{m: map[string]int{}}
				var stop atomic.Bool
				var wg sync.WaitGroup
				hammer(a, "a", iters, int64(pi*100+ti), tl, &stop, &wg)
				hammer(b, "b", iters, int64(pi*100+ti+50), tl, &stop, &wg)
				// endpoint churn
				wg.Add(1)
				go func() {
					defer wg.Done()
					for i := 0; i < 5 && !stop.Load(); i++ {
						x, err := a.NewListener(fmt.Sprintf("inproc://conc-x-%d-%d-%d-%d", os.Getpid(), pi, ti, i), nil)
						if err == nil {
							tl.add("a.listen", x.Listen())
							time.Sleep(time.Millisecond)
							tl.add("a.lclose", x.Close())
						}
						d, err := b.NewDialer(l.Address(), do)
						if err == nil {
							tl.add("b.dial", d.Dial())
							time.Sleep(time.Millisecond)
							tl.add("b.dclose", d.Close())
						}
					}
				}()
				// close both while everything is still running
				if thorough() {
					time.Sleep(time.Duration(400+pi) * time.Millisecond)
				} else {
					time.Sleep(time.Duration(60+pi) * time.Millisecond)
				}
				var cw sync.WaitGroup
				for _, s := range []mangos.Socket{a, b} {
					cw.Add(1)
					go func(s mangos.Socket) { defer cw.Done(); tl.add("c.close", s.Close()) }(s)
				}
				done := make(chan struct{})
				go func() { cw.Wait(); wg.Wait(); close(done) }()
				select {
				case <-done:
					r.Emit("cdone", "ok", true, "pat", cp.name, "tran", tran)
				case <-time.After(20 * time.Second):
					stop.Store(true)
					r.Emit("cdone", "ok", false, "pat", cp.name, "tran", tran)
					status, detail = "hang", sim.FilterStacks(sim.Stacks())
				}
				tl.mu.Lock()
				for k, v := range tl.m {
					var op, res string
					fmt.Sscanf(k, "%s %s", &op, &res)
					r.Emit("cres", "op", op[2:], "sock", op[:1], "r", res, "n", v, "pat", cp.name)
				}
				tl.mu.Unlock()
			}()
			out.Add(fmt.Sprintf("conc-%s-%s", cp.name, tran), rec.Ev{"pat": cp.name, "tran": tran}, cp.name+" "+tran,
				sim.Result{Lines: r.Lines(), Status: status, Detail: detail})
		}
	}
}

// TestConcStorm (C11): cancellation storms.  One asking socket (SURVEYOR / REQ) with several contexts that
// issue the next survey / request without waiting for the answers to the last one (each Send cancels the
// previous one; survey and retry timers of a millisecond fire in between), many answering peers echoing as
// fast as they can, and option reads on the asking socket - so that answers to an operation arrive while it
// is being cancelled by a newer Send, by its timer or by Close.  Nothing is recorded: the process must
// survive (a panic in a library goroutine, a deadlock or a data race is the report).
func TestConcStorm(t *testing.T) {
	dur := 1200 * time.Millisecond
	if thorough() {
		dur = 6 * time.Second
	}
	type storm struct {
		name   string
		asker  func() (mangos.Socket, error)
		answer func() (mangos.Socket, error)
	}
	for si, st := range []storm{{"survey", surveyor.NewSocket, respondent.NewSocket}, {"req", req.NewSocket, rep.NewSocket}} {
		a, err := st.asker()
		if err != nil {
			t.Fatal(err)
		}
		_ = a.SetOption(mangos.OptionSurveyTime, time.Millisecond)
		_ = a.SetOption(mangos.OptionRetryTime, time.Millisecond)
		_ = a.SetOption(mangos.OptionRecvDeadline, time.Millisecond)
		_ = a.SetOption(mangos.OptionSendDeadline, 5*time.Millisecond)
		addr := fmt.Sprintf("inproc://storm-%d-%d", os.Getpid(), si)
		if err := a.Listen(addr); err != nil {
			t.Fatal(err)
		}
		var stop atomic.Bool
		var wg sync.WaitGroup
		var peers []mangos.Socket
		var nans, nask atomic.Int64
		for i := 0; i < 8; i++ {
			p, err := st.answer()
			if err != nil {
				t.Fatal(err)
			}
			_ = p.SetOption(mangos.OptionRecvDeadline, 5*time.Millisecond)
			_ = p.SetOption(mangos.OptionSendDeadline, 5*time.Millisecond)
			if err := p.Dial(addr); err != nil {
				t.Fatal(err)
			}
			peers = append(peers, p)
			wg.Add(1)
			go func() {
				defer wg.Done()
				for !stop.Load() {
					m, err := p.RecvMsg()
					if err != nil {
						continue
					}
					if p.SendMsg(m) != nil {
						m.Free()
					} else {
						nans.Add(1)
					}
				}
			}()
		}
		for i := 0; i < 4; i++ {
			c, err := a.OpenContext()
			if err != nil {
				t.Fatal(err)
			}
			i := i
			wg.Add(1)
			go func() {
				defer wg.Done()
				for k := 0; !stop.Load(); k++ {
					if c.Send([]byte{byte(k), byte(i)}) == nil {
						nask.Add(1)
					}
					if (k+i)%3 == 0 {
						if m, err := c.RecvMsg(); err == nil {
							m.Free()
						}
					}
					if k%1000 == 999 && i == 3 {
						// now and then a context goes away in the middle of it all and a new one takes over
						_ = c.Close()
						if c, err = a.OpenContext(); err != nil {
							return
						}
					}
				}
			}()
		}
		wg.Add(1)
		go func() {
			defer wg.Done()
			for !stop.Load() {
				_, _ = a.GetOption(mangos.OptionSurveyTime)
				_ = a.SetOption(mangos.OptionReadQLen, 1+int(nask.Load()%4))
			}
		}()
		time.Sleep(dur)
		// Close with everything still in flight
		_ = a.Close()
		stop.Store(true)
		for _, p := range peers {
			_ = p.Close()
		}
		done := make(chan struct{})
		go func() { wg.Wait(); close(done) }()
		select {
		case <-done:
		case <-time.After(20 * time.Second):
			t.Fatalf("storm %s: goroutines did not come back after Close:\n%s", st.name, sim.FilterStacks(sim.Stacks()))
		}
		t.Logf("storm %s: %d asked, %d answered", st.name, nask.Load(), nans.Load())
	}
}
