package harness

import (
	"fmt"
	"math/rand"
	"regexp"
	"strconv"
	"sync"
	"testing"
	"time"

	"go.nanomsg.org/mangos/v3"
	"go.nanomsg.org/mangos/v3/protocol/pair"
	"go.nanomsg.org/mangos/v3/protocol/pub"
	"go.nanomsg.org/mangos/v3/protocol/pull"
	"go.nanomsg.org/mangos/v3/protocol/push"
	"go.nanomsg.org/mangos/v3/protocol/rep"
	"go.nanomsg.org/mangos/v3/protocol/req"
	"go.nanomsg.org/mangos/v3/protocol/respondent"
	"go.nanomsg.org/mangos/v3/protocol/sub"
	"go.nanomsg.org/mangos/v3/protocol/surveyor"
	"go.nanomsg.org/mangos/v3/protocol/xpair"
	"go.nanomsg.org/mangos/v3/protocol/xpub"
	"go.nanomsg.org/mangos/v3/protocol/xpull"
	"go.nanomsg.org/mangos/v3/protocol/xpush"
	"go.nanomsg.org/mangos/v3/protocol/xrep"
	"go.nanomsg.org/mangos/v3/protocol/xreq"
	"go.nanomsg.org/mangos/v3/protocol/xrespondent"
	"go.nanomsg.org/mangos/v3/protocol/xsub"
	"go.nanomsg.org/mangos/v3/protocol/xsurveyor"

	"verifharness/rec"
	"verifharness/sim"
	"verifharness/vt"
)

// ---------------------------------------------------------------------------
// Device chains (C09, and end to end C05 / C02 / C06): cooked sockets at both
// ends, n real mangos.Device forwarders between raw sockets in the middle, all
// joined by linked virtual pipes inside one bubble.  Recorded: every
// application call at the ends and every transport send on every connection
// (payload and number of routing words).  Validated against spec/Chain.tla.

type chainPat struct {
	name                        string
	client, front, back, server func() (mangos.Socket, error)
	twoWay                      bool
}

var chainPats = []chainPat{
	{"reqrep", req.NewSocket, xrep.NewSocket, xreq.NewSocket, rep.NewSocket, true},
	{"survey", surveyor.NewSocket, xrespondent.NewSocket, xsurveyor.NewSocket, respondent.NewSocket, true},
	{"pipeline", push.NewSocket, xpull.NewSocket, xpush.NewSocket, pull.NewSocket, false},
	{"pubsub", pub.NewSocket, xsub.NewSocket, xpub.NewSocket, sub.NewSocket, false},
	{"pair", pair.NewSocket, xpair.NewSocket, xpair.NewSocket, pair.NewSocket, false},
}

type chainCfg struct {
	pat      chainPat
	ndev     int
	ttl      []int // ttl[j-1]: TTL of the socket receiving on connection j (devices' fronts, then the server)
	ring     bool
	nclients int
	nmsgs    int
}

var chainPipeRe = regexp.MustCompile(`^x(\d+)_(\d+)([ab])$`)

func must(err error) {
	if err != nil {
		panic(err)
	}
}

func runChain(t *testing.T, c chainCfg, seed int64) sim.Result {
	res := sim.Run(t, 60*time.Second, func(s *sim.S) {
		rng := rand.New(rand.NewSource(seed))
		_ = rng
		twoWay := c.pat.twoWay
		// what travels: routing words (top bit ends them) then the payload
		s.Net.Decode = func(dir string, b []byte) []interface{} {
			nw := 0
			if twoWay {
				for i := 0; i+4 <= len(b); i += 4 {
					nw++
					if b[i]&0x80 != 0 {
						break
					}
				}
			}
			return []interface{}{"p", string(b[4*nw:]), "nw", nw}
		}
		maxttl := 0
		for _, v := range c.ttl {
			if v > maxttl {
				maxttl = v
			}
		}
		s.Rec.Emit("ccfg", "pat", c.pat.name, "ndev", c.ndev, "ttl", c.ttl, "ring", c.ring, "maxttl", maxttl)
		s.Rec.SetSilent(true)
		var all []mangos.Socket
		mk := func(f func() (mangos.Socket, error), lname string) mangos.Socket {
			sk, err := f()
			must(err)
			all = append(all, sk)
			must(sk.Listen(s.Net.Addr(lname)))
			return sk
		}
		npipe := map[int]int{}
		join := func(j int, la, lb string) { // connection j between the listener nearer the client (la) and the one nearer the server (lb)
			npipe[j]++
			pa := s.Net.NewPipe(fmt.Sprintf("x%d_%da", j, npipe[j]))
			pb := s.Net.NewPipe(fmt.Sprintf("x%d_%db", j, npipe[j]))
			vt.Link(pa, pb, 64)
			s.Net.Listener(la).Offer(pa)
			s.Net.Listener(lb).Offer(pb)
		}
		clients := make([]mangos.Socket, c.nclients)
		for i := range clients {
			clients[i] = mk(c.pat.client, fmt.Sprintf("c%d", i+1))
			_ = clients[i].SetOption(mangos.OptionRetryTime, time.Duration(0))
			_ = clients[i].SetOption(mangos.OptionRecvDeadline, time.Second)
			_ = clients[i].SetOption(mangos.OptionSurveyTime, 2*time.Second)
		}
		var fronts, backs []mangos.Socket
		for d := 1; d <= c.ndev; d++ {
			f := mk(c.pat.front, fmt.Sprintf("f%d", d))
			b := mk(c.pat.back, fmt.Sprintf("b%d", d))
			if twoWay {
				must(f.SetOption(mangos.OptionTTL, c.ttl[d-1]))
			}
			must(mangos.Device(f, b))
			fronts, backs = append(fronts, f), append(backs, b)
		}
		var server mangos.Socket
		if !c.ring {
			server = mk(c.pat.server, "s")
			if twoWay {
				must(server.SetOption(mangos.OptionTTL, c.ttl[c.ndev]))
			}
			_ = server.SetOption(mangos.OptionSubscribe, []byte{})
			_ = server.SetOption(mangos.OptionRecvDeadline, 500*time.Millisecond)
		}
		first := "s"
		if c.ndev > 0 {
			first = "f1"
		}
		for i := range clients {
			join(1, fmt.Sprintf("c%d", i+1), first)
		}
		for d := 1; d <= c.ndev; d++ {
			next := "s"
			if d < c.ndev {
				next = fmt.Sprintf("f%d", d+1)
			} else if c.ring {
				next = "f1"
			}
			j := d + 1
			if c.ring && d == c.ndev {
				j = 1
			}
			join(j, fmt.Sprintf("b%d", d), next)
		}
		s.Wait()
		s.Rec.SetSilent(false)

		var wg sync.WaitGroup
		var stop bool
		var mu sync.Mutex
		stopped := func() bool { mu.Lock(); defer mu.Unlock(); return stop }
		// the server application
		if server != nil {
			wg.Add(1)
			go func() {
				defer wg.Done()
				n := 0
				for !stopped() {
					m, err := server.RecvMsg()
					if err != nil {
						continue
					}
					p := string(m.Body)
					m.Free()
					s.Rec.Emit("srecv", "p", p)
					if twoWay {
						rp := "r." + p
						s.Rec.Emit("ssend", "p", rp)
						_ = server.Send([]byte(rp))
					} else if c.pat.name == "pair" && n < c.nmsgs {
						n++
						sp := fmt.Sprintf("srv.%d", n)
						s.Rec.Emit("ssend", "p", sp)
						_ = server.Send([]byte(sp))
					}
				}
			}()
		}
		// the clients
		var cwg sync.WaitGroup
		for i, cl := range clients {
			i, cl := i, cl
			name := fmt.Sprintf("c%d", i+1)
			cwg.Add(1)
			go func() {
				defer cwg.Done()
				for k := 1; k <= c.nmsgs; k++ {
					p := fmt.Sprintf("%s.%d", name, k)
					s.Rec.Emit("csend", "c", name, "p", p)
					if err := cl.Send([]byte(p)); err != nil {
						s.Rec.Emit("csenderr", "c", name, "r", err)
						continue
					}
					if twoWay {
						b, err := cl.Recv()
						if err == nil {
							s.Rec.Emit("crecv", "c", name, "r", "ok", "p", string(b))
						} else {
							s.Rec.Emit("crecv", "c", name, "r", "none", "p", "")
						}
					}
				}
			}()
			if c.pat.name == "pair" {
				wg.Add(1)
				go func() {
					defer wg.Done()
					for !stopped() {
						if b, err := cl.Recv(); err == nil {
							s.Rec.Emit("crecv", "c", name, "r", "ok", "p", string(b))
						}
					}
				}()
			}
		}
		// let it run: quiescence, then time for the deadlines of what was dropped on the way
		cdone := make(chan struct{})
		go func() { cwg.Wait(); close(cdone) }()
		for round := 0; round < 4*c.nmsgs+8; round++ {
			s.Wait()
			s.Rec.Emit("q")
			select {
			case <-cdone:
				round = 1 << 30
			default:
			}
			time.Sleep(300 * time.Millisecond)
		}
		s.Wait()
		s.Rec.Emit("q")
		mu.Lock()
		stop = true
		mu.Unlock()
		s.Rec.SetSilent(true)
		for _, sk := range all {
			_ = sk.Close()
		}
		wg.Wait()
		cwg.Wait()
		time.Sleep(2 * time.Second)
		s.Wait()
	})
	// keep what the specification talks about; the pipe name of a transport send becomes (connection, end)
	var keep []rec.Ev
	for _, e := range res.Lines {
		switch e["k"] {
		case "ccfg", "csend", "crecv", "srecv", "ssend", "q", "csenderr":
			keep = append(keep, e)
		case "xs":
			m := chainPipeRe.FindStringSubmatch(fmt.Sprint(e["o"]))
			if m == nil {
				continue
			}
			j, _ := strconv.Atoi(m[1])
			keep = append(keep, rec.Ev{"k": "xs", "i": e["i"], "t": e["t"], "j": j, "side": m[3], "p": e["p"], "nw": e["nw"]})
		}
	}
	res.Lines = keep
	return res
}

func TestChain(t *testing.T) {
	out := newOut(t, "chain")
	defer out.Close()
	rng := rand.New(rand.NewSource(seed() + 31))
	n := 0
	add := func(c chainCfg) {
		n++
		label := fmt.Sprintf("chain-%s-n%d-ttl%v-ring%v-%d", c.pat.name, c.ndev, c.ttl, c.ring, n)
		res := runChain(t, c, rng.Int63())
		out.Add(label, rec.Ev{"label": label}, label, res)
	}
	maxdev := 3
	for _, p := range chainPats {
		if p.twoWay {
			// every chain length x TTL vectors around the limit
			for ndev := 0; ndev <= maxdev; ndev++ {
				var vecs [][]int
				base := make([]int, ndev+1)
				for i := range base {
					base[i] = 8
				}
				vecs = append(vecs, base)
				for pos := 0; pos <= ndev; pos++ { // the socket at pos has a TTL exactly at / one below / one above what it sees
					for _, d := range []int{-1, 0, 1} {
						v := append([]int{}, base...)
						v[pos] = pos + 1 + d
						if v[pos] >= 1 {
							vecs = append(vecs, v)
						}
					}
				}
				if !thorough() && len(vecs) > 5 {
					rng.Shuffle(len(vecs), func(i, j int) { vecs[i], vecs[j] = vecs[j], vecs[i] })
					vecs = vecs[:5]
				}
				for _, v := range vecs {
					add(chainCfg{pat: p, ndev: ndev, ttl: v, nclients: 1 + rng.Intn(3), nmsgs: 2 + rng.Intn(2)})
				}
			}
			// rings: a request that goes round must die out
			for _, ndev := range []int{1, 2, 3} {
				for _, tt := range []int{1, 3, 8} {
					v := make([]int, ndev)
					for i := range v {
						v[i] = tt
						if thorough() && i > 0 {
							v[i] = 1 + rng.Intn(9)
						}
					}
					add(chainCfg{pat: p, ndev: ndev, ttl: v, ring: true, nclients: 1 + rng.Intn(2), nmsgs: 2})
				}
			}
		} else {
			for ndev := 0; ndev <= maxdev; ndev++ {
				nc := 1 + rng.Intn(3)
				if p.name == "pair" {
					nc = 1
				}
				add(chainCfg{pat: p, ndev: ndev, ttl: make([]int, ndev+1), nclients: nc, nmsgs: 3 + rng.Intn(4)})
			}
		}
	}
}
