package harness

import (
	"encoding/json"
	"fmt"
	"io"
	"math/rand"
	"net"
	"os"
	"strings"
	"testing"
	"time"

	"go.nanomsg.org/mangos/v3/transport"

	"verifharness/rec"
	"verifharness/sim"
)

// ---------------------------------------------------------------------------
// The asynchronous handshake stage of the stream transports (transport/conn.go
// connHandshaker) driven directly: connections over net.Pipe whose far end the
// harness plays (answers well, answers badly, stays silent, goes away), Wait
// and Close at any point - in a bubble, so that "nothing more will happen" is
// exact.  Validated against spec/Handshaker.tla (C10, C16, C12).

type hsConn struct {
	name string
	far  net.Conn
	pipe transport.Pipe
}

// is the library's end of the connection closed?  (seen from the far end: a read ends at once)
func (c *hsConn) closed() bool {
	_ = c.far.SetReadDeadline(time.Now().Add(time.Millisecond))
	buf := make([]byte, 64)
	for {
		_, err := c.far.Read(buf)
		if err == nil {
			continue
		}
		if ne, ok := err.(net.Error); ok && ne.Timeout() {
			return false
		}
		return true
	}
}

func runHandshaker(t *testing.T, steps []string, ipc bool) sim.Result {
	return sim.Run(t, 30*time.Second, func(s *sim.S) {
		hs := transport.NewConnHandshaker()
		conns := map[string]*hsConn{}
		byPipe := map[transport.Pipe]string{}
		acted := map[string]bool{}
		snap := func() {
			kv := []interface{}{}
			for i := 1; i <= 4; i++ {
				n := fmt.Sprintf("c%d", i)
				if c := conns[n]; c != nil {
					kv = append(kv, n, !c.closed())
				} else {
					kv = append(kv, n, true)
				}
			}
			s.Rec.Emit("hsnap", kv...)
		}
		nwait := 0
		for _, st := range steps {
			var op, arg string
			fmt.Sscanf(st, "%s %s", &op, &arg)
			switch op {
			case "start":
				a, b := net.Pipe()
				c := &hsConn{name: arg, far: b, pipe: mkPipe(a, ipc, 0x10)}
				conns[arg] = c
				byPipe[c.pipe] = arg
				// the far end swallows our header as soon as it comes (net.Pipe has no buffer)
				go func() { _, _ = io.ReadFull(b, make([]byte, 8)) }()
				s.Rec.Emit("hstart", "c", arg)
				hs.Start(c.pipe)
			case "good", "bad", "drop":
				c := conns[arg]
				if c == nil || acted[arg] {
					continue // the far end acts once
				}
				acted[arg] = true
				s.Rec.Emit("hpeer", "c", arg, "what", op)
				switch op {
				case "good":
					go func() { _, _ = c.far.Write(goodHdr(0x10)) }()
				case "bad":
					go func() { _, _ = c.far.Write([]byte{0, 'X', 'P', 0, 0, 0x10, 0, 0}) }()
				case "drop":
					_ = c.far.Close()
				}
			case "wait":
				nwait++
				th := fmt.Sprintf("W%d", nwait)
				s.Rec.Emit("hwaitcall", "th", th)
				go func() {
					p, err := hs.Wait()
					name := "none"
					if p != nil {
						name = byPipe[p]
					}
					s.Rec.Emit("hwait", "th", th, "c", name, "r", err)
				}()
			case "close":
				s.Rec.Emit("hclose")
				hs.Close()
			}
			s.Wait()
			s.Rec.Emit("q")
			snap()
		}
		// the end: the listener goes away
		s.Rec.Emit("hclose")
		hs.Close()
		s.Wait()
		s.Rec.Emit("q")
		snap()
		for _, c := range conns {
			_ = c.far.Close()
			_ = c.pipe.Close()
		}
		time.Sleep(time.Second)
		s.Wait()
	})
}

func TestHandshaker(t *testing.T) {
	out := newOut(t, "handshaker")
	defer out.Close()
	rng := rand.New(rand.NewSource(seed() + 3))
	k := 0
	add := func(steps []string) {
		if out.Stop() {
			return // enough scenarios hung: each costs the real-time watchdog period
		}
		k++
		label := fmt.Sprintf("hs-%d", k)
		out.Add(label, rec.Ev{"label": label}, fmt.Sprint(steps), runHandshaker(t, steps, k%2 == 0))
	}
	if f := os.Getenv("VERIF_SCN_FILE"); f != "" {
		// scenarios TLC generated from spec/mc/MC_HsScn.tla
		data, err := os.ReadFile(f)
		if err != nil {
			panic(err)
		}
		var all [][]string
		for _, ln := range strings.Split(string(data), "\n") {
			if strings.TrimSpace(ln) == "" {
				continue
			}
			var x struct {
				Steps []string `json:"steps"`
			}
			if err := json.Unmarshal([]byte(ln), &x); err != nil {
				panic(err)
			}
			all = append(all, x.Steps)
		}
		rng.Shuffle(len(all), func(i, j int) { all[i], all[j] = all[j], all[i] })
		if n := count(400, 1000000); n < len(all) {
			all = all[:n]
		}
		for _, st := range all {
			if out.Stop() {
				break
			}
			add(st)
		}
		return
	}
	// scripted: the situations the specification distinguishes
	add([]string{"start c1", "good c1", "wait", "close", "wait"})
	add([]string{"start c1", "start c2", "close"})                       // in negotiation at Close, peers silent for ever
	add([]string{"start c1", "good c1", "start c2", "good c2", "close"}) // finished, not yet taken
	add([]string{"close", "start c1", "wait"})                           // handed over after Close
	add([]string{"close", "start c1", "good c1", "wait"})
	add([]string{"start c1", "close", "good c1", "wait"}) // late finisher
	add([]string{"wait", "start c1", "bad c1", "wait", "start c2", "good c2"})
	add([]string{"start c1", "start c2", "start c3", "good c3", "wait", "drop c1", "wait", "good c2", "wait", "wait", "close"})
	add([]string{"wait", "wait", "close"})
	n := count(40, 600)
	for i := 0; i < n; i++ {
		var steps []string
		started, m := 0, 3+rng.Intn(10)
		for j := 0; j < m; j++ {
			opts := []string{"wait", "wait"}
			if started < 4 {
				opts = append(opts, "start", "start", "start")
			}
			if started > 0 {
				opts = append(opts, "good", "good", "good", "bad", "drop")
			}
			if rng.Intn(8) == 0 {
				opts = append(opts, "close")
			}
			o := opts[rng.Intn(len(opts))]
			switch o {
			case "start":
				started++
				o += fmt.Sprintf(" c%d", started)
			case "good", "bad", "drop":
				o += fmt.Sprintf(" c%d", 1+rng.Intn(started))
			}
			steps = append(steps, o)
		}
		add(steps)
	}
}
