package harness

import (
	"bufio"
	"fmt"
	"github.com/gorilla/websocket"
	"net"
	"net/http"
	"net/http/httptest"
	"os"
	"runtime"
	"strings"
	"sync"
	"testing"
	"time"

	"go.nanomsg.org/mangos/v3"
	"go.nanomsg.org/mangos/v3/protocol/pair"
	"go.nanomsg.org/mangos/v3/protocol/rep"
	"go.nanomsg.org/mangos/v3/protocol/req"
	"go.nanomsg.org/mangos/v3/transport/ws"

	"verifharness/rec"
	"verifharness/sim"
)

// ---------------------------------------------------------------------------
// Close on the real transports (C10, real mode): blocked calls return a closed
// error promptly, later calls fail, closing one listener leaves another one
// alone, the peer notices, the address can be bound again, a connection that
// is still in its handshake is dropped, and once every socket is closed no
// library goroutine remains.  Validated against spec/Lifecycle.tla.

// gatedWriter holds the hijack of an HTTP upgrade back until released
type gatedWriter struct {
	http.ResponseWriter
	entered, release chan struct{}
}

func (g *gatedWriter) Hijack() (net.Conn, *bufio.ReadWriter, error) {
	close(g.entered)
	<-g.release
	return g.ResponseWriter.(http.Hijacker).Hijack()
}

func mangosGoroutines() []string {
	buf := make([]byte, 4<<20)
	n := runtime.Stack(buf, true)
	var out []string
	for _, blk := range strings.Split(string(buf[:n]), "\n\n") {
		if !strings.Contains(blk, "go.nanomsg.org/mangos/v3") {
			continue
		}
		// goroutines of this test itself (driver frames above library frames) do not count
		if strings.Contains(blk, "verifharness.") {
			continue
		}
		lines := strings.Split(blk, "\n")
		for i := 1; i < len(lines); i += 2 {
			if strings.Contains(lines[i], "go.nanomsg.org/mangos/v3") {
				l := lines[i]
				if j := strings.LastIndex(l, "("); j > 0 {
					l = l[:j]
				}
				out = append(out, strings.TrimPrefix(l, "go.nanomsg.org/mangos/v3/"))
				break
			}
		}
	}
	return out
}

func waitNoGoroutines(d time.Duration) []string {
	dl := time.Now().Add(d)
	nap := 500 * time.Microsecond
	for {
		g := mangosGoroutines()
		if len(g) == 0 || time.Now().After(dl) {
			return g
		}
		time.Sleep(nap)
		if nap < 20*time.Millisecond {
			nap *= 2
		}
	}
}

func TestCloseReal(t *testing.T) {
	out := newOut(t, "closereal")
	defer out.Close()
	for ti, tr := range realTrans() {
		r := rec.New()
		status, detail := "ok", ""
		func() {
			defer func() {
				if x := recover(); x != nil {
					status, detail = "panic", fmt.Sprint(x)
				}
			}()
			r.Emit("rbase", "g", len(waitNoGoroutines(2*time.Second)))
			a, _ := pair.NewSocket()
			b, _ := pair.NewSocket()
			var lo, do map[string]interface{}
			if tr.opts != nil {
				lo, do = tr.opts(true), tr.opts(false)
			}
			l, err := a.NewListener(tr.addr(2000+ti), lo)
			if err != nil {
				panic(err)
			}
			if err = l.Listen(); err != nil {
				panic(err)
			}
			addr := l.Address()
			// a second listener on the same address fails and, closed, leaves the first one alone
			x, _ := pair.NewSocket()
			xl, err := x.NewListener(addr, lo)
			dupErr := err
			if err == nil {
				dupErr = xl.Listen()
			}
			r.Emit("rdup", "failed", dupErr != nil)
			_ = x.Close()
			bdown := make(chan struct{}, 4)
			b.SetPipeEventHook(func(ev mangos.PipeEvent, p mangos.Pipe) {
				if ev == mangos.PipeEventDetached {
					bdown <- struct{}{}
				}
			})
			d, err := b.NewDialer(addr, do)
			if err != nil {
				panic(err)
			}
			_ = b.SetOption(mangos.OptionReconnectTime, 30*time.Millisecond)
			if err = d.Dial(); err != nil {
				r.Emit("rconn", "ok", false, "r", err)
				return
			}
			// traffic both ways
			_ = a.SetOption(mangos.OptionRecvDeadline, 3*time.Second)
			_ = b.SetOption(mangos.OptionRecvDeadline, 3*time.Second)
			_ = a.Send([]byte("ping"))
			got, err := b.Recv()
			r.Emit("rconn", "ok", err == nil && string(got) == "ping", "r", err)
			// blocked calls on a (no deadline)
			_ = a.SetOption(mangos.OptionRecvDeadline, time.Duration(0))
			var wg sync.WaitGroup
			type res struct {
				op  string
				err error
				dt  time.Duration
			}
			results := make(chan res, 8)
			var tclose time.Time
			var mu sync.Mutex
			for i := 0; i < 2; i++ {
				wg.Add(1)
				go func() {
					defer wg.Done()
					_, err := a.Recv()
					mu.Lock()
					dt := time.Since(tclose)
					mu.Unlock()
					results <- res{"recv", err, dt}
				}()
			}
			time.Sleep(50 * time.Millisecond)
			r.Emit("rpending", "n", 2)
			mu.Lock()
			tclose = time.Now()
			mu.Unlock()
			cerr := a.Close()
			r.Emit("rclose", "sock", "a", "r", cerr)
			done := make(chan struct{})
			go func() { wg.Wait(); close(done) }()
			select {
			case <-done:
			case <-time.After(3 * time.Second):
			}
			close(results)
			n := 0
			for x := range results {
				n++
				r.Emit("rret", "sock", "a", "op", x.op, "r", x.err, "prompt", x.dt < 2*time.Second)
			}
			r.Emit("runblocked", "n", n, "want", 2)
			// later calls
			r.Emit("rlater", "sock", "a", "op", "send", "r", a.Send([]byte("x")))
			_, err = a.Recv()
			r.Emit("rlater", "sock", "a", "op", "recv", "r", err)
			r.Emit("rlater", "sock", "a", "op", "listen", "r", a.Listen(tr.addr(2100+ti)))
			r.Emit("rlater", "sock", "a", "op", "close", "r", a.Close())
			// the peer notices
			select {
			case <-bdown:
				r.Emit("rpeerdown", "ok", true)
			case <-time.After(3 * time.Second):
				r.Emit("rpeerdown", "ok", false)
			}
			// the address can be bound again, and the dialer reconnects by itself
			c, _ := pair.NewSocket()
			var rerr error
			for i := 0; i < 50; i++ {
				var cl mangos.Listener
				cl, rerr = c.NewListener(addr, lo)
				if rerr == nil {
					rerr = cl.Listen()
				}
				if rerr == nil {
					break
				}
				time.Sleep(20 * time.Millisecond)
			}
			r.Emit("rrebind", "ok", rerr == nil, "r", rerr)
			if rerr == nil {
				_ = c.SetOption(mangos.OptionRecvDeadline, 3*time.Second)
				_ = b.SetOption(mangos.OptionSendDeadline, 3*time.Second)
				time.Sleep(150 * time.Millisecond)
				_ = b.Send([]byte("again"))
				got, err := c.Recv()
				r.Emit("rreconnect", "ok", err == nil && string(got) == "again")
			}
			_ = b.Close()
			_ = c.Close()
			g := waitNoGoroutines(3 * time.Second)
			r.Emit("rcensus", "n", len(g), "g", fmt.Sprint(g))
		}()
		out.Add("closereal-"+tr.name, rec.Ev{"tran": tr.name}, tr.name, sim.Result{Lines: r.Lines(), Status: status, Detail: detail})
	}
	// a connection that is still in its handshake when the socket closes must be dropped
	for _, tn := range []string{"tcp", "ipc"} {
		var tr realTran
		for _, x := range realTrans() {
			if x.name == tn {
				tr = x
			}
		}
		r := rec.New()
		status, detail := "ok", ""
		func() {
			defer func() {
				if x := recover(); x != nil {
					status, detail = "panic", fmt.Sprint(x)
				}
			}()
			for mi, mk := range []func() (mangos.Socket, error){pair.NewSocket, rep.NewSocket, req.NewSocket} {
				s, _ := mk()
				l, err := s.NewListener(tr.addr(2200), nil)
				if err != nil {
					panic(err)
				}
				if err = l.Listen(); err != nil {
					panic(err)
				}
				var c, c2 net.Conn
				c, err = dialRaw(l.Address(), tn)
				if err != nil {
					panic(err)
				}
				c2, err = dialRaw(l.Address(), tn) // this one never says anything at all
				if err != nil {
					panic(err)
				}
				_, _ = readN(c, 8, 2*time.Second) // the server's header; ours is withheld
				_, _ = readN(c2, 8, 2*time.Second)
				r.Emit("rclose", "sock", fmt.Sprintf("s%d", mi), "r", s.Close())
				info := s.Info()
				r.Emit("rhsdrop", "closed", closedWithin(c2, 2*time.Second))
				_, _ = c.Write(goodHdr(info.Peer))
				r.Emit("rhsdrop", "closed", closedWithin(c, 2*time.Second))
				c.Close()
				c2.Close()
			}
			g := waitNoGoroutines(3 * time.Second)
			r.Emit("rcensus", "n", len(g), "g", fmt.Sprint(g))
		}()
		out.Add("closereal-hs-"+tn, rec.Ev{"tran": tn}, tn+" handshake", sim.Result{Lines: r.Lines(), Status: status, Detail: detail})
	}
	// connections that finished their handshake but were not yet accepted (the accept loop is busy in a hook)
	// when the socket closes: every one of them must be closed
	for _, tn := range []string{"tcp", "ipc"} {
		var tr realTran
		for _, x := range realTrans() {
			if x.name == tn {
				tr = x
			}
		}
		r := rec.New()
		status, detail := "ok", ""
		func() {
			defer func() {
				if x := recover(); x != nil {
					status, detail = "panic", fmt.Sprint(x)
				}
			}()
			r.Emit("rbase", "g", len(waitNoGoroutines(2*time.Second)))
			s, _ := pair.NewSocket()
			gate := make(chan struct{})
			entered := make(chan struct{}, 8)
			s.SetPipeEventHook(func(ev mangos.PipeEvent, p mangos.Pipe) {
				if ev == mangos.PipeEventAttaching {
					entered <- struct{}{}
					<-gate
				}
			})
			l, err := s.NewListener(tr.addr(2300), nil)
			if err != nil {
				panic(err)
			}
			if err = l.Listen(); err != nil {
				panic(err)
			}
			info := s.Info()
			var conns []net.Conn
			for i := 0; i < 3; i++ {
				c, err := dialRaw(l.Address(), tn)
				if err != nil {
					panic(err)
				}
				_, _ = c.Write(goodHdr(info.Peer))
				_, _ = readN(c, 8, 2*time.Second)
				conns = append(conns, c)
				if i == 0 {
					select { // the accept loop is now inside the hook
					case <-entered:
					case <-time.After(3 * time.Second):
					}
				}
			}
			time.Sleep(100 * time.Millisecond) // the other two finish their handshakes meanwhile
			cdone := make(chan error, 1)
			go func() { cdone <- s.Close() }()
			var cerr interface{} = "hung"
			select { // Close does not need the hook to come back; should it ever, the gate opens after a second
			case err := <-cdone:
				cerr = err
				close(gate)
			case <-time.After(time.Second):
				close(gate)
				select {
				case err := <-cdone:
					cerr = err
				case <-time.After(5 * time.Second):
				}
			}
			r.Emit("rclose", "sock", "hq", "r", cerr)
			for _, c := range conns {
				r.Emit("rhsdrop", "closed", closedWithin(c, 2*time.Second))
				c.Close()
			}
			g := waitNoGoroutines(3 * time.Second)
			r.Emit("rcensus", "n", len(g), "g", fmt.Sprint(g))
		}()
		out.Add("closereal-hsq-"+tn, rec.Ev{"tran": tn}, tn+" handshaked, not accepted", sim.Result{Lines: r.Lines(), Status: status, Detail: detail})
	}
	// the same for WebSocket, whose "handshake" is the HTTP upgrade: connections upgraded but not yet accepted are
	// parked by their HTTP handlers; both when the listener runs its own HTTP server and when the application's
	// server hosts it (WsListener.tla: Close closes what is parked, whoever serves)
	for _, mode := range []string{"own", "hosted"} {
		r := rec.New()
		status, detail := "ok", ""
		func() {
			defer func() {
				if x := recover(); x != nil {
					status, detail = "panic", fmt.Sprint(x)
				}
			}()
			r.Emit("rbase", "g", len(waitNoGoroutines(2*time.Second)))
			s, _ := pair.NewSocket()
			gate := make(chan struct{})
			entered := make(chan struct{}, 8)
			s.SetPipeEventHook(func(ev mangos.PipeEvent, p mangos.Pipe) {
				if ev == mangos.PipeEventAttaching {
					entered <- struct{}{}
					<-gate
				}
			})
			var tr realTran
			for _, x := range realTrans() {
				if x.name == "ws" {
					tr = x
				}
			}
			l, err := s.NewListener(tr.addr(2350), nil)
			if err != nil {
				panic(err)
			}
			url := ""
			if mode == "hosted" {
				h, err := l.GetOption(ws.OptionWebSocketHandler)
				if err != nil {
					panic(err)
				}
				srv := httptest.NewServer(h.(http.Handler))
				defer srv.Close()
				url = "ws" + strings.TrimPrefix(srv.URL, "http") + "/"
			}
			if err = l.Listen(); err != nil {
				panic(err)
			}
			if mode == "own" {
				url = l.Address()
			}
			var conns []*websocket.Conn
			for i := 0; i < 3; i++ {
				d := websocket.Dialer{HandshakeTimeout: 2 * time.Second, Subprotocols: []string{"pair.sp.nanomsg.org"}}
				c, _, err := d.Dial(url, http.Header{})
				if err != nil {
					panic(err)
				}
				conns = append(conns, c)
				if i == 0 {
					select { // the accept loop is now inside the hook
					case <-entered:
					case <-time.After(3 * time.Second):
					}
				}
			}
			time.Sleep(100 * time.Millisecond) // the other two are parked meanwhile
			cdone := make(chan error, 1)
			go func() { cdone <- s.Close() }()
			var cerr interface{} = "hung"
			select {
			case err := <-cdone:
				cerr = err
				close(gate)
			case <-time.After(time.Second):
				close(gate)
				select {
				case err := <-cdone:
					cerr = err
				case <-time.After(5 * time.Second):
				}
			}
			r.Emit("rclose", "sock", "hq", "r", cerr)
			for _, c := range conns {
				_ = c.SetReadDeadline(time.Now().Add(2 * time.Second))
				_, _, err := c.ReadMessage()
				ne, isnet := err.(net.Error)
				r.Emit("rhsdrop", "closed", err != nil && !(isnet && ne.Timeout()))
			}
			// with the peers still connected nothing of the closed socket is left (no parked HTTP handler)
			g := waitNoGoroutines(3 * time.Second)
			r.Emit("rcensus", "n", len(g), "g", fmt.Sprint(g))
			for _, c := range conns {
				_ = c.Close()
			}
		}()
		out.Add("closereal-hsq-ws-"+mode, rec.Ev{"tran": "ws"}, "ws ("+mode+" HTTP server) upgraded, not accepted", sim.Result{Lines: r.Lines(), Status: status, Detail: detail})
	}
	// inproc: a Dial that is waiting for the busy listener when that listener's socket closes must come back
	{
		r := rec.New()
		status, detail := "ok", ""
		func() {
			defer func() {
				if x := recover(); x != nil {
					status, detail = "panic", fmt.Sprint(x)
				}
			}()
			r.Emit("rbase", "g", len(waitNoGoroutines(2*time.Second)))
			for round := 0; round < 2; round++ {
				s, _ := pair.NewSocket()
				gate := make(chan struct{})
				entered := make(chan struct{}, 8)
				s.SetPipeEventHook(func(ev mangos.PipeEvent, p mangos.Pipe) {
					if ev == mangos.PipeEventAttaching {
						entered <- struct{}{}
						<-gate
					}
				})
				addr := fmt.Sprintf("inproc://closewait-%d-%d", os.Getpid(), round)
				l, err := s.NewListener(addr, nil)
				if err != nil {
					panic(err)
				}
				if err = l.Listen(); err != nil {
					panic(err)
				}
				d1, _ := pair.NewSocket()
				d2, _ := pair.NewSocket()
				go func() { _ = d1.Dial(addr) }()
				select {
				case <-entered:
				case <-time.After(3 * time.Second):
				}
				type dres struct {
					err error
					dt  time.Duration
				}
				res := make(chan dres, 1)
				var t0 time.Time
				var mu sync.Mutex
				go func() {
					err := d2.Dial(addr) // nobody is accepting: waits
					mu.Lock()
					dt := time.Since(t0)
					mu.Unlock()
					res <- dres{err, dt}
				}()
				time.Sleep(150 * time.Millisecond)
				mu.Lock()
				t0 = time.Now()
				mu.Unlock()
				cdone := make(chan error, 1)
				go func() {
					if round == 0 {
						cdone <- s.Close()
					} else {
						cdone <- l.Close() // closing only the listener must do as well
					}
				}()
				var cerr interface{} = "hung"
				select {
				case err := <-cdone:
					cerr = err
					close(gate)
				case <-time.After(time.Second):
					close(gate)
					select {
					case err := <-cdone:
						cerr = err
					case <-time.After(5 * time.Second):
					}
				}
				r.Emit("rclose", "sock", fmt.Sprintf("w%d", round), "r", cerr)
				select {
				case x := <-res:
					r.Emit("rdialret", "r", x.err, "prompt", x.dt < 2*time.Second)
				case <-time.After(3 * time.Second):
					r.Emit("rdialret", "r", "hung", "prompt", false)
				}
				_ = s.Close()
				_ = d1.Close()
				_ = d2.Close()
			}
			g := waitNoGoroutines(3 * time.Second)
			r.Emit("rcensus", "n", len(g), "g", fmt.Sprint(g))
		}()
		out.Add("closereal-inproc-dialwait", rec.Ev{"tran": "inproc"}, "inproc dial waiting at close", sim.Result{Lines: r.Lines(), Status: status, Detail: detail})
	}
	// Close racing with arriving connections: whatever the listener had already taken in when it was closed -
	// silent raw connections (tcp, ipc), WebSocket upgrades in progress (ws) - is closed, none is left parked
	for _, tn := range []string{"tcp", "ipc", "ws"} {
		var tr realTran
		for _, x := range realTrans() {
			if x.name == tn {
				tr = x
			}
		}
		r := rec.New()
		status, detail := "ok", ""
		func() {
			defer func() {
				if x := recover(); x != nil {
					status, detail = "panic", fmt.Sprint(x)
				}
			}()
			tries := count(150, 1500)
			established, survivors, leaked := 0, 0, 0
			leakDetail := ""
			var wsProbes []func(time.Duration) bool
			var wsConns []interface{ Close() error }
			for i := 0; i < tries && leaked == 0; i++ {
				s, _ := pair.NewSocket()
				l, err := s.NewListener(tr.addr(2400+i%50), nil)
				if err != nil {
					panic(err)
				}
				if err = l.Listen(); err != nil {
					_ = s.Close()
					continue
				}
				addr := l.Address()
				var wg sync.WaitGroup
				var mu sync.Mutex
				var conns []interface{ Close() error }
				var probes []func(time.Duration) bool // true: closed by the server within the time
				for k := 0; k < 4; k++ {
					wg.Add(1)
					go func() {
						defer wg.Done()
						if tn == "ws" {
							d := websocket.Dialer{HandshakeTimeout: time.Second, Subprotocols: []string{"pair.sp.nanomsg.org"}}
							c, _, err := d.Dial(addr, http.Header{})
							if err != nil {
								return
							}
							mu.Lock()
							conns = append(conns, c)
							probes = append(probes, func(d time.Duration) bool {
								_ = c.SetReadDeadline(time.Now().Add(d))
								_, _, err := c.ReadMessage()
								ne, ok := err.(net.Error)
								return !(ok && ne.Timeout())
							})
							mu.Unlock()
							return
						}
						c, err := dialRaw(addr, tn)
						if err != nil {
							return
						}
						mu.Lock()
						conns = append(conns, c)
						probes = append(probes, func(d time.Duration) bool { return closedWithin(c, d) })
						mu.Unlock()
					}()
				}
				time.Sleep(time.Duration(100+(i*37)%700) * time.Microsecond)
				_ = s.Close()
				wg.Wait()
				// The verdict is taken on the library's side, with the peers still connected and silent: nothing of
				// the closed socket may be left running (a worker in a handshake, an HTTP handler waiting for its
				// pipe).  What the peers see is recorded too but decides nothing: a connection the kernel completed
				// for a listener that was closed before accepting it looks open to a silent client for ever.
				if g := waitNoGoroutines(2 * time.Second); len(g) > 0 {
					leaked++
					leakDetail = fmt.Sprint(g)
				}
				established += len(probes)
				if leaked > 0 {
					for _, p := range probes {
						if !p(500 * time.Millisecond) {
							survivors++
						}
					}
				}
				if tn == "ws" && leaked == 0 {
					// a WebSocket client whose Dial returned has seen the server's 101: the listener's handler had the
					// connection in its hands, so the socket's Close (or the handler) has to close it - looked at
					// after the last try, all of them together
					wsProbes = append(wsProbes, probes...)
					wsConns = append(wsConns, conns...)
					continue
				}
				for _, c := range conns {
					_ = c.Close()
				}
			}
			if len(wsProbes) > 0 {
				var pw sync.WaitGroup
				var pmu sync.Mutex
				for _, p := range wsProbes {
					pw.Add(1)
					go func() {
						defer pw.Done()
						if !p(1500 * time.Millisecond) {
							pmu.Lock()
							survivors++
							pmu.Unlock()
						}
					}()
				}
				pw.Wait()
				if survivors > 0 && leaked == 0 {
					leaked = survivors
					leakDetail = fmt.Sprintf("%d upgraded WebSocket connections still open after their socket was closed", survivors)
				}
				for _, c := range wsConns {
					_ = c.Close()
				}
			}
			r.Emit("rrace", "tran", tn, "tries", tries, "established", established, "survivors", survivors, "leaked", leaked, "g", leakDetail)
			g := waitNoGoroutines(3 * time.Second)
			r.Emit("rcensus", "n", len(g), "g", fmt.Sprint(g))
		}()
		out.Add("closereal-race-"+tn, rec.Ev{"tran": tn}, tn+" close racing with connections", sim.Result{Lines: r.Lines(), Status: status, Detail: detail})
	}
	// The interleaving of WsListener.tla's counterexample, forced: the listener's HTTP handler has found the listener
	// running and is inside the upgrade (the hijack is held back) when the socket is closed; the upgrade then
	// completes.  The connection belongs to nobody: it is closed, not left open.
	{
		r := rec.New()
		status, detail := "ok", ""
		func() {
			defer func() {
				if x := recover(); x != nil {
					status, detail = "panic", fmt.Sprint(x)
				}
			}()
			srv, _ := rep.NewSocket()
			l, err := srv.NewListener("ws://127.0.0.1:0/sock", nil)
			if err != nil {
				panic(err)
			}
			muxi, err := l.GetOption(ws.OptionWebSocketMux)
			if err != nil {
				panic(err)
			}
			mux := muxi.(*http.ServeMux)
			probe, _ := http.NewRequest("GET", "http://127.0.0.1/sock", nil)
			lh, _ := mux.Handler(probe)
			entered, release := make(chan struct{}), make(chan struct{})
			mux.HandleFunc("/gated", func(w http.ResponseWriter, q *http.Request) {
				lh.ServeHTTP(&gatedWriter{ResponseWriter: w, entered: entered, release: release}, q)
			})
			if err = l.Listen(); err != nil {
				panic(err)
			}
			addr := strings.TrimSuffix(l.Address(), "/sock") + "/gated"
			type dialed struct {
				c   *websocket.Conn
				err error
			}
			dch := make(chan dialed, 1)
			go func() {
				d := websocket.Dialer{HandshakeTimeout: 5 * time.Second, Subprotocols: []string{"rep.sp.nanomsg.org"}}
				c, _, err := d.Dial(addr, http.Header{})
				dch <- dialed{c, err}
			}()
			select {
			case <-entered:
			case <-time.After(5 * time.Second):
				panic("the upgrade never started")
			}
			cerr := make(chan error, 1)
			go func() { cerr <- srv.Close() }()
			select {
			case e := <-cerr:
				r.Emit("rclose", "sock", "wsup", "r", e)
			case <-time.After(3 * time.Second):
				r.Emit("rclose", "sock", "wsup", "r", "hung")
			}
			close(release)
			closed := true
			select {
			case d := <-dch:
				if d.err == nil {
					_ = d.c.SetReadDeadline(time.Now().Add(2 * time.Second))
					_, _, err := d.c.ReadMessage()
					ne, isNet := err.(net.Error)
					closed = !(isNet && ne.Timeout())
					_ = d.c.Close()
				}
			case <-time.After(6 * time.Second):
				closed = false
			}
			r.Emit("rhsdrop", "tran", "ws-upgrade", "closed", closed)
			g := waitNoGoroutines(3 * time.Second)
			r.Emit("rcensus", "n", len(g), "g", fmt.Sprint(g))
		}()
		out.Add("closereal-upgrade-ws", rec.Ev{"tran": "ws"}, "close during a websocket upgrade", sim.Result{Lines: r.Lines(), Status: status, Detail: detail})
	}
	// Close racing with Dial: whichever of the two wins, once Close has returned the socket makes no connection
	// attempt any more (a dialer that slipped in after Close would redial for ever)
	{
		r := rec.New()
		status, detail := "ok", ""
		func() {
			defer func() {
				if x := recover(); x != nil {
					status, detail = "panic", fmt.Sprint(x)
				}
			}()
			nl, err := net.Listen("tcp", "127.0.0.1:0")
			if err != nil {
				panic(err)
			}
			defer nl.Close()
			var mu sync.Mutex
			conns := 0
			go func() {
				for {
					c, err := nl.Accept()
					if err != nil {
						return
					}
					mu.Lock()
					conns++
					mu.Unlock()
					_ = c.Close()
				}
			}()
			addr := "tcp://localhost:" + fmt.Sprint(nl.Addr().(*net.TCPAddr).Port)
			tries := count(400, 4000)
			var wg sync.WaitGroup
			for i := 0; i < tries; i++ {
				s, _ := req.NewSocket()
				_ = s.SetOption(mangos.OptionDialAsynch, true)
				_ = s.SetOption(mangos.OptionReconnectTime, 20*time.Millisecond)
				_ = s.SetOption(mangos.OptionMaxReconnectTime, 20*time.Millisecond)
				wg.Add(2)
				go func() { defer wg.Done(); _ = s.Dial(addr) }()
				go func() {
					defer wg.Done()
					time.Sleep(time.Duration((i*29)%150) * time.Microsecond)
					_ = s.Close()
				}()
				if i%16 == 15 {
					wg.Wait()
				}
			}
			wg.Wait()
			time.Sleep(300 * time.Millisecond) // attempts that were under way when their socket closed are over
			mu.Lock()
			before := conns
			mu.Unlock()
			time.Sleep(500 * time.Millisecond)
			mu.Lock()
			late := conns - before
			mu.Unlock()
			detail := ""
			if late > 0 {
				detail = fmt.Sprintf("%d connection attempts in half a second, long after every socket was closed", late)
			}
			r.Emit("rrace", "tran", "tcp-dial", "tries", tries, "established", before, "survivors", 0, "leaked", late, "g", detail)
		}()
		out.Add("closereal-race-dial", rec.Ev{"tran": "tcp"}, "close racing with dial", sim.Result{Lines: r.Lines(), Status: status, Detail: detail})
	}
	// Close racing with connections that complete: a socket with many listeners (closing them takes a while) is
	// closed while real peers connect to the last one.  Whatever the socket reported Attached it must report
	// Detached, with the peers still connected: no connection outlives the socket it belongs to (C10, C13).
	{
		r := rec.New()
		status, detail := "ok", ""
		func() {
			defer func() {
				if x := recover(); x != nil {
					status, detail = "panic", fmt.Sprint(x)
				}
			}()
			tries := count(8, 60)
			established, leaked := 0, 0
			leakDetail := ""
			for i := 0; i < tries && leaked == 0; i++ {
				s, _ := rep.NewSocket()
				var mu sync.Mutex
				att, det := 0, 0
				s.SetPipeEventHook(func(ev mangos.PipeEvent, _ mangos.Pipe) {
					mu.Lock()
					defer mu.Unlock()
					switch ev {
					case mangos.PipeEventAttached:
						att++
					case mangos.PipeEventDetached:
						det++
					}
				})
				addr := ""
				for k := 0; k < 120; k++ {
					l, err := s.NewListener("tcp://127.0.0.1:0", nil)
					if err != nil {
						panic(err)
					}
					if err = l.Listen(); err != nil {
						continue
					}
					addr = l.Address()
				}
				if addr == "" {
					_ = s.Close()
					continue
				}
				var wg sync.WaitGroup
				var peers []mangos.Socket
				for k := 0; k < 4; k++ {
					q, _ := req.NewSocket()
					_ = q.SetOption(mangos.OptionDialAsynch, false)
					_ = q.SetOption(mangos.OptionReconnectTime, time.Hour) // one connection each
					peers = append(peers, q)
					wg.Add(1)
					go func() {
						defer wg.Done()
						time.Sleep(time.Duration((i*53)%300) * time.Microsecond)
						_ = q.Dial(addr)
					}()
				}
				time.Sleep(time.Duration(50+(i*37)%200) * time.Microsecond)
				_ = s.Close()
				wg.Wait()
				ok := false
				for w := 0; w < 200 && !ok; w++ { // up to 2 s for the Detached callbacks (they run in their own goroutines)
					mu.Lock()
					ok = att == det
					mu.Unlock()
					if !ok {
						time.Sleep(10 * time.Millisecond)
					}
				}
				mu.Lock()
				established += att
				if !ok {
					leaked++
					leakDetail = fmt.Sprintf("try %d: %d connections Attached, %d Detached two seconds after Close returned", i, att, det)
				}
				mu.Unlock()
				for _, q := range peers {
					_ = q.Close()
				}
			}
			r.Emit("rrace", "tran", "tcp-attach", "tries", tries, "established", established, "survivors", 0, "leaked", leaked, "g", leakDetail)
			g := waitNoGoroutines(3 * time.Second)
			r.Emit("rcensus", "n", len(g), "g", fmt.Sprint(g))
		}()
		out.Add("closereal-race-attach", rec.Ev{"tran": "tcp"}, "close racing with completing connections", sim.Result{Lines: r.Lines(), Status: status, Detail: detail})
	}
	// the dialing side: a server that accepts the connection and never says anything; the socket that was
	// dialing it is closed - nothing of that socket may be left running while the server just sits there
	for _, tn := range []string{"tcp", "ipc"} {
		r := rec.New()
		status, detail := "ok", ""
		func() {
			defer func() {
				if x := recover(); x != nil {
					status, detail = "panic", fmt.Sprint(x)
				}
			}()
			r.Emit("rbase", "g", len(waitNoGoroutines(2*time.Second)))
			var nl net.Listener
			var err error
			addr := ""
			if tn == "tcp" {
				nl, err = net.Listen("tcp", "127.0.0.1:0")
				if err == nil {
					addr = "tcp://" + nl.Addr().String()
				}
			} else {
				path := fmt.Sprintf("%s/verif-silent-%d.sock", os.TempDir(), os.Getpid())
				_ = os.Remove(path)
				nl, err = net.Listen("unix", path)
				addr = "ipc://" + path
				defer os.Remove(path)
			}
			if err != nil {
				panic(err)
			}
			defer nl.Close()
			var held []net.Conn
			var hmu sync.Mutex
			go func() {
				for {
					c, err := nl.Accept()
					if err != nil {
						return
					}
					hmu.Lock()
					held = append(held, c) // kept open, never read, never written
					hmu.Unlock()
				}
			}()
			for _, asynch := range []bool{true, false} {
				s, _ := pair.NewSocket()
				_ = s.SetOption(mangos.OptionDialAsynch, asynch)
				go func() { _ = s.Dial(addr) }() // the synchronous Dial stays in the handshake
				time.Sleep(150 * time.Millisecond)
				cdone := make(chan error, 1)
				go func() { cdone <- s.Close() }()
				select {
				case err := <-cdone:
					r.Emit("rclose", "sock", fmt.Sprintf("ds%v", asynch), "r", err)
				case <-time.After(5 * time.Second):
					r.Emit("rclose", "sock", fmt.Sprintf("ds%v", asynch), "r", "hung")
				}
				g := waitNoGoroutines(2 * time.Second)
				r.Emit("rdialsilent", "tran", tn, "asynch", asynch, "leaked", len(g), "g", fmt.Sprint(g))
			}
			hmu.Lock()
			for _, c := range held {
				_ = c.Close()
			}
			hmu.Unlock()
			g := waitNoGoroutines(3 * time.Second)
			r.Emit("rcensus", "n", len(g), "g", fmt.Sprint(g))
		}()
		out.Add("closereal-dialsilent-"+tn, rec.Ev{"tran": tn}, tn+" dialing a silent server", sim.Result{Lines: r.Lines(), Status: status, Detail: detail})
	}
}
