package harness

import (
	"encoding/binary"
	"encoding/json"
	"fmt"
	"math/rand"
	"os"
	"sort"
	"strconv"
	"strings"
	"testing"
	"time"

	"go.nanomsg.org/mangos/v3"
	"go.nanomsg.org/mangos/v3/protocol"
	"go.nanomsg.org/mangos/v3/protocol/rep"
	"go.nanomsg.org/mangos/v3/protocol/respondent"

	"verifharness/hx"
	"verifharness/rec"
	"verifharness/sim"
	"verifharness/vt"
)

// ---------------------------------------------------------------------------
// REP / RESPONDENT driver (C05; parts of C10, C18).  The harness plays the
// REQ / SURVEYOR peers (and devices in front of them) at transport level:
// requests with routing headers of any depth and content arrive on several
// connections, contexts receive and reply in any order, connections close at
// any moment.  Traces are validated against spec/RepLike.tla.

type rlCtxOpt struct {
	SendExp    time.Duration
	RecvExp    time.Duration
	BestEffort bool
}

type rlCfg struct {
	Kind  string
	Opts  []rlCtxOpt
	TTL   int
	SQ    int // WriteQLen
	RQ    int // ReadQLen (respondent)
	Steps []string
	Lazy  bool // contexts are opened when first used (in the middle of the traffic) instead of at the start
}

type rlScn struct {
	ld    lateDial
	open  func(i int) // opens context i if it is not open yet
	s     *sim.S
	cfg   rlCfg
	proto protocol.Protocol
	sock  mangos.Socket
	ctxs  []mangos.Context
	pctxs []protocol.Context
	pipes map[string]*vt.Pipe
	ids   *hx.IDMap
	npipe int
	nreq  int
	nrep  int
	rng   *rand.Rand
	el    time.Duration // virtual time elapsed (for the absolute "advto" steps of TLC-generated scenarios)
}

// word encoding for the trace: top bit set -> negative
func encWord(w uint32) int {
	if w&0x80000000 != 0 {
		return -int(w&0x7fffffff) - 1
	}
	return int(w)
}

// rlDecode: routing words up to and including the first one with the top bit.
func rlDecode(dir string, b []byte) []interface{} {
	avail := len(b) / 4
	n := 0
	hdr := []int{}
	for i := 0; i < avail; i++ {
		w := binary.BigEndian.Uint32(b[4*i:])
		hdr = append(hdr, encWord(w))
		if w&0x80000000 != 0 {
			n = i + 1
			break
		}
	}
	tag := ""
	if n > 0 {
		tag = string(b[4*n:])
	} else {
		hdr = []int{}
	}
	if len(tag) > 12 {
		tag = tag[:12]
	}
	return []interface{}{"n", n, "avail", avail, "hdr", hdr, "tag", tag, "d", digest(b)}
}

func (c *rlScn) cname(i int) string { return fmt.Sprintf("c%d", i) }

func (c *rlScn) snap() {
	var ttl, rq int
	var cs []interface{}
	add := func(closed, rw, hasbt bool, bt []byte, rp uint32) {
		words := []int{}
		for i := 0; i+4 <= len(bt); i += 4 {
			words = append(words, encWord(binary.BigEndian.Uint32(bt[i:])))
		}
		p := "-"
		if rp != 0 {
			p = c.ids.Name(rp)
		}
		cs = append(cs, map[string]interface{}{"closed": closed, "rw": rw, "hasbt": hasbt, "bt": words, "rp": p})
	}
	var closed bool
	// contexts not opened yet do not exist in the library: they are reported as what a new context must be
	var have []protocol.Context
	var idx []int
	for i, pc := range c.pctxs {
		if i == 0 || pc != nil {
			have = append(have, pc)
			idx = append(idx, i)
		}
	}
	type cst struct {
		closed, rw, hasbt bool
		bt                []byte
		rp                uint32
	}
	got := map[int]cst{}
	if c.cfg.Kind == "rep" {
		sn := rep.VerifSnapshot(c.proto, have)
		ttl, rq, closed = sn.TTL, sn.RecvQ, sn.Closed
		for k, x := range sn.Ctxs {
			got[idx[k]] = cst{x.Closed, x.RecvWait, x.HasBT, x.Backtrace, x.RecvPipe}
		}
	} else {
		sn := respondent.VerifSnapshot(c.proto, have)
		ttl, rq, closed = sn.TTL, sn.RecvQ, sn.Closed
		for k, x := range sn.Ctxs {
			got[idx[k]] = cst{x.Closed, x.RecvWait, x.HasBT, x.Backtrace, x.RecvPipe}
		}
	}
	for i := range c.pctxs {
		x, ok := got[i]
		if !ok {
			x = cst{closed: closed} // not open yet: empty, and closed once the socket is
		}
		add(x.closed, x.rw, x.hasbt, x.bt, x.rp)
	}
	kv := []interface{}{"closed", closed, "ttl", ttl, "recvq", rq}
	for i, x := range cs {
		kv = append(kv, c.cname(i), x)
	}
	c.s.Rec.Emit("snap", kv...)
}

func (c *rlScn) step(st string) {
	s := c.s
	f := strings.Fields(st)
	arg := func(i int) string {
		if len(f) > i {
			return f[i]
		}
		return ""
	}
	ci := func(a string) int {
		var i int
		fmt.Sscanf(a, "c%d", &i)
		if i >= len(c.pctxs) {
			i = 0
		}
		return i
	}
	switch f[0] {
	case "conn", "conngated":
		c.npipe++
		p := s.Net.NewPipe(fmt.Sprintf("p%d", c.npipe))
		if f[0] == "conngated" {
			p.SetMode(vt.Gated)
		}
		c.pipes[p.Name] = p
		s.Rec.Emit("mkpipe", "p", p.Name, "gated", f[0] == "conngated")
		s.Net.Listener("l1").Offer(p)
	case "predial":
		c.ld.predial(s, c.sock)
	case "ansconn":
		if c.ld.pending(s) {
			c.npipe++
			p := s.Net.NewPipe(fmt.Sprintf("p%d", c.npipe))
			c.pipes[p.Name] = p
			s.Rec.Emit("mkpipe", "p", p.Name, "gated", false)
			c.ld.answer(s, p)
		}
	case "drop":
		if p := c.pipes[arg(1)]; p != nil && !p.IsClosed() {
			s.Rec.Emit("drop", "p", p.Name)
			p.Drop()
		}
	case "release":
		if p := c.pipes[arg(1)]; p != nil && !p.IsClosed() && p.Blocked() {
			p.Release()
		}
	case "req":
		// req <pipe> <depth> [garble]
		p := c.pipes[arg(1)]
		if p == nil || p.IsClosed() {
			break
		}
		var depth int
		fmt.Sscanf(arg(2), "%d", &depth)
		c.nreq++
		var b []byte
		for i := 1; i < depth; i++ {
			// routing words added by devices: small alphabet so that equal headers occur on different pipes
			b = binary.BigEndian.AppendUint32(b, uint32(0x100+c.rng.Intn(3)))
		}
		if depth > 0 {
			b = binary.BigEndian.AppendUint32(b, 0x80000000|uint32(1+c.rng.Intn(3)))
		}
		switch arg(3) {
		case "noterm": // no terminating word at all
			b = b[:0]
			for i := 0; i < depth+1; i++ {
				b = binary.BigEndian.AppendUint32(b, uint32(0x200+i))
			}
		case "short":
			if len(b) > 2 {
				b = b[:len(b)-2]
			}
		}
		b = append(b, []byte(fmt.Sprintf("q%d", c.nreq))...)
		p.Inject(b)
	case "recv":
		i := ci(arg(1))
		fn := c.sock.RecvMsg
		if i > 0 {
			c.open(i)
			fn = c.ctxs[i].RecvMsg
		}
		s.Call(s.Thread(), "recv", c.cname(i), nil, func() []interface{} {
			m, err := fn()
			if err != nil {
				return []interface{}{"r", err}
			}
			appGot(s, m)
			tag := string(m.Body)
			if len(tag) > 12 {
				tag = tag[:12]
			}
			hl := len(m.Header)
			appFree(s, m)
			return []interface{}{"r", "ok", "tag", tag, "hl", hl}
		})
	case "send":
		i := ci(arg(1))
		fn := c.sock.SendMsg
		if i > 0 {
			c.open(i)
			fn = c.ctxs[i].SendMsg
		}
		c.nrep++
		tag := fmt.Sprintf("a%d", c.nrep)
		s.Call(s.Thread(), "send", c.cname(i), []interface{}{"tag", tag}, func() []interface{} {
			m := appNew(s, 16)
			m.Body = append(m.Body, tag...)
			err := appSend(s, m, fn)
			return []interface{}{"r", err}
		})
	case "rq":
		// ReadQLen changed (RESPONDENT; the scenarios do it when nothing is queued)
		// The line is recorded BEFORE the call, as "drop" is: the step starts from quiescence, so nothing else records
		// until the new queue is in place, and a call the change wakes (a Send that XREQ / XPAIR give up on a resize, a
		// Recv that moves to the new queue) records its return after it.  Recorded after the call, the line raced with
		// the "ret" of the calls the change itself had woken, and a trace with the two swapped is not a behaviour.
		n, _ := strconv.Atoi(arg(1))
		if _, err := c.sock.GetOption(mangos.OptionReadQLen); err == nil {
			s.Rec.Emit("setrq", "n", n)
			if err := c.sock.SetOption(mangos.OptionReadQLen, n); err != nil {
				s.Rec.Emit("setrqfail", "n", n, "r", err) // the option is there and n >= 0: no specification action explains a refusal
			}
		}
	case "adv":
		d, _ := time.ParseDuration(arg(1))
		s.Adv(d)
		c.el += d
		c.snap()
		return
	case "advto":
		// advto <seconds>: absolute virtual time (TLC-generated scenarios name the deadline they run into)
		var sec int
		fmt.Sscanf(arg(1), "%d", &sec)
		if d := time.Duration(sec)*time.Second - c.el; d > 0 {
			s.Adv(d)
			c.el += d
			c.snap()
			return
		}
	case "cclose":
		i := ci(arg(1))
		if i > 0 {
			c.open(i)
			cx := c.ctxs[i]
			s.Call(s.Thread(), "cclose", c.cname(i), nil, func() []interface{} { return []interface{}{"r", cx.Close()} })
		}
	case "sclose":
		for i := 1; i < len(c.ctxs); i++ {
			c.open(i) // (a context cannot be opened on a closed socket: the ones still to come are opened now)
		}
		sock := c.sock
		s.Call(s.Thread(), "sclose", "s", nil, func() []interface{} { return []interface{}{"r", sock.Close()} })
	}
	s.Q()
	c.snap()
}

func runRepLike(t *testing.T, cfg rlCfg, seed int64) sim.Result {
	return sim.Run(t, 10*time.Second, func(s *sim.S) {
		defer withLedger(s.Rec)()
		baseIDs := hx.BaseIDs()
		c := &rlScn{s: s, cfg: cfg, pipes: map[string]*vt.Pipe{}, ids: hx.NewIDMap(), rng: rand.New(rand.NewSource(seed))}
		s.Net.Decode = rlDecode
		if cfg.Kind == "rep" {
			c.proto = rep.NewProtocol()
		} else {
			c.proto = respondent.NewProtocol()
		}
		rp := &hx.RecProto{Protocol: c.proto, Rec: s.Rec, Early: true}
		c.sock = protocol.MakeSocket(rp)
		hx.Hook(c.sock, s.Rec, func(ev, name string, p mangos.Pipe) { c.ids.Set(p.ID(), name) })
		must := func(err error) {
			if err != nil {
				panic(err)
			}
		}
		must(c.sock.SetOption(mangos.OptionTTL, cfg.TTL))
		must(c.sock.SetOption(mangos.OptionWriteQLen, cfg.SQ))
		if cfg.Kind == "respondent" {
			must(c.sock.SetOption(mangos.OptionReadQLen, cfg.RQ))
		}
		setOpts := func(set func(string, interface{}) error, o rlCtxOpt) {
			if o.SendExp > 0 {
				must(set(mangos.OptionSendDeadline, o.SendExp))
			}
			if o.RecvExp > 0 {
				must(set(mangos.OptionRecvDeadline, o.RecvExp))
			}
			must(set(mangos.OptionBestEffort, o.BestEffort))
		}
		c.ctxs = make([]mangos.Context, len(cfg.Opts))
		c.pctxs = make([]protocol.Context, len(cfg.Opts))
		c.open = func(i int) {
			if c.ctxs[i] != nil {
				return
			}
			mc, err := c.sock.OpenContext()
			must(err)
			c.ctxs[i] = mc
			c.pctxs[i] = rp.Ctxs[len(rp.Ctxs)-1]
			if !cfg.Lazy {
				setOpts(mc.SetOption, cfg.Opts[i])
			} // a context opened later inherits the socket's values (the scenario gives every context the same options)
		}
		if !cfg.Lazy {
			for i := 1; i < len(cfg.Opts); i++ {
				c.open(i)
			}
		}
		setOpts(c.sock.SetOption, cfg.Opts[0])
		l, err := c.sock.NewListener(s.Net.Addr("l1"), nil)
		must(err)
		must(l.Listen())
		s.Q()
		c.snap()
		for _, st := range cfg.Steps {
			c.step(st)
		}
		c.step("sclose")
		c.ld.finish(s)
		for _, p := range c.pipes {
			if p.Blocked() {
				p.Release()
			}
		}
		c.step("adv 600s")
		s.Wait()
		g := sim.Census()
		sort.Strings(g)
		s.Rec.Emit("census", "n", len(g), "g", fmt.Sprint(g))
		hx.Final(s.Rec, c.sock, baseIDs)
	})
}

func rlCfgEv(c rlCfg) rec.Ev {
	e := rec.Ev{"kind": c.Kind, "nctx": len(c.Opts), "ttl": c.TTL, "sq": c.SQ, "rq": c.RQ}
	for i, o := range c.Opts {
		e[fmt.Sprintf("c%d", i)] = map[string]interface{}{"sendExp": int64(o.SendExp / time.Microsecond),
			"recvExp": int64(o.RecvExp / time.Microsecond), "bestEffort": o.BestEffort}
	}
	return e
}

func rlScripted(kind string) []rlCfg {
	sec := time.Second
	d := rlCtxOpt{}
	return []rlCfg{
		// a connection attempt that completes after the socket was closed is refused by the closed protocol (nothing of the
		// closed socket remains); one that completes while the socket is open is a connection like any other
		{Kind: kind, Opts: []rlCtxOpt{d}, TTL: 8, SQ: 2, RQ: 2, Steps: []string{"predial", "sclose", "ansconn", "adv 1s"}},
		{Kind: kind, Opts: []rlCtxOpt{d}, TTL: 8, SQ: 2, RQ: 2, Steps: []string{"predial", "ansconn", "req p1 1", "recv c0", "send c0", "sclose"}},
		// two clients, two contexts: replies go back where the requests came from, in any reply order
		{Kind: kind, Opts: []rlCtxOpt{d, d}, TTL: 8, SQ: 2, RQ: 2, Steps: []string{"conn", "conn", "req p1 1", "req p2 3", "recv c0", "recv c1", "send c1", "send c0", "send c0", "recv c0"}},
		// depths around the TTL, garbled requests
		{Kind: kind, Opts: []rlCtxOpt{d}, TTL: 3, SQ: 2, RQ: 4, Steps: []string{"conn", "recv c0", "req p1 4", "req p1 0 noterm", "req p1 2 short", "req p1 3", "send c0", "req p1 1", "recv c0", "send c0"}},
		// requester goes away before the reply: discarded, never sent elsewhere
		{Kind: kind, Opts: []rlCtxOpt{d, d}, TTL: 8, SQ: 1, RQ: 2, Steps: []string{"conn", "conn", "req p1 2", "recv c1", "drop p1", "send c1", "req p2 2", "recv c1", "send c1"}},
		// slow requester: per-pipe queue fills, send deadline, best effort
		{Kind: kind, Opts: []rlCtxOpt{{SendExp: 2 * sec}, {BestEffort: true}}, TTL: 8, SQ: 1, RQ: 8, Steps: []string{"conngated", "req p1 1", "req p1 1", "req p1 1", "req p1 1", "recv c0", "send c0", "recv c0", "send c0", "recv c0", "send c0", "adv 1.999999s", "adv 1us", "recv c1", "send c1", "release p1", "release p1"}},
		// the slow requester goes away while a reply is waiting for room in its queue: the blocked Send ends at once
		// (the reply is discarded), with and without a send deadline; the socket keeps serving others
		{Kind: kind, Opts: []rlCtxOpt{d, d}, TTL: 8, SQ: 1, RQ: 8, Steps: []string{"conngated", "req p1 1", "req p1 1", "req p1 1", "recv c0", "send c0", "recv c0", "send c0", "recv c0", "send c0", "drop p1", "conn", "req p2 2", "recv c1", "send c1", "recv c0"}},
		{Kind: kind, Opts: []rlCtxOpt{{SendExp: 5 * sec}, d}, TTL: 8, SQ: 0, RQ: 8, Steps: []string{"conngated", "req p1 1", "req p1 1", "recv c0", "send c0", "recv c0", "send c0", "adv 1s", "drop p1", "adv 1s", "conn", "req p2 1", "recv c0", "send c0", "adv 10s"}},
		// RESPONDENT: the receive queue is replaced while it is full and a receiver holds the next survey: what was
		// queued is gone, the held one goes into the new queue, nobody is disconnected, the waiting Recv goes on
		{Kind: kind, Opts: []rlCtxOpt{d, d}, TTL: 8, SQ: 2, RQ: 1, Steps: []string{"conn", "req p1 1", "req p1 2", "req p1 1", "rq 3", "recv c0", "send c0", "recv c1", "send c1", "recv c0", "rq 0", "req p1 1", "send c0"}},
		{Kind: kind, Opts: []rlCtxOpt{d, d}, TTL: 8, SQ: 2, RQ: 0, Steps: []string{"conn", "conn", "req p1 1", "req p2 1", "rq 2", "recv c0", "recv c1", "send c1", "send c0", "recv c0", "rq 1", "req p2 2", "rq 0", "recv c1"}},
		// a context opened while the socket's own context holds a request starts empty: it has nothing to answer
		{Kind: kind, Opts: []rlCtxOpt{d, d, d}, TTL: 8, SQ: 2, RQ: 2, Lazy: true, Steps: []string{"conn", "req p1 2", "recv c0", "send c1", "recv c2", "req p1 1", "send c2", "send c0", "send c1", "recv c1"}},
		// a Send from another goroutine while the context's Recv is waiting: nothing to answer (the last request was given up by that Recv)
		{Kind: kind, Opts: []rlCtxOpt{d, d}, TTL: 8, SQ: 2, RQ: 2, Steps: []string{"conn", "req p1 1", "recv c1", "recv c1", "send c1", "req p1 2", "send c1", "recv c0", "recv c0", "send c0"}},
		// receive deadline; context close with pending receive; socket close
		{Kind: kind, Opts: []rlCtxOpt{{RecvExp: 3 * sec}, d}, TTL: 8, SQ: 2, RQ: 2, Steps: []string{"conn", "recv c0", "recv c1", "adv 2.999999s", "adv 1us", "cclose c1", "recv c1", "send c0", "req p1 1", "recv c0"}},
	}
}

func rlRandom(kind string, rng *rand.Rand) rlCfg {
	sec := time.Second
	c := rlCfg{Kind: kind, TTL: []int{1, 2, 3, 8}[rng.Intn(4)], SQ: rng.Intn(3), RQ: 1 + rng.Intn(3)}
	nctx := 1 + rng.Intn(3)
	c.Lazy = rng.Intn(2) == 0
	for i := 0; i < nctx; i++ {
		o := rlCtxOpt{}
		if rng.Intn(4) == 0 {
			o.SendExp = 2 * sec
		}
		if rng.Intn(4) == 0 {
			o.RecvExp = 3 * sec
		}
		o.BestEffort = rng.Intn(5) == 0
		if c.Lazy && i > 0 {
			o = c.Opts[0] // contexts opened later take the socket's values as they are ...
			if kind == "rep" {
				o = rlCtxOpt{} // ... where the pattern hands them down: a REP context starts without deadlines
			}
		}
		c.Opts = append(c.Opts, o)
	}
	np := 0
	n := 8 + rng.Intn(24)
	advs := []string{"1us", "1.999999s", "2s", "2.999999s", "3s", "10s"}
	for i := 0; i < n; i++ {
		opts := []string{"recv", "recv", "recv", "send", "send", "send", "adv"}
		if np < 4 {
			opts = append(opts, "conn", "conn", "conngated")
		}
		if np > 0 {
			opts = append(opts, "req", "req", "req", "req", "req", "drop", "release", "release")
		}
		if nctx > 1 && rng.Intn(12) == 0 {
			opts = append(opts, "cclose")
		}
		if rng.Intn(50) == 0 {
			opts = append(opts, "sclose")
		}
		if kind == "respondent" && rng.Intn(8) == 0 {
			opts = append(opts, "rq", "rq")
		}
		o := opts[rng.Intn(len(opts))]
		cx := fmt.Sprintf("c%d", rng.Intn(nctx))
		switch o {
		case "conn", "conngated":
			np++
		case "rq":
			o += fmt.Sprintf(" %d", rng.Intn(4))
		case "send", "recv":
			o += " " + cx
		case "cclose":
			o += fmt.Sprintf(" c%d", 1+rng.Intn(nctx-1))
		case "adv":
			o += " " + advs[rng.Intn(len(advs))]
		case "req":
			depth := 1 + rng.Intn(c.TTL+2)
			g := ""
			switch rng.Intn(10) {
			case 0:
				g = " noterm"
			case 1:
				g = " short"
			}
			o += fmt.Sprintf(" p%d %d%s", 1+rng.Intn(np), depth, g)
		case "drop", "release":
			o += fmt.Sprintf(" p%d", 1+rng.Intn(np))
		}
		c.Steps = append(c.Steps, o)
	}
	return c
}

func rlDeadline(kind string) []rlCfg {
	var out []rlCfg
	us := time.Microsecond
	for _, d := range []time.Duration{1 * us, time.Millisecond, time.Second, 300 * time.Second} {
		just := (d - us).String()
		o := rlCtxOpt{SendExp: d, RecvExp: d}
		out = append(out, rlCfg{Kind: kind, Opts: []rlCtxOpt{o, o}, TTL: 8, SQ: 1, RQ: 2, Steps: []string{
			"recv c0", "adv " + just, "adv 1us", "conngated", "req p1 1", "req p1 1", "req p1 1", "recv c0", "send c0", "recv c0", "send c0", "recv c1", "send c1",
			"adv " + just, "adv 1us", "release p1", "req p1 1", "recv c0", "send c0", "adv " + d.String()}})
	}
	// the deadline of a Recv that is waiting is not pushed back by a queue length change (RESPONDENT has the option)
	if kind == "respondent" {
		o := rlCtxOpt{RecvExp: 2 * time.Second}
		out = append(out, rlCfg{Kind: kind, Opts: []rlCtxOpt{o, o}, TTL: 8, SQ: 1, RQ: 2, Steps: []string{
			"conn", "recv c0", "recv c1", "adv 1s", "rq 3", "adv 0.999999s", "adv 1us", "req p1 1", "recv c0", "adv 3s"}})
	}
	// best effort together with a send deadline: best effort wins - the reply is dropped at once, not after the deadline
	out = append(out, rlCfg{Kind: kind, Opts: []rlCtxOpt{{BestEffort: true, SendExp: 2 * time.Second}}, TTL: 8, SQ: 1, RQ: 4, Steps: []string{
		"conngated", "req p1 1", "req p1 1", "req p1 1", "req p1 1", "recv c0", "send c0", "recv c0", "send c0", "recv c0", "send c0", "recv c0", "send c0", "adv 1.999999s", "adv 1us", "adv 1s", "release p1"}})
	out = append(out, rlCfg{Kind: kind, Opts: []rlCtxOpt{{BestEffort: true}}, TTL: 8, SQ: 1, RQ: 4, Steps: []string{
		"conngated", "req p1 1", "req p1 1", "req p1 1", "req p1 1", "recv c0", "send c0", "recv c0", "send c0", "recv c0", "send c0", "recv c0", "send c0", "adv 1s", "release p1"}})
	return out
}

// rlFromTLC loads the scenarios TLC generated from spec/mc/MC_RepScn.tla for this kind of socket (the name of the
// model configuration selects the options) and picks a seeded sample.
func rlFromTLC(path, kind string, rng *rand.Rand, n int) []rlCfg {
	sec := time.Second
	mixed := []rlCtxOpt{{SendExp: 2 * sec, RecvExp: 3 * sec}, {BestEffort: true}}
	plain := []rlCtxOpt{{}, {}}
	mixes := map[string]rlCfg{
		"rep_mixed":         {Kind: "rep", Opts: mixed, TTL: 2, SQ: 1, RQ: 0},
		"respondent_mixed":  {Kind: "respondent", Opts: mixed, TTL: 2, SQ: 1, RQ: 1},
		"rep_plain0":        {Kind: "rep", Opts: plain, TTL: 2, SQ: 0, RQ: 0},
		"respondent_plain0": {Kind: "respondent", Opts: plain, TTL: 2, SQ: 0, RQ: 2},
	}
	data, err := os.ReadFile(path)
	if err != nil {
		panic(err)
	}
	var all []rlCfg
	for _, ln := range strings.Split(string(data), "\n") {
		if strings.TrimSpace(ln) == "" {
			continue
		}
		var x struct {
			Opt   string   `json:"opt"`
			Steps []string `json:"steps"`
		}
		if err := json.Unmarshal([]byte(ln), &x); err != nil {
			panic(err)
		}
		c, ok := mixes[x.Opt]
		if !ok {
			panic("unknown option mix " + x.Opt)
		}
		if c.Kind != kind {
			continue
		}
		c.Steps = x.Steps
		all = append(all, c)
	}
	rng.Shuffle(len(all), func(i, j int) { all[i], all[j] = all[j], all[i] })
	if n < len(all) {
		all = all[:n]
	}
	return all
}

func testRepLike(t *testing.T, kind string) {
	out := newOut(t, kind)
	defer out.Close()
	rng := rand.New(rand.NewSource(seed()))
	if f := os.Getenv("VERIF_SCN_FILE"); f != "" {
		for i, cfg := range rlFromTLC(f, kind, rng, count(400, 1000000)) {
			if out.Stop() {
				break
			}
			res := runRepLike(t, cfg, seed()*1000+int64(i))
			out.Add(fmt.Sprintf("%sscn-%d", kind, i), rlCfgEv(cfg), fmt.Sprint(cfg), res)
		}
		return
	}
	cfgs := rlScripted(kind)
	if os.Getenv("VERIF_MIX") == "deadline" {
		cfgs = rlDeadline(kind)
	}
	for i := 0; i < count(80, 1200); i++ {
		cfgs = append(cfgs, rlRandom(kind, rng))
	}
	for i, cfg := range cfgs {
		if out.Stop() {
			break
		}
		cfg.Steps = closeMix(cfg.Steps, rng, []string{"recv c0", "send c0", "recv c1", "send c1", "conn", "req p1 1", "cclose c1", "adv 1s", "recv c0", "sclose"})
		res := runRepLike(t, cfg, seed()*1000+int64(i))
		out.Add(fmt.Sprintf("%s-%d", kind, i), rlCfgEv(cfg), fmt.Sprint(cfg), res)
	}
}

func TestRep(t *testing.T)        { testRepLike(t, "rep") }
func TestRespondent(t *testing.T) { testRepLike(t, "respondent") }
