package harness

import (
	"fmt"
	"io"
	"math/rand"
	"net"
	"sync"
	"testing"
	"time"

	"go.nanomsg.org/mangos/v3"
	"go.nanomsg.org/mangos/v3/transport"

	"verifharness/rec"
	"verifharness/sim"
)

// ---------------------------------------------------------------------------
// Wire driver, in-bubble part (C15, C16, C01): the SP stream codec of
// transport/conn.go and connipc_posix.go exercised through the public
// NewConnPipe / NewConnPipeIPC / NewConnHandshaker over net.Pipe.  The
// harness owns the other end and reads / writes raw bytes in chosen
// chunkings.  Traces are validated against spec/Wire.tla (an independent
// codec written in TLA+).

var spProtos = []uint16{0x10, 0x11, 0x20, 0x21, 0x30, 0x31, 0x50, 0x51, 0x62, 0x63, 0x70, 0x640}

func peerOf(p uint16) uint16 {
	switch p {
	case 0x10, 0x11, 0x70, 0x640:
		return p
	case 0x20, 0x30, 0x50, 0x62:
		return p + 1
	}
	return p - 1
}

// chunked write; returns the number of bytes the other side took
func writeChunks(c net.Conn, b []byte, chunks []int) int {
	n, ci := 0, 0
	for n < len(b) {
		k := len(b) - n
		if ci < len(chunks) && chunks[ci] > 0 && chunks[ci] < k {
			k = chunks[ci]
		}
		ci++
		w, err := c.Write(b[n : n+k])
		n += w
		if err != nil {
			break
		}
	}
	return n
}

type wireScn struct {
	Kind   string // hs | recv | send | stall
	IPC    bool
	Self   uint16
	Hdr    []byte // what the harness sends as handshake header
	MaxRx  int
	Stream []byte // frames the harness writes (recv)
	Chunks []int
	Msgs   [][2][]byte // header, body of messages mangos sends (send)
	Close  bool        // harness closes after writing
}

func mkPipe(c net.Conn, ipc bool, self uint16) transport.ConnPipe {
	pi := mangos.ProtocolInfo{Self: self, Peer: peerOf(self)}
	if ipc {
		return transport.NewConnPipeIPC(c, pi)
	}
	return transport.NewConnPipe(c, pi)
}

func runWire(t *testing.T, w wireScn) sim.Result {
	return sim.Run(t, 10*time.Second, func(s *sim.S) {
		c1, c2 := net.Pipe()
		p := mkPipe(c1, w.IPC, w.Self)
		p.SetOption(mangos.OptionMaxRecvSize, w.MaxRx)
		hs := transport.NewConnHandshaker()
		hs.Start(p)
		// handshake: read what mangos wrote, write ours
		out := make([]byte, 8)
		_, err := io.ReadFull(c2, out)
		s.Rec.Emit("hsout", "b", bytesArr(out), "self", int(w.Self), "rerr", err)
		type hres struct {
			p   transport.Pipe
			err error
		}
		resc := make(chan hres, 1)
		go func() { pp, e := hs.Wait(); resc <- hres{pp, e} }()
		n := writeChunks(c2, w.Hdr, w.Chunks)
		if len(w.Hdr) < 8 {
			c2.Close()
		}
		s.Wait()
		var hr hres
		select {
		case hr = <-resc:
		default:
			// cannot happen at quiescence unless the handshake is stuck
			s.Rec.Emit("hsres", "sent", bytesArr(w.Hdr), "took", n, "peer", int(peerOf(w.Self)), "r", "stuck")
			hs.Close()
			c2.Close()
			return
		}
		s.Rec.Emit("hsres", "sent", bytesArr(w.Hdr), "took", n, "peer", int(peerOf(w.Self)), "r", hr.err, "haspipe", hr.p != nil)
		if hr.err != nil || hr.p == nil {
			c2.Close()
			hs.Close()
			return
		}
		tp := hr.p
		switch w.Kind {
		case "recv":
			took := make(chan int, 1)
			go func() {
				k := writeChunks(c2, w.Stream, w.Chunks)
				if w.Close {
					c2.Close()
				}
				took <- k
			}()
			for {
				m, err := tp.Recv()
				if err != nil {
					_ = tp.Close() // what core.pipe.RecvMsg does on error
					s.Wait()
					k := -1
					select {
					case k = <-took:
					default:
					}
					s.Rec.Emit("wend", "r", rec.ErrName(err), "took", k, "total", len(w.Stream))
					break
				}
				s.Rec.Emit("wrecv", "b", bytesArr(m.Body), "hl", len(m.Header))
				m.Free()
			}
		case "send":
			// a persistent raw reader (net.Pipe makes even empty writes wait for a Read)
			var mu sync.Mutex
			var acc []byte
			go func() {
				buf := make([]byte, 4096)
				for {
					k, err := c2.Read(buf)
					mu.Lock()
					acc = append(acc, buf[:k]...)
					mu.Unlock()
					if err != nil {
						return
					}
				}
			}()
			for _, hb := range w.Msgs {
				m := mangos.NewMessage(len(hb[1]))
				m.Header = append(m.Header, hb[0]...)
				m.Body = append(m.Body, hb[1]...)
				err := tp.Send(m)
				s.Wait()
				mu.Lock()
				raw := append([]byte{}, acc...)
				acc = acc[:0]
				mu.Unlock()
				s.Rec.Emit("wsent", "hdr", bytesArr(hb[0]), "body", bytesArr(hb[1]), "raw", bytesArr(raw), "r", err)
			}
			_ = tp.Close()
		}
		c2.Close()
		hs.Close()
	})
}

func wireCfgEv(w wireScn) rec.Ev {
	return rec.Ev{"kind": w.Kind, "ipc": w.IPC, "self": int(w.Self), "maxrx": w.MaxRx, "stream": bytesArr(w.Stream), "closes": w.Close}
}

func goodHdr(p uint16) []byte { return []byte{0, 'S', 'P', 0, byte(p >> 8), byte(p), 0, 0} }

func frame(ipc bool, m []byte) []byte {
	var b []byte
	if ipc {
		b = append(b, 1)
	}
	n := len(m)
	b = append(b, 0, 0, 0, 0, byte(n>>24), byte(n>>16), byte(n>>8), byte(n))
	return append(b, m...)
}

func wireScenarios(rng *rand.Rand, nrand int) []wireScn {
	var out []wireScn
	chunkings := [][]int{nil, {1, 1, 1, 1, 1, 1, 1, 1, 1, 1, 1, 1, 1, 1, 1, 1, 1, 1, 1, 1}, {3, 5, 2}, {7, 1, 9}, {4, 4, 1}, {8, 1}, {9, 3}}
	// handshake: every protocol number, every single-byte deviation, truncations, wrong peer
	for _, ipc := range []bool{false, true} {
		for _, self := range spProtos {
			g := goodHdr(peerOf(self))
			out = append(out, wireScn{Kind: "hs", IPC: ipc, Self: self, Hdr: g, Chunks: chunkings[rng.Intn(len(chunkings))]})
			for i := 0; i < 8; i++ {
				for _, v := range []byte{0, 1, 0xff, g[i] + 1, g[i] ^ 0x80} {
					if v == g[i] {
						continue
					}
					if self != 0x30 && rng.Intn(6) != 0 {
						continue // the full deviation grid on REQ, a sample elsewhere
					}
					d := append([]byte{}, g...)
					d[i] = v
					out = append(out, wireScn{Kind: "hs", IPC: ipc, Self: self, Hdr: d, Chunks: chunkings[rng.Intn(len(chunkings))]})
				}
			}
			for _, other := range spProtos {
				if other != peerOf(self) && rng.Intn(4) == 0 {
					out = append(out, wireScn{Kind: "hs", IPC: ipc, Self: self, Hdr: goodHdr(other)})
				}
			}
			for k := 0; k < 8; k += 1 + rng.Intn(3) {
				out = append(out, wireScn{Kind: "hs", IPC: ipc, Self: self, Hdr: g[:k]})
			}
		}
	}
	// framing
	msg := func(n int) []byte {
		b := make([]byte, n)
		for i := range b {
			b[i] = byte(rng.Intn(256))
		}
		return b
	}
	// announced lengths that are negative as a 64-bit integer or beyond every limit, with and without a receive
	// limit configured, on both stream flavours, after a good message and followed by more bytes
	for _, ipc := range []bool{false, true} {
		for _, maxrx := range []int{0, 8} {
			for _, lenb := range [][]byte{{0xff, 0xff, 0xff, 0xff, 0xff, 0xff, 0xff, 0xf0}, {0x80, 0, 0, 0, 0, 0, 0, 1}, {0x80, 0, 0, 0, 0, 0, 0, 0}} {
				w := wireScn{Kind: "recv", IPC: ipc, Self: 0x30, Hdr: goodHdr(peerOf(0x30)), Chunks: chunkings[rng.Intn(len(chunkings))], Close: true, MaxRx: maxrx}
				w.Stream = append(w.Stream, frame(ipc, msg(5))...)
				if ipc {
					w.Stream = append(w.Stream, 1)
				}
				w.Stream = append(w.Stream, lenb...)
				w.Stream = append(w.Stream, 9, 9, 9, 9)
				w.Stream = append(w.Stream, frame(ipc, msg(2))...)
				out = append(out, w)
			}
		}
	}
	for i := 0; i < nrand; i++ {
		ipc := rng.Intn(2) == 0
		self := spProtos[rng.Intn(len(spProtos))]
		w := wireScn{Kind: "recv", IPC: ipc, Self: self, Hdr: goodHdr(peerOf(self)), Chunks: chunkings[rng.Intn(len(chunkings))], Close: true}
		w.MaxRx = []int{0, 1, 8, 9, 40}[rng.Intn(5)]
		nm := 1 + rng.Intn(4)
		for k := 0; k < nm; k++ {
			var n int
			switch rng.Intn(6) {
			case 0:
				n = 0
			case 1:
				n = w.MaxRx
			case 2:
				n = w.MaxRx + 1
			default:
				n = rng.Intn(12)
			}
			w.Stream = append(w.Stream, frame(ipc, msg(n))...)
		}
		switch rng.Intn(8) {
		case 0: // negative length
			pre := []byte{}
			if ipc {
				pre = []byte{1}
			}
			w.Stream = append(w.Stream, append(pre, 0xff, 0xff, 0xff, 0xff, 0xff, 0xff, 0xff, 0xff, 9, 9, 9)...)
		case 1: // huge length
			pre := []byte{}
			if ipc {
				pre = []byte{1}
			}
			w.Stream = append(w.Stream, append(pre, 0x40, 0, 0, 0, 0, 0, 0, 0, 9, 9, 9)...)
			if w.MaxRx == 0 {
				w.MaxRx = 8
			}
		case 2: // truncated frame
			f := frame(ipc, msg(10))
			w.Stream = append(w.Stream, f[:1+rng.Intn(len(f)-1)]...)
		case 3: // ipc prefix byte is not looked at
			if ipc {
				f := frame(ipc, msg(3))
				f[0] = byte(2 + rng.Intn(250))
				w.Stream = append(w.Stream, f...)
			}
		}
		out = append(out, w)
		// send direction
		s := wireScn{Kind: "send", IPC: ipc, Self: self, Hdr: goodHdr(peerOf(self))}
		for k := 0; k < 1+rng.Intn(3); k++ {
			s.Msgs = append(s.Msgs, [2][]byte{msg([]int{0, 4, 8, 12}[rng.Intn(4)]), msg(rng.Intn(20))})
		}
		out = append(out, s)
	}
	return out
}

func TestWire(t *testing.T) {
	out := newOut(t, "wire")
	defer out.Close()
	rng := rand.New(rand.NewSource(seed()))
	for i, w := range wireScenarios(rng, count(60, 600)) {
		if out.Stop() {
			break
		}
		res := runWire(t, w)
		out.Add(fmt.Sprintf("wire-%d", i), wireCfgEv(w), fmt.Sprint(w.Kind, w.IPC, w.Self, w.MaxRx, len(w.Stream)), res)
	}
}

// TestWireStall: a peer that never completes its handshake does not delay
// another one on the same handshaker (C16).
func TestWireStall(t *testing.T) {
	out := newOut(t, "wirestall")
	defer out.Close()
	for i, ipc := range []bool{false, true} {
		for k := 0; k < 8; k += 3 {
			kk := k
			res := sim.Run(t, 10*time.Second, func(s *sim.S) {
				hs := transport.NewConnHandshaker()
				a1, a2 := net.Pipe()
				b1, b2 := net.Pipe()
				hs.Start(mkPipe(a1, ipc, 0x30))
				// A: reads our header, sends kk bytes of its own, then stalls
				go func() {
					io.ReadFull(a2, make([]byte, 8))
					a2.Write(goodHdr(0x31)[:kk])
				}()
				s.Wait()
				hs.Start(mkPipe(b1, ipc, 0x30))
				go func() {
					io.ReadFull(b2, make([]byte, 8))
					b2.Write(goodHdr(0x31))
				}()
				got := make(chan error, 1)
				go func() { _, e := hs.Wait(); got <- e }()
				s.Wait()
				select {
				case e := <-got:
					s.Rec.Emit("stall", "sent", kk, "r", e, "done", true)
				default:
					s.Rec.Emit("stall", "sent", kk, "r", "blocked", "done", false)
				}
				hs.Close()
				a2.Close()
				b2.Close()
				a1.Close()
				b1.Close()
				time.Sleep(time.Second)
				s.Wait()
			})
			out.Add(fmt.Sprintf("stall-%d-%d", i, k), rec.Ev{"kind": "stall", "ipc": ipc}, fmt.Sprint("stall", ipc, k), res)
		}
	}
}
