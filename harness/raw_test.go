package harness

import (
	"bytes"
	"encoding/binary"
	"encoding/json"
	"fmt"
	"math/rand"
	"os"
	"sort"
	"strconv"
	"strings"
	"sync"
	"sync/atomic"
	"testing"
	"time"

	"go.nanomsg.org/mangos/v3"
	"go.nanomsg.org/mangos/v3/protocol"
	"go.nanomsg.org/mangos/v3/protocol/bus"
	"go.nanomsg.org/mangos/v3/protocol/pair"
	"go.nanomsg.org/mangos/v3/protocol/pair1"
	"go.nanomsg.org/mangos/v3/protocol/pub"
	"go.nanomsg.org/mangos/v3/protocol/pull"
	"go.nanomsg.org/mangos/v3/protocol/push"
	"go.nanomsg.org/mangos/v3/protocol/star"
	"go.nanomsg.org/mangos/v3/protocol/xbus"
	"go.nanomsg.org/mangos/v3/protocol/xpair"
	"go.nanomsg.org/mangos/v3/protocol/xpair1"
	"go.nanomsg.org/mangos/v3/protocol/xpub"
	"go.nanomsg.org/mangos/v3/protocol/xpull"
	"go.nanomsg.org/mangos/v3/protocol/xpush"
	"go.nanomsg.org/mangos/v3/protocol/xrep"
	"go.nanomsg.org/mangos/v3/protocol/xreq"
	"go.nanomsg.org/mangos/v3/protocol/xrespondent"
	"go.nanomsg.org/mangos/v3/protocol/xstar"
	"go.nanomsg.org/mangos/v3/protocol/xsub"
	"go.nanomsg.org/mangos/v3/protocol/xsurveyor"

	"verifharness/hx"
	"verifharness/rec"
	"verifharness/sim"
	"verifharness/vt"
)

// ---------------------------------------------------------------------------
// Raw socket driver (C02, C08, PUB side of C06, raw routing of C05, parts of
// C10 / C18): every x* protocol and the thin cooked wrappers over one
// engine specification, spec/RawSock.tla.  The harness is every peer.

type rawProto struct {
	name   string // what the trace calls it; the spec engine is eng
	eng    string
	mk     func() protocol.Protocol
	cooked bool
}

var rawProtos = []rawProto{
	{"xpair", "xpair", xpair.NewProtocol, false}, {"pair", "xpair", pair.NewProtocol, true},
	{"xpair1", "xpair1", xpair1.NewProtocol, false}, {"pair1", "xpair1", pair1.NewProtocol, true},
	{"xreq", "xreq", xreq.NewProtocol, false},
	{"xpush", "xpush", xpush.NewProtocol, false}, {"push", "xpush", push.NewProtocol, true},
	{"xpull", "xpull", xpull.NewProtocol, false}, {"pull", "xpull", pull.NewProtocol, true},
	{"xpub", "xpub", xpub.NewProtocol, false}, {"pub", "xpub", pub.NewProtocol, true},
	{"xsub", "xsub", xsub.NewProtocol, false},
	{"xsurveyor", "xsurveyor", xsurveyor.NewProtocol, false},
	{"xbus", "xbus", xbus.NewProtocol, false}, {"bus", "xbus", bus.NewProtocol, true},
	{"xstar", "xstar", xstar.NewProtocol, false}, {"star", "xstar", star.NewProtocol, true},
	{"xrep", "xrep", xrep.NewProtocol, false},
	{"xrespondent", "xrespondent", xrespondent.NewProtocol, false},
}

type rawCfg struct {
	P           rawProto
	SendExp     time.Duration
	RecvExp     time.Duration
	BestEffort  bool
	FailNoPeers bool
	TTL         int
	SQ, RQ      int
	Steps       []string
}

type rawScn struct {
	dialer   mangos.Dialer
	answered int
	force    string        // target (routed) / origin (BUS forwarding) named by the step, instead of a random live pipe
	el       time.Duration // virtual time elapsed (absolute "advto" steps of TLC-generated scenarios)
	s        *sim.S
	cfg      rawCfg
	sock     mangos.Socket
	pipes    map[string]*vt.Pipe
	ids      *hx.IDMap
	npipe    int
	nmsg     int
	rng      *rand.Rand
	eff      map[string]interface{}
}

// every message body ends in "#<tag>"; what precedes it is protocol header material
func rawTag(b []byte) string {
	if i := strings.LastIndexByte(string(b), '#'); i >= 0 {
		return string(b[i+1:])
	}
	return ""
}

func rawDecode(dir string, b []byte) []interface{} {
	short := len(b) < 4
	zeros, h := false, 0
	if !short {
		zeros = b[0] == 0 && b[1] == 0 && b[2] == 0
		w := binary.BigEndian.Uint32(b)
		h = int(b[3])
		if !zeros {
			h = 300 // any hop count above 255
		}
		_ = w
	}
	// backtrace view
	avail, n := len(b)/4, 0
	for i := 0; i < avail; i++ {
		if b[4*i]&0x80 != 0 {
			n = i + 1
			break
		}
	}
	return []interface{}{"short", short, "zeros", zeros, "h", h, "n", n, "avail", avail, "tag", rawTag(b)}
}

func (c *rawScn) pname(id uint32) string {
	if c.ids.Has(id) {
		return c.ids.Name(id)
	}
	return "none"
}

// build the message an application sends; returns header, body and the abstract description
func (c *rawScn) mkSend(kind string) (hdr, body []byte, ok bool, to, skip string, h int) {
	c.nmsg++
	tag := fmt.Sprintf("t%d", c.nmsg)
	body = []byte("#" + tag)
	ok, to, skip = true, "none", "none"
	live := []string{}
	for n, p := range c.pipes {
		if !p.IsClosed() {
			live = append(live, n)
		}
	}
	sort.Strings(live)
	switch c.cfg.P.eng {
	case "xpair1":
		if !c.cfg.P.cooked {
			switch kind {
			case "badhdr":
				hdr, ok = []byte{0, 1, 0, 0}, false
			case "nohdr":
				hdr, ok = nil, false
			default:
				h = c.rng.Intn(3)
				hdr = []byte{0, 0, 0, byte(h)}
			}
		} else {
			// cooked: the socket is the origin of what it sends - a header the caller left on the message (a hop count
			// from elsewhere, garbage, any length) means nothing and does not go out
			switch kind {
			case "fwd":
				hdr = []byte{0, 0, 0, 9}
			case "fwdgone":
				hdr = []byte{1, 2, 3, 4}
			case "badhdr":
				hdr = []byte{0, 0, 0, 1, 0, 0, 0, 2}
			}
		}
	case "xstar":
		if c.cfg.P.cooked {
			switch kind {
			case "fwd":
				hdr = []byte{0, 0, 0, 7}
			case "fwdgone":
				hdr = []byte{9, 9}
			}
		}
		if !c.cfg.P.cooked {
			if kind == "nohdr" {
				hdr, ok = []byte{0, 0}, false
			} else {
				h = c.rng.Intn(3)
				hdr = []byte{0, 0, 0, byte(h)}
			}
		}
	case "xbus":
		if kind == "fwd" && len(live) > 0 {
			pick := live[c.rng.Intn(len(live))]
			if c.force != "" {
				pick = c.force
			}
			sid, _ := c.ids.ID(pick)
			hdr = binary.BigEndian.AppendUint32(nil, sid)
			if !c.cfg.P.cooked {
				skip = pick // raw: the header names the origin, which is not sent to
			} // cooked: a header on an outgoing message means nothing - every peer gets the body
		} else if !c.cfg.P.cooked && kind == "fwdgone" {
			hdr = binary.BigEndian.AppendUint32(nil, 0x7fffff01) // an origin that is not connected
		} else if kind == "fwdgone" {
			hdr = []byte{1, 2, 3, 4, 0x80, 0, 0, 9} // cooked: somebody else's routing header left on the message
		}
	case "xrep", "xrespondent":
		switch {
		case kind == "nohdr":
			hdr, ok = []byte{1, 2}, false
		case kind == "unknown" || len(live) == 0:
			hdr = binary.BigEndian.AppendUint32(nil, 0x7fffff02)
			hdr = binary.BigEndian.AppendUint32(hdr, 0x80000005)
		default:
			to = live[c.rng.Intn(len(live))]
			if c.force != "" {
				to = c.force
			}
			if kind == "gone" {
				// a pipe that has been seen but is closed
				for n, p := range c.pipes {
					if p.IsClosed() {
						to = n
					}
				}
			}
			tid, known := c.ids.ID(to)
			hdr = binary.BigEndian.AppendUint32(nil, tid)
			hdr = binary.BigEndian.AppendUint32(hdr, 0x80000005)
			if !known {
				to = "none"
			}
		}
	case "xreq", "xsurveyor":
		hdr = binary.BigEndian.AppendUint32(nil, 0x80000007)
	}
	return
}

// build a peer message
func (c *rawScn) mkInject(kind string) []byte {
	c.nmsg++
	tag := fmt.Sprintf("u%d", c.nmsg)
	var b []byte
	switch c.cfg.P.eng {
	case "xreq", "xsurveyor":
		b = binary.BigEndian.AppendUint32(nil, 0x80000007)
	case "xpair1", "xstar":
		h := c.rng.Intn(c.cfg.TTL + 2)
		switch kind {
		case "bad":
			b = []byte{0, 0, 1, byte(h)}
		default:
			b = []byte{0, 0, 0, byte(h)}
		}
	case "xrep", "xrespondent":
		depth := 1 + c.rng.Intn(c.cfg.TTL+1)
		for i := 1; i < depth; i++ {
			b = binary.BigEndian.AppendUint32(b, uint32(0x100+i))
		}
		if kind != "bad" {
			b = binary.BigEndian.AppendUint32(b, 0x80000000|uint32(c.nmsg))
		}
	}
	if kind == "short" {
		// fewer than four bytes, still distinguishable
		const d = "0123456789abcdefghijklmnopqrstuvwxyz"
		return []byte{'#', d[c.nmsg/36%36], d[c.nmsg%36]}
	}
	return append(b, []byte("#"+tag)...)
}

func (c *rawScn) step(st string) {
	s := c.s
	f := strings.Fields(st)
	arg := func(i int) string {
		if len(f) > i {
			return f[i]
		}
		return ""
	}
	switch f[0] {
	case "conn", "conngated", "connlinger":
		c.npipe++
		p := s.Net.NewPipe(fmt.Sprintf("p%d", c.npipe))
		if f[0] != "conn" {
			p.SetMode(vt.Gated)
		}
		if f[0] == "connlinger" {
			// a transport send in flight when the connection goes away still succeeds once released ("releasel")
			p.SetLinger(true)
		}
		c.pipes[p.Name] = p
		s.Net.Listener("l1").Offer(p)
	case "predial":
		// an asynchronous dialer whose connection attempt stays in progress until "ansconn": what arrives then is
		// decided by the protocol in the state it is in by then (a closed one refuses)
		if c.dialer == nil {
			d, err := c.sock.NewDialer(s.Net.Addr("d1"), map[string]interface{}{mangos.OptionDialAsynch: true,
				mangos.OptionReconnectTime: 5000 * time.Second, mangos.OptionMaxReconnectTime: time.Duration(0)})
			if err != nil {
				break // (the socket of this scenario is closed already: no dialer, no attempt)
			}
			c.dialer = d
			_ = d.Dial()
		}
	case "ansconn":
		if td := s.Net.Dialer("d1"); td != nil && td.Dials > c.answered {
			c.answered++
			c.npipe++
			p := s.Net.NewPipe(fmt.Sprintf("p%d", c.npipe))
			c.pipes[p.Name] = p
			td.Answer(p, nil)
		}
	case "drop":
		if p := c.pipes[arg(1)]; p != nil && !p.IsClosed() {
			s.Rec.Emit("drop", "p", p.Name)
			p.Drop()
		}
	case "release":
		if p := c.pipes[arg(1)]; p != nil && !p.IsClosed() && p.Blocked() {
			p.Release()
		}
	case "releasel":
		if p := c.pipes[arg(1)]; p != nil && p.Blocked() {
			p.Release()
		}
	case "burst":
		// arg(1) application goroutines, each calling Send arg(2) times back to back, all started together:
		// the calls overlap for real (no quiescence in between)
		k, _ := strconv.Atoi(arg(1))
		n, _ := strconv.Atoi(arg(2))
		if n == 0 {
			n = 1
		}
		gate := make(chan struct{})
		for i := 0; i < k; i++ {
			var calls []sim.PCall
			for j := 0; j < n; j++ {
				hdr, body, ok, to, skip, h := c.mkSend("ok")
				sock := c.sock
				calls = append(calls, sim.PCall{Op: "send", O: "s",
					Args: []interface{}{"tag", rawTag(body), "ok", ok, "to", to, "skip", skip, "h", h},
					Fn: func() []interface{} {
						m := appNew(s, len(body))
						m.Header = append(m.Header, hdr...)
						m.Body = append(m.Body, body...)
						err := appSend(s, m, sock.SendMsg, !c.cfg.P.cooked && (c.cfg.P.eng == "xrep" || c.cfg.P.eng == "xrespondent"))
						return []interface{}{"r", err}
					}})
			}
			s.SerialC(s.Thread(), calls, gate)
		}
		close(gate)
	case "send":
		c.force = arg(2) // "send ok p2" / "send fwd p1": the pipe the step names
		hdr, body, ok, to, skip, h := c.mkSend(arg(1))
		c.force = ""
		sock := c.sock
		s.Call(s.Thread(), "send", "s", []interface{}{"tag", rawTag(body), "ok", ok, "to", to, "skip", skip, "h", h}, func() []interface{} {
			m := appNew(s, len(body))
			m.Header = append(m.Header, hdr...)
			m.Body = append(m.Body, body...)
			err := appSend(s, m, sock.SendMsg, !c.cfg.P.cooked && (c.cfg.P.eng == "xrep" || c.cfg.P.eng == "xrespondent"))
			return []interface{}{"r", err}
		})
	case "recv":
		sock := c.sock
		s.Call(s.Thread(), "recv", "s", nil, func() []interface{} {
			m, err := sock.RecvMsg()
			if err != nil {
				return []interface{}{"r", err}
			}
			appGot(s, m)
			tag := rawTag(m.Body)
			hl := len(m.Header)
			from := "none"
			if hl >= 4 && (c.cfg.P.eng == "xbus" || c.cfg.P.eng == "xrep" || c.cfg.P.eng == "xrespondent") {
				from = c.pname(binary.BigEndian.Uint32(m.Header))
			}
			hout := -1
			if hl == 4 && (c.cfg.P.eng == "xpair1" || c.cfg.P.eng == "xstar") {
				hout = int(m.Header[3])
			}
			// the message is the application's: scribble over it before releasing it
			for k := range m.Body {
				m.Body[k] ^= 0x33
			}
			appFree(s, m)
			return []interface{}{"r", "ok", "tag", tag, "hl", hl, "from", from, "hout", hout}
		})
	case "rq":
		// ReadQLen changed (the scenarios do it when nothing is queued); sockets without the option are left alone
		// The line is recorded BEFORE the call, as "drop" is: the step starts from quiescence, so nothing else records
		// until the new queue is in place, and a call the change wakes (a Send that XREQ / XPAIR give up on a resize, a
		// Recv that moves to the new queue) records its return after it.  Recorded after the call, the line raced with
		// the "ret" of the calls the change itself had woken, and a trace with the two swapped is not a behaviour.
		n, _ := strconv.Atoi(arg(1))
		if _, err := c.sock.GetOption(mangos.OptionReadQLen); err == nil {
			s.Rec.Emit("setrq", "n", n)
			if err := c.sock.SetOption(mangos.OptionReadQLen, n); err != nil {
				s.Rec.Emit("setrqfail", "n", n, "r", err) // the option is there and n >= 0: no specification action explains a refusal
			}
		}
	case "inj":
		if p := c.pipes[arg(1)]; p != nil && !p.IsClosed() {
			p.Inject(c.mkInject(arg(2)))
		}
	case "adv":
		d, _ := time.ParseDuration(arg(1))
		s.Adv(d)
		c.el += d
		return
	case "advto":
		var sec int
		fmt.Sscanf(arg(1), "%d", &sec)
		if d := time.Duration(sec)*time.Second - c.el; d > 0 {
			s.Adv(d)
			c.el += d
			return
		}
	case "sclose":
		sock := c.sock
		s.Call(s.Thread(), "sclose", "s", nil, func() []interface{} { return []interface{}{"r", sock.Close()} })
	}
	s.Q()
}

func runRaw(t *testing.T, cfg rawCfg, seed int64) (sim.Result, rec.Ev) {
	eff := rec.Ev{}
	res := sim.Run(t, 10*time.Second, func(s *sim.S) {
		defer withLedger(s.Rec)()
		baseIDs := hx.BaseIDs()
		c := &rawScn{s: s, cfg: cfg, pipes: map[string]*vt.Pipe{}, ids: hx.NewIDMap(),
			rng: rand.New(rand.NewSource(seed))}
		s.Net.Decode = rawDecode
		rp := &hx.RecProto{Protocol: cfg.P.mk(), Rec: s.Rec, Early: true}
		c.sock = protocol.MakeSocket(rp)
		hx.Hook(c.sock, s.Rec, func(ev, name string, p mangos.Pipe) { c.ids.Set(p.ID(), name) })
		// options: a protocol that does not have one keeps its built-in behaviour
		try := func(name string, v interface{}) {
			err := c.sock.SetOption(name, v)
			if err != nil && err != mangos.ErrBadOption {
				panic(fmt.Sprint(name, v, err))
			}
		}
		try(mangos.OptionSendDeadline, cfg.SendExp)
		try(mangos.OptionRecvDeadline, cfg.RecvExp)
		try(mangos.OptionBestEffort, cfg.BestEffort)
		try(mangos.OptionFailNoPeers, cfg.FailNoPeers)
		try(mangos.OptionTTL, cfg.TTL)
		try(mangos.OptionWriteQLen, cfg.SQ)
		try(mangos.OptionReadQLen, cfg.RQ)
		get := func(name string, def interface{}) interface{} {
			v, err := c.sock.GetOption(name)
			if err != nil {
				return def
			}
			return v
		}
		eff["sendExp"] = get(mangos.OptionSendDeadline, time.Duration(0))
		eff["recvExp"] = get(mangos.OptionRecvDeadline, time.Duration(0))
		eff["bestEffort"] = get(mangos.OptionBestEffort, false)
		eff["failNoPeers"] = get(mangos.OptionFailNoPeers, false)
		eff["ttl"] = get(mangos.OptionTTL, 8)
		eff["sq"] = get(mangos.OptionWriteQLen, 0)
		eff["rq"] = get(mangos.OptionReadQLen, 0)
		l, err := c.sock.NewListener(s.Net.Addr("l1"), nil)
		if err != nil {
			panic(err)
		}
		if err = l.Listen(); err != nil {
			panic(err)
		}
		s.Q()
		for _, st := range cfg.Steps {
			c.step(st)
		}
		c.step("sclose")
		for _, p := range c.pipes {
			if p.Blocked() {
				p.Release()
			}
		}
		if td := s.Net.Dialer("d1"); td != nil && td.Dials > c.answered {
			c.answered++
			td.Answer(nil, mangos.ErrClosed) // the attempt still in progress ends
		}
		c.step("adv 600s")
		s.Wait()
		g := sim.Census()
		sort.Strings(g)
		s.Rec.Emit("census", "n", len(g), "g", fmt.Sprint(g))
		hx.Final(s.Rec, c.sock, baseIDs)
	})
	eff["proto"] = cfg.P.name
	eff["eng"] = cfg.P.eng
	eff["cooked"] = cfg.P.cooked
	return res, eff
}

func rawRandom(p rawProto, rng *rand.Rand) rawCfg {
	sec := time.Second
	c := rawCfg{P: p, TTL: []int{1, 2, 8}[rng.Intn(3)], SQ: []int{0, 1, 2, 128}[rng.Intn(4)], RQ: []int{0, 1, 2, 128}[rng.Intn(4)]}
	if rng.Intn(3) == 0 {
		c.SendExp = 2 * sec
	}
	if rng.Intn(3) == 0 {
		c.RecvExp = 3 * sec
	}
	c.BestEffort = rng.Intn(5) == 0
	c.FailNoPeers = rng.Intn(4) == 0
	if p.eng == "xpush" && c.SQ == 0 {
		// known finding: an unbuffered PUSH send queue never completes a Send; exercised by its own scenario
		c.SQ = 1
	}
	np := 0
	steps := 8 + rng.Intn(26)
	sendKinds := []string{"ok", "ok", "ok", "ok", "fwd", "fwd", "fwdgone", "badhdr", "nohdr", "unknown", "gone"}
	injKinds := []string{"ok", "ok", "ok", "ok", "ok", "bad", "short"}
	for i := 0; i < steps; i++ {
		opts := []string{"send", "send", "send", "recv", "recv", "adv"}
		if rng.Intn(6) == 0 && c.SQ > 0 {
			// (not with an unbuffered send queue: whether a broadcast is taken by a pipe then depends on whether that
			// pipe's sender goroutine has got back to its channel receive yet, which the specification does not model;
			// with quiescence between the steps it always has)
			opts = append(opts, "burst")
		}
		if np < 4 {
			opts = append(opts, "conn", "conn", "conngated")
		}
		if np > 0 {
			opts = append(opts, "inj", "inj", "inj", "drop", "release", "release")
		}
		if rng.Intn(60) == 0 {
			opts = append(opts, "sclose")
		}
		o := opts[rng.Intn(len(opts))]
		switch o {
		case "conn", "conngated":
			np++
		case "burst":
			o += fmt.Sprintf(" %d %d", 2+rng.Intn(2), 1+rng.Intn(2))
		case "send":
			o += " " + sendKinds[rng.Intn(len(sendKinds))]
		case "inj":
			o += fmt.Sprintf(" p%d %s", 1+rng.Intn(np), injKinds[rng.Intn(len(injKinds))])
		case "adv":
			o += " " + []string{"1us", "1.999999s", "2s", "2.999999s", "3s", "10s"}[rng.Intn(6)]
		case "drop", "release":
			o += fmt.Sprintf(" p%d", 1+rng.Intn(np))
		}
		c.Steps = append(c.Steps, o)
	}
	return c
}

// scripted scenarios per engine
func rawScripted0(p rawProto) []rawCfg {
	sec := time.Second
	b := rawCfg{P: p, TTL: 8, SQ: 2, RQ: 2}
	mk := func(mod func(*rawCfg), steps ...string) rawCfg { c := b; mod(&c); c.Steps = steps; return c }
	id := func(*rawCfg) {}
	switch p.eng {
	case "xpair", "xpair1":
		return []rawCfg{
			// in-order exactly-once to the single peer; a second connection is refused and the first keeps working; after it has gone the next is admitted
			mk(id, "conn", "send ok", "send ok", "conn", "send ok", "inj p1 ok", "recv", "drop p1", "conn", "send ok", "inj p3 ok", "recv", "recv"),
			mk(func(c *rawCfg) { c.SQ, c.RQ = 0, 0 }, "conngated", "send ok", "send ok", "release p1", "release p1", "recv", "inj p1 ok", "inj p1 ok", "recv"),
			mk(func(c *rawCfg) { c.SendExp, c.RecvExp, c.SQ = 2*sec, 3*sec, 1 }, "send ok", "send ok", "adv 1.999999s", "adv 1us", "recv", "adv 3s", "conn", "send badhdr", "send nohdr"),
			// the connection fails with one message inside the transport and later ones queued behind it: the message
			// in flight may be lost, but the next peer gets the queued ones in order and nothing twice or late
			mk(func(c *rawCfg) { c.SQ = 4 }, "conngated", "send ok", "send ok", "send ok", "send ok", "drop p1", "conn", "send ok", "conngated", "drop p2", "conn", "send ok", "send ok"),
		}
	case "xpush":
		return []rawCfg{
			mk(id, "conn", "conn", "conn", "send ok", "send ok", "send ok", "send ok", "drop p2", "send ok", "send ok", "send ok", "recv"),
			// concurrent senders (small: the validator explores every order in which overlapping calls may take effect)
			mk(func(c *rawCfg) { c.SQ = 8 }, "conn", "burst 3 2", "burst 2 3", "conn", "burst 3 2", "burst 2 2"),
			mk(func(c *rawCfg) { c.SQ = 1 }, "conngated", "conngated", "send ok", "send ok", "send ok", "send ok", "release p1", "release p2", "release p1", "drop p2", "send ok", "release p1"),
			mk(func(c *rawCfg) { c.FailNoPeers, c.SQ = true, 1 }, "send ok", "conngated", "send ok", "send ok", "send ok", "drop p1", "send ok", "conn", "send ok"),
			mk(func(c *rawCfg) { c.BestEffort, c.SQ = true, 1 }, "send ok", "send ok", "send ok", "conn", "send ok"),
		}
	case "xbus", "xstar", "xpub", "xsurveyor":
		return []rawCfg{
			mk(id, "conn", "conn", "conn", "send ok", "inj p1 ok", "inj p2 ok", "recv", "recv", "send fwd", "send fwd", "send fwdgone", "drop p2", "send ok", "inj p3 ok", "recv"),
			mk(func(c *rawCfg) { c.SQ = 1 }, "conngated", "conn", "send ok", "send ok", "send ok", "release p1", "send ok", "release p1", "inj p2 ok", "inj p2 ok", "release p1"),
			mk(func(c *rawCfg) { c.TTL, c.RQ = 2, 1 }, "conn", "conn", "inj p1 ok", "inj p1 ok", "inj p1 ok", "inj p2 bad", "inj p2 short", "recv", "recv", "recv", "send nohdr"),
		}
	case "xrep", "xrespondent":
		return []rawCfg{
			mk(id, "conn", "conn", "inj p1 ok", "inj p2 ok", "recv", "recv", "send ok", "send ok", "send unknown", "send nohdr", "drop p1", "send gone", "send ok"),
			mk(func(c *rawCfg) { c.SQ, c.SendExp = 1, 2*sec }, "conngated", "send ok", "send ok", "send ok", "adv 2s", "drop p1", "send ok"),
			// a Send that waits for room in a slow peer's queue (no deadline) keeps nobody else from using the socket:
			// Recv runs into its own deadline meanwhile, options can be changed; the peer's departure ends the wait
			mk(func(c *rawCfg) { c.SQ, c.RecvExp = 1, sec }, "conngated", "send ok", "send ok", "send ok", "recv", "adv 0.999999s", "adv 1us", "rq 4", "recv", "drop p1", "adv 1s"),
		}
	}
	return []rawCfg{
		mk(id, "conn", "conn", "send ok", "inj p1 ok", "inj p2 ok", "inj p1 short", "recv", "recv", "recv", "drop p1", "inj p2 ok", "recv"),
		mk(func(c *rawCfg) { c.RQ, c.RecvExp = 1, 3*sec }, "conn", "inj p1 ok", "inj p1 ok", "inj p1 ok", "recv", "recv", "recv", "adv 3s"),
	}
}

// deadline grid (C18): a blocked call returns at exactly its deadline, never before; a call that can
// complete at once is not failed by it; best effort never blocks; fail-no-peers fails at once
func rawScripted(p rawProto) []rawCfg {
	out := rawScripted0(p)
	// a Recv that is parked while the receive queue is replaced by a longer, a shorter and an equally long one goes on
	// waiting on the new queue: the next message from the peer is delivered to it (patterns without Recv or without the
	// option leave the steps without effect)
	if p.cooked {
		// headers left on messages handed to a cooked socket (see mkSend)
		out = append(out, rawCfg{P: p, TTL: 8, SQ: 4, RQ: 2, Steps: []string{"conn", "send fwd", "send fwdgone", "send badhdr", "send ok", "conn", "send fwd"}})
	}
	// a connection goes away while one of its transport sends is in flight, and that send still succeeds (the bytes
	// had been taken): the departed connection is not used again - later messages go to the connections that are there
	switch p.eng {
	case "xpair", "xpair1", "xreq", "xpush", "xbus", "xstar", "xpub", "xsurveyor":
		out = append(out, rawCfg{P: p, TTL: 8, SQ: 2, RQ: 2, Steps: []string{"connlinger", "send ok", "drop p1", "releasel p1", "conn", "send ok", "send ok", "conn", "send ok"}},
			rawCfg{P: p, TTL: 8, SQ: 2, RQ: 2, Steps: []string{"conn", "connlinger", "send ok", "send ok", "send ok", "drop p2", "send ok", "releasel p2", "send ok", "send ok", "conn", "send ok"}})
	}
	// a connection attempt that completes after the socket was closed: the closed protocol refuses it (nothing of the
	// closed socket remains); one that completes while the socket is open is a connection like any other
	out = append(out, rawCfg{P: p, TTL: 8, SQ: 2, RQ: 2, Steps: []string{"predial", "sclose", "ansconn", "adv 1s"}},
		rawCfg{P: p, TTL: 8, SQ: 2, RQ: 2, Steps: []string{"conn", "predial", "send ok", "ansconn", "send ok", "inj p2 ok", "recv", "sclose"}})
	out = append(out, rawCfg{P: p, TTL: 8, SQ: 2, RQ: 2, Steps: []string{"conn", "recv", "rq 5", "inj p1 ok", "recv", "rq 1", "inj p1 ok",
		"recv", "rq 1", "inj p1 ok", "recv", "recv", "rq 3", "inj p1 ok", "inj p1 ok"}})
	return out
}

func rawDeadline(p rawProto) []rawCfg {
	var out []rawCfg
	us := time.Microsecond
	for _, d := range []time.Duration{1 * us, time.Millisecond, time.Second, 300 * time.Second} {
		just := (d - us).String()
		// send side: fill whatever queue there is behind a slow peer, then one more
		c := rawCfg{P: p, TTL: 8, SQ: 1, RQ: 1, SendExp: d, RecvExp: d}
		c.Steps = []string{"recv", "adv " + just, "adv 1us", "conngated", "send ok", "send ok", "send ok", "adv " + just, "adv 1us",
			"release p1", "send ok", "adv " + d.String(), "inj p1 ok", "recv", "recv", "adv " + just, "adv 1us"}
		out = append(out, c)
		c2 := c
		c2.SQ, c2.RQ = 0, 0
		if p.eng == "xpush" {
			c2.SQ = 1 // WriteQLen 0 on PUSH is the recorded known finding (own scenario)
		}
		c2.Steps = []string{"send ok", "adv " + just, "adv 1us", "conn", "recv", "adv " + just, "inj p1 ok", "adv 1us", "send ok", "recv", "adv " + d.String()}
		out = append(out, c2)
	}
	// the deadline of a Recv that is waiting is not pushed back by a queue length change
	for _, d := range []time.Duration{time.Second, 300 * time.Second} {
		rz := rawCfg{P: p, TTL: 8, SQ: 1, RQ: 2, RecvExp: d}
		rz.Steps = []string{"conn", "recv", "adv " + (d / 2).String(), "rq 3", "adv " + (d - d/2 - us).String(), "adv 1us", "inj p1 ok", "recv", "adv " + d.String()}
		out = append(out, rz)
	}
	be := rawCfg{P: p, TTL: 8, SQ: 1, RQ: 1, BestEffort: true, Steps: []string{"send ok", "send ok", "conngated", "send ok", "send ok", "send ok", "send ok", "adv 1s", "release p1", "send ok"}}
	out = append(out, be)
	// best effort together with a send deadline: best effort wins - nothing waits for the deadline
	be2 := be
	be2.SendExp = 2 * time.Second
	be2.Steps = []string{"send ok", "send ok", "send ok", "conngated", "send ok", "send ok", "send ok", "send ok", "adv 1.999999s", "adv 1us", "release p1", "send ok", "adv 3s"}
	out = append(out, be2)
	fnp := rawCfg{P: p, TTL: 8, SQ: 1, RQ: 1, FailNoPeers: true, SendExp: 5 * time.Second,
		Steps: []string{"send ok", "recv", "conngated", "send ok", "send ok", "send ok", "drop p1", "send ok", "conn", "send ok", "drop p2", "send ok"}}
	out = append(out, fnp)
	return out
}

func rawFromTLC(path string, p rawProto, rng *rand.Rand, n int) []rawCfg {
	sec := time.Second
	mixes := map[string]rawCfg{
		"a": {P: p, TTL: 8, SQ: 1, RQ: 1},
		"b": {P: p, TTL: 8, SQ: 1, RQ: 1, SendExp: 2 * sec, RecvExp: 3 * sec, FailNoPeers: true},
		"z": {P: p, TTL: 8, SQ: 0, RQ: 0},
	}
	data, err := os.ReadFile(path)
	if err != nil {
		panic(err)
	}
	var all []rawCfg
	for _, ln := range strings.Split(string(data), "\n") {
		if strings.TrimSpace(ln) == "" {
			continue
		}
		var x struct {
			Opt   string   `json:"opt"`
			Steps []string `json:"steps"`
		}
		if err := json.Unmarshal([]byte(ln), &x); err != nil {
			panic(err)
		}
		k := strings.LastIndex(x.Opt, "_")
		if k < 0 || x.Opt[:k] != p.eng {
			continue
		}
		c, ok := mixes[x.Opt[k+1:]]
		if !ok {
			panic("unknown option mix " + x.Opt)
		}
		if p.eng == "xpush" && c.SQ == 0 {
			c.SQ = 1 // WriteQLen 0 on PUSH is the recorded known finding (own scenario)
		}
		c.Steps = x.Steps
		all = append(all, c)
	}
	rng.Shuffle(len(all), func(i, j int) { all[i], all[j] = all[j], all[i] })
	if n < len(all) {
		all = all[:n]
	}
	return all
}

func TestRaw(t *testing.T) {
	only := os.Getenv("VERIF_RAW_PROTOS") // comma separated engine or protocol names
	rng := rand.New(rand.NewSource(seed()))
	for _, p := range rawProtos {
		if only != "" && !strings.Contains(","+only+",", ","+p.name+",") && !strings.Contains(","+only+",", ","+p.eng+",") {
			continue
		}
		out := newOut(t, "raw_"+p.name)
		if f := os.Getenv("VERIF_SCN_FILE"); f != "" {
			// scenarios TLC generated from spec/mc/MC_RawScn.tla for this engine (the configuration name = engine_mix)
			for i, cfg := range rawFromTLC(f, p, rng, count(400, 1000000)) {
				if out.Stop() {
					break
				}
				res, eff := runRaw(t, cfg, seed()*7919+int64(i))
				out.Add(fmt.Sprintf("%sscn-%d", p.name, i), eff, fmt.Sprint(cfg.P.name, cfg.Steps, cfg.SQ, cfg.RQ), res)
			}
			out.Close()
			continue
		}
		cfgs := rawScripted(p)
		if os.Getenv("VERIF_MIX") == "deadline" {
			cfgs = rawDeadline(p)
		}
		for i := 0; i < count(30, 400); i++ {
			cfgs = append(cfgs, rawRandom(p, rng))
		}
		for i, cfg := range cfgs {
			if out.Stop() {
				break
			}
			cfg.Steps = closeMix(cfg.Steps, rng, []string{"send ok", "recv", "send ok", "conn", "send fwd", "adv 1s", "recv", "send ok", "sclose"})
			res, eff := runRaw(t, cfg, seed()*7919+int64(i))
			out.Add(fmt.Sprintf("%s-%d", p.name, i), eff, fmt.Sprint(cfg.P.name, cfg.Steps, cfg.SQ, cfg.RQ), res)
		}
		out.Close()
	}
}

// TestRawPushSQ0: PUSH with WriteQLen 0 (an accepted value): a Send with a
// connected, idle PULL peer must complete (C02).  Kept apart from the random
// scenarios because the unchanged library is known not to (see
// known_findings.json); the traces are validated both for conformance and
// for the NoStuckSend property.
func TestRawPushSQ0(t *testing.T) {
	out := newOut(t, "raw_pushsq0")
	defer out.Close()
	i := 0
	for _, p := range rawProtos {
		if p.eng != "xpush" {
			continue
		}
		for _, steps := range [][]string{
			{"conn", "send ok", "adv 10s"},
			{"send ok", "conn", "adv 10s", "conn"},
			{"conn", "conn", "send ok", "send ok", "drop p1", "adv 1s"},
		} {
			cfg := rawCfg{P: p, TTL: 8, SQ: 0, RQ: 2, Steps: steps}
			res, eff := runRaw(t, cfg, int64(i))
			out.Add(fmt.Sprintf("pushsq0-%d", i), eff, fmt.Sprint(p.name, steps), res)
			i++
		}
	}
}

// TestRawStorm (C02 / C08 / C11): several application goroutines call Send back to back at the same time on a
// raw or cooked socket whose peers take everything at once; at every quiescence everything accepted must have
// been handed to the transports (once in all, or once per pipe for the broadcasting patterns) and no Send may
// be left waiting.  Validated by TraceBurst.tla (the quiescence law of RawSock.tla on counts).
func TestRawStorm(t *testing.T) {
	out := newOut(t, "rawstorm")
	defer out.Close()
	rounds := count(5000, 60000)
	for _, p := range rawProtos {
		mode := ""
		switch p.eng {
		case "xpush", "xpair", "xpair1", "xreq":
			mode = "one"
		case "xpub", "xbus", "xstar", "xsurveyor":
			mode = "all"
		default:
			continue
		}
		p, mode := p, mode
		res := sim.Run(t, 60*time.Second, func(s *sim.S) {
			s.Rec.SetSilent(true)
			sock := protocol.MakeSocket(p.mk())
			_ = sock.SetOption(mangos.OptionWriteQLen, 128)
			must(sock.Listen(s.Net.Addr("l1")))
			np := 2
			if p.eng == "xpair" || p.eng == "xpair1" {
				np = 1
			}
			var pipes []*vt.Pipe
			for i := 0; i < np; i++ {
				vp := s.Net.NewPipe(fmt.Sprintf("p%d", i+1))
				vp.SetQuiet(true)
				pipes = append(pipes, vp)
				s.Net.Listener("l1").Offer(vp)
			}
			s.Wait()
			var accepted, blocked atomic.Int64
			c := &rawScn{s: s, cfg: rawCfg{P: p, TTL: 8, SQ: 128, RQ: 8}, sock: sock, ids: hx.NewIDMap(), rng: rand.New(rand.NewSource(1)), pipes: map[string]*vt.Pipe{}}
			n := 0
			for r := 0; r < rounds; r++ {
				gate := make(chan struct{})
				k, m := 2+r%3, 1+r%2 // the interesting moment is the start of a round: the socket is idle, several Sends arrive at once
				for g := 0; g < k; g++ {
					var msgs []*mangos.Message
					for j := 0; j < m; j++ {
						hdr, _, _, _, _, _ := c.mkSend("ok")
						n++
						mm := mangos.NewMessage(16)
						mm.Header = append(mm.Header, hdr...)
						mm.Body = append(mm.Body, fmt.Sprintf("#%d", n)...)
						msgs = append(msgs, mm)
					}
					blocked.Add(1)
					go func() {
						<-gate
						for _, mm := range msgs {
							if err := sock.SendMsg(mm); err == nil {
								accepted.Add(1)
							} else {
								mm.Free()
							}
						}
						blocked.Add(-1)
					}()
				}
				close(gate)
				s.Wait()
				if r%250 != 249 && r != rounds-1 {
					continue // (a message left behind stays behind: looking now and then is enough)
				}
				sent := make([]int, len(pipes))
				dup := false
				seen := map[string]int{}
				for i, vp := range pipes {
					msgs := vp.Sent()
					sent[i] = len(msgs)
					per := map[string]bool{}
					for _, b := range msgs {
						tag := string(b[bytes.IndexByte(b, '#'):])
						if per[tag] {
							dup = true
						}
						per[tag] = true
						seen[tag]++
					}
				}
				if mode == "one" {
					for _, v := range seen {
						if v > 1 {
							dup = true
						}
					}
				}
				s.Rec.SetSilent(false)
				s.Rec.Emit("bq", "eng", p.name, "mode", mode, "accepted", int(accepted.Load()), "sent", sent, "blocked", int(blocked.Load()), "dup", dup)
				s.Rec.SetSilent(true)
			}
			_ = sock.Close()
			time.Sleep(2 * time.Second)
			s.Wait()
			if np != 1 {
				return
			}
			// connection storm (PAIR: at most one peer at a time): several connections arrive on several listeners
			// at the same moment - their Attaching callbacks wait for one another, so the protocol's decisions about
			// them are taken together; however they interleave, at most one is admitted
			const K = 5
			sock2 := protocol.MakeSocket(p.mk())
			for k := 0; k < K; k++ {
				must(sock2.Listen(s.Net.Addr(fmt.Sprintf("m%d", k))))
			}
			var hmu sync.Mutex
			arrived, live, most, admitted := 0, 0, 0, 0
			gate := make(chan struct{})
			sock2.SetPipeEventHook(func(ev mangos.PipeEvent, _ mangos.Pipe) {
				hmu.Lock()
				switch ev {
				case mangos.PipeEventAttaching:
					arrived++
					g := gate
					if arrived == K {
						close(g)
					}
					hmu.Unlock()
					<-g
					return
				case mangos.PipeEventAttached:
					live++
					admitted++
					if live > most {
						most = live
					}
				case mangos.PipeEventDetached:
					live--
				}
				hmu.Unlock()
			})
			crounds := count(400, 4000)
			if crounds > 20000 {
				crounds = 20000
			}
			for r := 0; r < crounds; r++ {
				var vps []*vt.Pipe
				for k := 0; k < K; k++ {
					vp := s.Net.NewPipe(fmt.Sprintf("c%d_%d", r, k))
					vp.SetQuiet(true)
					vps = append(vps, vp)
					s.Net.Listener(fmt.Sprintf("m%d", k)).Offer(vp)
				}
				s.Wait()
				for _, vp := range vps {
					vp.Drop()
				}
				s.Wait()
				hmu.Lock()
				arrived, gate = 0, make(chan struct{})
				hmu.Unlock()
			}
			hmu.Lock()
			s.Rec.SetSilent(false)
			s.Rec.Emit("bconn", "eng", p.name, "rounds", crounds, "admitted", admitted, "most", most, "live", live)
			s.Rec.SetSilent(true)
			hmu.Unlock()
			_ = sock2.Close()
			time.Sleep(2 * time.Second)
			s.Wait()
		})
		out.Add("storm-"+p.name, rec.Ev{"label": p.name}, p.name, res)
	}
}
