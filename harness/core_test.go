package harness

import (
	"encoding/json"
	"fmt"
	"math/rand"
	"os"
	"sort"
	"strings"
	"sync"
	"testing"
	"time"

	"go.nanomsg.org/mangos/v3"
	"go.nanomsg.org/mangos/v3/protocol"

	"verifharness/hx"
	"verifharness/rec"
	"verifharness/sim"
	"verifharness/vt"
)

// ---------------------------------------------------------------------------
// Core driver (C13, C14, core parts of C10 and C12): one socket over a stub
// protocol, one dialer and/or one listener on the virtual transport, a
// scripted pipe event hook.  Scenarios are sequences of environment steps;
// after each step the bubble is run to quiescence and the projected state is
// recorded.  The recorded traces are validated against spec/Core.tla.

type coreCfg struct {
	Asynch   bool
	MinT     time.Duration
	MaxT     time.Duration
	HasD     bool
	HasL     bool
	OnDialer bool // options set on the dialer itself; the socket keeps other values
	LateSock bool // options set on the socket after the dialer was created: the socket hands them down to its dialers
	Steps    []string
	Scripts  []string // per created pipe: none | closeAttaching | closeAttached | refuse | dropInAdd | closeInDetached
}

type coreScn struct {
	s        *sim.S
	cfg      coreCfg
	sock     mangos.Socket
	d        mangos.Dialer
	l        mangos.Listener
	pipes    []*vt.Pipe
	mp       map[string]mangos.Pipe
	mpMu     sync.Mutex
	script   map[string]string
	dwell    map[string]bool
	answered int
	npipe    int
	base     map[uint32]bool
	thr      int
}

func (c *coreScn) td() *vt.Dialer   { return c.s.Net.Dialer("d1") }
func (c *coreScn) tl() *vt.Listener { return c.s.Net.Listener("l1") }

func (c *coreScn) newPipe() *vt.Pipe {
	c.npipe++
	p := c.s.Net.NewPipe(fmt.Sprintf("p%d", c.npipe))
	sc := "none"
	if len(c.cfg.Scripts) >= c.npipe {
		sc = c.cfg.Scripts[c.npipe-1]
	}
	dwell := strings.HasSuffix(sc, "+dwell") // the callback stays inside for 150 ms (virtual) after closing the pipe
	sc = strings.TrimSuffix(sc, "+dwell")
	c.mpMu.Lock()
	c.script[p.Name] = sc
	if dwell {
		c.dwell[p.Name] = true
	}
	c.pipes = append(c.pipes, p)
	c.mpMu.Unlock()
	c.s.Rec.Emit("mkpipe", "p", p.Name, "script", sc)
	return p
}

func (c *coreScn) snap() {
	ids := 0
	for _, id := range protocol.VerifIDsInUse() {
		if !c.base[id] {
			ids++
		}
	}
	kv := []interface{}{"ids", ids, "listed", len(protocol.VerifSocketPipes(c.sock))}
	if c.d != nil {
		st, _ := protocol.VerifDialer(c.d)
		kv = append(kv, "rc", st.ReconnTime, "dact", st.Active, "dclosed", st.Closed)
	}
	if c.l != nil {
		cl, act, _ := protocol.VerifListener(c.l)
		kv = append(kv, "lact", act, "lclosed", cl)
	}
	c.s.Rec.Emit("snap", kv...)
}

func (c *coreScn) thread() string { return c.s.Thread() }

func (c *coreScn) step(st string) {
	s := c.s
	var arg string
	fmt.Sscanf(st, "%*s %s", &arg)
	op := st
	for i, ch := range st {
		if ch == ' ' {
			op, arg = st[:i], st[i+1:]
			break
		}
	}
	switch op {
	case "dial":
		if c.d != nil {
			d := c.d
			s.Call(c.thread(), "dial", "d1", nil, func() []interface{} { return []interface{}{"r", d.Dial()} })
		}
	case "ansok":
		if c.d != nil && c.td().Dials > c.answered {
			c.answered++
			c.td().Answer(c.newPipe(), nil)
		}
	case "ansfail":
		if c.d != nil && c.td().Dials > c.answered {
			c.answered++
			c.td().Answer(nil, mangos.ErrConnRefused)
		}
	case "offer":
		if c.l != nil {
			c.tl().Offer(c.newPipe())
		}
	case "listen":
		if c.l != nil {
			l := c.l
			s.Call(c.thread(), "listen", "l1", nil, func() []interface{} { return []interface{}{"r", l.Listen()} })
		}
	case "listenerr":
		if c.l != nil {
			s.Net.ListenErr["l1"] = mangos.ErrAddrInUse
		}
	case "drop":
		for _, p := range c.pipes {
			if p.Name == arg && !p.IsClosed() {
				s.Rec.Emit("drop", "p", p.Name)
				p.Drop()
			}
		}
	case "appclose":
		c.mpMu.Lock()
		mp := c.mp[arg]
		c.mpMu.Unlock()
		if mp != nil {
			s.Call(c.thread(), "pclose", arg, nil, func() []interface{} { return []interface{}{"r", mp.Close()} })
		}
	case "adv":
		d, _ := time.ParseDuration(arg)
		s.Adv(d)
		c.snap()
		return
	case "dclose":
		if c.d != nil {
			d := c.d
			s.Call(c.thread(), "dclose", "d1", nil, func() []interface{} { return []interface{}{"r", d.Close()} })
		}
	case "lclose":
		if c.l != nil {
			l := c.l
			s.Call(c.thread(), "lclose", "l1", nil, func() []interface{} { return []interface{}{"r", l.Close()} })
		}
	case "sclose":
		sock := c.sock
		s.Call(c.thread(), "sclose", "s", nil, func() []interface{} { return []interface{}{"r", sock.Close()} })
	case "setopt":
		// "setopt <min> <max> [dialer]": the reconnect times are changed while the dialer is at work (through the socket,
		// which hands them down, or on the dialer): they apply from the next reset / the next growth on - the delay
		// reached so far is not touched
		var mn, mx, where string
		fmt.Sscanf(arg, "%s %s %s", &mn, &mx, &where)
		dmin, _ := time.ParseDuration(mn)
		dmax, _ := time.ParseDuration(mx)
		var e1, e2 error
		if where == "dialer" && c.d != nil {
			e1 = c.d.SetOption(mangos.OptionReconnectTime, dmin)
			e2 = c.d.SetOption(mangos.OptionMaxReconnectTime, dmax)
		} else {
			e1 = c.sock.SetOption(mangos.OptionReconnectTime, dmin)
			e2 = c.sock.SetOption(mangos.OptionMaxReconnectTime, dmax)
		}
		s.Rec.Emit("setopt", "minT", int64(dmin/time.Microsecond), "maxT", int64(dmax/time.Microsecond), "r1", e1, "r2", e2)
	}
	s.Q()
	c.snap()
}

func runCore(t *testing.T, cfg coreCfg) sim.Result {
	return sim.Run(t, 10*time.Second, func(s *sim.S) {
		c := &coreScn{s: s, cfg: cfg, mp: map[string]mangos.Pipe{}, script: map[string]string{}, dwell: map[string]bool{}, base: map[uint32]bool{}}
		for _, id := range protocol.VerifIDsInUse() {
			c.base[id] = true
		}
		rp := &hx.RecProto{Protocol: &hx.Stub{}, Rec: s.Rec}
		scriptOf := func(name string) string { c.mpMu.Lock(); defer c.mpMu.Unlock(); return c.script[name] }
		rp.Refuse = func(name string) bool { return scriptOf(name) == "refuse" }
		rp.InAdd = func(name string) {
			if scriptOf(name) == "dropInAdd" {
				c.mpMu.Lock()
				pipes := append([]*vt.Pipe(nil), c.pipes...)
				c.mpMu.Unlock()
				// The peer goes away while proto.AddPipe is still running:
				// the protocol's receiver sees the failure before addPipe
				// has marked the pipe as added.
				for _, p := range pipes {
					if p.Name == name {
						s.Rec.Emit("drop", "p", name)
						p.Drop()
						p.WaitRecvFailed()
					}
				}
			}
		}
		c.sock = protocol.MakeSocket(rp)
		hx.Hook(c.sock, s.Rec, func(ev, name string, p mangos.Pipe) {
			c.mpMu.Lock()
			c.mp[name] = p
			c.mpMu.Unlock()
			if (ev == "attaching" && scriptOf(name) == "closeAttaching") ||
				(ev == "attached" && scriptOf(name) == "closeAttached") ||
				(ev == "detached" && scriptOf(name) == "closeInDetached") { // closing again what is already closed: allowed, no effect
				_ = p.Close()
				c.mpMu.Lock()
				dw := c.dwell[name]
				c.mpMu.Unlock()
				if dw && ev != "detached" {
					time.Sleep(150 * time.Millisecond)
				}
			}
		})
		if cfg.LateSock {
			// (set below, once the dialer exists)
		} else if cfg.OnDialer {
			_ = c.sock.SetOption(mangos.OptionReconnectTime, 3*time.Millisecond)
			_ = c.sock.SetOption(mangos.OptionMaxReconnectTime, 4*time.Millisecond)
			_ = c.sock.SetOption(mangos.OptionDialAsynch, !cfg.Asynch)
		} else {
			_ = c.sock.SetOption(mangos.OptionReconnectTime, cfg.MinT)
			_ = c.sock.SetOption(mangos.OptionMaxReconnectTime, cfg.MaxT)
			_ = c.sock.SetOption(mangos.OptionDialAsynch, cfg.Asynch)
		}
		var err error
		if cfg.HasD {
			var opts map[string]interface{}
			if cfg.OnDialer && !cfg.LateSock {
				opts = map[string]interface{}{mangos.OptionReconnectTime: cfg.MinT,
					mangos.OptionMaxReconnectTime: cfg.MaxT, mangos.OptionDialAsynch: cfg.Asynch}
			}
			if c.d, err = c.sock.NewDialer(s.Net.Addr("d1"), opts); err != nil {
				panic(err)
			}
		}
		if cfg.LateSock {
			_ = c.sock.SetOption(mangos.OptionReconnectTime, cfg.MinT)
			_ = c.sock.SetOption(mangos.OptionMaxReconnectTime, cfg.MaxT)
			_ = c.sock.SetOption(mangos.OptionDialAsynch, cfg.Asynch)
		}
		if cfg.HasL {
			if c.l, err = c.sock.NewListener(s.Net.Addr("l1"), nil); err != nil {
				panic(err)
			}
		}
		s.Q()
		c.snap()
		for _, st := range cfg.Steps {
			c.step(st)
		}
		// Final phase: close everything, let every timer run out, census.
		c.step("sclose")
		// a dial still waiting for the network's answer gets one
		if c.d != nil {
			for c.td().Dials > c.answered {
				c.step("ansfail")
			}
		}
		c.step("adv 600s")
		s.Wait()
		g := sim.Census()
		sort.Strings(g)
		s.Rec.Emit("census", "n", len(g), "g", fmt.Sprint(g))
	})
}

func coreCfgEv(c coreCfg) rec.Ev {
	return rec.Ev{"asynch": c.Asynch, "minT": c.MinT, "maxT": c.MaxT, "hasD": c.HasD, "hasL": c.HasL}
}

// scripted scenarios that must always be covered
func coreScripted() []coreCfg {
	ms := time.Millisecond
	return []coreCfg{
		{Asynch: false, MinT: 100 * ms, MaxT: 0, HasD: true, Steps: []string{"dial", "ansok", "drop p1", "adv 100ms", "ansok", "adv 1s"}},
		{Asynch: true, MinT: 100 * ms, MaxT: 400 * ms, HasD: true, Steps: []string{"dial", "ansfail", "adv 100ms", "ansfail", "adv 150ms", "ansfail", "adv 1s", "ansok", "drop p1", "adv 100ms", "ansfail", "adv 1s"}},
		{Asynch: false, MinT: 100 * ms, MaxT: 0, HasD: true, Steps: []string{"dial", "ansfail", "dial", "ansok", "adv 1s"}},
		{Asynch: false, MinT: 100 * ms, MaxT: 0, HasD: true, Scripts: []string{"closeAttaching"}, Steps: []string{"dial", "ansok", "adv 100ms", "ansok", "adv 1s"}},
		// the reconnect times are changed while the dialer is at work: a delay that has grown is kept (new maximum 0 = no
		// further growth; a lower maximum applies from the next failure on), the new initial value applies after the next
		// successful connection
		{Asynch: true, MinT: 100 * ms, MaxT: 400 * ms, HasD: true, Steps: []string{"dial", "ansfail", "adv 100ms", "ansfail", "adv 150ms", "setopt 100ms 0s", "ansfail", "adv 1s", "ansfail", "adv 1s", "ansok", "drop p1", "adv 100ms", "ansfail", "adv 1s"}},
		{Asynch: false, MinT: 50 * ms, MaxT: 400 * ms, HasD: true, Steps: []string{"dial", "ansok", "setopt 50ms 0s", "drop p1", "adv 50ms", "ansfail", "adv 50ms", "ansfail", "adv 50ms", "ansok", "adv 1s"}},
		{Asynch: true, MinT: 100 * ms, MaxT: 800 * ms, HasD: true, Steps: []string{"dial", "ansfail", "adv 100ms", "ansfail", "adv 150ms", "ansfail", "adv 300ms", "setopt 20ms 200ms dialer", "ansfail", "adv 1s", "ansfail", "adv 200ms", "ansok", "drop p1", "adv 20ms", "ansok", "adv 1s"}},
		{HasL: true, MinT: 100 * ms, Scripts: []string{"closeAttaching", "none"}, Steps: []string{"listen", "offer", "offer", "drop p2"}},
		{HasL: true, MinT: 100 * ms, Scripts: []string{"refuse", "closeAttached", "none"}, Steps: []string{"listen", "offer", "offer", "offer", "appclose p3"}},
		{HasL: true, MinT: 100 * ms, Scripts: []string{"dropInAdd", "none"}, Steps: []string{"listen", "offer", "offer"}},
		// the Detached callback closes the pipe once more (a no-op) - it runs outside every lock, the dialer redials meanwhile
		{HasL: true, MinT: 100 * ms, Scripts: []string{"closeInDetached", "none", "closeInDetached"}, Steps: []string{"listen", "offer", "offer", "drop p1", "offer", "appclose p3", "drop p2"}},
		{Asynch: true, MinT: 100 * ms, MaxT: 0, HasD: true, Scripts: []string{"closeInDetached", "closeInDetached"}, Steps: []string{"dial", "ansok", "drop p1", "adv 100ms", "ansok", "appclose p2", "adv 100ms", "ansok", "adv 1s"}},
		{HasL: true, MinT: 100 * ms, Steps: []string{"listenerr", "listen", "listen", "listen", "offer", "lclose", "offer"}},
		{Asynch: true, MinT: 100 * ms, MaxT: 100 * ms, HasD: true, Scripts: []string{"refuse", "dropInAdd"}, Steps: []string{"dial", "ansok", "adv 100ms", "ansok", "adv 100ms", "ansok", "dclose", "drop p3", "adv 1s"}},
		// a connection lost inside a callback that outlasts the reconnect time: the redial does not wait for the
		// callback (asynchronous dialing; Core.tla DialOK: a redial is over for the dialer once the connection exists)
		{Asynch: true, MinT: 100 * ms, MaxT: 0, HasD: true, Scripts: []string{"closeAttaching+dwell", "none"}, Steps: []string{"dial", "ansok", "adv 100ms", "ansok", "adv 49ms", "adv 1ms", "adv 1s"}},
		{Asynch: true, MinT: 100 * ms, MaxT: 0, HasD: true, Scripts: []string{"closeAttached+dwell", "closeAttaching+dwell", "none"}, Steps: []string{"dial", "ansok", "adv 100ms", "ansok", "adv 50ms", "adv 50ms", "ansok", "adv 1s"}},
		// the delay has grown over three failed attempts; then a connection comes up that the protocol refuses, one that
		// the hook closes in Attaching and one the peer drops during the protocol's AddPipe: none of them is a
		// successful attach, so the delay goes on from where it was (and is back at the start only after a real attach)
		{Asynch: true, MinT: 10 * ms, MaxT: 10000 * ms, HasD: true, Scripts: []string{"refuse", "closeAttaching", "none"}, Steps: []string{"dial", "ansfail", "adv 1s", "ansfail", "adv 1s", "ansfail", "adv 1s", "ansok", "adv 9ms", "adv 1ms", "adv 1s", "ansok", "adv 9ms", "adv 1ms", "adv 1s", "ansok", "adv 1s", "drop p3", "adv 9ms", "adv 1ms", "adv 1s"}},
	}
}

// failure storms: many consecutive refusals so that the backoff reaches and
// would pass its cap, then a success and a loss (reset), then again
func coreStorm(rng *rand.Rand) coreCfg {
	ms := time.Millisecond
	mins := []time.Duration{100 * ms, 10 * ms, 1 * ms}
	c := coreCfg{MinT: mins[rng.Intn(len(mins))], HasD: true, Asynch: rng.Intn(3) > 0, OnDialer: rng.Intn(2) == 0}
	c.LateSock = !c.OnDialer && rng.Intn(2) == 0
	facs := []float64{0, 1, 1.05, 1.3, 2, 5, 40}
	c.MaxT = time.Duration(float64(c.MinT) * facs[rng.Intn(len(facs))])
	c.Steps = []string{"dial"}
	if !c.Asynch {
		c.Steps = append(c.Steps, "ansok", "drop p1", "adv "+(2*c.MinT).String())
	}
	big := 60 * c.MinT
	for round := 0; round < 2; round++ {
		for i := 0; i < 4+rng.Intn(12); i++ {
			c.Steps = append(c.Steps, "ansfail", "adv "+big.String())
		}
		np := 1
		if !c.Asynch {
			np = 2
		}
		c.Steps = append(c.Steps, "ansok", "adv "+c.MinT.String(), fmt.Sprintf("drop p%d", np+round), "adv "+big.String())
	}
	return c
}

func coreRandom(rng *rand.Rand) coreCfg {
	ms := time.Millisecond
	mins := []time.Duration{100 * ms, 50 * ms, 7 * ms}
	c := coreCfg{MinT: mins[rng.Intn(len(mins))]}
	switch rng.Intn(4) {
	case 0:
		c.MaxT = 0
	case 1:
		c.MaxT = c.MinT
	case 2:
		c.MaxT = 3 * c.MinT
	case 3:
		c.MaxT = 20 * c.MinT
	}
	c.Asynch = rng.Intn(2) == 0
	c.OnDialer = rng.Intn(3) == 0
	c.LateSock = !c.OnDialer && rng.Intn(3) == 0
	switch rng.Intn(3) {
	case 0:
		c.HasD = true
	case 1:
		c.HasL = true
	default:
		c.HasD, c.HasL = true, true
	}
	scripts := []string{"none", "none", "none", "closeAttaching", "closeAttached", "refuse", "dropInAdd", "closeInDetached"}
	for i := 0; i < 8; i++ {
		c.Scripts = append(c.Scripts, scripts[rng.Intn(len(scripts))])
	}
	n := 4 + rng.Intn(14)
	np := 0
	if c.HasD {
		c.Steps = append(c.Steps, "dial")
	}
	if c.HasL && rng.Intn(5) > 0 {
		c.Steps = append(c.Steps, "listen")
	}
	advs := []time.Duration{c.MinT / 2, c.MinT - time.Microsecond, c.MinT, c.MinT + time.Microsecond, 2 * c.MinT, 10 * c.MinT, 100 * c.MinT}
	for i := 0; i < n; i++ {
		var opts []string
		if c.HasD {
			opts = append(opts, "ansok", "ansok", "ansfail", "ansfail", "dial")
			if rng.Intn(6) == 0 {
				opts = append(opts, "dclose")
			}
		}
		if c.HasL {
			opts = append(opts, "offer", "offer")
			if rng.Intn(6) == 0 {
				opts = append(opts, "lclose", "listen", "listenerr")
			}
		}
		opts = append(opts, "adv", "adv", "adv")
		if np > 0 {
			opts = append(opts, "drop", "drop", "appclose")
		}
		if rng.Intn(40) == 0 {
			opts = append(opts, "sclose")
		}
		o := opts[rng.Intn(len(opts))]
		switch o {
		case "ansok", "offer":
			np++
		case "adv":
			o = "adv " + advs[rng.Intn(len(advs))].String()
		case "drop", "appclose":
			o = fmt.Sprintf("%s p%d", o, 1+rng.Intn(np))
		}
		c.Steps = append(c.Steps, o)
	}
	return c
}

// coreFromTLC loads the scenarios TLC generated from spec/mc/MC_CoreScn.tla: steps, with the script of each new
// connection attached to the step that makes it ("ansok:refuse", "offer:closeAttached").
func coreFromTLC(path string, rng *rand.Rand, n int) []coreCfg {
	ms := time.Millisecond
	mixes := map[string]coreCfg{
		"as": {Asynch: true, MinT: 10 * ms, MaxT: 40 * ms, HasD: true, HasL: true},
		"sy": {Asynch: false, MinT: 10 * ms, MaxT: 0, HasD: true, HasL: true},
	}
	data, err := os.ReadFile(path)
	if err != nil {
		panic(err)
	}
	var all []coreCfg
	for _, ln := range strings.Split(string(data), "\n") {
		if strings.TrimSpace(ln) == "" {
			continue
		}
		var x struct {
			Opt   string   `json:"opt"`
			Steps []string `json:"steps"`
		}
		if err := json.Unmarshal([]byte(ln), &x); err != nil {
			panic(err)
		}
		c, ok := mixes[x.Opt]
		if !ok {
			panic("unknown option mix " + x.Opt)
		}
		for _, st := range x.Steps {
			if i := strings.Index(st, ":"); i >= 0 {
				c.Scripts = append(c.Scripts, st[i+1:])
				st = st[:i]
			}
			c.Steps = append(c.Steps, st)
		}
		all = append(all, c)
	}
	rng.Shuffle(len(all), func(i, j int) { all[i], all[j] = all[j], all[i] })
	if n < len(all) {
		all = all[:n]
	}
	return all
}

func TestCore(t *testing.T) {
	out := newOut(t, "core")
	defer out.Close()
	rng := rand.New(rand.NewSource(seed()))
	if f := os.Getenv("VERIF_SCN_FILE"); f != "" {
		for i, cfg := range coreFromTLC(f, rng, count(400, 1000000)) {
			if out.Stop() {
				break
			}
			res := runCore(t, cfg)
			out.Add(fmt.Sprintf("corescn-%d", i), coreCfgEv(cfg), fmt.Sprint(cfg), res)
		}
		return
	}
	var cfgs []coreCfg
	cfgs = append(cfgs, coreScripted()...)
	for i := 0; i < count(60, 600); i++ {
		cfgs = append(cfgs, coreRandom(rng))
		if i%4 == 0 || os.Getenv("VERIF_CORE_MIX") == "storm" {
			cfgs = append(cfgs, coreStorm(rng))
		}
	}
	for i, cfg := range cfgs {
		if out.Stop() {
			break
		}
		cfg.Steps = closeMix(cfg.Steps, rng, []string{"dial", "listen", "offer", "ansok", "adv 1s", "dclose", "lclose", "sclose"})
		res := runCore(t, cfg)
		out.Add(fmt.Sprintf("core-%d", i), coreCfgEv(cfg), fmt.Sprint(cfg), res)
	}
}
