#!/usr/bin/env python3
"""Runner of the mangos verification checks.

  python3 /verif/run.py <PROPERTY> [--tier quick|thorough] [--replay DIR]

For one property it (1) runs the TLC jobs of the property on the TLA+
specification (exhaustive within the constants of the cfg), (2) rebuilds the
conformance harness from /repo's current working tree (-tags verif) and runs
the property's drivers against the real code, (3) has TLC validate every
recorded trace against the trace specification, (4) writes
/verif/evidence/<id>.json and prints
    VIOLATION property=<id> replay=<path>     (exit 1)
for every violation that is not listed in known_findings.json, or
    KNOWN-FINDING: property=<id> <what fails> (exit 0)
for listed ones.  Infrastructure failures (TLC crash, build failure, timeout)
exit 2 and are never reported as violations.
"""
import sys, os, re, json, time, subprocess, shutil, hashlib, argparse, glob

V = '/verif'
BUILD = V + '/.build'
GOENV = dict(GOFLAGS='-mod=mod', GOPROXY='off', GOSUMDB='off', GOTOOLCHAIN='local')
GO = 'go1.26.8'

sys.path.insert(0, V)
from checks import CHECKS  # noqa: E402


def log(*a):
    print(*a, flush=True)


class Infra(Exception):
    pass


# --------------------------------------------------------------------------- TLC

def tlc(module, cfg, workers=16, timeout=1500, extra=None, env=None, dfs=False):
    e = dict(os.environ)
    if env:
        e.update(env)
    if dfs:
        e['JAVA_TOOL_OPTIONS'] = '-Dtlc2.tool.queue.IStateQueue=StateDeque'
    cmd = [V + '/tools/tlcrun.sh', V + '/spec', module, cfg, '-workers', str(workers)] + (extra or [])
    t0 = time.time()
    try:
        p = subprocess.run(cmd, env=e, capture_output=True, text=True, timeout=timeout)
    except subprocess.TimeoutExpired:
        raise Infra('TLC timeout on %s/%s after %ds' % (module, cfg, timeout))
    out = p.stdout + p.stderr
    r = {'module': module, 'cfg': cfg, 'wall_s': round(time.time() - t0, 1), 'out': out, 'rc': p.returncode}
    m = re.search(r'(\d+) states generated, (\d+) distinct states found', out)
    if m:
        r['generated'], r['distinct'] = int(m.group(1)), int(m.group(2))
    m = re.search(r'depth of the complete state graph search is (\d+)', out)
    if m:
        r['depth'] = int(m.group(1))
    r['violated'] = re.findall(r'(?:Invariant|property|Property) (\S+) (?:is|was) violated', out)
    m = re.search(r'Temporal properties (.*?) were violated', out)
    if m and not r['violated']:
        r['violated'] = [x for x in re.split(r',\s*|\s+and\s+|\s+', m.group(1)) if x and x != 'and']
    if 'Temporal properties were violated' in out and not r['violated']:
        r['violated'] = ['temporal']
    r['completed'] = 'Model checking completed. No error has been found.' in out
    if not r['completed'] and not r['violated'] and 'TRACE_HIGHWATER' not in out and 'exit' not in (extra or []):
        if re.search(r'Error:|Exception|error', out) and 'TLCSet' not in out:
            r['error'] = out[-3000:]
    return r


def exhaustive_job(job, ev):
    """An exhaustive TLC run of a specification module: all invariants of
    the cfg must hold."""
    r = tlc(job['module'], job['cfg'], workers=job.get('workers', 16),
            timeout=job.get('timeout', 5400 if job.get('tiers') == ('thorough',) else 1500),   # (a busy machine is not a verdict)
            extra=job.get('extra'))
    if r.get('error') or (not r['completed'] and not r['violated']):
        raise Infra('TLC failed on %s/%s:\n%s' % (job['module'], job['cfg'], r['out'][-3000:]))
    ev['tlc_runs'].append({k: r.get(k) for k in ('module', 'cfg', 'generated', 'distinct', 'depth', 'wall_s', 'violated')})
    ev['states'] += r.get('distinct', 0)
    ev['transitions'] += r.get('generated', 0)
    if r['violated']:
        return [{'kind': 'spec', 'what': 'TLC: %s violated on %s/%s' % (','.join(r['violated']), job['module'], job['cfg']),
                 'detail': r['out'][-6000:]}]
    return []


# --------------------------------------------------------------------- harness

_built = False


def build_harness():
    global _built
    if _built:
        return
    os.makedirs(BUILD, exist_ok=True)
    shutil.copy('/repo/go.sum', V + '/harness/go.sum')
    e = dict(os.environ, **GOENV)
    t0 = time.time()
    p = subprocess.run([GO, 'test', '-c', '-tags', 'verif', '-o', BUILD + '/harness.test', '.'],
                       cwd=V + '/harness', env=e, capture_output=True, text=True)
    if p.returncode != 0:
        # a tree that does not compile with the hooks on is not a property violation
        raise Infra('harness build failed:\n' + p.stdout + p.stderr)
    log('built harness in %.1fs' % (time.time() - t0))
    _built = True


def drive(test, outdir, tier, seed, n=None, timeout=1500, env=None):
    build_harness()
    os.makedirs(outdir, exist_ok=True)
    e = dict(os.environ, VERIF_OUT=outdir, VERIF_TIER=tier, VERIF_SEED=str(seed))
    if n:
        e['VERIF_N'] = str(n)
    if env:
        e.update(env)
    t0 = time.time()
    try:
        p = subprocess.run([BUILD + '/harness.test', '-test.run', '^' + test + '$', '-test.count=1',
                            '-test.timeout', '%ds' % timeout], cwd=V + '/harness', env=e, capture_output=True,
                           text=True, timeout=timeout + 30)
    except subprocess.TimeoutExpired:
        raise Infra('driver %s timed out' % test)
    return {'rc': p.returncode, 'out': p.stdout + p.stderr, 'wall_s': round(time.time() - t0, 1)}


def load_traces(path):
    traces, cur = [], None
    with open(path) as f:
        for ln, line in enumerate(f, 1):
            try:
                e = json.loads(line)
            except Exception:
                continue
            if e.get('k') == 'reset':
                cur = {'start': ln, 'label': e.get('label'), 'cfg': e, 'lines': []}
                traces.append(cur)
            elif cur is not None:
                cur['lines'].append(e)
    return traces


def validate(tmodule, trace_file, timeout=1500):
    """TLC decides whether some behaviour of the specification explains the
    whole batch.  Returns (accepted, highwater, nlines, states)."""
    r = tlc(tmodule, tmodule + '.cfg', workers=1, timeout=timeout, env={'VERIF_TRACE': trace_file}, dfs=True)
    out = r['out']
    m = re.search(r'"TRACE_HIGHWATER", (\d+), (\d+)', out)
    if not m:
        raise Infra('trace validation did not produce a verdict (%s):\n%s' % (tmodule, out[-3000:]))
    hw, n = int(m.group(1)), int(m.group(2))
    if re.search(r'Error: (?!.*TLCSet)', out) and hw <= n and 'Model checking completed' not in out:
        raise Infra('TLC error during trace validation (%s):\n%s' % (tmodule, out[-3000:]))
    return hw > n, hw, n, r.get('distinct', 0), r.get('generated', 0)


def wellformed(tr):
    """The recorder's own sanity: monotone sequence numbers and times, every
    ret has a call."""
    last_i, last_t, calls = 0, 0, set()
    for e in tr['lines']:
        if e['k'] == 'end':
            continue
        if e['i'] <= last_i or e['t'] < last_t:
            return 'non-monotone event %r' % e
        last_i, last_t = e['i'], e['t']
        if e['k'] in ('call', 'callc'):
            calls.add(e['th'])
        if e['k'] == 'ret':
            if e['th'] not in calls:
                return 'ret without call %r' % e
            calls.discard(e['th'])
    return None


def write_sub(trace_file, traces, sel, dest):
    """Write the selected traces (by index) to a new batch file."""
    with open(trace_file) as f:
        lines = f.readlines()
    with open(dest, 'w') as g:
        for k in sel:
            s = traces[k]['start'] - 1
            e = traces[k + 1]['start'] - 1 if k + 1 < len(traces) else len(lines)
            g.writelines(lines[s:e])


def gen_scenarios(job, ev, ctx, dest):
    """Direction 1 (specification -> implementation): TLC explores a scenario-generating configuration of the
    module (internal actions eager, environment actions logged in `envlog`, which is outside the VIEW) and prints
    the environment step sequence of every environment transition it generates from a distinct quiescent state.
    The maximal sequences are the scenarios the driver then executes on the real code."""
    scn = set()
    for module, cfgs in job['scn']:
        for cfg in cfgs[ctx['tier']]:
            r = tlc(module, cfg, workers=8, timeout=job.get('scn_timeout', 900))
            if not r['completed']:
                raise Infra('scenario generation %s/%s did not complete:\n%s' % (module, cfg, r['out'][-2000:]))
            flat = re.sub(r'\s+', ' ', r['out'])
            for m in re.finditer(r'<< ?"SCN", "([^"]*)", <<([^<>]*)>> ?>>', flat):
                scn.add((m.group(1), tuple(re.findall(r'"([^"]*)"', m.group(2)))))
            ev['tlc_runs'].append({'module': module, 'cfg': cfg, 'generated': r.get('generated'), 'distinct': r.get('distinct'),
                                   'depth': r.get('depth'), 'wall_s': r['wall_s'], 'violated': [], 'purpose': 'scenario generation'})
            ev['states'] += r.get('distinct', 0)
            ev['transitions'] += r.get('generated', 0)
    # keep the maximal sequences only (a scenario covers the transitions of all its prefixes)
    pref = set()
    for o, st in scn:
        for k in range(1, len(st)):
            pref.add((o, st[:k]))
    keep = sorted(x for x in scn if x not in pref)
    if not keep:
        raise Infra('scenario generation produced nothing')
    with open(dest, 'w') as f:
        for o, st in keep:
            f.write(json.dumps({'opt': o, 'steps': list(st)}) + '\n')
    ev.setdefault('scenario_generation', []).append({'env_transitions_printed': len(scn), 'maximal_scenarios': len(keep)})
    log('generated %d scenarios (%d environment transitions) from %s' % (len(keep), len(scn), ', '.join(m for m, _ in job['scn'])))
    return dest


def conformance_job(job, ev, ctx):
    """Drive the real code, validate the traces."""
    name = job['name']
    outdir = '%s/out/%s-%s' % (BUILD, ctx['pid'], name)
    shutil.rmtree(outdir, ignore_errors=True)
    n = job.get('n', {}).get(ctx['tier'])
    jenv = dict(job.get('env') or {})
    if job.get('scn'):
        os.makedirs(outdir, exist_ok=True)
        jenv['VERIF_SCN_FILE'] = gen_scenarios(job, ev, ctx, outdir + '/scenarios.jsonl')
    d = drive(job['test'], outdir, ctx['tier'], ctx['seed'], n=n, env=jenv, timeout=job.get('timeout', 1500))
    viol = []
    fname = job.get('file', name)      # the driver's own output name when the job name differs from it
    statusf = '%s/%s.status.json' % (outdir, fname)
    tracef = '%s/%s.ndjson' % (outdir, fname)
    crashed = d['rc'] != 0
    if not os.path.exists(tracef):
        raise Infra('driver %s produced no trace file\n%s' % (job['test'], d['out'][-3000:]))
    sts = json.load(open(statusf)) if os.path.exists(statusf) else []
    if crashed:
        # The test binary died.  A panic / fatal error with library frames is the
        # library's doing; anything else is ours.
        o = d['out']
        lib = re.search(r'go\.nanomsg\.org/mangos/v3[^\n]*\n\s+/repo/', o)
        if ('panic:' in o or 'fatal error:' in o) and lib:
            viol.append({'kind': 'crash', 'what': 'process crashed in library code: ' +
                         (re.search(r'(panic:[^\n]*|fatal error:[^\n]*)', o).group(1)), 'detail': o[-8000:],
                         'key': 'crash ' + (re.search(r'(panic:[^\n]*|fatal error:[^\n]*)', o).group(1))})
        else:
            raise Infra('driver %s failed (rc=%d):\n%s' % (job['test'], d['rc'], o[-4000:]))
    traces = load_traces(tracef)
    for st in sts:
        if st['status'] != 'ok':
            viol.append({'kind': st['status'], 'label': st['label'],
                         'what': '%s in scenario %s %s' % (st['status'], st['label'], st['desc'][:300]),
                         'detail': st.get('detail', ''), 'desc': st['desc'],
                         'key': '%s %s' % (st['status'], summarize_stack(st.get('detail', '')))})
    bad = {v.get('label') for v in viol}
    for tr in traces:
        w = wellformed(tr)
        if w:
            raise Infra('malformed trace %s: %s' % (tr['label'], w))
    # validate everything that completed; drop rejected traces one by one so that one
    # rejection never hides another (up to a few, then stop)
    sel = [k for k, tr in enumerate(traces) if tr['label'] not in bad and tr['lines'] and tr['lines'][-1].get('k') == 'end']
    nvalid, states, trans = 0, 0, 0
    tmod = job['trace_module']
    rounds = 0
    while sel and rounds < 6:
        rounds += 1
        sub = '%s/%s.sel%d.ndjson' % (outdir, name, rounds)
        write_sub(tracef, traces, sel, sub)
        ok, hw, nl, st, tn = validate(tmod, sub, timeout=job.get('vtimeout', 1500))
        states += st
        trans += tn
        if ok:
            nvalid += len(sel)
            break
        # which trace holds line hw?
        acc, k_bad, off = 0, None, 0
        for idx, k in enumerate(sel):
            ln = len(traces[k]['lines']) + 1
            if hw <= acc + ln:
                k_bad, off = idx, hw - acc
                break
            acc += ln
        if k_bad is None:
            raise Infra('cannot locate rejected line %d' % hw)
        tr = traces[sel[k_bad]]
        rej = tr['lines'][off - 2] if off >= 2 else tr['cfg']
        viol.append({'kind': 'reject', 'label': tr['label'],
                     'what': 'trace %s is not a behaviour of %s: no explanation for line %d %s' %
                             (tr['label'], tmod.replace('Trace', ''), off, json.dumps(rej)[:300]),
                     'trace': tr, 'line': off, 'key': 'reject ' + reject_key(rej)})
        nvalid += k_bad
        sel = sel[k_bad + 1:]
    ev['traces_validated_against_impl'] += nvalid
    ev['evaluations'] += len(traces)
    ev['trace_events'] += sum(len(t['lines']) for t in traces)
    ev['trace_states'] += states
    sigs = set()
    for tr in traces:
        sig = hashlib.sha1('|'.join(x['k'] + str(x.get('ev', '')) + str(x.get('op', '')) + str(x.get('r', ''))
                                    for x in tr['lines']).encode()).hexdigest()
        if len(tr['lines']) > job.get('trivial_len', 8):
            sigs.add(sig)
    ev['distinct_nontrivial'] += len(sigs)
    if traces and len(ev['samples']) < 4:
        t = traces[min(len(traces) - 1, 1)]
        ev['samples'].append({'driver': job['test'], 'scenario': t['label'], 'config': {k: v for k, v in t['cfg'].items() if k not in ('i', 't', 'k')},
                              'first_events': [compact(x) for x in t['lines'][:14]]})
    ev['drivers'].append({'test': job['test'], 'scenarios': len(traces), 'validated': nvalid, 'wall_s': d['wall_s'],
                          'trace_module': tmod})
    return viol


def compact(e):
    return ' '.join('%s=%s' % (k, e[k]) for k in sorted(e) if k not in ('i',))


def summarize_stack(detail):
    fr = re.findall(r'go\.nanomsg\.org/mangos/v3/([\w/]+\.\(?\*?\w+\)?\.\w+)', detail)
    return fr[0] if fr else ''


def reject_key(e):
    return ' '.join('%s=%s' % (k, e.get(k)) for k in ('k', 'op', 'ev', 'r') if k in e)


# ------------------------------------------------------------------------ main

def known_findings():
    try:
        return json.load(open(V + '/known_findings.json'))
    except Exception:
        return {'findings': [], 'fixed': []}


def is_known(pid, v, kf):
    for f in kf.get('findings', []):
        if f['property'] != pid:
            continue
        if all(re.search(pat, str(v.get(field, ''))) for field, pat in f['match'].items()):
            return f
    return None


def main():
    ap = argparse.ArgumentParser()
    ap.add_argument('prop')
    ap.add_argument('--tier', default=os.environ.get('VERIF_TIER', 'quick'))
    ap.add_argument('--replay')
    a = ap.parse_args()
    pid = a.prop
    tier = a.tier if a.tier in ('quick', 'thorough') else 'quick'
    try:
        seed = int(os.environ.get('VERIF_SEED', '1'))
    except ValueError:
        seed = 1
    if pid not in CHECKS:
        log('unknown property', pid)
        return 2
    chk = CHECKS[pid]
    t0 = time.time()
    ev = {'tlc_runs': [], 'drivers': [], 'states': 0, 'transitions': 0, 'traces_validated_against_impl': 0,
          'evaluations': 0, 'distinct_nontrivial': 0, 'samples': [], 'trace_events': 0, 'trace_states': 0}
    ctx = {'pid': pid, 'tier': tier, 'seed': seed}
    viol = []
    only = [x for x in os.environ.get('VERIF_ONLY', '').split(',') if x]   # development aid: run the named jobs only (no evidence is written)
    try:
        if a.replay:
            return replay(pid, a.replay, chk)
        for job in chk['jobs']:
            if tier not in job.get('tiers', ('quick', 'thorough')):
                continue
            if only and (job.get('name') or job.get('cfg')) not in only:
                continue
            log('[%s] job %s' % (pid, job.get('name') or job.get('cfg')))
            if job['type'] == 'tlc':
                viol += exhaustive_job(job, ev)
            elif job['type'] == 'conformance':
                viol += conformance_job(job, ev, ctx)
            elif job['type'] == 'custom':
                ctx['api'] = {'drive': drive, 'validate': validate, 'tlc': tlc, 'load_traces': load_traces, 'Infra': Infra,
                              'BUILD': BUILD, 'compact': compact}
                viol += job['fn'](job, ev, ctx)
    except Infra as x:
        log('BROKEN (infrastructure, not a verdict): %s' % x)
        return 2
    kf = known_findings()
    unknown, known = [], []
    for v in viol:
        f = is_known(pid, v, kf)
        (known if f else unknown).append((v, f))
    printed = set()
    for v, f in known:
        if f['id'] in printed:
            continue
        printed.add(f['id'])
        log('KNOWN-FINDING: property=%s %s (%d occurrence(s))' % (pid, f['what'], sum(1 for _, g in known if g['id'] == f['id'])))
    rc = 0
    seen = set()
    for v, _ in unknown:
        path = save_replay(pid, v)
        if v.get('key') in seen:
            continue
        seen.add(v.get('key'))
        log('VIOLATION property=%s replay=%s' % (pid, path))
        log('  ' + v['what'][:500])
        rc = 1
    if not only:
        write_evidence(pid, chk, tier, seed, ev, len(unknown), time.time() - t0, [f['id'] for _, f in known])
    log('[%s] %s tier: %d violation(s), %d known finding(s), %.0fs' % (pid, tier, len(unknown), len(known), time.time() - t0))
    return rc


def save_replay(pid, v):
    d = '%s/replays/%s/%s-%s' % (V, pid, time.strftime('%Y%m%d-%H%M%S'), hashlib.sha1(v['what'].encode()).hexdigest()[:8])
    os.makedirs(d, exist_ok=True)
    info = {k: v[k] for k in v if k not in ('trace',)}
    json.dump(info, open(d + '/violation.json', 'w'), indent=1)
    if 'trace' in v:
        tr = v['trace']
        with open(d + '/trace.ndjson', 'w') as f:
            f.write(json.dumps(tr['cfg']) + '\n')
            for e in tr['lines']:
                f.write(json.dumps(e) + '\n')
    open(d + '/README', 'w').write('python3 /verif/run.py %s --replay %s\n%s\n' % (pid, d, v['what']))
    return d


def replay(pid, path, chk):
    """Re-validate a stored trace (deterministic verdict of TLC on it)."""
    tf = path + '/trace.ndjson'
    info = json.load(open(path + '/violation.json'))
    log(info.get('what'))
    if os.path.exists(tf):
        for job in chk['jobs']:
            if job['type'] == 'conformance':
                try:
                    ok, hw, n, st, tn = validate(job['trace_module'], tf)
                except Infra:
                    continue
                log('%s: %s (matched %d of %d lines)' % (job['trace_module'], 'accepted' if ok else 'REJECTED', min(hw, n), n))
                if not ok:
                    lines = open(tf).read().splitlines()
                    for i in range(max(0, hw - 8), min(len(lines), hw + 1)):
                        log(('>> ' if i + 1 == hw else '   ') + lines[i][:240])
                    return 1
    else:
        log(info.get('detail', '')[:4000])
        return 1
    return 0


def write_evidence(pid, chk, tier, seed, ev, nviol, wall, known_ids):
    os.makedirs(V + '/evidence', exist_ok=True)
    cov = {
        'states': ev['states'] + ev['trace_states'],
        'transitions': ev['transitions'],
        'traces_validated_against_impl': ev['traces_validated_against_impl'],
        'samples': ev['samples'] or [{'note': 'no driver in this tier'}],
        'evaluations': max(ev['evaluations'], 1),
        'distinct_nontrivial': ev['distinct_nontrivial'],
        'rule': chk.get('rule', 'scenarios are generated from the seeded environment alphabet of the driver; a scenario '
                        'counts as distinct and non-trivial when its sequence of (event kind, operation, result) '
                        'differs from every other and it has more than 8 events'),
        'exhaustive': bool(ev['tlc_runs']) and not chk.get('not_exhaustive', False),
        'exhaustive_scope': 'the TLC runs listed under tlc_runs are exhaustive within the constants of their cfg; '
                            'the conformance side is bounded by the scenarios replayed (evaluations)',
        'tlc_runs': ev['tlc_runs'],
        'spec_states_exhaustive': ev['states'],
        'trace_validation_states': ev['trace_states'],
        'trace_events': ev['trace_events'],
        'drivers': ev['drivers'],
        'known_findings_seen': known_ids,
        'scenario_generation': ev.get('scenario_generation', []),   # scenarios TLC generated from the specification (direction 1)
    }
    doc = {'property_id': pid, 'tier': tier, 'seed': seed, 'level': chk['level'], 'coverage': cov,
           'assumptions': chk.get('assumptions', []), 'wall_s': round(wall, 1), 'violations': nviol}
    json.dump(doc, open('%s/evidence/%s.json' % (V, pid), 'w'), indent=1)


if __name__ == '__main__':
    sys.exit(main())
