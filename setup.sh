#!/bin/sh
# Offline setup: nothing to fetch; pre-build the conformance harness once so
# that the first check does not pay for it (every check rebuilds it anyway).
set -e
export GOFLAGS=-mod=mod GOPROXY=off GOSUMDB=off GOTOOLCHAIN=local
mkdir -p /verif/.build /verif/evidence
cp /repo/go.sum /verif/harness/go.sum
cd /verif/harness && go1.26.8 test -c -tags verif -o /verif/.build/harness.test . 
echo setup ok
