"""Table of checks: which TLC jobs and which conformance drivers decide each property."""

ASSUME_COMMON = [
    'TLC 1.8.0 and the TLA+ standard/community modules are correct',
    'Go 1.26.8 testing/synctest semantics (virtual time, durable blocking) are as documented',
    'the virtual transport (harness/vt) and the recorder (harness/rec) report the calls the library makes faithfully',
    'the read-only verif accessors (build tag verif) project the library state faithfully',
]


def T(module, cfg, **kw):
    d = {'type': 'tlc', 'module': module, 'cfg': cfg, 'name': cfg}
    d.update(kw)
    return d


def C(name, test, tmod, **kw):
    d = {'type': 'conformance', 'name': name, 'test': test, 'trace_module': tmod}
    d.update(kw)
    return d


CHECKS = {
    'C03': {
        'level': 'model_checking',
        'jobs': [
            T('MC_Req', 'Req_q03.cfg'),
            T('MC_Req', 'Req_1ctx.cfg', tiers=('thorough',)),
            T('MC_Req', 'Req_2ctx_retry.cfg', tiers=('thorough',)),
            T('MC_Req', 'Req_2ctx_deadl.cfg', tiers=('thorough',)),
            C('req', 'TestReq', 'TraceReq', n={'quick': 120, 'thorough': 1500}),
        ],
        'assumptions': ASSUME_COMMON,
    },
    'C04': {
        'level': 'model_checking',
        'jobs': [
            T('MC_Req', 'Req_q04.cfg'),
            T('MC_Req', 'Req_2ctx_retry.cfg', tiers=('thorough',)),
            T('MC_Req', 'Req_1ctx_all.cfg', tiers=('thorough',)),
            C('req', 'TestReq', 'TraceReq', n={'quick': 60, 'thorough': 1000}, env={'VERIF_REQ_MIX': 'faults'}),
        ],
        'assumptions': ASSUME_COMMON,
    },
    'C05': {
        'level': 'model_checking',
        'jobs': [
            T('MC_RepLike', 'Rep_quick.cfg'),
            T('MC_RepLike', 'Respondent_quick.cfg'),
            T('MC_RepLike', 'Rep_plain.cfg', tiers=('thorough',)),
            T('MC_RepLike', 'Respondent_plain.cfg', tiers=('thorough',)),
            C('rep', 'TestRep', 'TraceRep', n={'quick': 100, 'thorough': 1200}),
            C('respondent', 'TestRespondent', 'TraceRespondent', n={'quick': 100, 'thorough': 1200}),
        ],
        'assumptions': ASSUME_COMMON,
    },
    'C06': {
        'level': 'model_checking',
        'jobs': [
            T('MC_Sub', 'Sub_quick.cfg'),
            T('MC_Sub', 'Sub_full.cfg', tiers=('thorough',)),
            C('sub', 'TestSub', 'TraceSub', n={'quick': 120, 'thorough': 1500}),
        ],
        'assumptions': ASSUME_COMMON,
    },
    'C07': {
        'level': 'model_checking',
        'jobs': [
            T('MC_Surveyor', 'Surveyor_quick.cfg'),
            T('MC_Surveyor', 'Surveyor_full.cfg', tiers=('thorough',), timeout=3000),
            C('surveyor', 'TestSurveyor', 'TraceSurveyor', n={'quick': 120, 'thorough': 1500}),
            C('respondent', 'TestRespondent', 'TraceRespondent', n={'quick': 40, 'thorough': 400}),
        ],
        'assumptions': ASSUME_COMMON,
    },
    'C09': {
        'level': 'model_checking',
        'jobs': [
            T('MC_Hops', 'Hops_quick.cfg', workers=4),
            T('MC_Hops', 'Hops_full.cfg', workers=4, tiers=('thorough',), timeout=3000),
            C('hops', 'TestHops', 'TraceHops', trivial_len=3, vtimeout=3000),
        ],
        'rule': 'one injected message per (receiver, TTL, position of the terminating word or hop byte, number of complete '
                'words available); the eight receivers are REP, XREP, RESPONDENT, XRESPONDENT, PAIR1, XPAIR1, STAR, XSTAR; '
                'TTLs: quick {1,2,3,8,9,100,254,255}, thorough 1..255; a case is non-trivial when it has at least 3 events',
        'assumptions': ASSUME_COMMON,
    },
    'C13': {
        'level': 'model_checking',
        'jobs': [
            T('MC_Core', 'Core_C13.cfg'),
            T('MC_Core', 'Core_C13_full.cfg', tiers=('thorough',)),
            C('core', 'TestCore', 'TraceCore', n={'quick': 120, 'thorough': 1500}),
        ],
        'assumptions': ASSUME_COMMON,
    },
    'C14': {
        'level': 'model_checking',
        'jobs': [
            T('MC_Core', 'Core_C14_async.cfg'),
            T('MC_Core', 'Core_C14_sync.cfg'),
            T('MC_Core', 'Core_C14_nomax.cfg', tiers=('thorough',)),
            C('core', 'TestCore', 'TraceCore', n={'quick': 100, 'thorough': 1200}, env={'VERIF_CORE_MIX': 'storm'}),
        ],
        'assumptions': ASSUME_COMMON,
    },
}
