"""Table of checks: which TLC jobs and which conformance drivers decide each property."""

ASSUME_COMMON = [
    'TLC 1.8.0 and the TLA+ standard/community modules are correct',
    'Go 1.26.8 testing/synctest semantics (virtual time, durable blocking) are as documented',
    'the virtual transport (harness/vt) and the recorder (harness/rec) report the calls the library makes faithfully',
    'the read-only verif accessors (build tag verif) project the library state faithfully',
]


def T(module, cfg, **kw):
    d = {'type': 'tlc', 'module': module, 'cfg': cfg, 'name': cfg}
    d.update(kw)
    return d


def C(name, test, tmod, **kw):
    d = {'type': 'conformance', 'name': name, 'test': test, 'trace_module': tmod}
    d.update(kw)
    return d


def R(proto, eng, **kw):
    """conformance job for one raw / cooked protocol over the RawSock engine `eng`"""
    d = C('raw_' + proto, 'TestRaw', 'TraceRaw_' + eng, env={'VERIF_RAW_PROTOS': proto}, n={'quick': 25, 'thorough': 400})
    d.update(kw)
    return d


def RS(eng, **kw):
    """the raw engine driven through scenarios TLC generates from spec/mc/MC_RawScn.tla (direction 1)"""
    d = C('rawscn_' + eng, 'TestRaw', 'TraceRaw_' + eng, file='raw_' + eng, env={'VERIF_RAW_PROTOS': eng}, n={'quick': 120, 'thorough': 1500},
          scn=[('MC_RawScn', {'quick': ['RawScn_%s_a.cfg' % eng], 'thorough': ['RawScn_%s_a.cfg' % eng, 'RawScn_%s_b.cfg' % eng, 'RawScn_%s_z.cfg' % eng]})])
    d.update(kw)
    return d


def push_sq0(job, ev, ctx):
    """C02 'Send completes ... for every accepted queue-length setting' on PUSH with WriteQLen 0.
    (1) TLC on the specification (which models the scheduler as the code has it) violates NoStuckSend:
    a lead.  (2) The real sockets are driven through the scenario; the traces must CONFORM to the
    specification (accepted without the property) and are then validated WITH the property: a
    rejection is the property failing on the real code."""
    import os, shutil
    api = ctx['api']
    viol = []
    r = api['tlc']('MC_RawSock', 'Raw_xpush_sq0.cfg', workers=8, timeout=600)
    ev['tlc_runs'].append({'module': 'MC_RawSock', 'cfg': 'Raw_xpush_sq0.cfg', 'generated': r.get('generated'),
                           'distinct': r.get('distinct'), 'violated': r['violated'], 'wall_s': r['wall_s']})
    ev['states'] += r.get('distinct', 0)
    ev['transitions'] += r.get('generated', 0)
    # the same lead from TLC's temporal checking under fairness: SendCompletes (a waiting Send returns or no usable peer is left)
    rl = api['tlc']('MC_RawSock', 'Raw_live_xpush_sq0.cfg', workers=4, timeout=600)
    ev['tlc_runs'].append({'module': 'MC_RawSock', 'cfg': 'Raw_live_xpush_sq0.cfg (FairSpec, lead)', 'generated': rl.get('generated'),
                           'distinct': rl.get('distinct'), 'violated': rl['violated'], 'wall_s': rl['wall_s']})
    outdir = '%s/out/%s-pushsq0' % (api['BUILD'], ctx['pid'])
    shutil.rmtree(outdir, ignore_errors=True)
    d = api['drive']('TestRawPushSQ0', outdir, ctx['tier'], ctx['seed'])
    tf = outdir + '/raw_pushsq0.ndjson'
    if d['rc'] != 0 or not os.path.exists(tf):
        raise api['Infra']('TestRawPushSQ0 failed:\n' + d['out'][-2000:])
    traces = api['load_traces'](tf)
    ok, hw, n, st, tn = api['validate']('TraceRawConf_xpush', tf)
    ev['trace_states'] += st
    ev['evaluations'] += len(traces)
    ev['trace_events'] += sum(len(t['lines']) for t in traces)
    if not ok:
        viol.append({'kind': 'reject', 'label': 'pushsq0', 'key': 'reject pushsq0 conformance',
                     'what': 'PUSH WriteQLen=0 traces are not behaviours of RawSock.tla (line %d)' % hw})
        return viol
    ev['traces_validated_against_impl'] += len(traces)
    ok2, hw2, n2, st2, tn2 = api['validate']('TraceRaw_xpush', tf)
    ev['trace_states'] += st2
    if not ok2:
        viol.append({'kind': 'property', 'label': 'pushsq0', 'key': 'NoStuckSend xpush sq=0',
                     'what': 'PUSH/XPUSH with WriteQLen=0: Send never completes although a connected peer is idle '
                             '(NoStuckSend fails on conforming traces of the real socket; TLC lead: %s)' % ','.join(r['violated'])})
    ev['drivers'].append({'test': 'TestRawPushSQ0', 'scenarios': len(traces), 'validated': len(traces), 'wall_s': d['wall_s'],
                          'trace_module': 'TraceRawConf_xpush + TraceRaw_xpush'})
    return viol


def lock_static(job, ev, ctx):
    """C12 static part / C11 lock order: extract the CFGs of the current tree (tools/lockcfg), let TLC explore
    every path of every function over spec/LockDiscipline.tla, report lock leaks / self deadlocks / bad unlocks,
    then check the lock-order relation for cycles (TLC evaluates an acyclicity assumption)."""
    import os, re, shutil, subprocess, tempfile
    api = ctx['api']
    viol = []
    env = dict(os.environ, GOFLAGS='-mod=mod', GOPROXY='off', GOSUMDB='off')
    os.makedirs(api['BUILD'], exist_ok=True)
    p = subprocess.run(['go', 'build', '-o', api['BUILD'] + '/lockcfg', '.'], cwd='/verif/tools/lockcfg', env=env, capture_output=True, text=True)
    if p.returncode != 0:
        raise api['Infra']('lockcfg build failed: ' + p.stderr[-2000:])
    w = tempfile.mkdtemp(prefix='lockd.')
    try:
        p = subprocess.run([api['BUILD'] + '/lockcfg', w + '/LockCFG.tla'], env=env, capture_output=True, text=True)
        if p.returncode != 0:
            raise api['Infra']('lockcfg failed (the tree does not type-check?): ' + (p.stdout + p.stderr)[-2000:])
        m = re.search(r'(\d+) functions analysed, (\d+) with lock activity', p.stdout)
        nfun, nlock = (int(m.group(1)), int(m.group(2))) if m else (0, 0)
        shutil.copy('/verif/spec/LockDiscipline.tla', w)
        shutil.copy('/verif/spec/mc/LockDiscipline.cfg', w)
        cmd = ['java', '-XX:+UseParallelGC', '-Xss64m', '-cp', '/opt/veriftools/tla/tla2tools.jar:/opt/veriftools/tla/CommunityModules-deps.jar',
               'tlc2.TLC', '-noGenerateSpecTE', '-metadir', w + '/meta', '-workers', '1', '-config', 'LockDiscipline.cfg', 'LockDiscipline']
        try:
            p = subprocess.run(cmd, cwd=w, capture_output=True, text=True, timeout=900)
        except subprocess.TimeoutExpired:
            raise api['Infra']('LockDiscipline TLC timeout')
        out = p.stdout + p.stderr
        if 'Model checking completed' not in out:
            raise api['Infra']('LockDiscipline TLC did not complete:\n' + out[-3000:])
        st = re.search(r'(\d+) states generated, (\d+) distinct', out)
        flat = re.sub(r'\s+', ' ', out)
        bugs = sorted(set(re.findall(r'<< "LOCKBUG", "([^"]*)", "([^"]*)", (\d+), "([^"]*)" >>', flat)))
        edges = sorted(set((a, b) for a, b, f, l in re.findall(r'<< "LOCKEDGE", "([^"]*)", "([^"]*)", "([^"]*)", (\d+) >>', flat)))
        where = {}
        for a, b, f, l in re.findall(r'<< "LOCKEDGE", "([^"]*)", "([^"]*)", "([^"]*)", (\d+) >>', flat):
            where.setdefault((a, b), '%s:%s' % (f, l))
        ev['tlc_runs'].append({'module': 'LockDiscipline', 'cfg': 'LockDiscipline.cfg (+ generated LockCFG.tla)',
                               'generated': int(st.group(1)), 'distinct': int(st.group(2)), 'violated': [b[3] for b in bugs],
                               'functions_analysed': nfun, 'functions_with_lock_activity': nlock, 'lock_order_edges': len(edges)})
        ev['states'] += int(st.group(2))
        ev['transitions'] += int(st.group(1))
        ev['evaluations'] += nlock
        ev['distinct_nontrivial'] += nlock
        ev['samples'].append({'static': 'every path of %d functions with lock activity (of %d analysed)' % (nlock, nfun),
                              'lock_order_edges': ['%s -> %s (%s)' % (a, b, where[(a, b)]) for a, b in edges][:12]})
        if job.get('want') in (None, 'bugs', 'order'):
            for f, file, line, bad in bugs:
                if job.get('want') == 'order' and not bad.startswith('block-holding'):
                    continue    # (C11 reports what makes concurrent callers wait for each other; the rest is C12's)
                viol.append({'kind': 'lockbug', 'key': 'lockbug %s %s' % (f, bad),
                             'what': '%s (%s:%s): %s - a path through this function violates the lock discipline' % (f, file, line, bad)})
        if job.get('want') in (None, 'order'):
            # lock order: TLC evaluates acyclicity of the extracted relation
            mod = ['---- MODULE LockOrder ----', 'EXTENDS Integers, FiniteSets, TLC', 'VARIABLE x',
                   'Edges == {' + ', '.join('<<"%s", "%s">>' % e for e in edges) + '}',
                   'Nodes == {e[1] : e \\in Edges} \\cup {e[2] : e \\in Edges}',
                   'RECURSIVE Reach(_, _)',
                   'Reach(S, n) == IF n = 0 THEN S ELSE LET T == S \\cup {e[2] : e \\in {d \\in Edges : d[1] \\in S}} IN IF T = S THEN S ELSE Reach(T, n - 1)',
                   'OnCycle == {n \\in Nodes : n \\in Reach({e[2] : e \\in {d \\in Edges : d[1] = n}}, Cardinality(Nodes))}',
                   'ASSUME PrintT(<<"LOCKCYCLE", OnCycle>>)', 'Init == x = 0', 'Next == UNCHANGED x', 'Spec == Init /\\ [][Next]_x', '====']
            open(w + '/LockOrder.tla', 'w').write('\n'.join(mod))
            open(w + '/LockOrder.cfg', 'w').write('SPECIFICATION Spec\n')
            p = subprocess.run(cmd[:-3] + ['-config', 'LockOrder.cfg', 'LockOrder'], cwd=w, capture_output=True, text=True, timeout=300)
            o2 = re.sub(r'\s+', ' ', p.stdout + p.stderr)
            mc = re.search(r'<< ?"LOCKCYCLE", (\{[^}]*\}) ?>>', o2)
            if not mc:
                raise api['Infra']('lock order evaluation failed:\n' + (p.stdout + p.stderr)[-2000:])
            cyc = re.findall(r'"([^"]+)"', mc.group(1))
            if cyc:
                viol.append({'kind': 'lockorder', 'key': 'lockorder ' + ' '.join(sorted(cyc)),
                             'what': 'lock order cycle among classes %s; edges: %s' % (sorted(cyc), ['%s -> %s (%s)' % (a, b, where[(a, b)]) for a, b in edges if a in cyc and b in cyc])})
    finally:
        shutil.rmtree(w, ignore_errors=True)
    return viol


def apalache_msg(job, ev, ctx):
    """C17: Apalache shows the invariants of spec/Msg.tla inductive (Init => IndInv, IndInv /\\ Next => IndInv'): they
    hold for unbounded reference counts and histories, not only within TLC's bound.  This is about the
    specification only: a failure is a broken specification (exit 2), never a verdict on the code."""
    import subprocess
    api = ctx['api']
    try:
        p = subprocess.run(['python3', '/verif/tools/apalache_msg.py'], capture_output=True, text=True, timeout=1500)
    except subprocess.TimeoutExpired:
        raise api['Infra']('apalache timed out')
    if 'APALACHE-OK' not in p.stdout:
        raise api['Infra']('Apalache: the invariant of Msg.tla is not inductive (or the tool failed):\n' + (p.stdout + p.stderr)[-2500:])
    ev['tlc_runs'].append({'module': 'MsgInd (Apalache 0.58)', 'cfg': 'Init => IndInv; IndInv /\\ Next => IndInv\' (4 message identities, unbounded counts)',
                           'generated': None, 'distinct': None, 'violated': [], 'wall_s': float(p.stdout.split()[-1])})
    return []


def race_job(job, ev, ctx):
    """C11: the concurrent drivers built with the race detector.  A report whose two accesses are both in
    library code is a violation, identified by the pair of source lines; harness-only reports are ours."""
    import os, re, shutil, subprocess
    api = ctx['api']
    env = dict(os.environ, GOFLAGS='-mod=mod', GOPROXY='off', GOSUMDB='off', GOTOOLCHAIN='local')
    shutil.copy('/repo/go.sum', '/verif/harness/go.sum')
    binp = api['BUILD'] + '/harness.race.test'
    p = subprocess.run(['go1.26.8', 'test', '-c', '-race', '-tags', 'verif', '-o', binp, '.'], cwd='/verif/harness', env=env, capture_output=True, text=True)
    if p.returncode != 0:
        raise api['Infra']('race build failed:\n' + (p.stdout + p.stderr)[-3000:])
    outdir = '%s/out/%s-race' % (api['BUILD'], ctx['pid'])
    shutil.rmtree(outdir, ignore_errors=True)
    os.makedirs(outdir)
    viol = []
    tests = job.get('tests', ['TestConcurrent'])
    e2 = dict(env, VERIF_OUT=outdir, VERIF_TIER=ctx['tier'], VERIF_SEED=str(ctx['seed']), VERIF_N=str(job.get('n', {}).get(ctx['tier'], 10)))
    try:
        p = subprocess.run([binp, '-test.run', '^(' + '|'.join(tests) + ')$', '-test.count=1', '-test.timeout', '1500s'],
                           cwd='/verif/harness', env=e2, capture_output=True, text=True, timeout=1600)
    except subprocess.TimeoutExpired:
        raise api['Infra']('race run timed out')
    out = p.stdout + p.stderr
    blocks = out.split('WARNING: DATA RACE')[1:]
    seen = set()
    for b in blocks:
        b = b.split('==================')[0]
        acc = []
        for part in re.split(r'\n\n', b)[:2]:
            fr = re.findall(r'\n\s+(\S+)\(\)\n\s+(/\S+):(\d+)', part)
            lib = [x for x in fr if x[1].startswith('/repo/')]
            if fr:
                acc.append(lib[0] if lib else None)
        if len(acc) == 2 and all(acc):
            key = ' | '.join(sorted('%s:%s' % (a[1].replace('/repo/', ''), a[2]) for a in acc))
            if key not in seen:
                seen.add(key)
                viol.append({'kind': 'race', 'key': 'race ' + key, 'what': 'data race inside the library between ' + key, 'detail': b[:6000]})
        elif len(acc) == 2 and not any(acc):
            raise api['Infra']('data race inside the harness itself:\n' + b[:3000])
        elif acc:
            key = ' | '.join(sorted('%s:%s' % (a[1].replace('/repo/', ''), a[2]) for a in acc if a))
            if key not in seen:
                seen.add(key)
                viol.append({'kind': 'race', 'key': 'race ' + key, 'what': 'data race involving library code at ' + key, 'detail': b[:6000]})
    crashed = False
    if p.returncode != 0 and ('panic:' in out or 'fatal error:' in out):
        # the test binary died: with library frames on the panicking stack it is the library's doing
        if re.search(r'go\.nanomsg\.org/mangos/v3[^\n]*\n\s+/repo/', out):
            crashed = True
            viol.append({'kind': 'crash', 'key': 'crash concurrent', 'what': 'process crashed under concurrent use: ' +
                         (re.search(r'(panic:[^\n]*|fatal error:[^\n]*)', out).group(1)), 'detail': out[-8000:]})
        elif not blocks:
            raise api['Infra']('race run died outside the library:\n' + out[-3000:])
    elif p.returncode != 0 and not blocks:
        raise api['Infra']('race run failed:\n' + out[-3000:])
    ev['drivers'].append({'test': '+'.join(tests) + ' (-race)', 'race_reports': len(blocks), 'wall_s': 0})
    # the tallies of the concurrent driver are validated like any other trace
    tf = outdir + '/conc.ndjson'
    if os.path.exists(tf) and not crashed:      # (a process that died left no complete tallies)
        traces = api['load_traces'](tf)
        import json
        for st in json.load(open(outdir + '/conc.status.json')):
            if st['status'] != 'ok':
                viol.append({'kind': st['status'], 'label': st['label'], 'key': '%s %s' % (st['status'], st['label']),
                             'what': '%s under concurrent use in %s' % (st['status'], st['label']), 'detail': st.get('detail', '')[:6000]})
        ok, hw, n, st_, tn = api['validate']('TraceConc', tf)
        ev['trace_states'] += st_
        ev['evaluations'] += len(traces)
        ev['distinct_nontrivial'] += len(traces)
        ev['trace_events'] += sum(len(t['lines']) for t in traces)
        if ok:
            ev['traces_validated_against_impl'] += len(traces)
        else:
            lines = open(tf).read().splitlines()
            viol.append({'kind': 'reject', 'key': 'reject conc ' + lines[hw - 1][:120],
                         'what': 'a call returned a result its sequential contract does not allow (or a goroutine never came back): ' + lines[hw - 1][:300]})
        if traces and len(ev['samples']) < 4:
            ev['samples'].append({'driver': 'TestConcurrent', 'scenario': traces[0]['label'], 'first_events': [api['compact'](x) for x in traces[0]['lines'][:10]]})
    return viol


CHECKS = {
    'C11': {
        'level': 'exploration',
        'jobs': [
            {'type': 'custom', 'name': 'lock-order', 'fn': lock_static, 'want': 'order'},
            {'type': 'custom', 'name': 'race', 'fn': race_job, 'tests': ['TestConcurrent', 'TestConcStorm', 'TestSub', 'TestRaw'], 'n': {'quick': 8, 'thorough': 60}},
            C('sub', 'TestSub', 'TraceSub', n={'quick': 40, 'thorough': 600}),
            C('req', 'TestReq', 'TraceReq', n={'quick': 120, 'thorough': 1000}),
            C('respondent', 'TestRespondent', 'TraceRespondent', n={'quick': 60, 'thorough': 600}),
            C('rawstorm', 'TestRawStorm', 'TraceBurst', trivial_len=0, n={'quick': 5000, 'thorough': 60000}),
        ],
        'rule': 'race: the concurrent hammer (10 patterns x inproc and, shared among them, tcp / tls+tcp / ipc / ws; 2 senders, 2 receivers, option, context and '
                'endpoint-churn goroutines per socket, hook-driven pipe closes, Close while running) plus the bubble drivers, all under the race detector; '
                'one case per (pattern, transport); cancellation storms (SURVEYOR and REQ contexts re-sending without waiting against 8 echoing peers, millisecond timers, context churn, Close in flight); lock order: one case per function with lock activity',
        'not_exhaustive': True,
        'assumptions': ASSUME_COMMON + ['the Go race detector reports only real races; schedule coverage of the Go runtime is probabilistic'],
    },
    'C12': {
        'level': 'model_checking',
        'jobs': [
            C('inprocscn', 'TestInproc', 'TraceInproc', file='inproc', trivial_len=3, n={'quick': 300, 'thorough': 1500},
              scn=[('MC_InprocScn', {'quick': ['InprocScn.cfg'], 'thorough': ['InprocScn.cfg']})]),
            T('MC_Inproc', 'Inproc.cfg'), C('inproc', 'TestInproc', 'TraceInproc'),
            {'type': 'custom', 'name': 'lock-static', 'fn': lock_static},   # lock bugs and lock-order cycles (two calls that wait for each other for ever)
            T('MC_Core', 'Core_C14_sync.cfg'),
            C('errors', 'TestErrorsReal', 'TraceErrors', trivial_len=3),
            C('core', 'TestCore', 'TraceCore', n={'quick': 60, 'thorough': 800}),
            C('req', 'TestReq', 'TraceReq', n={'quick': 120, 'thorough': 1000}),
            # an operation that failed with a timeout leaves the context usable: the next Recv waits again, the next Send goes out
            # (deadline mixes of the context patterns; round-8 change C12-m13)
            C('rep', 'TestRep', 'TraceRep', n={'quick': 15, 'thorough': 300}, env={'VERIF_MIX': 'deadline'}),
            C('respondent', 'TestRespondent', 'TraceRespondent', n={'quick': 15, 'thorough': 300}, env={'VERIF_MIX': 'deadline'}),
            C('surveyor', 'TestSurveyor', 'TraceSurveyor', n={'quick': 15, 'thorough': 300}, env={'VERIF_MIX': 'deadline'}),
        ],
        'rule': 'static: one case per function with lock activity (every CFG path explored by TLC); dynamic: one trace per error scenario '
                '(TLS configuration, address in use, refused dial, handshake loss) with a follow-up call after every outcome, plus the core scenarios '
                '(rejections in Attaching / by the protocol / during AddPipe, listener and dialer sides)',
        'assumptions': ASSUME_COMMON + ['the CFG extractor (go/cfg + go/types) is faithful; branch conditions are ignored (every CFG path is taken as feasible); '
                                        'calls through interfaces and function values are not followed'],
    },
    'C01': {
        'level': 'model_checking',
        'jobs': [
            C('req', 'TestReq', 'TraceReq', n={'quick': 10, 'thorough': 200}),   # retransmissions carry the bytes that were sent (byte-slice API, reused buffers)
            C('rep', 'TestRep', 'TraceRep', n={'quick': 20, 'thorough': 300}),   # a reply carries the routing header of its own request, whatever was received in between (round-8 change C01-m13)
            T('MC_Wire', 'Wire.cfg', workers=4), T('MC_Link', 'Link.cfg', workers=4),
            C('link', 'TestLinkReal', 'TraceLink', trivial_len=4),
            C('wire', 'TestWire', 'TraceWire', n={'quick': 60, 'thorough': 800}, trivial_len=3),
        ],
        'rule': 'link: one trace per (transport, pattern) with stop-and-wait exchanges of position-dependent payloads at '
                'boundary lengths (0..5, every pool class c-2..c+2 also minus the protocol header, the receive limit and limit-1, '
                'seeded random lengths; thorough adds every 7th length up to 2100 and 120 random ones), varying size hints; '
                'wire: one trace per connection on net.Pipe with a chunked byte stream; distinct = distinct event sequences',
        'assumptions': ASSUME_COMMON + ['content fidelity at each length is decided by digest equality inside TLC-validated traces, not proved for all lengths'],
    },
    'C15': {
        'level': 'model_checking',
        'jobs': [
            T('MC_Wire', 'Wire.cfg', workers=4),
            C('wire', 'TestWire', 'TraceWire', n={'quick': 60, 'thorough': 800}, trivial_len=3),
            C('wirereal', 'TestWireReal', 'TraceWire', trivial_len=3),
            C('wirenames', 'TestWireNames', 'TraceWire', trivial_len=0),
        ],
        'assumptions': ASSUME_COMMON + ['gorilla/websocket (a dependency of mangos itself) is the independent WebSocket implementation',
                                        'the SP protocol numbers are those of the table in spec/Wire.tla (SPNumber)'],
    },
    'C16': {
        'level': 'model_checking',
        'jobs': [
            C('hops', 'TestHops', 'TraceHops', trivial_len=3, vtimeout=3000),   # hostile hop counts (255: wraps when incremented), round-8 change C16-m14
            C('hsscn', 'TestHandshaker', 'TraceHandshaker', file='handshaker', trivial_len=3, n={'quick': 400, 'thorough': 2000},
              scn=[('MC_HsScn', {'quick': ['HsScn.cfg'], 'thorough': ['HsScn.cfg']})]),
            T('MC_Wire', 'Wire.cfg', workers=4),
            C('wire', 'TestWire', 'TraceWire', n={'quick': 60, 'thorough': 800}, trivial_len=3),
            C('wirestall', 'TestWireStall', 'TraceWire', trivial_len=0),
            C('errors', 'TestErrorsReal', 'TraceErrors', trivial_len=3),
            C('handshaker', 'TestHandshaker', 'TraceHandshaker', trivial_len=3, n={'quick': 40, 'thorough': 600}),
            C('wirereal', 'TestWireReal', 'TraceWire', trivial_len=3),
            R('xreq', 'xreq'), R('xsurveyor', 'xsurveyor'), R('xpair1', 'xpair1'), R('xstar', 'xstar'), R('xbus', 'xbus'),
            R('xrep', 'xrep', tiers=('thorough',)), R('xrespondent', 'xrespondent', tiers=('thorough',)),
            R('xpair', 'xpair', tiers=('thorough',)), R('xsub', 'xsub', tiers=('thorough',)), R('xpull', 'xpull', tiers=('thorough',)),
            C('req', 'TestReq', 'TraceReq', n={'quick': 30, 'thorough': 300}),
            C('surveyor', 'TestSurveyor', 'TraceSurveyor', n={'quick': 30, 'thorough': 300}),
            C('rep', 'TestRep', 'TraceRep', n={'quick': 30, 'thorough': 300}),
        ],
        'assumptions': ASSUME_COMMON,
    },
    'C17': {
        'level': 'model_checking',
        'jobs': [
            {'type': 'custom', 'name': 'apalache-inductive', 'fn': apalache_msg},
            C('link', 'TestLinkReal', 'TraceLink', env={'VERIF_LINK_PATS': 'pair,reqrep,survey,pubsub'}),   # what Recv() returned (socket and context) is looked at again after later traffic
            R('xrep', 'xrep'), R('xrespondent', 'xrespondent'),
            T('MC_Msg', 'Msg.cfg', workers=4),
            C('msg', 'TestMsg', 'TraceMsg', n={'quick': 12, 'thorough': 150}, trivial_len=6),
            C('msgpool', 'TestMsgPool', 'TraceMsg', trivial_len=0, vtimeout=3000),
            R('xpub', 'xpub'), R('xstar', 'xstar'), R('xbus', 'xbus'),
            C('sub', 'TestSub', 'TraceSub', n={'quick': 40, 'thorough': 400}),
            C('rep', 'TestRep', 'TraceRep', n={'quick': 40, 'thorough': 400}),
            C('respondent', 'TestRespondent', 'TraceRespondent', n={'quick': 40, 'thorough': 400}),
            C('req', 'TestReq', 'TraceReq', n={'quick': 30, 'thorough': 300}),
        ],
        'assumptions': ASSUME_COMMON + ['the ledger hooks in message.go (verif tag) report every NewMessage / Clone / Free; released buffers are poisoned by the hook'],
    },
    'C18': {
        'level': 'model_checking',
        'jobs': [
            RS('xreq'), RS('xpull'), RS('xpair1'),
            T('MC_Req', 'Req_q18.cfg'), T('MC_RawSock', 'Raw_xpush_fnp.cfg'), T('MC_RepLike', 'Rep_quick.cfg'),
            T('MC_Req', 'Req_2ctx_deadl.cfg', tiers=('thorough',)), T('MC_Req', 'Req_2ctx_be.cfg', tiers=('thorough',)),
            T('MC_Req', 'Req_2ctx_fnp.cfg', tiers=('thorough',)),
            T('MC_Req', 'Req_live_all.cfg', workers=8, tiers=('thorough',)),   # SendReturns under fairness: a waiting Send returns (deadlines, fail-no-peers, a Recv deadline giving the request up)
            C('req', 'TestReq', 'TraceReq', n={'quick': 25, 'thorough': 400}, env={'VERIF_MIX': 'deadline'}),
            C('rep', 'TestRep', 'TraceRep', n={'quick': 15, 'thorough': 300}, env={'VERIF_MIX': 'deadline'}),
            C('respondent', 'TestRespondent', 'TraceRespondent', n={'quick': 15, 'thorough': 300}, env={'VERIF_MIX': 'deadline'}),
            C('sub', 'TestSub', 'TraceSub', n={'quick': 15, 'thorough': 300}, env={'VERIF_MIX': 'deadline'}),
            C('surveyor', 'TestSurveyor', 'TraceSurveyor', n={'quick': 15, 'thorough': 300}, env={'VERIF_MIX': 'deadline'}),
        ] + [dict(R(p, e), env={'VERIF_RAW_PROTOS': p, 'VERIF_MIX': 'deadline'}, n={'quick': 6, 'thorough': 200})
             for p, e in [('xpair', 'xpair'), ('xpair1', 'xpair1'), ('xreq', 'xreq'), ('xpush', 'xpush'), ('push', 'xpush'),
                          ('xpull', 'xpull'), ('xsub', 'xsub'), ('xsurveyor', 'xsurveyor'), ('xbus', 'xbus'), ('xstar', 'xstar'),
                          ('xrep', 'xrep'), ('xrespondent', 'xrespondent'), ('xpub', 'xpub'), ('pair', 'xpair')]],
        'assumptions': ASSUME_COMMON,
    },
    'C19': {
        'level': 'model_checking',
        'jobs': [
            T('MC_Core', 'Core_C14_nomax.cfg', tiers=('thorough',)), C('core', 'TestCore', 'TraceCore', env={'VERIF_CORE_MIX': 'storm'}, n={'quick': 40, 'thorough': 400}),
            C('wirereal', 'TestWireReal', 'TraceWire', trivial_len=3),
            T('MC_Options', 'Options.cfg', workers=4),
            C('opts', 'TestOptions', 'TraceOptions', trivial_len=5, vtimeout=3000),
            C('optresize', 'TestOptResize', 'TraceOptions', trivial_len=0),
            C('surveyor', 'TestSurveyor', 'TraceSurveyor', n={'quick': 20, 'thorough': 300}, env={'VERIF_MIX': 'deadline'}),
            C('sub', 'TestSub', 'TraceSub', n={'quick': 40, 'thorough': 400}),
        ],
        'rule': 'one trace per object group (a socket of each of the 19 protocols; socket + context of the 5 patterns with contexts; per transport a '
                'listener and dialer before connecting, a pipe, and dialer / listener after connecting); within it every option name x 18 value classes; '
                'distinct = distinct (object, name, class, result) sequences',
        'assumptions': ASSUME_COMMON + ['the valid type / range per option NAME is our reading of options.go; where it is silent the contract says either'],
    },
    'C20': {
        'level': 'model_checking',
        'jobs': [
            T('MC_Macat', 'Macat_quick.cfg', workers=8, tiers=('quick',)),
            T('MC_Macat', 'Macat_full.cfg', workers=8, tiers=('thorough',)),
            C('macatargs', 'TestMacatArgs', 'TraceMacat', trivial_len=0, n={'quick': 60, 'thorough': 600}),
            C('macatfmt', 'TestMacatFormat', 'TraceMacat', trivial_len=0, n={'quick': 1, 'thorough': 6}),
            C('macatdur', 'TestMacatDur', 'TraceMacat', trivial_len=0, n={'quick': 20, 'thorough': 300}),
        ],
        'rule': 'one trace per invocation of the built macat binary (or one for the in-process Duration sweep); distinct = distinct '
                '(token sequence, observation) lines',
        'assumptions': ['TLC 1.8.0 and the TLA+ standard/community modules are correct',
                        'the harness peer sockets (mangos itself, checked by the other properties) deliver what macat sent and what the harness fed',
                        'elapsed times are lower bounds taken on the real clock (spawn to exit, spawn to first message)',
                        'third-party option parsing (github.com/gdamore/optopia) is outside the repository'],
    },
    'C02': {
        'level': 'model_checking',
        'jobs': [
            RS('xpair'), RS('xpush'),
            C('link', 'TestLinkReal', 'TraceLink', env={'VERIF_LINK_PATS': 'pair,pushpull,xpair,xpushxpull'}),
            T('MC_RawSock', 'Raw_xpair.cfg'), T('MC_RawSock', 'Raw_xpair_sq0.cfg'), T('MC_RawSock', 'Raw_xpush.cfg'),
            T('MC_RawSock', 'Raw_xpush_fnp.cfg'), T('MC_RawSock', 'Raw_xpull.cfg'),
            # liveness under fairness (TLC temporal checking, no state constraint): a waiting Send returns, what was accepted is handed on
            T('MC_RawSock', 'Raw_live_xpush.cfg', workers=8), T('MC_RawSock', 'Raw_live_xpair_sq0.cfg', workers=8),
            T('MC_RawSock', 'Raw_live_xpair.cfg', workers=8, tiers=('thorough',)),
            R('xpair', 'xpair'), R('pair', 'xpair'), R('xpair1', 'xpair1'), R('pair1', 'xpair1'),
            R('xpush', 'xpush'), R('push', 'xpush'), R('xpull', 'xpull'), R('pull', 'xpull'),
            {'type': 'custom', 'name': 'pushsq0', 'fn': push_sq0},
            C('rawstorm', 'TestRawStorm', 'TraceBurst', trivial_len=0, n={'quick': 5000, 'thorough': 60000}),
            T('MC_Chain', 'Chain_oneway.cfg', workers=8, tiers=('thorough',)),
            C('chain', 'TestChain', 'TraceChain', trivial_len=3),
        ],
        'assumptions': ASSUME_COMMON,
    },
    'C08': {
        'level': 'model_checking',
        'jobs': [
            RS('xbus'), RS('xstar'),
            T('MC_RawSock', 'Raw_xbus.cfg'), T('MC_RawSock', 'Raw_xstar.cfg'),
            R('xbus', 'xbus'), R('bus', 'xbus'), R('xstar', 'xstar'), R('star', 'xstar'),
            T('MC_Mesh', 'Mesh_star.cfg', workers=8), T('MC_Mesh', 'Mesh_bus.cfg', workers=4),
            C('mesh', 'TestMesh', 'TraceMesh', trivial_len=3, n={'quick': 1, 'thorough': 6}),
            C('meshscn', 'TestMesh', 'TraceMesh', file='mesh', trivial_len=3, n={'quick': 120, 'thorough': 1500},
              scn=[('MC_MeshScn', {'quick': ['MeshScn_star.cfg', 'MeshScn_bus.cfg'], 'thorough': ['MeshScn_star.cfg', 'MeshScn_bus.cfg']})]),
            T('MC_MeshScn', 'MeshAll_star.cfg', workers=8, tiers=('thorough',)), T('MC_MeshScn', 'MeshAll_bus.cfg', workers=8, tiers=('thorough',)),
            C('rawstorm', 'TestRawStorm', 'TraceBurst', trivial_len=0, n={'quick': 5000, 'thorough': 60000}),
        ],
        'assumptions': ASSUME_COMMON,
    },
    'C03': {
        'level': 'model_checking',
        'jobs': [
            C('link', 'TestLinkReal', 'TraceLink', env={'VERIF_LINK_PATS': 'reqrep,xreqxrep'}),   # what a REQ context's Recv() returned is still the reply later on (round-9 change C03-m16)
            T('MC_Req', 'Req_q03.cfg'),
            T('MC_Req', 'Req_1ctx.cfg', tiers=('thorough',)),
            T('MC_Req', 'Req_2ctx_retry.cfg', tiers=('thorough',)),
            T('MC_Req', 'Req_2ctx_deadl.cfg', tiers=('thorough',)),
            C('req', 'TestReq', 'TraceReq', n={'quick': 120, 'thorough': 1500}),
            T('MC_RawSock', 'Raw_xreq.cfg'), R('xreq', 'xreq'),
            C('reqscn', 'TestReq', 'TraceReq', file='req', n={'quick': 150, 'thorough': 1500},
              scn=[('MC_ReqScn', {'quick': ['ReqScn_retry.cfg'], 'thorough': ['ReqScn_retry6.cfg', 'ReqScn_deadl.cfg', 'ReqScn_be.cfg']})]),
        ],
        'assumptions': ASSUME_COMMON,
    },
    'C04': {
        'level': 'model_checking',
        'jobs': [
            T('MC_Req', 'Req_q04.cfg'),
            T('MC_Req', 'Req_2ctx_retry.cfg', tiers=('thorough',)),
            T('MC_Req', 'Req_live.cfg', workers=8, tiers=('thorough',)),   # liveness under fairness: QueuedDispatched, SendReturns, NeverOrphaned (609 k states)
            T('MC_Req', 'Req_live_all.cfg', workers=8, tiers=('thorough',)),   # two threads, deadlines and fail-no-peers on (304 k states)
            T('MC_Req', 'Req_1ctx_all.cfg', tiers=('thorough',)),
            C('req', 'TestReq', 'TraceReq', n={'quick': 60, 'thorough': 1000}, env={'VERIF_REQ_MIX': 'faults'}),
            C('reqscn', 'TestReq', 'TraceReq', file='req', n={'quick': 150, 'thorough': 1500},
              scn=[('MC_ReqScn', {'quick': ['ReqScn_retry.cfg'], 'thorough': ['ReqScn_retry6.cfg', 'ReqScn_deadl.cfg', 'ReqScn_be.cfg']})]),
        ],
        'assumptions': ASSUME_COMMON,
    },
    'C05': {
        'level': 'model_checking',
        'jobs': [
            RS('xrep'), RS('xrespondent'),
            T('MC_RepLike', 'Rep_quick.cfg'),
            T('MC_RepLike', 'Respondent_quick.cfg'),
            T('MC_RepLike', 'Rep_plain.cfg', tiers=('thorough',)), T('MC_RepLike', 'Rep_live.cfg', workers=8, tiers=('thorough',)), T('MC_RepLike', 'Respondent_live.cfg', workers=8, tiers=('thorough',)),
            T('MC_RepLike', 'Respondent_plain.cfg', tiers=('thorough',)), T('MC_RepLike', 'Respondent_resize.cfg', tiers=('thorough',)),
            C('rep', 'TestRep', 'TraceRep', n={'quick': 100, 'thorough': 1200}),
            C('respondent', 'TestRespondent', 'TraceRespondent', n={'quick': 100, 'thorough': 1200}),
            C('repscn', 'TestRep', 'TraceRep', file='rep', n={'quick': 150, 'thorough': 1500},
              scn=[('MC_RepScn', {'quick': ['RepScn_rep_mixed5.cfg'], 'thorough': ['RepScn_rep_mixed.cfg', 'RepScn_rep_plain0.cfg']})]),
            C('respondentscn', 'TestRespondent', 'TraceRespondent', file='respondent', n={'quick': 150, 'thorough': 1500},
              scn=[('MC_RepScn', {'quick': ['RepScn_respondent_mixed5.cfg'], 'thorough': ['RepScn_respondent_mixed.cfg', 'RepScn_respondent_plain0.cfg']})]),
            T('MC_RawSock', 'Raw_xrep.cfg'), T('MC_RawSock', 'Raw_xrespondent.cfg'),
            R('xrep', 'xrep'), R('xrespondent', 'xrespondent'),
            T('MC_Chain', 'Chain_twoway.cfg', workers=8), T('MC_Chain', 'Chain_ring.cfg', workers=8),
            C('chain', 'TestChain', 'TraceChain', trivial_len=3),
        ],
        'assumptions': ASSUME_COMMON,
    },
    'C06': {
        'level': 'model_checking',
        'jobs': [
            C('link', 'TestLinkReal', 'TraceLink', env={'VERIF_LINK_PATS': 'pubsub,xpubxsub'}),   # every transport; the subscriber is a SUB context; held slices
            RS('xpub'), RS('xsub'),
            T('MC_Sub', 'Sub_quick.cfg'),
            T('MC_Sub', 'Sub_full.cfg', tiers=('thorough',)), T('MC_SubLive', 'Sub_live.cfg', workers=8, tiers=('thorough',)),
            C('sub', 'TestSub', 'TraceSub', n={'quick': 120, 'thorough': 1500}),
            C('subscn', 'TestSub', 'TraceSub', file='sub', n={'quick': 150, 'thorough': 1500},
              scn=[('MC_SubScn', {'quick': ['SubScn_q5.cfg'], 'thorough': ['SubScn_q5.cfg', 'SubScn_z.cfg']})]),
            T('MC_RawSock', 'Raw_xpub.cfg'), T('MC_RawSock', 'Raw_xsub.cfg'),
            R('xpub', 'xpub'), R('pub', 'xpub'), R('xsub', 'xsub'),
            # the contexts of a SUB socket share one received message until MakeUnique: the forced interleaving of its copy
            # with another holder's release (Dup gate), concurrent releases
            C('msgpool', 'TestMsgPool', 'TraceMsg', trivial_len=0, vtimeout=3000),
        ],
        'assumptions': ASSUME_COMMON,
    },
    'C07': {
        'level': 'model_checking',
        'jobs': [
            C('link', 'TestLinkReal', 'TraceLink', env={'VERIF_LINK_PATS': 'survey,xsurvey'}),   # every transport; contexts through the byte-slice API, buffers reused, slices held
            RS('xsurveyor'),
            T('MC_Surveyor', 'Surveyor_quick.cfg'),
            T('MC_Surveyor', 'Surveyor_full.cfg', tiers=('thorough',), timeout=2400),
            T('MC_SurveyorLive', 'Surveyor_live.cfg', workers=8, tiers=('thorough',)),   # liveness under fairness: RecvReturns, SurveySent, CancelHappens, SurveysEnd
            C('surveyor', 'TestSurveyor', 'TraceSurveyor', n={'quick': 120, 'thorough': 1500}),
            C('surveyorscn', 'TestSurveyor', 'TraceSurveyor', file='surveyor', n={'quick': 150, 'thorough': 1500},
              scn=[('MC_SurvScn', {'quick': ['SurvScn_a5.cfg'], 'thorough': ['SurvScn_a.cfg', 'SurvScn_b.cfg']})]),
            C('respondent', 'TestRespondent', 'TraceRespondent', n={'quick': 40, 'thorough': 400}),
            T('MC_RawSock', 'Raw_xsurveyor.cfg'), R('xsurveyor', 'xsurveyor'), R('xrespondent', 'xrespondent'),
            C('opts', 'TestOptions', 'TraceOptions', trivial_len=5, vtimeout=3000, env={'VERIF_OPTS_ONLY': 'surveyor'}),
        ],
        'assumptions': ASSUME_COMMON,
    },
    'C09': {
        'level': 'model_checking',
        'jobs': [
            R('pair1', 'xpair1'), R('star', 'xstar'),   # a cooked socket is the origin of what it sends: a hop count left on the message by the caller means nothing
            # the raw sockets a device forwards between: a reply for a client that has left is dropped silently (an error
            # from Send ends the device's forwarder for everybody else, device.go), round-8 change C09-m13
            R('xrep', 'xrep'), R('xrespondent', 'xrespondent'),
            T('MC_Hops', 'Hops_quick.cfg', workers=4),
            T('MC_Hops', 'Hops_full.cfg', workers=4, tiers=('thorough',), timeout=3000),
            C('hops', 'TestHops', 'TraceHops', trivial_len=3, vtimeout=3000),
            T('MC_Chain', 'Chain_twoway.cfg', workers=8), T('MC_Chain', 'Chain_ring.cfg', workers=8),
            C('chain', 'TestChain', 'TraceChain', trivial_len=3),
            # STAR trees with every TTL assignment, BUS hubs (devices): the configurations are enumerated by TLC
            C('meshscn', 'TestMesh', 'TraceMesh', file='mesh', trivial_len=3, n={'quick': 120, 'thorough': 1500},
              scn=[('MC_MeshScn', {'quick': ['MeshScn_star.cfg', 'MeshScn_bus.cfg'], 'thorough': ['MeshScn_star.cfg', 'MeshScn_bus.cfg']})]),
        ],
        'rule': 'one injected message per (receiver, TTL, position of the terminating word or hop byte, number of complete '
                'words available); the eight receivers are REP, XREP, RESPONDENT, XRESPONDENT, PAIR1, XPAIR1, STAR, XSTAR; '
                'TTLs: quick {1,2,3,8,9,100,254,255}, thorough 1..255; a case is non-trivial when it has at least 3 events',
        'assumptions': ASSUME_COMMON,
    },
    'C10': {
        'level': 'model_checking',
        'jobs': [
            C('inprocscn', 'TestInproc', 'TraceInproc', file='inproc', trivial_len=3, n={'quick': 300, 'thorough': 1500},
              scn=[('MC_InprocScn', {'quick': ['InprocScn.cfg'], 'thorough': ['InprocScn.cfg']})]),
            C('hsscn', 'TestHandshaker', 'TraceHandshaker', file='handshaker', trivial_len=3, n={'quick': 400, 'thorough': 2000},
              scn=[('MC_HsScn', {'quick': ['HsScn.cfg'], 'thorough': ['HsScn.cfg']})]),
            C('corescn', 'TestCore', 'TraceCore', file='core', n={'quick': 150, 'thorough': 1500},
              scn=[('MC_CoreScn', {'quick': ['CoreScn_as.cfg'], 'thorough': ['CoreScn_as.cfg', 'CoreScn_sy.cfg']})]),
            T('MC_Core', 'Core_C13.cfg'), T('MC_Core', 'Core_close_fine.cfg', workers=8), T('MC_Core', 'Core_live_listen.cfg', workers=4), T('MC_Core', 'Core_live_dial_async5.cfg', workers=8), T('MC_Req', 'Req_q03.cfg'), T('MC_RepLike', 'Rep_quick.cfg'),
            T('MC_Surveyor', 'Surveyor_quick.cfg'), T('MC_RawSock', 'Raw_xpair.cfg'), T('MC_RawSock', 'Raw_xpush.cfg'),
            T('MC_Lifecycle', 'Lifecycle.cfg', workers=2),
            C('core', 'TestCore', 'TraceCore', n={'quick': 40, 'thorough': 600}, env={'VERIF_MIX': 'close'}),
            C('req', 'TestReq', 'TraceReq', n={'quick': 40, 'thorough': 600}, env={'VERIF_MIX': 'close'}),
            C('reqplain', 'TestReq', 'TraceReq', n={'quick': 120, 'thorough': 1000}, file='req'),
            C('rep', 'TestRep', 'TraceRep', n={'quick': 30, 'thorough': 400}, env={'VERIF_MIX': 'close'}),
            C('respondent', 'TestRespondent', 'TraceRespondent', n={'quick': 30, 'thorough': 400}, env={'VERIF_MIX': 'close'}),
            C('sub', 'TestSub', 'TraceSub', n={'quick': 30, 'thorough': 400}, env={'VERIF_MIX': 'close'}),
            C('surveyor', 'TestSurveyor', 'TraceSurveyor', n={'quick': 30, 'thorough': 400}, env={'VERIF_MIX': 'close'}),
            C('closereal', 'TestCloseReal', 'TraceLifecycle', trivial_len=3),
            T('MC_Handshaker', 'Handshaker.cfg', workers=4),
            T('MC_Inproc', 'Inproc.cfg', workers=4),
            T('MC_WsListener', 'WsListener.cfg', workers=4),
            C('inproc', 'TestInproc', 'TraceInproc', trivial_len=3, n={'quick': 60, 'thorough': 800}),
            C('handshaker', 'TestHandshaker', 'TraceHandshaker', trivial_len=3, n={'quick': 40, 'thorough': 600}),
        ] + [dict(R(p, e), env={'VERIF_RAW_PROTOS': p, 'VERIF_MIX': 'close'}, n={'quick': 15, 'thorough': 300},
                  tiers=('quick', 'thorough') if q else ('thorough',))
             for p, e, q in [('xpair', 'xpair', 1), ('xpair1', 'xpair1', 0), ('xreq', 'xreq', 1), ('xpush', 'xpush', 1), ('xpull', 'xpull', 1),
                             ('xpub', 'xpub', 1), ('xsub', 'xsub', 0), ('xsurveyor', 'xsurveyor', 1), ('xbus', 'xbus', 1), ('xstar', 'xstar', 1),
                             ('xrep', 'xrep', 1), ('xrespondent', 'xrespondent', 1), ('pair', 'xpair', 0), ('push', 'xpush', 0),
                             ('bus', 'xbus', 0), ('star', 'xstar', 0), ('pub', 'xpub', 0), ('pull', 'xpull', 0), ('pair1', 'xpair1', 0)]],
        'assumptions': ASSUME_COMMON + ['real mode: goroutine census by runtime.Stack filtered to mangos frames, 2-3 s real-time bounds'],
    },
    'C13': {
        'level': 'model_checking',
        'jobs': [
            C('inprocscn', 'TestInproc', 'TraceInproc', file='inproc', trivial_len=3, n={'quick': 300, 'thorough': 1500},
              scn=[('MC_InprocScn', {'quick': ['InprocScn.cfg'], 'thorough': ['InprocScn.cfg']})]),
            C('hsscn', 'TestHandshaker', 'TraceHandshaker', file='handshaker', trivial_len=3, n={'quick': 400, 'thorough': 2000},
              scn=[('MC_HsScn', {'quick': ['HsScn.cfg'], 'thorough': ['HsScn.cfg']})]),
            C('corescn', 'TestCore', 'TraceCore', file='core', n={'quick': 150, 'thorough': 1500},
              scn=[('MC_CoreScn', {'quick': ['CoreScn_as.cfg'], 'thorough': ['CoreScn_as.cfg', 'CoreScn_sy.cfg']})]),
            T('MC_Inproc', 'Inproc.cfg'), C('inproc', 'TestInproc', 'TraceInproc'),
            T('MC_Handshaker', 'Handshaker.cfg'), C('handshaker', 'TestHandshaker', 'TraceHandshaker'),
            T('MC_Core', 'Core_C13.cfg'),
            T('MC_Core', 'Core_C13_full.cfg', tiers=('thorough',)),
            T('MC_Core', 'Core_close_fine.cfg', workers=8),   # socket.Close step by step, interleaved with accepts / dials / hooks (SpecFine)
            T('MC_Core', 'Core_live_listen.cfg', workers=4),   # liveness under fairness: Attached / Detached reported, id released, Close finishes and releases
            T('MC_Core', 'Core_live_dial_sync5.cfg', workers=8),
            C('core', 'TestCore', 'TraceCore', n={'quick': 120, 'thorough': 1500}),
            C('errors', 'TestErrorsReal', 'TraceErrors', trivial_len=3),
            C('opts', 'TestOptions', 'TraceOptions', trivial_len=3, vtimeout=3000, env={'VERIF_OPTS_ONLY': 'ep-'}),
            C('closereal', 'TestCloseReal', 'TraceLifecycle', trivial_len=3),   # Attached without Detached when Close races with completing connections
        ],
        'assumptions': ASSUME_COMMON,
    },
    'C14': {
        'level': 'model_checking',
        'jobs': [
            C('inprocscn', 'TestInproc', 'TraceInproc', file='inproc', trivial_len=3, n={'quick': 300, 'thorough': 1500},
              scn=[('MC_InprocScn', {'quick': ['InprocScn.cfg'], 'thorough': ['InprocScn.cfg']})]),
            C('corescn', 'TestCore', 'TraceCore', file='core', n={'quick': 150, 'thorough': 1500},
              scn=[('MC_CoreScn', {'quick': ['CoreScn_as.cfg'], 'thorough': ['CoreScn_as.cfg', 'CoreScn_sy.cfg']})]),
            C('errors', 'TestErrorsReal', 'TraceErrors'),
            T('MC_Inproc', 'Inproc.cfg'), C('inproc', 'TestInproc', 'TraceInproc'),
            T('MC_Core', 'Core_C14_async.cfg'),
            T('MC_Core', 'Core_C14_sync.cfg'),
            T('MC_Core', 'Core_live_dial_async5.cfg', workers=8),   # liveness under fairness: a lost connection is redialled unless the dialer is closed
            T('MC_Core', 'Core_live_dial_sync5.cfg', workers=8),
            T('MC_Core', 'Core_C14_nomax.cfg', tiers=('thorough',)),
            T('MC_Core', 'Core_C14_setopt.cfg', workers=8, tiers=('thorough',)),   # reconnect times changed at any moment (SetReconnOpt): 7.6 M states
            C('core', 'TestCore', 'TraceCore', n={'quick': 100, 'thorough': 1200}, env={'VERIF_CORE_MIX': 'storm'}),
        ],
        'assumptions': ASSUME_COMMON,
    },
}
