"""Table of checks: which TLC jobs and which conformance drivers decide each property."""

ASSUME_COMMON = [
    'TLC 1.8.0 and the TLA+ standard/community modules are correct',
    'Go 1.26.8 testing/synctest semantics (virtual time, durable blocking) are as documented',
    'the virtual transport (harness/vt) and the recorder (harness/rec) report the calls the library makes faithfully',
    'the read-only verif accessors (build tag verif) project the library state faithfully',
]


def T(module, cfg, **kw):
    d = {'type': 'tlc', 'module': module, 'cfg': cfg, 'name': cfg}
    d.update(kw)
    return d


def C(name, test, tmod, **kw):
    d = {'type': 'conformance', 'name': name, 'test': test, 'trace_module': tmod}
    d.update(kw)
    return d


CHECKS = {
    'C03': {
        'level': 'model_checking',
        'jobs': [
            T('MC_Req', 'Req_q03.cfg'),
            T('MC_Req', 'Req_1ctx.cfg', tiers=('thorough',)),
            T('MC_Req', 'Req_2ctx_retry.cfg', tiers=('thorough',)),
            T('MC_Req', 'Req_2ctx_deadl.cfg', tiers=('thorough',)),
            C('req', 'TestReq', 'TraceReq', n={'quick': 120, 'thorough': 1500}),
        ],
        'assumptions': ASSUME_COMMON,
    },
    'C04': {
        'level': 'model_checking',
        'jobs': [
            T('MC_Req', 'Req_q04.cfg'),
            T('MC_Req', 'Req_2ctx_retry.cfg', tiers=('thorough',)),
            T('MC_Req', 'Req_1ctx_all.cfg', tiers=('thorough',)),
            C('req', 'TestReq', 'TraceReq', n={'quick': 60, 'thorough': 1000}, env={'VERIF_REQ_MIX': 'faults'}),
        ],
        'assumptions': ASSUME_COMMON,
    },
    'C13': {
        'level': 'model_checking',
        'jobs': [
            T('MC_Core', 'Core_C13.cfg'),
            T('MC_Core', 'Core_C13_full.cfg', tiers=('thorough',)),
            C('core', 'TestCore', 'TraceCore', n={'quick': 120, 'thorough': 1500}),
        ],
        'assumptions': ASSUME_COMMON,
    },
    'C14': {
        'level': 'model_checking',
        'jobs': [
            T('MC_Core', 'Core_C14_async.cfg'),
            T('MC_Core', 'Core_C14_sync.cfg'),
            T('MC_Core', 'Core_C14_nomax.cfg', tiers=('thorough',)),
            C('core', 'TestCore', 'TraceCore', n={'quick': 100, 'thorough': 1200}, env={'VERIF_CORE_MIX': 'storm'}),
        ],
        'assumptions': ASSUME_COMMON,
    },
}
